(* C01 (third file): the merging pass shake_1 on nested-free trees: proofs. *)
From TauModel Require Import Base Num Oracles Syntax Value Solver Rule Keys Optimiser Known.
From Coq Require Import Lia ZArith ZifyBool List Bool Permutation.
Import ListNotations.
From TauProofs Require Import C01.
From TauProofs Require C03.

(* ====================================================================== *)
(*  Part 0: strings, insertion-ordered multimaps, hash order, sorting      *)
(* ====================================================================== *)

Lemma str_eqb_refl' : forall s, str_eqb s s = true.
Proof.
  induction s as [|x s IH]; cbn [str_eqb]; [reflexivity|].
  rewrite N.eqb_refl, IH. reflexivity.
Qed.

Lemma str_eqb_eq' : forall a b, str_eqb a b = true -> a = b.
Proof.
  induction a as [|x a IH]; intros [|y b] H; cbn [str_eqb] in H; try discriminate.
  - reflexivity.
  - apply andb_true_iff in H. destruct H as [Hx Hs].
    apply N.eqb_eq in Hx. rewrite Hx, (IH b Hs). reflexivity.
Qed.

(* the hash order never loses a key (every permutation does that) *)
Definition ord_keeps (ord : hord) : Prop := forall ks k, In k ks -> In k (ord ks).

Lemma perm_ord_keeps : forall ord, (forall l, Permutation (ord l) l) -> ord_keeps ord.
Proof.
  intros ord H ks k Hin. apply Permutation_in with (l := ks); [|exact Hin].
  apply Permutation_sym. apply H.
Qed.

Section AMap.
Context {V : Type}.

Definition push (m : list (key * list V)) (p : key * list V) : list (key * list V) :=
  amap_push (fst p) (snd p) m.

Lemma lookup_push : forall k k' (v : list V) m,
  lookup k (amap_push k' v m) =
  if str_eqb k k' then Some (match lookup k' m with Some vs => vs ++ v | None => v end)
  else lookup k m.
Proof.
  intros k k' v. induction m as [|[k0 vs] m IH].
  - cbn [amap_push lookup]. destruct (str_eqb k k'); reflexivity.
  - cbn [amap_push]. destruct (str_eqb k' k0) eqn:E0.
    + apply str_eqb_eq' in E0. subst k0. cbn [lookup]. rewrite str_eqb_refl'.
      destruct (str_eqb k k'); reflexivity.
    + cbn [lookup]. rewrite E0, IH.
      destruct (str_eqb k k0) eqn:E1; [|reflexivity].
      apply str_eqb_eq' in E1. subst k0.
      destruct (str_eqb k k') eqn:E2; [|reflexivity].
      apply str_eqb_eq' in E2. subst k'. rewrite str_eqb_refl' in E0. discriminate.
Qed.

Lemma amap_mono : forall ps m0 k vs0, lookup k m0 = Some vs0 ->
  exists vs', lookup k (fold_left push ps m0) = Some vs' /\ incl vs0 vs'.
Proof.
  induction ps as [|[k1 v1] ps IH]; intros m0 k vs0 H.
  - exists vs0. split; [exact H|apply incl_refl].
  - cbn [fold_left]. change (push m0 (k1, v1)) with (amap_push k1 v1 m0).
    destruct (str_eqb k k1) eqn:E.
    + apply str_eqb_eq' in E. subst k1.
      destruct (IH (amap_push k v1 m0) k (vs0 ++ v1)) as [vs' [H1 H2]].
      { rewrite lookup_push, str_eqb_refl', H. reflexivity. }
      exists vs'. split; [exact H1|]. intros x Hx. apply H2. apply in_or_app. left. exact Hx.
    + apply IH. rewrite lookup_push, E. exact H.
Qed.

Lemma amap_fwd : forall ps m0 k vs, In (k, vs) ps ->
  exists vs', lookup k (fold_left push ps m0) = Some vs' /\ incl vs vs'.
Proof.
  induction ps as [|[k1 v1] ps IH]; intros m0 k vs Hin; [destruct Hin|].
  cbn [fold_left]. change (push m0 (k1, v1)) with (amap_push k1 v1 m0).
  destruct Hin as [E|Hin].
  - injection E as -> ->.
    destruct (amap_mono ps (amap_push k vs m0) k
                (match lookup k m0 with Some vs0 => vs0 ++ vs | None => vs end)) as [vs' [H1 H2]].
    { rewrite lookup_push, str_eqb_refl'. reflexivity. }
    exists vs'. split; [exact H1|]. intros x Hx. apply H2.
    destruct (lookup k m0); [apply in_or_app; right|]; exact Hx.
  - apply IH. exact Hin.
Qed.

Lemma amap_bwd : forall ps m0 k vs', lookup k (fold_left push ps m0) = Some vs' ->
  ((exists vs0, lookup k m0 = Some vs0) \/ exists vs, In (k, vs) ps) /\
  forall v, In v vs' ->
    (exists vs0, lookup k m0 = Some vs0 /\ In v vs0) \/ exists vs, In (k, vs) ps /\ In v vs.
Proof.
  induction ps as [|[k1 v1] ps IH]; intros m0 k vs' H.
  - cbn [fold_left] in H. split; [left; eauto|]. intros v Hv. left. eauto.
  - cbn [fold_left] in H. change (push m0 (k1, v1)) with (amap_push k1 v1 m0) in H.
    destruct (IH _ _ _ H) as [H1 H2]. clear IH H. split.
    + destruct H1 as [[vs0 H1]|[vs H1]].
      * rewrite lookup_push in H1. destruct (str_eqb k k1) eqn:E.
        -- apply str_eqb_eq' in E. subst k1. right. exists v1. left. reflexivity.
        -- left. eauto.
      * right. exists vs. right. exact H1.
    + intros v Hv. destruct (H2 v Hv) as [[vs0 [H3 H4]]|[vs [H3 H4]]].
      * rewrite lookup_push in H3. destruct (str_eqb k k1) eqn:E.
        -- apply str_eqb_eq' in E. subst k1. injection H3 as <-.
           destruct (lookup k m0) as [vs1|] eqn:E1.
           ++ apply in_app_or in H4. destruct H4 as [H4|H4].
              ** left. eauto.
              ** right. exists v1. split; [left; reflexivity|exact H4].
           ++ right. exists v1. split; [left; reflexivity|exact H4].
        -- left. eauto.
      * right. exists vs. split; [right; exact H3|exact H4].
Qed.

Lemma amap_iter_In : forall ord (m : list (key * list V)) k vs,
  In (k, vs) (amap_iter ord m) -> lookup k m = Some vs.
Proof.
  intros ord m k vs H. unfold amap_iter in H. apply in_flat_map in H.
  destruct H as [k0 [_ H]]. destruct (lookup k0 m) as [vs0|] eqn:E; [|destruct H].
  destruct H as [H|[]]. injection H as <- <-. exact E.
Qed.

Lemma lookup_In_fst : forall (m : list (key * list V)) k vs,
  lookup k m = Some vs -> In k (map fst m).
Proof.
  induction m as [|[k0 v0] m IH]; intros k vs H; [discriminate|].
  cbn [lookup] in H. cbn [map fst]. destruct (str_eqb k k0) eqn:E.
  - left. symmetry. apply str_eqb_eq'. exact E.
  - right. eapply IH. exact H.
Qed.

Lemma amap_iter_keeps : forall ord (m : list (key * list V)) k vs,
  ord_keeps ord -> lookup k m = Some vs -> In (k, vs) (amap_iter ord m).
Proof.
  intros ord m k vs Hord H. unfold amap_iter. apply in_flat_map. exists k. split.
  - apply Hord. eapply lookup_In_fst. exact H.
  - rewrite H. left. reflexivity.
Qed.

Lemma amap_iter_nil : forall ord, amap_iter ord (@nil (key * list V)) = [].
Proof.
  intros ord. unfold amap_iter. cbn [map].
  induction (ord []) as [|k l IH]; [reflexivity|]. cbn [flat_map lookup app]. exact IH.
Qed.
End AMap.

(* sort_by only reorders *)
Lemma insert_by_In : forall {A} (lt : A -> A -> bool) x y l,
  In y (insert_by lt x l) <-> y = x \/ In y l.
Proof.
  intros A lt x y. induction l as [|z l IH]; cbn [insert_by].
  - cbn [In]. split; intros [H|H]; auto; try contradiction.
  - destruct (lt x z); cbn [In].
    + split; intros [H|H]; auto.
    + rewrite IH. split; intros H; decompose [or] H; auto.
Qed.

Lemma sort_by_In : forall {A} (lt : A -> A -> bool) y l,
  In y (sort_by lt l) <-> In y l.
Proof.
  intros A lt y l. unfold sort_by.
  enough (H : forall acc, In y (fold_left (fun acc x => insert_by lt x acc) l acc) <-> In y acc \/ In y l).
  { rewrite H. cbn [In]. tauto. }
  induction l as [|x l IH]; intros acc; cbn [fold_left].
  - cbn [In]. tauto.
  - rewrite IH, insert_by_In. cbn [In]. split; intros H; decompose [or] H; auto.
Qed.

(* ====================================================================== *)
(*  Part A: what the or-arm of shake_1 builds                              *)
(* ====================================================================== *)

Definition search_of_mt (m : mtype) : Syntax.search :=
  match m with
  | MTContains v => SContains v | MTEndsWith v => SEndsWith v
  | MTExact v => SExact v | MTStartsWith v => SStartsWith v
  end.

(* the search a needles entry is re-emitted as *)
Definition needle_expr (kv : key * list mtype) : expr :=
  match key3_ci (fst kv), snd kv with
  | false, [m] => ESearch (search_of_mt m) (key3_field (fst kv)) (key3_cast (fst kv))
  | _, _ => ESearch (SAho (snd kv) (key3_ci (fst kv))) (key3_field (fst kv)) (key3_cast (fst kv))
  end.

Definition in_buckets (y : expr) (b : buckets) : Prop :=
  In y (b_exact b) \/ In y (b_starts b) \/ In y (b_ends b) \/ In y (b_contains b) \/ In y (b_aho b).

Lemma needle_bucket_In : forall y b kv,
  in_buckets y (needle_bucket b kv) <-> in_buckets y b \/ y = needle_expr kv.
Proof.
  intros y b [k ms]. unfold needle_bucket, needle_expr, in_buckets. cbn [fst snd].
  destruct (key3_ci k); destruct ms as [|m [|m2 ms]]; try destruct m;
    cbn [b_exact b_starts b_ends b_contains b_aho search_of_mt];
    rewrite ?in_app_iff; cbn [In];
    (split; intros H; decompose [or] H; auto 10; try contradiction).
Qed.

Lemma buckets_In : forall y kvs b0,
  in_buckets y (fold_left needle_bucket kvs b0) <-> in_buckets y b0 \/ In y (map needle_expr kvs).
Proof.
  intros y. induction kvs as [|kv kvs IH]; intros b0; cbn [fold_left map In].
  - tauto.
  - rewrite IH, needle_bucket_In. split; intros H; decompose [or] H; auto.
Qed.

Lemma buckets0_In : forall y kvs,
  in_buckets y (fold_left needle_bucket kvs buckets0) <-> In y (map needle_expr kvs).
Proof.
  intros y kvs. rewrite buckets_In. unfold in_buckets. cbn [buckets0 b_exact b_starts b_ends b_contains b_aho In].
  tauto.
Qed.

(* the search a patterns entry is re-emitted as *)
Definition pat_expr (kv : key * list str) : expr :=
  match snd kv with
  | [p] => ESearch (SRegex p (key3_ci (fst kv))) (key3_field (fst kv)) (key3_cast (fst kv))
  | _ => ESearch (SRegexSet (snd kv) (key3_ci (fst kv))) (key3_field (fst kv)) (key3_cast (fst kv))
  end.

Lemma patterns_In : forall y kvs,
  In y (flat_map fst (map pattern_exprs kvs)) \/ In y (flat_map snd (map pattern_exprs kvs))
  <-> In y (map pat_expr kvs).
Proof.
  intros y. induction kvs as [|[k ps] kvs IH]; cbn [map flat_map In].
  - tauto.
  - rewrite !in_app_iff, <- IH. unfold pattern_exprs, pat_expr. cbn [fst snd].
    destruct ps as [|p [|p2 ps]]; cbn [fst snd In];
      (split; intros H; decompose [or] H; auto 10; try contradiction).
Qed.

(* the classes of the first loop *)
Definition cls_n (x : expr) : list (key * list mtype) :=
  match x with
  | ESearch (SAho ctx ci) f cast => [(key3 f cast ci, ctx)]
  | ESearch s f cast =>
      match mt_of_search s with Some m => [(key3 f cast false, [m])] | None => [] end
  | _ => []
  end.
Definition cls_p (x : expr) : list (key * list str) :=
  match x with
  | ESearch (SRegex r ci) f cast => [(key3 f cast ci, [r])]
  | ESearch (SRegexSet rs ci) f cast => [(key3 f cast ci, rs)]
  | _ => []
  end.
Definition is_any (x : expr) : bool := match x with ESearch SAny _ _ => true | _ => false end.
Definition is_rest (x : expr) : bool :=
  match x with ESearch _ _ _ | ENested _ _ => false | _ => true end.
Definition is_nest (x : expr) : bool := match x with ENested _ _ => true | _ => false end.
Definition srch (x : expr) : bool := match x with ESearch _ _ _ => true | _ => false end.

Lemma classify_step : forall a0 x,
  oa_needles (or_classify a0 x) = fold_left push (cls_n x) (oa_needles a0) /\
  oa_patterns (or_classify a0 x) = fold_left push (cls_p x) (oa_patterns a0) /\
  oa_any (or_classify a0 x) = oa_any a0 ++ (if is_any x then [x] else []) /\
  oa_rest (or_classify a0 x) = oa_rest a0 ++ (if is_rest x then [x] else []) /\
  (is_nest x = false -> oa_nested (or_classify a0 x) = oa_nested a0).
Proof.
  intros a0 x. destruct x as [s l|l s r|b|f m|f|z|i|z|k e|cols rows|e|f e| |s f c];
    try destruct s;
    cbn [or_classify mt_of_search cls_n cls_p is_any is_rest is_nest fold_left push fst snd
         oa_needles oa_patterns oa_any oa_rest oa_nested];
    rewrite ?app_nil_r; repeat split; try reflexivity; try discriminate.
Qed.

Lemma classify_spec : forall L a0,
  oa_needles (fold_left or_classify L a0) = fold_left push (flat_map cls_n L) (oa_needles a0) /\
  oa_patterns (fold_left or_classify L a0) = fold_left push (flat_map cls_p L) (oa_patterns a0) /\
  oa_any (fold_left or_classify L a0) = oa_any a0 ++ filter is_any L /\
  oa_rest (fold_left or_classify L a0) = oa_rest a0 ++ filter is_rest L /\
  (existsb is_nest L = false -> oa_nested (fold_left or_classify L a0) = oa_nested a0).
Proof.
  induction L as [|x L IH]; intros a0; cbn [fold_left flat_map filter existsb].
  - rewrite !app_nil_r. repeat split; reflexivity.
  - destruct (IH (or_classify a0 x)) as [H1 [H2 [H3 [H4 H5]]]].
    destruct (classify_step a0 x) as [S1 [S2 [S3 [S4 S5]]]].
    rewrite H1, H2, H3, H4, S1, S2, S3, S4, !fold_left_app, <- !app_assoc.
    repeat split; try reflexivity.
    + destruct (is_any x); reflexivity.
    + destruct (is_rest x); reflexivity.
    + intros Hn. apply orb_false_iff in Hn. destruct Hn as [Hx HL].
      rewrite (H5 HL). apply S5. exact Hx.
Qed.

Definition needles_of (L : list expr) : list (key * list mtype) :=
  fold_left push (flat_map cls_n L) [].
Definition patterns_of (L : list expr) : list (key * list str) :=
  fold_left push (flat_map cls_p L) [].

(* the regrouped member list, without the nested part *)
Definition or_scratch (ord : hord) (shaken : list expr) : list expr :=
  let a := fold_left or_classify shaken oracc0 in
  let b := fold_left needle_bucket (amap_iter ord (oa_needles a)) buckets0 in
  let pats := map pattern_exprs (amap_iter ord (oa_patterns a)) in
  oa_any a ++ sort_by len_lt (b_exact b) ++ sort_by len_lt (b_starts b)
       ++ sort_by len_lt (b_ends b) ++ sort_by len_lt (b_contains b)
       ++ sort_by aho_lt (b_aho b) ++ sort_by regex_lt (flat_map fst pats)
       ++ sort_by regexset_lt (flat_map snd pats) ++ oa_rest a.

Lemma or_scratch_In : forall ord L y,
  In y (or_scratch ord L) <->
  (In y L /\ is_any y = true) \/
  In y (map needle_expr (amap_iter ord (needles_of L))) \/
  In y (map pat_expr (amap_iter ord (patterns_of L))) \/
  (In y L /\ is_rest y = true).
Proof.
  intros ord L y. unfold or_scratch.
  destruct (classify_spec L oracc0) as [H1 [H2 [H3 [H4 _]]]].
  cbn [oracc0 oa_needles oa_patterns oa_any oa_rest app] in H1, H2, H3, H4.
  rewrite H1, H2, H3, H4. fold (needles_of L). fold (patterns_of L).
  rewrite !in_app_iff, !sort_by_In, !filter_In.
  rewrite <- (buckets0_In y (amap_iter ord (needles_of L))).
  rewrite <- (patterns_In y (amap_iter ord (patterns_of L))).
  unfold in_buckets.
  split; intros H; decompose [or] H; clear H; auto 12.
Qed.

Lemma needle_expr_srch : forall kv, srch (needle_expr kv) = true.
Proof.
  intros [k ms]. unfold needle_expr. cbn [fst snd].
  destruct (key3_ci k); destruct ms as [|m [|m2 ms]]; reflexivity.
Qed.
Lemma pat_expr_srch : forall kv, srch (pat_expr kv) = true.
Proof. intros [k ps]. unfold pat_expr. cbn [fst snd]. destruct ps as [|p [|p2 ps]]; reflexivity. Qed.

Lemma or_scratch_members : forall ord L y, In y (or_scratch ord L) -> srch y = true \/ In y L.
Proof.
  intros ord L y H. apply or_scratch_In in H.
  destruct H as [[H _]|[H|[H|[H _]]]]; auto.
  - apply in_map_iff in H. destruct H as [kv [<- _]]. left. apply needle_expr_srch.
  - apply in_map_iff in H. destruct H as [kv [<- _]]. left. apply pat_expr_srch.
Qed.

(* ---- one step of shake_1 on nested-free members ---- *)
Lemma nn_not_nest : forall x, no_nested x = true -> is_nest x = false.
Proof. intros x H. destruct x; try reflexivity. discriminate. Qed.

Lemma existsb_nest_false : forall L, (forall x, In x L -> no_nested x = true) -> existsb is_nest L = false.
Proof.
  induction L as [|x L IH]; intros H; [reflexivity|]. cbn [existsb].
  rewrite (nn_not_nest x (H x (or_introl eq_refl))). cbn [orb].
  apply IH. intros y Hy. apply H. right. exact Hy.
Qed.

Lemma shake1_or_eq : forall ord fu l,
  (forall x, In x (map (shake1 ord fu) l) -> no_nested x = true) ->
  shake1 ord (S fu) (EGroup BOr l) =
  (let scratch := or_scratch ord (map (shake1 ord fu) l) in
   if negb (length scratch =? length l)%nat then shake1 ord fu (EGroup BOr scratch)
   else match scratch with [x] => x | _ => EGroup BOr scratch end).
Proof.
  intros ord fu l Hnn. cbn [shake1]. cbv zeta. unfold or_scratch.
  set (a := fold_left or_classify (map (shake1 ord fu) l) oracc0).
  assert (Hn : oa_nested a = []).
  { destruct (classify_spec (map (shake1 ord fu) l) oracc0) as [_ [_ [_ [_ H5]]]].
    apply H5. apply existsb_nest_false. exact Hnn. }
  rewrite Hn, amap_iter_nil. cbn [map]. rewrite !app_nil_r. reflexivity.
Qed.

Lemma fold_nested_none : forall L m0, existsb is_nest L = false ->
  fold_left (fun m x => match x with ENested f inner => amap_push f [inner] m | _ => m end) L m0 = m0.
Proof.
  induction L as [|x L IH]; intros m0 H; [reflexivity|]. cbn [existsb] in H.
  apply orb_false_iff in H. destruct H as [Hx HL]. cbn [fold_left].
  destruct x; try discriminate; apply IH; exact HL.
Qed.

Lemma filter_plain_all : forall L, existsb is_nest L = false ->
  filter (fun x => match x with ENested _ _ => false | _ => true end) L = L.
Proof.
  induction L as [|x L IH]; intros H; [reflexivity|]. cbn [existsb] in H.
  apply orb_false_iff in H. destruct H as [Hx HL]. cbn [filter].
  destruct x; try discriminate; rewrite (IH HL); reflexivity.
Qed.

Lemma shake1_and_eq : forall ord fu l,
  (forall x, In x (map (shake1 ord fu) l) -> no_nested x = true) ->
  shake1 ord (S fu) (EGroup BAnd l) =
  (let L := map (shake1 ord fu) l in match L with [x] => x | _ => EGroup BAnd L end).
Proof.
  intros ord fu l Hnn. cbn [shake1]. cbv zeta.
  pose proof (existsb_nest_false _ Hnn) as Hn.
  rewrite (fold_nested_none _ [] Hn), (filter_plain_all _ Hn), amap_iter_nil.
  cbn [map]. rewrite app_nil_r, map_length, Nat.eqb_refl. cbn [negb].
  destruct (map (shake1 ord fu) l) as [|x [|x2 L]]; reflexivity.
Qed.

Lemma shake1_group_other : forall ord fu s l, is_and_or s = false ->
  shake1 ord (S fu) (EGroup s l) = EGroup s (map (shake1 ord fu) l).
Proof. intros ord fu s l H. destruct s; try discriminate; reflexivity. Qed.

Lemma shake1_leaf : forall ord fuel e, is_solvable e = false -> shake1 ord fuel e = e.
Proof. intros ord [|fu] e H; destruct e; try discriminate; reflexivity. Qed.

Lemma shake1_search : forall ord fuel s f c, shake1 ord fuel (ESearch s f c) = ESearch s f c.
Proof. intros ord [|fu] s f c; reflexivity. Qed.

(* ====================================================================== *)
(*  Part B: shake_1 keeps the shape (any hash order)                       *)
(* ====================================================================== *)

Lemma collapse_ok : forall (P : expr -> bool) s L,
  (forall x, In x L -> P x = true) -> P (EGroup s L) = true ->
  P (match L with [x] => x | _ => EGroup s L end) = true.
Proof.
  intros P s L H HG. destruct L as [|x [|x2 L]]; try exact HG.
  apply H. left. reflexivity.
Qed.

Lemma forallb_map_intro : forall (P : expr -> bool) (f : expr -> expr) l,
  (forall x, In x l -> P (f x) = true) -> forallb P (map f l) = true.
Proof.
  intros P f l H. apply forallb_forall. intros y Hy. apply in_map_iff in Hy.
  destruct Hy as [x [<- Hx]]. apply H. exact Hx.
Qed.

Lemma srch_shape : forall y, srch y = true ->
  no_nested y = true /\ wf_body y = true /\ cmp_leaves y = true.
Proof. intros y H. destruct y; try discriminate. repeat split; reflexivity. Qed.

Lemma shake1_keeps3 : forall ord fuel e, no_nested e = true ->
  no_nested (shake1 ord fuel e) = true /\
  (wf_body e = true -> wf_body (shake1 ord fuel e) = true) /\
  (cmp_leaves e = true -> cmp_leaves (shake1 ord fuel e) = true).
Proof.
  intros ord. induction fuel as [|fu IH]; intros e Hnn; [cbn [shake1]; auto|].
  destruct e as [s l|l s r|b|f m|f|z|i|z|k e|cols rows|e|f e| |s f c];
    try (cbn [shake1]; auto; fail).
  - (* EGroup *)
    cbn [no_nested] in Hnn.
    assert (Hm : forall x, In x l -> no_nested (shake1 ord fu x) = true /\
                  (wf_body x = true -> wf_body (shake1 ord fu x) = true) /\
                  (cmp_leaves x = true -> cmp_leaves (shake1 ord fu x) = true)).
    { intros x Hx. apply IH. apply (forallb_In _ _ _ Hnn Hx). }
    set (L := map (shake1 ord fu) l).
    assert (HLnn : forall y, In y L -> no_nested y = true).
    { intros y Hy. apply in_map_iff in Hy. destruct Hy as [x [<- Hx]]. apply (Hm x Hx). }
    assert (HLwf : wf_body (EGroup s l) = true -> forall y, In y L -> wf_body y = true).
    { intros Hw y Hy. apply in_map_iff in Hy. destruct Hy as [x [<- Hx]].
      cbn [wf_body] in Hw. apply andb_true_iff in Hw. destruct Hw as [_ Hw].
      apply (Hm x Hx). apply (forallb_In _ _ _ Hw Hx). }
    assert (HLcl : cmp_leaves (EGroup s l) = true -> forall y, In y L -> cmp_leaves y = true).
    { intros Hw y Hy. apply in_map_iff in Hy. destruct Hy as [x [<- Hx]].
      cbn [cmp_leaves] in Hw. apply (Hm x Hx). apply (forallb_In _ _ _ Hw Hx). }
    assert (Hgrp : forall L', (forall y, In y L' -> srch y = true \/ In y L) ->
              no_nested (EGroup s L') = true /\
              (wf_body (EGroup s l) = true -> wf_body (EGroup s L') = true) /\
              (cmp_leaves (EGroup s l) = true -> cmp_leaves (EGroup s L') = true)).
    { intros L' HL'. split; [|split].
      - cbn [no_nested]. apply forallb_forall. intros y Hy.
        destruct (HL' y Hy) as [Hs|Hin]; [apply (srch_shape y Hs)|apply HLnn; exact Hin].
      - intros Hw. pose proof (HLwf Hw) as HLw. cbn [wf_body] in *.
        apply andb_true_iff in Hw. destruct Hw as [Hs _]. rewrite Hs. cbn [andb].
        apply forallb_forall. intros y Hy.
        destruct (HL' y Hy) as [Hs'|Hin]; [apply (srch_shape y Hs')|apply HLw; exact Hin].
      - intros Hw. pose proof (HLcl Hw) as HLc. cbn [cmp_leaves].
        apply forallb_forall. intros y Hy.
        destruct (HL' y Hy) as [Hs'|Hin]; [apply (srch_shape y Hs')|apply HLc; exact Hin]. }
    assert (Hmem : forall L', (forall y, In y L' -> srch y = true \/ In y L) ->
              forall y, In y L' -> no_nested y = true /\
                 (wf_body (EGroup s l) = true -> wf_body y = true) /\
                 (cmp_leaves (EGroup s l) = true -> cmp_leaves y = true)).
    { intros L' HL' y Hy. destruct (HL' y Hy) as [Hs|Hin].
      - destruct (srch_shape y Hs) as [A [B C]]. auto.
      - split; [apply HLnn; exact Hin|]. split; intros Hw; [apply (HLwf Hw)|apply (HLcl Hw)]; exact Hin. }
    assert (Hcollapse : forall L', (forall y, In y L' -> srch y = true \/ In y L) ->
              no_nested (match L' with [x] => x | _ => EGroup s L' end) = true /\
              (wf_body (EGroup s l) = true -> wf_body (match L' with [x] => x | _ => EGroup s L' end) = true) /\
              (cmp_leaves (EGroup s l) = true -> cmp_leaves (match L' with [x] => x | _ => EGroup s L' end) = true)).
    { intros L' HL'. destruct (Hgrp L' HL') as [G1 [G2 G3]]. pose proof (Hmem L' HL') as HM.
      split; [|split].
      - apply collapse_ok; [|exact G1]. intros y Hy. apply (HM y Hy).
      - intros Hw. apply collapse_ok; [|exact (G2 Hw)]. intros y Hy. apply (HM y Hy). exact Hw.
      - intros Hw. apply collapse_ok; [|exact (G3 Hw)]. intros y Hy. apply (HM y Hy). exact Hw. }
    destruct (is_and_or s) eqn:Hs.
    + destruct s; try discriminate.
      * (* and *)
        rewrite shake1_and_eq by exact HLnn. fold L. cbv zeta.
        apply Hcollapse. intros y Hy. right. exact Hy.
      * (* or *)
        rewrite shake1_or_eq by exact HLnn. fold L. cbv zeta.
        pose proof (or_scratch_members ord L) as HS.
        destruct (negb (length (or_scratch ord L) =? length l)%nat).
        -- destruct (Hgrp _ HS) as [G1 [G2 G3]].
           destruct (IH (EGroup BOr (or_scratch ord L)) G1) as [I1 [I2 I3]].
           split; [exact I1|]. split; intros Hw; [apply I2, G2|apply I3, G3]; exact Hw.
        -- apply Hcollapse. exact HS.
    + rewrite shake1_group_other by exact Hs. fold L.
      apply Hgrp. intros y Hy. right. exact Hy.
  - (* EBexp *)
    cbn [shake1]. cbn [no_nested] in Hnn. apply andb_true_iff in Hnn. destruct Hnn as [Hl Hr].
    destruct (IH l Hl) as [L1 [L2 L3]]. destruct (IH r Hr) as [R1 [R2 R3]].
    split; [|split].
    + cbn [no_nested]. rewrite L1, R1. reflexivity.
    + cbn [wf_body]. destruct (is_and_or_op s); [|reflexivity].
      intros Hw. apply andb_true_iff in Hw. destruct Hw as [Hwl Hwr].
      rewrite (L2 Hwl), (R2 Hwr). reflexivity.
    + cbn [cmp_leaves]. destruct (is_and_or s).
      * intros Hw. apply andb_true_iff in Hw. destruct Hw as [Hwl Hwr].
        rewrite (L3 Hwl), (R3 Hwr). reflexivity.
      * intros Hw. apply andb_true_iff in Hw. destruct Hw as [Hwl Hwr].
        apply negb_true_iff in Hwl. apply negb_true_iff in Hwr.
        rewrite (shake1_leaf ord fu l Hwl), (shake1_leaf ord fu r Hwr), Hwl, Hwr. reflexivity.
  - (* EMatch *)
    cbn [no_nested] in Hnn.
    destruct e as [s l|l s r|b|f m|f|z|i|z|k0 e|cols rows|e|f e| |s f c];
      try (cbn [shake1]; exact (IH _ Hnn)).
    cbn [shake1]. cbn [no_nested wf_body cmp_leaves] in *.
    assert (Hm : forall x, In x l -> no_nested (shake1 ord fu x) = true /\
                  (wf_body x = true -> wf_body (shake1 ord fu x) = true) /\
                  (cmp_leaves x = true -> cmp_leaves (shake1 ord fu x) = true)).
    { intros x Hx. apply IH. apply (forallb_In _ _ _ Hnn Hx). }
    split; [|split].
    + apply forallb_map_intro. intros x Hx. apply (Hm x Hx).
    + intros Hw. apply andb_true_iff in Hw. destruct Hw as [Hs Hw]. rewrite Hs. cbn [andb].
      apply forallb_map_intro. intros x Hx. apply (Hm x Hx). apply (forallb_In _ _ _ Hw Hx).
    + intros Hw. apply forallb_map_intro. intros x Hx. apply (Hm x Hx). apply (forallb_In _ _ _ Hw Hx).
  - (* ENegate *)
    cbn [shake1]. cbn [no_nested wf_body cmp_leaves] in *. apply IH. exact Hnn.
  - (* ENested *)
    discriminate Hnn.
Qed.

Lemma shake1_keeps_flat : forall ord fuel e,
  wf_body e = true -> C01.no_nested e = true ->
  wf_body (shake1 ord fuel e) = true /\ C01.no_nested (shake1 ord fuel e) = true.
Proof.
  intros ord fuel e Hw Hn. destruct (shake1_keeps3 ord fuel e Hn) as [H1 [H2 _]]. auto.
Qed.

(* ====================================================================== *)
(*  Part C: three-valued exactness                                         *)
(* ====================================================================== *)

Lemma key3_field_eq : forall f cast ci, key3_field (key3 f cast ci) = f.
Proof. reflexivity. Qed.
Lemma key3_cast_eq : forall f cast ci, key3_cast (key3 f cast ci) = cast.
Proof. intros f [|] ci; reflexivity. Qed.
Lemma key3_ci_eq : forall f cast ci, key3_ci (key3 f cast ci) = ci.
Proof. intros f cast [|]; reflexivity. Qed.

Lemma existsb_eq_iff : forall {A} (p : A -> bool) l l',
  ((exists x, In x l /\ p x = true) <-> (exists x, In x l' /\ p x = true)) ->
  existsb p l = existsb p l'.
Proof.
  intros A p l l' H. destruct (existsb p l) eqn:E1; destruct (existsb p l') eqn:E2; try reflexivity.
  - apply existsb_exists in E1. apply H in E1. apply existsb_exists in E1. congruence.
  - apply existsb_exists in E2. apply H in E2. apply existsb_exists in E2. congruence.
Qed.

Lemma Forall2_map_l : forall {A B} (R : B -> A -> Prop) (f : A -> B) l,
  (forall x, In x l -> R (f x) x) -> Forall2 R (map f l) l.
Proof.
  intros A B R f. induction l as [|x l IH]; intros H; cbn [map]; constructor.
  - apply H. left. reflexivity.
  - apply IH. intros y Hy. apply H. right. exact Hy.
Qed.

Lemma cls_total : forall x,
  is_nest x = true \/ is_any x = true \/ is_rest x = true \/
  (exists kv, In kv (cls_n x)) \/ (exists kv, In kv (cls_p x)).
Proof.
  intros x. destruct x as [s l|l s r|b|f m|f|z|i|z|k e|cols rows|e|f e| |s f c]; cbn; auto.
  destruct s; cbn; eauto 8.
Qed.

Lemma shake1_other_q : forall ord fuel e, other_q e = true -> other_q (shake1 ord fuel e) = true.
Proof.
  intros ord [|fu] e H; [exact H|].
  destruct e as [s l|l s r|b|f m|f|z|i|z|k e|cols rows|e|f e| |s f c]; try discriminate;
    cbn [shake1]; try reflexivity.
  destruct e; reflexivity.
Qed.

Section Sem.
Variable o : oracles.
Variable dq : docq.
Hypothesis Hdq : C03.npd dq.

(* the value of a member (members of well-formed trees do not panic on such a document) *)
Definition rv (x : expr) : res3 := match solve_body o x dq with Ok v => v | _ => M end.

Lemma rv_ok : forall x, wf_body x = true -> solve_body o x dq = Ok (rv x).
Proof.
  intros x H. destruct (C03.solve_body_ok o x dq H Hdq) as [r Hr].
  unfold rv. rewrite Hr. reflexivity.
Qed.

Definition tb (x : expr) : bool := res3_eqb (rv x) T.
Definition db (x : expr) : bool := negb (res3_eqb (rv x) M).

(* an or-group: true if some member is, else false if some member is defined, else missing *)
Lemma or_fold_rv : forall l, (forall x, In x l -> wf_body x = true) -> forall acc, acc <> T ->
  or_fold acc (map (fun x (_ : unit) => solve_body o x dq) l) =
  Ok (if existsb tb l then T else if existsb db l then F else acc).
Proof.
  induction l as [|x l IH]; intros Hw acc Hacc; cbn [map or_fold existsb].
  - reflexivity.
  - rewrite (rv_ok x (Hw x (or_introl eq_refl))). cbn [bind].
    assert (Etb : tb x = res3_eqb (rv x) T) by reflexivity.
    assert (Edb : db x = negb (res3_eqb (rv x) M)) by reflexivity.
    rewrite Etb, Edb.
    assert (Hw' : forall y, In y l -> wf_body y = true) by (intros y Hy; apply Hw; right; exact Hy).
    destruct (rv x); cbn [res3_eqb negb orb].
    + reflexivity.
    + rewrite (IH Hw' F) by discriminate.
      destruct (existsb tb l); [reflexivity|]. destruct (existsb db l); reflexivity.
    + apply IH; assumption.
Qed.

Lemma or_fold_equiv : forall l l',
  (forall x, In x l -> wf_body x = true) -> (forall x, In x l' -> wf_body x = true) ->
  existsb tb l = existsb tb l' -> existsb db l = existsb db l' ->
  or_fold M (map (fun x (_ : unit) => solve_body o x dq) l) =
  or_fold M (map (fun x (_ : unit) => solve_body o x dq) l').
Proof.
  intros l l' H1 H2 H3 H4. rewrite (or_fold_rv l H1 M), (or_fold_rv l' H2 M) by discriminate.
  rewrite H3, H4. reflexivity.
Qed.

(* ---- a search on a field: the strings it looks at ---- *)
Definition sv_texts (cast : bool) (v : value) : option (list str) :=
  match v with
  | VStr s => Some [s]
  | VArr l => Some (array_texts o cast l)
  | VBool _ | VFloat _ | VInt _ | VUInt _ =>
      if cast then match cast_text o v with Some s => Some [s] | None => None end else None
  | _ => None
  end.

Lemma search_value_texts : forall p cast v,
  search_value o p cast v = option_map (existsb p) (sv_texts cast v).
Proof.
  intros p cast v.
  destruct v; cbn [search_value sv_texts option_map existsb]; try reflexivity;
    try (destruct cast; [|reflexivity]; destruct (cast_text o _);
         cbn [option_map existsb]; rewrite ?orb_false_r; reflexivity).
  rewrite orb_false_r. reflexivity.
Qed.

Definition ftexts (f : str) (cast : bool) : option (list str) :=
  match dq f with Ok (Some v) => sv_texts cast v | _ => None end.

Lemma rv_search : forall s f cast,
  rv (ESearch s f cast) = res_of_search (option_map (existsb (search o s)) (ftexts f cast)).
Proof.
  intros s f cast. unfold rv, solve_body. cbn [solve]. unfold field_search, ftexts.
  destruct (Hdq f) as [v Hv]. rewrite Hv. cbn [bind].
  destruct v as [v|]; [rewrite search_value_texts|]; reflexivity.
Qed.

Lemma tb_search : forall s f cast,
  tb (ESearch s f cast) = true <->
  exists hs, ftexts f cast = Some hs /\ existsb (search o s) hs = true.
Proof.
  intros s f cast. unfold tb. rewrite rv_search.
  destruct (ftexts f cast) as [hs|]; cbn [option_map res_of_search].
  - destruct (existsb (search o s) hs) eqn:E; cbn [res3_eqb]; split; intros H; try discriminate; eauto.
    destruct H as [hs' [H1 H2]]. injection H1 as <-. congruence.
  - cbn [res3_eqb]. split; [discriminate|]. intros [hs [H _]]. discriminate.
Qed.

Lemma db_search : forall s f cast, db (ESearch s f cast) = true <-> ftexts f cast <> None.
Proof.
  intros s f cast. unfold db. rewrite rv_search.
  destruct (ftexts f cast) as [hs|]; cbn [option_map res_of_search].
  - destruct (existsb (search o s) hs); cbn [res3_eqb negb]; split; intros; try reflexivity; discriminate.
  - cbn [res3_eqb negb]. split; [discriminate|]. intros H. congruence.
Qed.

(* ---- one class of mergeable searches (needles, or patterns) ---- *)
Section Class.
Context {V : Type}.
Variable holds : bool -> V -> str -> bool.
Variable cls : expr -> list (key * list V).
Variable emit : key * list V -> expr.
Hypothesis cls_ok : forall x k vs, In (k, vs) (cls x) ->
  exists s f cast ci, x = ESearch s f cast /\ k = key3 f cast ci /\
    forall h, search o s h = existsb (fun v => holds ci v h) vs.
Hypothesis emit_ok : forall k vs,
  exists s, emit (k, vs) = ESearch s (key3_field k) (key3_cast k) /\
    forall h, search o s h = existsb (fun v => holds (key3_ci k) v h) vs.
Variable ord : hord.
Hypothesis Hord : ord_keeps ord.
Variable L : list expr.

Definition Mp : list (key * list V) := fold_left push (flat_map cls L) [].
Definition Em : list expr := map emit (amap_iter ord Mp).

Lemma class_fwd_t : forall x kv, In x L -> In kv (cls x) -> tb x = true ->
  exists y, In y Em /\ tb y = true.
Proof.
  intros x [k vs] Hx Hkv Ht.
  destruct (cls_ok x k vs Hkv) as [s [f [cast [ci [-> [-> Hs]]]]]].
  apply tb_search in Ht. destruct Ht as [hs [Hf He]].
  apply existsb_exists in He. destruct He as [h [Hh Hsh]].
  rewrite Hs in Hsh. apply existsb_exists in Hsh. destruct Hsh as [v [Hv Hhold]].
  destruct (amap_fwd (flat_map cls L) [] (key3 f cast ci) vs) as [vs' [Hl Hincl]].
  { apply in_flat_map. exists (ESearch s f cast). split; assumption. }
  pose proof (amap_iter_keeps ord _ _ _ Hord Hl) as Hit.
  exists (emit (key3 f cast ci, vs')). split; [unfold Em; apply in_map; exact Hit|].
  destruct (emit_ok (key3 f cast ci) vs') as [s' [-> Hs']].
  rewrite key3_field_eq, key3_cast_eq. apply tb_search. exists hs. split; [exact Hf|].
  apply existsb_exists. exists h. split; [exact Hh|].
  rewrite Hs', key3_ci_eq. apply existsb_exists. exists v. split; [apply Hincl; exact Hv|exact Hhold].
Qed.

Lemma class_fwd_d : forall x kv, In x L -> In kv (cls x) -> db x = true ->
  exists y, In y Em /\ db y = true.
Proof.
  intros x [k vs] Hx Hkv Ht.
  destruct (cls_ok x k vs Hkv) as [s [f [cast [ci [-> [-> Hs]]]]]].
  apply db_search in Ht.
  destruct (amap_fwd (flat_map cls L) [] (key3 f cast ci) vs) as [vs' [Hl Hincl]].
  { apply in_flat_map. exists (ESearch s f cast). split; assumption. }
  pose proof (amap_iter_keeps ord _ _ _ Hord Hl) as Hit.
  exists (emit (key3 f cast ci, vs')). split; [unfold Em; apply in_map; exact Hit|].
  destruct (emit_ok (key3 f cast ci) vs') as [s' [-> Hs']].
  rewrite key3_field_eq, key3_cast_eq. apply db_search. exact Ht.
Qed.

Lemma class_bwd_t : forall y, In y Em -> tb y = true -> exists x, In x L /\ tb x = true.
Proof.
  intros y Hy Ht. unfold Em in Hy. apply in_map_iff in Hy. destruct Hy as [[k vs'] [<- Hit]].
  apply amap_iter_In in Hit.
  destruct (emit_ok k vs') as [s' [E Hs']]. rewrite E in Ht.
  apply tb_search in Ht. destruct Ht as [hs [Hf He]].
  apply existsb_exists in He. destruct He as [h [Hh Hsh]].
  rewrite Hs' in Hsh. apply existsb_exists in Hsh. destruct Hsh as [v [Hv Hhold]].
  destruct (amap_bwd (flat_map cls L) [] k vs' Hit) as [_ H2].
  destruct (H2 v Hv) as [[vs0 [H3 _]]|[vs [H3 H4]]]; [discriminate H3|].
  apply in_flat_map in H3. destruct H3 as [x [Hx Hkv]].
  destruct (cls_ok x k vs Hkv) as [s [f [cast [ci [-> [-> Hs]]]]]].
  rewrite key3_field_eq, key3_cast_eq in Hf. rewrite key3_ci_eq in Hhold.
  exists (ESearch s f cast). split; [exact Hx|]. apply tb_search. exists hs. split; [exact Hf|].
  apply existsb_exists. exists h. split; [exact Hh|]. rewrite Hs.
  apply existsb_exists. exists v. split; assumption.
Qed.

Lemma class_bwd_d : forall y, In y Em -> db y = true -> exists x, In x L /\ db x = true.
Proof.
  intros y Hy Ht. unfold Em in Hy. apply in_map_iff in Hy. destruct Hy as [[k vs'] [<- Hit]].
  apply amap_iter_In in Hit.
  destruct (emit_ok k vs') as [s' [E Hs']]. rewrite E in Ht.
  apply db_search in Ht.
  destruct (amap_bwd (flat_map cls L) [] k vs' Hit) as [H1 _].
  destruct H1 as [[vs0 H3]|[vs H3]]; [discriminate H3|].
  apply in_flat_map in H3. destruct H3 as [x [Hx Hkv]].
  destruct (cls_ok x k vs Hkv) as [s [f [cast [ci [-> [-> Hs]]]]]].
  rewrite key3_field_eq, key3_cast_eq in Ht.
  exists (ESearch s f cast). split; [exact Hx|]. apply db_search. exact Ht.
Qed.
End Class.

(* the two instances *)
Definition holds_n (ci : bool) (m : mtype) (h : str) : bool := mtype_holds ci m h.
Definition holds_p (ci : bool) (p : str) (h : str) : bool := re_match o p ci h.

Lemma cls_n_ok : forall x k vs, In (k, vs) (cls_n x) ->
  exists s f cast ci, x = ESearch s f cast /\ k = key3 f cast ci /\
    forall h, search o s h = existsb (fun v => holds_n ci v h) vs.
Proof.
  intros x k vs H.
  destruct x as [s l|l s r|b|f m|f|z|i|z|k0 e|cols rows|e|f e| |s f c]; try (destruct H; fail).
  destruct s; cbn [cls_n mt_of_search In] in H; try (destruct H; fail);
    (destruct H as [H|[]]; injection H as <- <-; eexists; exists f, c; eexists;
     split; [reflexivity|]; split; [reflexivity|]; intros h;
     cbn [search existsb holds_n mtype_holds fold_hay]; rewrite ?orb_false_r; reflexivity).
Qed.

Lemma needle_expr_ok : forall k vs,
  exists s, needle_expr (k, vs) = ESearch s (key3_field k) (key3_cast k) /\
    forall h, search o s h = existsb (fun v => holds_n (key3_ci k) v h) vs.
Proof.
  intros k vs. unfold needle_expr. cbn [fst snd].
  destruct (key3_ci k); destruct vs as [|m [|m2 ms]];
    try (eexists; split; [reflexivity|]; intros h; reflexivity).
  destruct m; (eexists; split; [reflexivity|]; intros h;
    cbn [search search_of_mt existsb holds_n mtype_holds fold_hay]; rewrite orb_false_r; reflexivity).
Qed.

Lemma cls_p_ok : forall x k vs, In (k, vs) (cls_p x) ->
  exists s f cast ci, x = ESearch s f cast /\ k = key3 f cast ci /\
    forall h, search o s h = existsb (fun v => holds_p ci v h) vs.
Proof.
  intros x k vs H.
  destruct x as [s l|l s r|b|f m|f|z|i|z|k0 e|cols rows|e|f e| |s f c]; try (destruct H; fail).
  destruct s; cbn [cls_p In] in H; try (destruct H; fail);
    (destruct H as [H|[]]; injection H as <- <-; eexists; exists f, c; eexists;
     split; [reflexivity|]; split; [reflexivity|]; intros h;
     cbn [search existsb holds_p]; rewrite ?orb_false_r; reflexivity).
Qed.

Lemma pat_expr_ok : forall k vs,
  exists s, pat_expr (k, vs) = ESearch s (key3_field k) (key3_cast k) /\
    forall h, search o s h = existsb (fun v => holds_p (key3_ci k) v h) vs.
Proof.
  intros k vs. unfold pat_expr. cbn [fst snd].
  destruct vs as [|p [|p2 ps]];
    (eexists; split; [reflexivity|]; intros h; cbn [search existsb holds_p]; rewrite ?orb_false_r; reflexivity).
Qed.

(* ---- the regrouped list has a true / a defined member exactly when the list has ---- *)
Lemma scratch_iff : forall (p : expr -> bool) ord L,
  (forall x, In x L -> is_nest x = false) ->
  (forall x kv, In x L -> In kv (cls_n x) -> p x = true ->
     exists y, In y (map needle_expr (amap_iter ord (needles_of L))) /\ p y = true) ->
  (forall y, In y (map needle_expr (amap_iter ord (needles_of L))) -> p y = true ->
     exists x, In x L /\ p x = true) ->
  (forall x kv, In x L -> In kv (cls_p x) -> p x = true ->
     exists y, In y (map pat_expr (amap_iter ord (patterns_of L))) /\ p y = true) ->
  (forall y, In y (map pat_expr (amap_iter ord (patterns_of L))) -> p y = true ->
     exists x, In x L /\ p x = true) ->
  ((exists x, In x L /\ p x = true) <-> (exists y, In y (or_scratch ord L) /\ p y = true)).
Proof.
  intros p ord L Hnn Fn Bn Fp Bp. split.
  - intros [x [Hx Hp]].
    destruct (cls_total x) as [H|[H|[H|[[kv H]|[kv H]]]]].
    + rewrite (Hnn x Hx) in H. discriminate.
    + exists x. split; [|exact Hp]. apply or_scratch_In. left. auto.
    + exists x. split; [|exact Hp]. apply or_scratch_In. right. right. right. auto.
    + destruct (Fn x kv Hx H Hp) as [y [Hy Hpy]]. exists y. split; [|exact Hpy].
      apply or_scratch_In. right. left. exact Hy.
    + destruct (Fp x kv Hx H Hp) as [y [Hy Hpy]]. exists y. split; [|exact Hpy].
      apply or_scratch_In. right. right. left. exact Hy.
  - intros [y [Hy Hp]]. apply or_scratch_In in Hy.
    destruct Hy as [[Hy _]|[Hy|[Hy|[Hy _]]]].
    + exists y. auto.
    + apply (Bn y Hy Hp).
    + apply (Bp y Hy Hp).
    + exists y. auto.
Qed.

Lemma or_scratch_exact : forall ord L, ord_keeps ord ->
  (forall x, In x L -> wf_body x = true) -> (forall x, In x L -> no_nested x = true) ->
  or_fold M (map (fun x (_ : unit) => solve_body o x dq) (or_scratch ord L)) =
  or_fold M (map (fun x (_ : unit) => solve_body o x dq) L).
Proof.
  intros ord L Hord Hwf Hnn.
  assert (Hnest : forall x, In x L -> is_nest x = false)
    by (intros x Hx; apply nn_not_nest; apply Hnn; exact Hx).
  apply or_fold_equiv.
  - intros y Hy. destruct (or_scratch_members ord L y Hy) as [Hs|Hin].
    + apply (srch_shape y Hs).
    + apply Hwf. exact Hin.
  - exact Hwf.
  - apply existsb_eq_iff. symmetry. apply scratch_iff; try exact Hnest.
    + intros x kv. apply (class_fwd_t holds_n cls_n needle_expr cls_n_ok needle_expr_ok ord Hord L).
    + apply (class_bwd_t holds_n cls_n needle_expr cls_n_ok needle_expr_ok ord L).
    + intros x kv. apply (class_fwd_t holds_p cls_p pat_expr cls_p_ok pat_expr_ok ord Hord L).
    + apply (class_bwd_t holds_p cls_p pat_expr cls_p_ok pat_expr_ok ord L).
  - apply existsb_eq_iff. symmetry. apply scratch_iff; try exact Hnest.
    + intros x kv. apply (class_fwd_d holds_n cls_n needle_expr cls_n_ok needle_expr_ok ord Hord L).
    + apply (class_bwd_d holds_n cls_n needle_expr cls_n_ok needle_expr_ok ord L).
    + intros x kv. apply (class_fwd_d holds_p cls_p pat_expr cls_p_ok pat_expr_ok ord Hord L).
    + apply (class_bwd_d holds_p cls_p pat_expr cls_p_ok pat_expr_ok ord L).
Qed.

(* ---- the pass ---- *)
Lemma collapse_sem : forall s L, is_and_or s = true ->
  solve_body o (match L with [x] => x | _ => EGroup s L end) dq = solve_body o (EGroup s L) dq.
Proof.
  intros s L Hs. destruct L as [|x [|x2 L]]; try reflexivity.
  symmetry. apply sem_group_single. exact Hs.
Qed.

Lemma h7x : forall ord fu e k, other_q e = true ->
  solve_body o (shake1 ord fu e) dq = solve_body o e dq ->
  solve_body o (EMatch k (shake1 ord fu e)) dq = solve_body o (EMatch k e) dq.
Proof.
  intros ord fu e k He H. pose proof (shake1_other_q ord fu e He) as He'.
  destruct k as [|n].
  - rewrite !sb_all_other by assumption. exact H.
  - rewrite !sb_of_other by assumption. rewrite H. reflexivity.
Qed.

Lemma shake1_exact_gen : forall ord, ord_keeps ord -> forall fuel e,
  wf_body e = true -> no_nested e = true -> cmp_leaves e = true ->
  solve_body o (shake1 ord fuel e) dq = solve_body o e dq.
Proof.
  intros ord Hord. induction fuel as [|fu IH]; intros e Hw Hn Hc; [reflexivity|].
  assert (Hmem : forall l, forallb wf_body l = true -> forallb no_nested l = true ->
            forallb cmp_leaves l = true ->
            Forall2 (fun y x => (fun (y : expr) (_ : unit) => solve_body o y dq) y tt =
                                (fun (x : expr) (_ : unit) => solve_body o x dq) x tt)
                    (map (shake1 ord fu) l) l).
  { intros l H1 H2 H3. apply Forall2_map_l. intros x Hx. cbn beta.
    apply IH; [apply (forallb_In _ _ _ H1 Hx)|apply (forallb_In _ _ _ H2 Hx)|apply (forallb_In _ _ _ H3 Hx)]. }
  destruct e as [s l|l s r|b|f m|f|z|i|z|k e|cols rows|e|f e| |s f c]; try discriminate Hw.
  - (* EGroup *)
    cbn [wf_body no_nested cmp_leaves] in Hw, Hn, Hc.
    apply andb_true_iff in Hw. destruct Hw as [Hs Hw].
    pose proof (Hmem l Hw Hn Hc) as HF2.
    set (L := map (shake1 ord fu) l) in *.
    assert (HK : forall y, In y L -> no_nested y = true /\ wf_body y = true /\ cmp_leaves y = true).
    { intros y Hy. apply in_map_iff in Hy. destruct Hy as [x [<- Hx]].
      destruct (shake1_keeps3 ord fu x (forallb_In _ _ _ Hn Hx)) as [K1 [K2 K3]].
      split; [exact K1|]. split; [apply K2; apply (forallb_In _ _ _ Hw Hx)|apply K3; apply (forallb_In _ _ _ Hc Hx)]. }
    destruct s; try discriminate Hs.
    + (* and *)
      rewrite shake1_and_eq by (intros y Hy; apply (HK y Hy)). fold L. cbv zeta.
      rewrite collapse_sem by reflexivity. rewrite !sb_group_and. apply and_fold_F2. exact HF2.
    + (* or *)
      rewrite shake1_or_eq by (intros y Hy; apply (HK y Hy)). fold L. cbv zeta.
      set (Sc := or_scratch ord L).
      assert (HSc : forall y, In y Sc -> no_nested y = true /\ wf_body y = true /\ cmp_leaves y = true).
      { intros y Hy. destruct (or_scratch_members ord L y Hy) as [Hy'|Hy'].
        - apply srch_shape. exact Hy'.
        - apply HK. exact Hy'. }
      assert (E1 : solve_body o (EGroup BOr Sc) dq = solve_body o (EGroup BOr l) dq).
      { rewrite !sb_group_or. unfold Sc. rewrite or_scratch_exact.
        - apply or_fold_F2. exact HF2.
        - exact Hord.
        - intros y Hy. apply (HK y Hy).
        - intros y Hy. apply (HK y Hy). }
      destruct (negb (length Sc =? length l)%nat).
      * rewrite IH; [exact E1| | |].
        -- cbn [wf_body is_and_or_op andb]. apply forallb_forall. intros y Hy. apply (HSc y Hy).
        -- cbn [no_nested]. apply forallb_forall. intros y Hy. apply (HSc y Hy).
        -- cbn [cmp_leaves]. apply forallb_forall. intros y Hy. apply (HSc y Hy).
      * rewrite collapse_sem by reflexivity. exact E1.
  - (* EBexp *)
    cbn [shake1].
    destruct s; cbn [wf_body is_and_or_op no_nested cmp_leaves is_and_or] in Hw, Hn, Hc;
      try (apply andb_true_iff in Hc; destruct Hc as [Hl Hr];
           apply negb_true_iff in Hl; apply negb_true_iff in Hr;
           rewrite (shake1_leaf ord fu l Hl), (shake1_leaf ord fu r Hr); reflexivity).
    + apply andb_true_iff in Hw. destruct Hw as [Hw1 Hw2].
      apply andb_true_iff in Hn. destruct Hn as [Hn1 Hn2].
      apply andb_true_iff in Hc. destruct Hc as [Hc1 Hc2].
      rewrite !sb_bexp_and. unfold and2. rewrite (IH l Hw1 Hn1 Hc1), (IH r Hw2 Hn2 Hc2). reflexivity.
    + apply andb_true_iff in Hw. destruct Hw as [Hw1 Hw2].
      apply andb_true_iff in Hn. destruct Hn as [Hn1 Hn2].
      apply andb_true_iff in Hc. destruct Hc as [Hc1 Hc2].
      rewrite !sb_bexp_or. unfold or2. rewrite (IH l Hw1 Hn1 Hc1), (IH r Hw2 Hn2 Hc2). reflexivity.
  - (* EMatch *)
    cbn [wf_body no_nested cmp_leaves] in Hw, Hn, Hc.
    destruct e as [s l|l s r|b|f m|f|z|i|z|k0 e|cols rows|e|f e| |s f c]; try discriminate Hw.
    + cbn [shake1]. cbn [wf_body no_nested cmp_leaves] in Hw, Hn, Hc.
      apply andb_true_iff in Hw. destruct Hw as [Hs Hw].
      pose proof (Hmem l Hw Hn Hc) as HF2.
      destruct k as [|n].
      * rewrite !sb_all_group. apply and_fold_F2. exact HF2.
      * rewrite !sb_of_group. apply of_fold_F2. exact HF2.
    + cbn [shake1]. apply h7x; [reflexivity|apply IH; assumption].
    + cbn [shake1]. apply h7x; [reflexivity|apply IH; assumption].
    + cbn [shake1]. apply h7x; [reflexivity|apply IH; assumption].
    + discriminate Hn.
    + cbn [shake1]. rewrite shake1_search. reflexivity.
  - (* ENegate *)
    cbn [shake1]. cbn [wf_body no_nested cmp_leaves] in Hw, Hn, Hc.
    rewrite !sb_negate, (IH e Hw Hn Hc). reflexivity.
  - (* ENested *)
    discriminate Hn.
  - (* ESearch *)
    reflexivity.
Qed.
End Sem.

(* ====================================================================== *)
(*  Part D: the statements of Properties/C01_shake1.v                      *)
(* ====================================================================== *)

(* ---- shake1_exact_flat is FALSE as stated, in two independent ways ---- *)

(* (a) `ord` ranges over all functions; one that loses keys loses the merged searches *)
Lemma shake1_exact_flat_refuted :
  let f := [102%N] in let g := [103%N] in
  let e := EGroup BOr [ESearch (SContains [97%N]) f false; ESearch (SContains [98%N]) g false] in
  let d : doc := fun k => if str_eqb k f then Some (VStr [97%N]) else None in
  wf_body e = true /\ C01.no_nested e = true /\ C01.cmp_leaves e = true /\
  shake1 (fun _ => []) 5 e = EGroup BOr [] /\
  solve_body C01.o0 e (pure_doc d) = Ok T /\
  solve_body C01.o0 (shake1 (fun _ => []) 5 e) (pure_doc d) = Ok M.
Proof. vm_compute. repeat split; reflexivity. Qed.

(* (b) wf_body does not constrain the operands of a comparison: a one-member group there is
   unwrapped, and the comparison starts to see a field *)
Lemma shake1_exact_flat_refuted_cmp :
  let f := [102%N] in
  let e := EBexp (EGroup BOr [EField f]) BEqual (EInt 1) in
  let d : doc := fun k => if str_eqb k f then Some (VInt 1) else None in
  wf_body e = true /\ C01.no_nested e = true /\
  shake1 (fun k => k) 5 e = EBexp (EField f) BEqual (EInt 1) /\
  solve_body C01.o0 e (pure_doc d) = Ok F /\
  solve_body C01.o0 (shake1 (fun k => k) 5 e) (pure_doc d) = Ok T.
Proof. vm_compute. repeat split; reflexivity. Qed.

(* the closest true statements: the hash order does not lose keys (every permutation), and
   the operands of comparisons are leaves (C01.cmp_leaves, as in coalesce_exact_alt) *)
Lemma shake1_exact_flat_keeps : forall o ord fuel e (d : docq),
  ord_keeps ord -> C03.npd d ->
  wf_body e = true -> C01.no_nested e = true -> C01.cmp_leaves e = true ->
  solve_body o (shake1 ord fuel e) d = solve_body o e d.
Proof. intros o ord fuel e d Hord Hd. apply (shake1_exact_gen o d Hd ord Hord). Qed.

Lemma shake1_exact_flat_alt : forall o ord fuel e (d : doc),
  (forall l, Permutation (ord l) l) ->
  wf_body e = true -> C01.no_nested e = true -> C01.cmp_leaves e = true ->
  solve_body o (shake1 ord fuel e) (pure_doc d) = solve_body o e (pure_doc d).
Proof.
  intros o ord fuel e d Hord. apply shake1_exact_flat_keeps.
  - apply perm_ord_keeps. exact Hord.
  - apply C03.npd_pure.
Qed.

(* it also keeps cmp_leaves *)
Lemma shake1_keeps_cmp_leaves : forall ord fuel e,
  C01.no_nested e = true -> C01.cmp_leaves e = true -> C01.cmp_leaves (shake1 ord fuel e) = true.
Proof. intros ord fuel e Hn Hc. apply (shake1_keeps3 ord fuel e Hn). exact Hc. Qed.

(* ---- the whole shake pass ---- *)
Lemma inv_wf : forall e, inv e = true -> wf_body e = true.
Proof.
  induction e as [e IH] using size_ind. intros Hi.
  destruct e as [s l|l s r|b|f m|f|z|i|z|k e|cols rows|e|f e| |s f c]; try discriminate Hi;
    cbn [inv wf_body] in *.
  - apply andb_true_iff in Hi. destruct Hi as [Hs Hl].
    replace (is_and_or_op s) with true by (destruct s; try discriminate; reflexivity).
    destruct l as [|a l']; [discriminate|]. cbn [andb].
    apply forallb_intro. intros x Hx. apply IH; [apply (size_member s _ x Hx)|apply (forallb_In _ _ _ Hl Hx)].
  - destruct s; cbn [is_and_or is_and_or_op] in *; try reflexivity;
      (apply andb_true_iff in Hi; destruct Hi as [H1 H2];
       rewrite (IH l), (IH r); try assumption; try reflexivity; cbn [expr_size]; lia).
  - apply andb_true_iff in Hi. destruct Hi as [_ Hi]. apply IH; [cbn [expr_size]; lia|exact Hi].
  - apply andb_true_iff in Hi. destruct Hi as [_ Hi]. apply IH; [cbn [expr_size]; lia|exact Hi].
  - apply andb_true_iff in Hi. destruct Hi as [_ Hi]. apply IH; [cbn [expr_size]; lia|exact Hi].
  - reflexivity.
Qed.

Lemma inv_cl : forall e, inv e = true -> cmp_leaves e = true.
Proof.
  induction e as [e IH] using size_ind. intros Hi.
  destruct e as [s l|l s r|b|f m|f|z|i|z|k e|cols rows|e|f e| |s f c]; try discriminate Hi;
    cbn [inv cmp_leaves] in *.
  - apply andb_true_iff in Hi. destruct Hi as [Hs Hl].
    destruct l as [|a l']; [discriminate|].
    apply forallb_intro. intros x Hx. apply IH; [apply (size_member s _ x Hx)|apply (forallb_In _ _ _ Hl Hx)].
  - destruct (is_and_or s); [|exact Hi].
    apply andb_true_iff in Hi. destruct Hi as [H1 H2].
    rewrite (IH l), (IH r); try assumption; try reflexivity; cbn [expr_size]; lia.
  - apply andb_true_iff in Hi. destruct Hi as [_ Hi]. apply IH; [cbn [expr_size]; lia|exact Hi].
  - apply andb_true_iff in Hi. destruct Hi as [_ Hi]. apply IH; [cbn [expr_size]; lia|exact Hi].
  - apply andb_true_iff in Hi. destruct Hi as [_ Hi]. apply IH; [cbn [expr_size]; lia|exact Hi].
  - reflexivity.
Qed.

Lemma flat_nn : forall s l' r' L, flat s l' r' = Some L ->
  no_nested l' = true -> no_nested r' = true -> forallb no_nested L = true.
Proof.
  intros s l' r' L Hf Hl Hr. unfold flat in Hf.
  destruct (grp s l') as [a|] eqn:G1; destruct (grp s r') as [b|] eqn:G2.
  - injection Hf as <-. apply grp_some in G1. apply grp_some in G2. subst l' r'.
    cbn [no_nested] in Hl, Hr. rewrite forallb_app, Hl, Hr. reflexivity.
  - injection Hf as <-. apply grp_some in G1. subst l'.
    cbn [no_nested] in Hl. rewrite forallb_app, Hl. cbn [forallb]. rewrite Hr. reflexivity.
  - injection Hf as <-. apply grp_some in G2. subst r'.
    cbn [no_nested] in Hr. cbn [forallb]. rewrite Hl, Hr. reflexivity.
  - destruct (bx s l') as [[x y]|] eqn:B1.
    + injection Hf as <-. apply bx_some in B1. subst l'. cbn [no_nested] in Hl.
      apply andb_true_iff in Hl. destruct Hl as [Hx Hy]. cbn [forallb]. rewrite Hx, Hy, Hr. reflexivity.
    + destruct (bx s r') as [[y z]|] eqn:B2; [|discriminate].
      injection Hf as <-. apply bx_some in B2. subst r'. cbn [no_nested] in Hr.
      apply andb_true_iff in Hr. destruct Hr as [Hy Hz]. cbn [forallb]. rewrite Hl, Hy, Hz. reflexivity.
Qed.

Lemma shake0_nn : forall fuel e e', no_nested e = true -> shake0 fuel e = Ok e' -> no_nested e' = true.
Proof.
  induction fuel as [|fu IH]; intros e e' Hn H; [injection H as <-; exact Hn|].
  destruct e as [s l|l s r|b|f m|f|z|i|z|k e|cols rows|e|f e| |s f c];
    try (injection H as <-; exact Hn).
  - cbn [shake0] in H. destruct (negb (is_and_or s)); [discriminate|].
    apply bind_ok_inv in H. destruct H as [l' [Hl' H]].
    pose proof (mapM_Forall2 _ _ _ Hl') as HF. cbn [no_nested] in Hn.
    assert (Hl'n : forallb no_nested l' = true).
    { eapply Forall2_forallb; [exact HF|]. intros x y Hx Hxy. cbn beta in Hxy.
      apply (IH x y); [apply (forallb_In _ _ _ Hn Hx)|exact Hxy]. }
    destruct l' as [|x [|x2 l'']]; injection H as <-; try exact Hl'n.
    cbn [forallb] in Hl'n. apply andb_true_iff in Hl'n. apply Hl'n.
  - cbn [no_nested] in Hn. apply andb_true_iff in Hn. destruct Hn as [Hl Hr].
    destruct (is_and_or s) eqn:Hs.
    + rewrite shake0_bexp_andor in H by exact Hs.
      apply bind_ok_inv in H. destruct H as [l' [Hl' H]].
      apply bind_ok_inv in H. destruct H as [r' [Hr' H]].
      pose proof (IH l l' Hl Hl') as Hl'n. pose proof (IH r r' Hr Hr') as Hr'n.
      destruct (flat s l' r') as [L|] eqn:Hflat.
      * apply (IH (EGroup s L) e' (flat_nn s l' r' L Hflat Hl'n Hr'n) H).
      * injection H as <-. cbn [no_nested]. rewrite Hl'n, Hr'n. reflexivity.
    + rewrite shake0_bexp_cmp in H by exact Hs.
      apply bind_ok_inv in H. destruct H as [l' [Hl' H]].
      apply bind_ok_inv in H. destruct H as [r' [Hr' H]]. injection H as <-.
      cbn [no_nested]. rewrite (IH l l' Hl Hl'), (IH r r' Hr Hr'). reflexivity.
  - cbn [shake0] in H. apply bind_ok_inv in H. destruct H as [x [Hx H]]. injection H as <-.
    cbn [no_nested] in *. apply (IH e x Hn Hx).
  - cbn [shake0] in H. apply bind_ok_inv in H. destruct H as [x [Hx H]].
    cbn [no_nested] in Hn. pose proof (IH e x Hn Hx) as Hxn.
    destruct x; try (injection H as <-; exact Hxn).
    apply (IH x e' Hxn H).
  - discriminate Hn.
Qed.

(* shake_exact_flat is false as stated for the same reason (a) *)
Lemma shake_exact_flat_refuted :
  let f := [102%N] in let g := [103%N] in
  let e := EGroup BOr [ESearch (SContains [97%N]) f false; ESearch (SContains [98%N]) g false] in
  let d : doc := fun k => if str_eqb k f then Some (VStr [97%N]) else None in
  wf_body e = true /\ C01.no_nested e = true /\
  C01.sh0 e = true /\ C01.no_dneg e = true /\ C01.shx e = true /\
  shake (fun _ => []) e = Ok (EGroup BOr []) /\
  solve_body C01.o0 e (pure_doc d) = Ok T /\
  solve_body C01.o0 (EGroup BOr []) (pure_doc d) = Ok M.
Proof. vm_compute. repeat split; reflexivity. Qed.

Lemma shake_exact_flat_keeps : forall o ord e e' (d : docq),
  ord_keeps ord -> C03.npd d ->
  wf_body e = true -> C01.no_nested e = true ->
  C01.sh0 e = true -> C01.no_dneg e = true -> C01.shx e = true ->
  shake ord e = Ok e' ->
  solve_body o e' d = solve_body o e d /\
  wf_body e' = true /\ C01.no_nested e' = true /\ C01.cmp_leaves e' = true.
Proof.
  intros o ord e e' d Hord Hd Hw Hn Hs Hdn Hx H. unfold shake in H.
  apply bind_ok_inv in H. destruct H as [e0 [H0 H]]. injection H as <-.
  pose proof (shake0_keeps_inv _ _ _ Hw Hs Hdn Hx H0) as Hi.
  pose proof (shake0_nn _ _ _ Hn H0) as Hn0.
  destruct (shake1_keeps3 ord (shake_fuel e0) e0 Hn0) as [K1 [K2 K3]].
  split; [|split; [apply K2; apply inv_wf; exact Hi|split; [exact K1|apply K3; apply inv_cl; exact Hi]]].
  rewrite (shake1_exact_flat_keeps o ord _ e0 d Hord Hd (inv_wf _ Hi) Hn0 (inv_cl _ Hi)).
  apply (shake0_exact_alt o _ e e0 d Hw Hs Hdn Hx H0).
Qed.

Lemma shake_exact_flat_alt : forall o ord e e' (d : doc),
  (forall l, Permutation (ord l) l) ->
  wf_body e = true -> C01.no_nested e = true ->
  C01.sh0 e = true -> C01.no_dneg e = true -> C01.shx e = true ->
  shake ord e = Ok e' ->
  solve_body o e' (pure_doc d) = solve_body o e (pure_doc d).
Proof.
  intros o ord e e' d Hord Hw Hn Hs Hdn Hx H.
  apply (shake_exact_flat_keeps o ord e e' (pure_doc d) (perm_ord_keeps ord Hord) (C03.npd_pure d)
           Hw Hn Hs Hdn Hx H).
Qed.

(* ---- non-vacuity ---- *)
Example shake1_flat_example :
  let f := [102%N] in let g := [103%N] in
  let e := EGroup BOr [ESearch (SContains [97%N]) f false; ESearch (SExact [98%N]) g false;
                       ESearch (SStartsWith [99%N]) f false; ESearch (SEndsWith [100%N]) g false;
                       ESearch (SRegex [101%N] false) f false] in
  wf_body e = true /\ C01.no_nested e = true /\
  shake1 (fun k => k) 10 e =
    EGroup BOr [ESearch (SAho [MTContains [97%N]; MTStartsWith [99%N]] false) f false;
                ESearch (SAho [MTExact [98%N]; MTEndsWith [100%N]] false) g false;
                ESearch (SRegex [101%N] false) f false].
Proof. vm_compute. repeat split; reflexivity. Qed.
