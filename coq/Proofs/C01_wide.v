(* C01, C12, C13: the optimised rule inside the widest proved scope of the end-to-end C01
   theorem (Scope.c01_scope_all or Scope2.c01_scope_quant_all_noq -- what the runner marks). *)
From Coq Require Import Permutation.
From TauModel Require Import Base Num Oracles Syntax Value Yaml Pratt ParseMap Solver Rule Keys Optimiser Known Order.
From TauModel Require Scope Scope2 Scope3.
From TauProofs Require C01 C01_matrix C01_d15 C01_sh0w C01_nomatch C01_final C13_opt C12_order.

Notation in_scope := Scope3.c01_scope_wide.

Lemma in_scope_sound : forall o ic ord sw y r (d : doc),
  (forall l, Permutation (ord l) l) ->
  C01.H_strip o ->
  load_rule o ic y = Ok r -> r_optimised r = false ->
  in_scope o ord sw (r_det r) = true ->
  exists r', optimise o ord sw r = Ok r' /\ matches o r' d = matches o r d.
Proof.
  intros o ic ord sw y r d Hord Hs Hl Hopt Hsc.
  unfold Scope3.c01_scope_wide in Hsc. apply Bool.orb_true_iff in Hsc. destruct Hsc as [Hsc|Hsc].
  - exact (C01_matrix.scope_all_sound o ic ord sw y r d Hord Hs Hl Hopt Hsc).
  - exact (C01_final.scope_quant_all_sound_f o ic ord sw y r d Hord Hs Hl Hopt Hsc).
Qed.

Lemma crate_order_in_scope_sound : forall o ic sw y r (d : doc),
  C01.H_strip o ->
  load_rule o ic y = Ok r -> r_optimised r = false ->
  in_scope o rust_ord sw (r_det r) = true ->
  exists r', optimise o rust_ord sw r = Ok r' /\ matches o r' d = matches o r d.
Proof.
  intros o ic sw y r d. apply in_scope_sound. exact C12_order.rust_ord_perm.
Qed.

Lemma validate_optimised_in_scope_wide : forall o ic ord sw y r,
  (forall l, Permutation (ord l) l) ->
  C01.H_strip o ->
  load_rule o ic y = Ok r -> r_optimised r = false ->
  in_scope o ord sw (r_det r) = true ->
  exists r', optimise o ord sw r = Ok r' /\ validate o r' = validate o r.
Proof.
  intros o ic ord sw y r Hord Hs Hl Hopt Hsc.
  destruct (in_scope_sound o ic ord sw y r (fun _ => None) Hord Hs Hl Hopt Hsc) as [r' [Hr' _]].
  exists r'. split; [exact Hr'|].
  destruct (C13_opt.optimise_keeps_examples o ord sw r r' Hr') as [Hp Hn].
  apply C13_opt.validate_ext; [|exact Hp|exact Hn].
  intros d.
  destruct (in_scope_sound o ic ord sw y r d Hord Hs Hl Hopt Hsc) as [r2 [Hr2 Hm]].
  rewrite Hr' in Hr2. inversion Hr2; subst. exact Hm.
Qed.

Lemma crate_order_validate_optimised : forall o ic sw y r,
  C01.H_strip o ->
  load_rule o ic y = Ok r -> r_optimised r = false ->
  in_scope o rust_ord sw (r_det r) = true ->
  exists r', optimise o rust_ord sw r = Ok r' /\ validate o r' = validate o r.
Proof.
  intros o ic sw y r. apply validate_optimised_in_scope_wide. exact C12_order.rust_ord_perm.
Qed.

(* two map orders: inside the scope for both, the optimised rules agree on every document *)
Lemma optimise_order_irrelevant_in_scope_wide : forall o ic ord1 ord2 sw y r (d : doc),
  (forall l, Permutation (ord1 l) l) -> (forall l, Permutation (ord2 l) l) ->
  C01.H_strip o ->
  load_rule o ic y = Ok r -> r_optimised r = false ->
  in_scope o ord1 sw (r_det r) = true -> in_scope o ord2 sw (r_det r) = true ->
  exists r1 r2, optimise o ord1 sw r = Ok r1 /\ optimise o ord2 sw r = Ok r2 /\
                matches o r1 d = matches o r2 d /\ validate o r1 = validate o r2.
Proof.
  intros o ic ord1 ord2 sw y r d H1 H2 Hs Hl Hopt S1 S2.
  destruct (in_scope_sound o ic ord1 sw y r d H1 Hs Hl Hopt S1) as [r1 [E1 M1]].
  destruct (in_scope_sound o ic ord2 sw y r d H2 Hs Hl Hopt S2) as [r2 [E2 M2]].
  destruct (validate_optimised_in_scope_wide o ic ord1 sw y r H1 Hs Hl Hopt S1) as [r1' [E1' V1]].
  destruct (validate_optimised_in_scope_wide o ic ord2 sw y r H2 Hs Hl Hopt S2) as [r2' [E2' V2]].
  rewrite E1 in E1'. inversion E1'; subst r1'. rewrite E2 in E2'. inversion E2'; subst r2'.
  exists r1, r2. repeat split; try assumption.
  - rewrite M1, M2. reflexivity.
  - rewrite V1, V2. reflexivity.
Qed.

(* the scope of Properties/C01_d15.v is inside the union *)
Lemma scope_noq_in_wide : forall o ord sw dt,
  Scope2.c01_scope_quant_all_noq o ord sw dt = true -> Scope3.c01_scope_wide o ord sw dt = true.
Proof.
  intros o ord sw dt H. unfold Scope3.c01_scope_wide.
  rewrite (C01_final.scope_w_in_f o ord sw dt (C01_sh0w.scope_quant_all_noq_weaker o ord sw dt H)).
  rewrite Bool.orb_true_r. reflexivity.
Qed.
