(* C02 (lists): an entry `k: [v1, ..., vn]` whose members are scalars evaluates as the reference
   semantics of Model/Spec.v says, under every key form and on every document value.

   Plan of the proof.  For a fixed document d and field f every member v has a three-valued
   result (mres v); what the loader accumulates (seqacc) is a collection of identifiers and
   expressions each of which has a result too.  The invariant of seq_members is that, for each of
   T / F / M, the NUMBER of accumulated items with that result equals the number of members
   read so far with that result (accc).  finish_seq regroups the items into batches; the sum
   over the group elements of the per-needle counts (ecnt) is again the same number.  The
   reference tables max3 / first_non_true / of3 are functions of these three numbers
   (first_non_true only when false and missing do not both occur, which is what the loader's
   kind check and the exclusion of D32 give), and so are the solver's folds. *)
From TauModel Require Import Base Num Oracles Syntax Value Yaml Token Pratt Ident ParseMap PatSpec
     Solver Rule Keys Known Spec.
From TauProofs Require Import C07 C08 C02_entry.
From TauProofs Require C06 C02_cond.
From Coq Require Import Lia ZArith NArith ZifyBool List Bool Btauto.
Import ListNotations.

(* ---- the helper definitions of Properties/C02_lists.v, restated identically ---- *)
Definition sem_entry_list (o : oracles) (ic : bool) (m : keymod) (f : str) (vs : list yaml) (d : doc) : res3 :=
  let base :=
    match d f with
    | None => M
    | Some x =>
        match m with
        | KAll => first_non_true (map (fun v => sem_scalar o ic KPlain v x) vs)
        | KOf c => of3 c (map (fun v => sem_scalar o ic KPlain v x) vs)
        | KNot => max3 (map (fun v => sem_scalar o ic KPlain v x) vs)
        | _ => max3 (map (fun v => sem_scalar o ic m v x) vs)
        end
    end in
  match m with KNot => not3 base | _ => base end.

Definition is_ystr' (v : yaml) : bool := match v with YStr _ => true | _ => false end.
Definition array_ok (m : keymod) (vs : list yaml) (x : option value) : Prop :=
  match m with
  | KAll | KOf _ =>
      (2 <= length (filter is_ystr' vs))%nat -> match x with Some (VArr _) => False | _ => True end
  | _ => True
  end.

(* ====================================================================================== *)
(* (A) counting results                                                                    *)
(* ====================================================================================== *)

Definition bitr (r x : res3) : nat := if res3_eqb r x then 1 else 0.
Definition cn (r : res3) (rs : list res3) : nat := sumf (bitr r) rs.

Lemma cn_cons : forall r x rs, cn r (x :: rs) = bitr r x + cn r rs.
Proof. reflexivity. Qed.

Lemma cn_map : forall {A} r (g : A -> res3) l, cn r (map g l) = sumf (fun x => bitr r (g x)) l.
Proof. intros. unfold cn. apply sumf_map. Qed.

Lemma bitr_total : forall x, bitr T x + bitr F x + bitr M x = 1.
Proof. intros [| |]; reflexivity. Qed.

Lemma sumf_ext : forall {A} (u w : A -> nat) l,
  (forall x, In x l -> u x = w x) -> sumf u l = sumf w l.
Proof.
  intros A u w l. induction l as [|x l IH]; intros H; [reflexivity|].
  cbn [sumf]. rewrite (H x (or_introl eq_refl)), IH; [reflexivity|].
  intros y Hy. apply H. right. exact Hy.
Qed.

Lemma sumf_plus : forall {A} (u w : A -> nat) l,
  sumf (fun x => u x + w x) l = sumf u l + sumf w l.
Proof.
  intros A u w l. induction l as [|x l IH]; [reflexivity|]. cbn [sumf]. rewrite IH. lia.
Qed.

Lemma sumf_zero : forall {A} (l : list A), sumf (fun _ => 0) l = 0.
Proof. intros A l. induction l as [|x l IH]; [reflexivity|]. cbn [sumf]. exact IH. Qed.

Lemma sumf_one : forall {A} (l : list A), sumf (fun _ => 1) l = length l.
Proof. intros A l. induction l as [|x l IH]; [reflexivity|]. cbn [sumf length]. rewrite IH. reflexivity. Qed.

Lemma sumf_le : forall {A} (u w : A -> nat) l,
  (forall x, u x <= w x) -> sumf u l <= sumf w l.
Proof.
  intros A u w l H. induction l as [|x l IH]; [cbn [sumf]; lia|].
  cbn [sumf]. pose proof (H x). lia.
Qed.

Lemma sumf_pos : forall {A} (u w : A -> nat) l,
  (forall x, In x l -> (0 <? u x) = (0 <? w x)) -> (0 <? sumf u l) = (0 <? sumf w l).
Proof.
  intros A u w l. induction l as [|x l IH]; intros H; [reflexivity|].
  cbn [sumf]. pose proof (H x (or_introl eq_refl)) as Hx.
  assert (Hl : (0 <? sumf u l) = (0 <? sumf w l)).
  { apply IH. intros y Hy. apply H. right. exact Hy. }
  destruct (Nat.ltb_spec 0 (u x)), (Nat.ltb_spec 0 (w x)); try discriminate Hx;
    destruct (Nat.ltb_spec 0 (sumf u l)), (Nat.ltb_spec 0 (sumf w l)); try discriminate Hl;
    destruct (Nat.ltb_spec 0 (u x + sumf u l)), (Nat.ltb_spec 0 (w x + sumf w l));
    try reflexivity; lia.
Qed.

Lemma count3_cn : forall x rs, count3 x rs = Z.of_nat (cn x rs).
Proof.
  intros x rs. unfold count3. f_equal. induction rs as [|r rs IH]; [reflexivity|].
  cbn [filter]. rewrite cn_cons. unfold bitr. destruct (res3_eqb x r); cbn [length]; rewrite IH; reflexivity.
Qed.

Lemma all_missing_cn : forall rs, all_missing rs = (cn T rs + cn F rs =? 0)%nat.
Proof.
  intros rs. unfold all_missing. induction rs as [|r rs IH]; [reflexivity|].
  cbn [forallb]. rewrite IH, !cn_cons. destruct r; cbn [bitr res3_eqb andb]; crunch.
Qed.

Lemma max3_cn : forall rs,
  max3 rs = if (0 <? cn T rs)%nat then T else if (0 <? cn T rs + cn F rs)%nat then F else M.
Proof.
  induction rs as [|r rs IH]; [reflexivity|].
  change (max3 (r :: rs)) with (or3 r (max3 rs)). rewrite IH, !cn_cons.
  destruct r; cbn [bitr res3_eqb or3]; crunch.
Qed.

Lemma fnt_cn : forall rs, (cn M rs = 0 \/ cn T rs + cn F rs = 0)%nat ->
  first_non_true rs = if (cn M rs =? 0)%nat then (if (cn F rs =? 0)%nat then T else F) else M.
Proof.
  induction rs as [|r rs IH]; intros H; [reflexivity|].
  rewrite !cn_cons in *. destruct r; cbn [bitr res3_eqb first_non_true] in *.
  - rewrite IH by lia. reflexivity.
  - crunch.
  - crunch.
Qed.

(* the tables of the quantifiers as functions of the three counts *)
Definition QC (m : matchk) (cT cF cM : nat) : res3 :=
  match m with
  | MAll => if (cM =? 0)%nat then (if (cF =? 0)%nat then T else F) else M
  | MOf c =>
      if (c =? 0)%Z then (if (0 <? cT)%nat then F else if (0 <? cF)%nat then T else M)
      else if (c <=? Z.of_nat cT)%Z then T else if (0 <? cT + cF)%nat then F else M
  end.

Definition Qm (m : matchk) (rs : list res3) : res3 :=
  match m with MAll => first_non_true rs | MOf c => of3 c rs end.

(* false and missing do not both occur (needed for all() only) *)
Definition mixfree (m : matchk) (cT cF cM : nat) : Prop :=
  match m with MAll => cM = 0 \/ cT + cF = 0 | MOf _ => True end.

Lemma Qm_cn : forall m rs, mixfree m (cn T rs) (cn F rs) (cn M rs) ->
  Qm m rs = QC m (cn T rs) (cn F rs) (cn M rs).
Proof.
  intros [|c] rs H; cbn [Qm QC mixfree] in *.
  - apply fnt_cn, H.
  - unfold of3. rewrite !count3_cn, all_missing_cn. crunch.
Qed.

Lemma qt_QC : forall m a b, qt m a b = QC m a b 0.
Proof. intros [|c] a b; reflexivity. Qed.

Lemma max3_allM : forall {A} (l : list A), max3 (map (fun _ => M) l) = M.
Proof.
  intros A l. induction l as [|x l IH]; [reflexivity|]. cbn [map].
  change (max3 (M :: map (fun _ => M) l)) with (or3 M (max3 (map (fun _ : A => M) l))).
  rewrite IH. reflexivity.
Qed.

(* ====================================================================================== *)
(* (B) the needles of the batches, with an arbitrary weight per needle                     *)
(* ====================================================================================== *)
Section Weights.
Variable W : bool -> mtype -> nat.

Definition idw (mk : str -> mtype) (i : identifier) : nat :=
  match needle_of mk i with Some (ci, mt) => W ci mt | None => 0 end.

Definition ctxw (p : list mtype * list mtype) : nat :=
  sumf (W false) (fst p) + sumf (W true) (snd p).

Lemma add_needles_w : forall mk ids acc,
  ctxw (add_needles mk ids acc) = ctxw acc + sumf (idw mk) ids.
Proof.
  intros mk ids. unfold add_needles.
  induction ids as [|i ids IH]; intros acc; cbn [fold_left sumf].
  - lia.
  - rewrite IH. rewrite Nat.add_assoc. f_equal.
    unfold idw. destruct (needle_of mk i) as [[[|] mt]|]; unfold ctxw; cbn [fst snd];
      rewrite ?sumf_app; cbn [sumf]; lia.
Qed.

Lemma needles_w : forall a,
  ctxw (needles_of a) =
  sumf (idw MTStartsWith) (a_starts a) + sumf (idw MTContains) (a_contains a)
  + sumf (idw MTEndsWith) (a_ends a)
  + sumf (idw MTExact) (filter (fun i => negb (is_nil (pat_str i))) (a_exact a)).
Proof. intros a. unfold needles_of. rewrite !add_needles_w. reflexivity. Qed.
End Weights.

(* ====================================================================================== *)
(* (C) one document, one field, one (base) modifier                                        *)
(* ====================================================================================== *)
Section Entry.
Variable o : oracles.
Variable ic : bool.
Variable m : keymod.
Variable f : str.
Variable d : doc.

Definition cst : bool := match m with KStr => true | _ => false end.
(* the texts a string predicate looks at; None: absent field or a value of another kind *)
Definition tx : option (list str) :=
  match d f with None => None | Some x => texts_of o cst x end.
Definition tres (p : str -> bool) : res3 :=
  match tx with None => M | Some l => if existsb p l then T else F end.
(* the result of one member as the reference says *)
Definition mres (v : yaml) : res3 :=
  match d f with None => M | Some x => sem_scalar o ic m v x end.
(* the result of an expression of the loader *)
Definition ev (e : expr) : res3 :=
  match solve_body o e (pure_doc d) with Ok r => r | _ => M end.
Definition solvable (e : expr) : Prop := solve_body o e (pure_doc d) = Ok (ev e).

Lemma solvable_intro : forall e r,
  solve_body o e (pure_doc d) = Ok r -> solvable e /\ ev e = r.
Proof. intros e r H. unfold solvable, ev. rewrite H. split; reflexivity. Qed.

Lemma tres_ext : forall p q, (forall h, p h = q h) -> tres p = tres q.
Proof.
  intros p q H. unfold tres. destruct tx as [l|]; [|reflexivity].
  rewrite (existsb_ext_ p q l H). reflexivity.
Qed.

Lemma field_search_tres : forall P, field_search o (pure_doc d) f cst P = Ok (tres P).
Proof.
  intros P. unfold field_search, pure_doc, tres, tx. cbn [bind].
  destruct (d f) as [x|]; [|reflexivity]. rewrite search_value_texts. reflexivity.
Qed.

Lemma solve_search_tres : forall sr,
  solve_body o (ESearch sr f cst) (pure_doc d) = Ok (tres (search o sr)).
Proof. intros sr. apply field_search_tres. Qed.

Lemma ev_search : forall sr, ev (ESearch sr f cst) = tres (search o sr).
Proof. intros sr. unfold ev. rewrite solve_search_tres. reflexivity. Qed.

Lemma mres_string : forall s,
  read_numeric o ic s = None -> mres (YStr s) = tres (documented o ic s).
Proof.
  intros s H. unfold mres, tres, tx. cbn [sem_scalar]. rewrite H. unfold sem_string, cst.
  destruct (d f) as [x|]; reflexivity.
Qed.

(* ---- what the accumulator holds, counted by result ---- *)
Definition Wr (r : res3) (ci : bool) (mt : mtype) : nat :=
  bitr r (tres (fun h => mtype_holds ci mt h)).
Definition exw (r : res3) (i : identifier) : nat :=
  if is_nil (pat_str i) then bitr r (tres (fun h => str_eqb [] h)) else idw (Wr r) MTExact i.
Definition rxw (r : res3) (i : identifier) : nat :=
  bitr r (tres (fun h => re_match o (pat_str i) (id_ci i) h)).

Definition accc (r : res3) (a : seqacc) : nat :=
  sumf (exw r) (a_exact a) + sumf (idw (Wr r) MTStartsWith) (a_starts a)
  + sumf (idw (Wr r) MTEndsWith) (a_ends a) + sumf (idw (Wr r) MTContains) (a_contains a)
  + sumf (rxw r) (a_regex a) + sumf (fun e => bitr r (ev e)) (a_rest a).

(* the expressions kept aside (comparisons, `*`) *)
Definition rshape (e : expr) : Prop :=
  match e with EBexp _ _ _ => True | ESearch SAny _ _ => True | _ => False end.

Definition ainv (a : seqacc) : Prop :=
  a_cast a = cst /\ Forall (fun e => rshape e /\ solvable e) (a_rest a).

Lemma idw_contains : forall r ci t,
  idw (Wr r) MTContains {| id_ci := ci; id_pat := PContains (fold_case ci t) |}
  = bitr r (tres (fun h => is_infix (lower_if ci t) (lower_if ci h))).
Proof.
  intros. unfold idw, Wr. cbn [needle_of id_pat id_ci]. f_equal. apply tres_ext.
  intros h. apply mt_contains.
Qed.

Lemma idw_ends : forall r ci t,
  idw (Wr r) MTEndsWith {| id_ci := ci; id_pat := PEndsWith (fold_case ci t) |}
  = bitr r (tres (fun h => is_suffix (lower_if ci t) (lower_if ci h))).
Proof.
  intros. unfold idw, Wr. cbn [needle_of id_pat id_ci]. f_equal. apply tres_ext.
  intros h. apply mt_ends.
Qed.

Lemma idw_starts : forall r ci t,
  idw (Wr r) MTStartsWith {| id_ci := ci; id_pat := PStartsWith (fold_case ci t) |}
  = bitr r (tres (fun h => is_prefix (lower_if ci t) (lower_if ci h))).
Proof.
  intros. unfold idw, Wr. cbn [needle_of id_pat id_ci]. f_equal. apply tres_ext.
  intros h. apply mt_starts.
Qed.

Lemma exw_new : forall r ci t,
  exw r {| id_ci := ci; id_pat := PExact (fold_case ci t) |}
  = bitr r (tres (fun h => str_eqb (lower_if ci t) (lower_if ci h))).
Proof.
  intros r ci t. unfold exw, idw, Wr. cbn [pat_str needle_of id_pat id_ci].
  destruct (is_nil (fold_case ci t)) eqn:E; f_equal; apply tres_ext; intros h;
    rewrite <- exact_meaning, E; reflexivity.
Qed.

Lemma exw_literal : forall r t,
  exw r (exact_id t) = bitr r (tres (fun h => str_eqb t h)).
Proof.
  intros r t. unfold exw, idw, Wr, exact_id. cbn [pat_str needle_of id_pat id_ci].
  destruct t as [|x t]; cbn [is_nil]; reflexivity.
Qed.

Lemma rxw_new : forall r ci re,
  rxw r {| id_ci := ci; id_pat := PRegex re |} = bitr r (tres (fun h => re_match o re ci h)).
Proof. reflexivity. Qed.


Ltac acc_simpl :=
  cbn [push_exact push_starts push_ends push_contains push_regex push_rest
       flag_string flag_number flag_boolean flag_cast flag_mapping set_flags
       a_exact a_starts a_ends a_contains a_regex a_rest a_cast a_boolean a_number a_string
       a_mapping].

Lemma rest_step0 : forall a v ex a',
  solvable ex -> ev ex = mres v -> rshape ex -> ainv a ->
  a_exact a' = a_exact a -> a_starts a' = a_starts a -> a_ends a' = a_ends a ->
  a_contains a' = a_contains a -> a_regex a' = a_regex a -> a_rest a' = a_rest a ++ [ex] ->
  a_cast a' = a_cast a ->
  ainv a' /\ forall r, accc r a' = accc r a + bitr r (mres v).
Proof.
  intros a v ex a' Hsol Hev Hs [Hc Hr] E1 E2 E3 E4 E5 E6 E7.
  split.
  - split; [rewrite E7; exact Hc|]. rewrite E6. apply Forall_app. split; [exact Hr|].
    constructor; [split; assumption|constructor].
  - intros r. unfold accc. rewrite E1, E2, E3, E4, E5, E6, sumf_app. cbn [sumf]. rewrite Hev.
    lia.
Qed.

Lemma rest_step : forall a v ex a',
  base_mod m = true -> scalar_yaml v = true -> excluded m v = false ->
  value_expr o ic (ki_of m f) v = Ok ex -> rshape ex -> ainv a ->
  a_exact a' = a_exact a -> a_starts a' = a_starts a -> a_ends a' = a_ends a ->
  a_contains a' = a_contains a -> a_regex a' = a_regex a -> a_rest a' = a_rest a ++ [ex] ->
  a_cast a' = a_cast a ->
  ainv a' /\ forall r, accc r a' = accc r a + bitr r (mres v).
Proof.
  intros a v ex a' Hm Hv Hx Hex Hs Hinv.
  destruct (solvable_intro ex _ (inner o ic m f v ex Hm Hv Hx Hex d)) as [Hsol Hev].
  apply rest_step0; assumption.
Qed.

Lemma id_step : forall a a' v (w : res3 -> nat) P,
  ainv a -> mres v = tres P -> (forall r, w r = bitr r (tres P)) ->
  a_cast a' = cst -> a_rest a' = a_rest a ->
  (forall r, accc r a' = accc r a + w r) ->
  ainv a' /\ forall r, accc r a' = accc r a + bitr r (mres v).
Proof.
  intros a a' v w P [Hc Hr] Hm Hw E1 E2 Hacc. split.
  - split; [exact E1|]. rewrite E2. exact Hr.
  - intros r. rewrite Hacc, Hw, Hm. reflexivity.
Qed.

Lemma mres_literal : forall v t,
  m = KStr ->
  match v with
  | YBool b => t = show_bool b | YInt z => t = show_Z z | YFloat y => t = f64_show o y | _ => False
  end ->
  mres v = tres (fun h => str_eqb t h).
Proof.
  intros v t Hm Hv. unfold mres, tres, tx, cst. rewrite Hm.
  destruct v; try contradiction; subst t; cbn [sem_scalar]; unfold sem_literal;
    destruct (d f) as [x|]; reflexivity.
Qed.

Lemma any_step : forall a a' s cb,
  read_numeric o ic s = None -> (forall h, documented o ic s h = true) ->
  ainv a -> cb = cst ->
  a_exact a' = a_exact a -> a_starts a' = a_starts a -> a_ends a' = a_ends a ->
  a_contains a' = a_contains a -> a_regex a' = a_regex a ->
  a_rest a' = a_rest a ++ [ESearch SAny f cb] -> a_cast a' = cst ->
  ainv a' /\ forall r, accc r a' = accc r a + bitr r (mres (YStr s)).
Proof.
  intros a a' s cb En Hd Hinv Hcb E1 E2 E3 E4 E5 E6 E7. subst cb.
  destruct (solvable_intro _ _ (solve_search_tres SAny)) as [Hsol Hev].
  apply rest_step0 with (ex := ESearch SAny f cst); try assumption; try exact I.
  - rewrite Hev, (mres_string s En). apply tres_ext. intros h. rewrite Hd. reflexivity.
  - rewrite E7. symmetry. apply Hinv.
Qed.

Lemma base_cases : base_mod m = true -> m = KPlain \/ m = KInt \/ m = KFlt \/ m = KStr.
Proof. destruct m; intros H; try discriminate H; auto. Qed.

Ltac rest_tac Em v :=
  match goal with
  | |- ainv (push_rest _ ?ex) /\ _ =>
      apply (rest_step _ v ex); try assumption; try (rewrite Em; reflexivity);
      try reflexivity; try exact I; try (acc_simpl; rewrite ?orb_false_r; reflexivity)
  end.

Ltac acc_tac :=
  let r := fresh "r" in
  intros r; unfold accc; acc_simpl; rewrite ?sumf_app; cbn [sumf]; lia.

Ltac cast_tac Em Hinv :=
  let Hc := fresh "Hc" in
  destruct Hinv as [Hc _]; unfold cst in Hc |- *; rewrite Em in Hc |- *; acc_simpl;
  rewrite ?orb_false_r, ?orb_true_r; try exact Hc; reflexivity.

Ltac lit_tac Em Hinv v t :=
  apply (id_step _ _ v (fun r => exw r (exact_id t)) (fun h => str_eqb t h));
  [ exact Hinv
  | apply mres_literal; [exact Em|reflexivity]
  | intros r; apply exw_literal
  | cast_tac Em Hinv
  | reflexivity
  | acc_tac ].

Ltac msplit Hm Em H :=
  destruct (base_cases Hm) as [Em|[Em|[Em|Em]]]; rewrite Em in H;
  cbn [ki_of k_misc k_f k_e misc_of misc_is modsym_eqb key_expr] in H.

Lemma step : forall a a' v,
  base_mod m = true -> scalar_yaml v = true -> excluded m v = false ->
  seq_member o ic (ki_of m f) (key_expr m f) a v None = Ok a' ->
  ainv a -> ainv a' /\ forall r, accc r a' = accc r a + bitr r (mres v).
Proof.
  intros a a' v Hm Hv Hx H Hinv.
  destruct v as [|b|z|y|s|l|kv|tg v']; try discriminate Hv.
  - (* null *)
    cbn [seq_member] in H. inversion H; subst a'; clear H.
    apply (rest_step a YNull (cmp_expr (key_expr m f) BEqual ENull)); try assumption;
      try reflexivity; try exact I.
  - (* boolean *)
    cbn [seq_member] in H.
    msplit Hm Em H; inversion H; subst a'; clear H.
    + rest_tac Em (YBool b).
    + rest_tac Em (YBool b).
    + rest_tac Em (YBool b).
    + lit_tac Em Hinv (YBool b) (show_bool b).
  - (* integer *)
    cbn [seq_member] in H. unfold number_of, yint_as_i64 in H.
    destruct (in_i64 z) eqn:Ez.
    + msplit Hm Em H; inversion H; subst a'; clear H.
      * rest_tac Em (YInt z); rewrite Em; unfold value_expr, number_of, yint_as_i64; rewrite Ez; reflexivity.
      * rest_tac Em (YInt z); rewrite Em; unfold value_expr, number_of, yint_as_i64; rewrite Ez; reflexivity.
      * rest_tac Em (YInt z); rewrite Em; unfold value_expr, number_of, yint_as_i64; rewrite Ez; reflexivity.
      * lit_tac Em Hinv (YInt z) (show_Z z).
    + msplit Hm Em H; try discriminate H;
        [| |rewrite Em in Hx; cbn [excluded] in Hx; rewrite Ez in Hx; discriminate Hx];
        inversion H; subst a'; clear H.
      * rest_tac Em (YInt z); rewrite Em; unfold value_expr, number_of, yint_as_i64; rewrite Ez; reflexivity.
      * rest_tac Em (YInt z); rewrite Em; unfold value_expr, number_of, yint_as_i64; rewrite Ez; reflexivity.
  - (* float *)
    cbn [seq_member] in H.
    msplit Hm Em H; try discriminate H; inversion H; subst a'; clear H.
    + rest_tac Em (YFloat y).
    + rest_tac Em (YFloat y).
    + lit_tac Em Hinv (YFloat y) (f64_show o y).
  - (* string *)
    destruct (read_numeric o ic s) as [[op c]|] eqn:En.
    + (* a numeric pattern *)
      destruct (into_id_numeric o ic s op c En) as [Hid [Hop Hc]].
      pose proof (sse_numeric o ic (ki_of m f) s op c En) as [_ [_ He]].
      unfold seq_member in H. rewrite Hid in H. cbn [bind id_pat id_ci] in H.
      destruct (numeric_expr_num (key_expr m f) op c Hop) as [Hn Hsp].
      unfold misc_pattern_check in H. rewrite Hsp in H.
      msplit Hm Em H; cbn [bind] in H; try discriminate H;
        destruct c as [zc|yc], op; try discriminate Hop;
        cbn [num_pat numeric_expr cmp_expr bind] in H; inversion H; subst a'; clear H;
        rest_tac Em (YStr s); rewrite Em in He |- *; exact He.
    + destruct (is_string_predicate o ic s) eqn:Es.
      * (* a string predicate *)
        pose proof (into_id_string o ic s Es) as Hid.
        pose proof (mres_string s En) as Hmr.
        rewrite isp_eq in Es.
        assert (Hd : forall h, documented o ic s h =
                               doc_k o (fst (split_case ic s)) (classify (snd (split_case ic s))) h)
          by (intros h; apply documented_eq).
        unfold seq_member in H. rewrite Hid in H. cbn [bind id_pat id_ci] in H.
        set (ci := fst (split_case ic s)) in *.
        destruct (classify (snd (split_case ic s))) as [re| | |t|t|t|t];
          cbn [spec_pat doc_k isp_k] in *; try discriminate Es.
        -- (* regex *)
           msplit Hm Em H; cbn [misc_pattern_check is_string_pattern bind] in H;
             try discriminate H; inversion H; subst a'; clear H;
             (apply (id_step _ _ (YStr s) (fun r => rxw r {| id_ci := ci; id_pat := PRegex re |})
                       (documented o ic s));
              [ exact Hinv | exact Hmr
              | intros r; rewrite rxw_new; f_equal; apply tres_ext; intros h; rewrite Hd; reflexivity
              | cast_tac Em Hinv | reflexivity | acc_tac ]).
        -- (* any *)
           msplit Hm Em H; cbn [misc_pattern_check is_string_pattern bind] in H;
             try discriminate H; inversion H; subst a'; clear H;
             (match goal with
              | |- ainv (push_rest _ (ESearch SAny _ ?cb)) /\ _ => apply (any_step _ _ s cb)
              end;
              [ exact En | exact Hd | exact Hinv | cast_tac Em Hinv
              | reflexivity | reflexivity | reflexivity | reflexivity | reflexivity | reflexivity
              | cast_tac Em Hinv ]).
        -- (* contains *)
           msplit Hm Em H; cbn [misc_pattern_check is_string_pattern bind] in H;
             try discriminate H; inversion H; subst a'; clear H;
             (apply (id_step _ _ (YStr s)
                       (fun r => idw (Wr r) MTContains {| id_ci := ci; id_pat := PContains (fold_case ci t) |})
                       (documented o ic s));
              [ exact Hinv | exact Hmr
              | intros r; rewrite idw_contains; f_equal; apply tres_ext; intros h; rewrite Hd; reflexivity
              | cast_tac Em Hinv | reflexivity | acc_tac ]).
        -- (* ends *)
           msplit Hm Em H; cbn [misc_pattern_check is_string_pattern bind] in H;
             try discriminate H; inversion H; subst a'; clear H;
             (apply (id_step _ _ (YStr s)
                       (fun r => idw (Wr r) MTEndsWith {| id_ci := ci; id_pat := PEndsWith (fold_case ci t) |})
                       (documented o ic s));
              [ exact Hinv | exact Hmr
              | intros r; rewrite idw_ends; f_equal; apply tres_ext; intros h; rewrite Hd; reflexivity
              | cast_tac Em Hinv | reflexivity | acc_tac ]).
        -- (* starts *)
           msplit Hm Em H; cbn [misc_pattern_check is_string_pattern bind] in H;
             try discriminate H; inversion H; subst a'; clear H;
             (apply (id_step _ _ (YStr s)
                       (fun r => idw (Wr r) MTStartsWith {| id_ci := ci; id_pat := PStartsWith (fold_case ci t) |})
                       (documented o ic s));
              [ exact Hinv | exact Hmr
              | intros r; rewrite idw_starts; f_equal; apply tres_ext; intros h; rewrite Hd; reflexivity
              | cast_tac Em Hinv | reflexivity | acc_tac ]).
        -- (* exact *)
           msplit Hm Em H; cbn [misc_pattern_check is_string_pattern bind] in H;
             try discriminate H; inversion H; subst a'; clear H;
             (apply (id_step _ _ (YStr s)
                       (fun r => exw r {| id_ci := ci; id_pat := PExact (fold_case ci t) |})
                       (documented o ic s));
              [ exact Hinv | exact Hmr
              | intros r; rewrite exw_new; f_equal; apply tres_ext; intros h; rewrite Hd; reflexivity
              | cast_tac Em Hinv | reflexivity | acc_tac ]).
      * (* neither: the loader rejects it *)
        unfold seq_member in H. rewrite (into_id_nonstring o ic s En Es) in H. discriminate H.
Qed.


Lemma steps : forall vs a a',
  base_mod m = true -> forallb scalar_yaml vs = true ->
  (forall v, In v vs -> excluded m v = false) ->
  seq_members o ic (ki_of m f) (key_expr m f) a vs (map (fun _ => None) vs) = Ok a' ->
  ainv a -> ainv a' /\ forall r, accc r a' = accc r a + cn r (map mres vs).
Proof.
  induction vs as [|v vs IH]; intros a a' Hm Hvs Hx H Hinv.
  - cbn [map seq_members] in H. inversion H; subst a'. split; [exact Hinv|].
    intros r. unfold cn. cbn [map sumf]. lia.
  - cbn [map seq_members tl] in H. cbn [forallb] in Hvs. apply andb_prop in Hvs.
    destruct Hvs as [Hv Hvs].
    destruct (seq_member o ic (ki_of m f) (key_expr m f) a v None) as [a1|k|n] eqn:Hs;
      cbn [bind] in H; try discriminate H.
    destruct (step a a1 v Hm Hv (Hx v (or_introl eq_refl)) Hs Hinv) as [Hinv1 Hacc1].
    destruct (IH a1 a' Hm Hvs (fun v' Hin => Hx v' (or_intror Hin)) H Hinv1) as [Hinv' Hacc'].
    split; [exact Hinv'|]. intros r. rewrite Hacc', Hacc1. cbn [map]. rewrite cn_cons. lia.
Qed.

(* ====================================================================================== *)
(* (D) the group built by finish_seq                                                       *)
(* ====================================================================================== *)

Definition norest (a : seqacc) : seqacc :=
  {| a_exact := a_exact a; a_starts := a_starts a; a_ends := a_ends a;
     a_contains := a_contains a; a_regex := a_regex a; a_rest := [];
     a_boolean := a_boolean a; a_mapping := a_mapping a; a_number := a_number a;
     a_string := a_string a; a_cast := a_cast a |}.

Lemma group_split : forall a, group_of f a = group_of f (norest a) ++ a_rest a.
Proof.
  intros a. unfold group_of. cbn [norest a_cast a_rest a_exact a_regex].
  change (needles_of (norest a)) with (needles_of a).
  rewrite app_nil_r, <- !app_assoc. reflexivity.
Qed.

Lemma rest_inv_norest : forall a, rest_inv f (norest a).
Proof. intros a. unfold rest_inv. cbn [norest a_rest]. constructor. Qed.

Lemma gpre_shape : forall a,
  Forall (fun e => exists sr, e = ESearch sr f (a_cast a)) (group_of f (norest a)).
Proof.
  intros a. unfold group_of. cbn [norest a_cast a_rest a_exact a_regex].
  change (needles_of (norest a)) with (needles_of a).
  repeat (apply Forall_app; split).
  - apply Forall_forall. intros e He. apply in_map_iff in He. destruct He as [i [<- _]].
    eexists; reflexivity.
  - destruct (fst (needles_of a)) as [|mt [|mt' l]]; cbn [g1_of];
      repeat constructor; eexists; reflexivity.
  - destruct (snd (needles_of a)) as [|mt l]; cbn [g2_of];
      repeat constructor; eexists; reflexivity.
  - destruct (map pat_str (filter (fun i => negb (id_ci i)) (a_regex a))) as [|p [|p' l]];
      cbn [g3_of]; repeat constructor; eexists; reflexivity.
  - destruct (map pat_str (filter (fun i => id_ci i) (a_regex a))) as [|p [|p' l]];
      cbn [g3_of]; repeat constructor; eexists; reflexivity.
  - constructor.
Qed.

(* how many members with result r a group element stands for *)
Definition ecnt (r : res3) (x : expr) : nat :=
  match x with
  | ESearch (SAho ctx ci) _ _ => sumf (Wr r ci) ctx
  | ESearch (SRegexSet ps ci) _ _ => sumf (fun p => bitr r (tres (fun h => re_match o p ci h))) ps
  | _ => bitr r (ev x)
  end.
Definition gcn (r : res3) (g : list expr) : nat := sumf (ecnt r) g.

Lemma g0_cn : forall r (l : list identifier),
  gcn r (map (fun _ => ESearch (SExact []) f cst) l)
  = sumf (fun _ => bitr r (tres (fun h => str_eqb [] h))) l.
Proof.
  intros r l. unfold gcn. rewrite sumf_map. apply sumf_ext. intros i _.
  cbn [ecnt]. rewrite ev_search. reflexivity.
Qed.

Lemma g1_cn : forall r ctx, gcn r (g1_of f cst ctx) = sumf (Wr r false) ctx.
Proof.
  intros r ctx. unfold gcn. destruct ctx as [|mt [|mt' l]]; [reflexivity| |].
  - cbn [g1_of sumf]. f_equal.
    destruct mt; cbn [search_of_mtype ecnt]; rewrite ev_search; reflexivity.
  - cbn [g1_of]. cbn [sumf ecnt]. lia.
Qed.

Lemma g2_cn : forall r ctx, gcn r (g2_of f cst ctx) = sumf (Wr r true) ctx.
Proof.
  intros r ctx. unfold gcn. destruct ctx as [|mt l]; [reflexivity|].
  cbn [g2_of]. cbn [sumf ecnt]. lia.
Qed.

Lemma g3_cn : forall r ci rs,
  gcn r (g3_of f cst ci rs) = sumf (fun p => bitr r (tres (fun h => re_match o p ci h))) rs.
Proof.
  intros r ci rs. unfold gcn. destruct rs as [|p [|p' l]]; [reflexivity| |].
  - cbn [g3_of sumf ecnt]. rewrite ev_search. reflexivity.
  - cbn [g3_of]. cbn [sumf ecnt]. lia.
Qed.

Lemma rest_cn : forall r l, Forall rshape l -> gcn r l = sumf (fun e => bitr r (ev e)) l.
Proof.
  intros r l H. unfold gcn. apply sumf_ext. intros e He.
  rewrite Forall_forall in H. specialize (H e He).
  destruct e; try contradiction; [reflexivity|]. destruct s; try contradiction. reflexivity.
Qed.

Lemma gcn_app : forall r l1 l2, gcn r (l1 ++ l2) = gcn r l1 + gcn r l2.
Proof. intros. apply sumf_app. Qed.

Lemma group_cn : forall r a,
  a_cast a = cst -> Forall rshape (a_rest a) -> gcn r (group_of f a) = accc r a.
Proof.
  intros r a Hc Hr. unfold group_of, accc. rewrite Hc.
  rewrite !gcn_app.
  rewrite g0_cn, g1_cn, g2_cn, !g3_cn, (rest_cn r _ Hr).
  rewrite !sumf_map.
  pose proof (needles_w (Wr r) a) as Hn. unfold ctxw in Hn.
  rewrite (sumf_split (fun i => is_nil (pat_str i)) (exw r)
             (fun _ => bitr r (tres (fun h => str_eqb [] h))) (idw (Wr r) MTExact) (a_exact a)).
  2:{ intros x Hx. unfold exw. rewrite Hx. reflexivity. }
  2:{ intros x Hx. unfold exw. rewrite Hx. reflexivity. }
  rewrite (sumf_split (fun i => id_ci i) (rxw r)
             (fun i => bitr r (tres (fun h => re_match o (pat_str i) true h)))
             (fun i => bitr r (tres (fun h => re_match o (pat_str i) false h))) (a_regex a)).
  2:{ intros x Hx. unfold rxw. rewrite Hx. reflexivity. }
  2:{ intros x Hx. unfold rxw. rewrite Hx. reflexivity. }
  cbv beta. lia.
Qed.


(* every element of the group can be solved *)
Lemma gpre_solvable : forall a x, a_cast a = cst -> In x (group_of f (norest a)) ->
  exists sr, x = ESearch sr f cst /\ solvable x /\ ev x = tres (search o sr).
Proof.
  intros a x Hc Hx. pose proof (gpre_shape a) as H. rewrite Forall_forall in H.
  destruct (H x Hx) as [sr ->]. rewrite Hc. exists sr. split; [reflexivity|].
  apply solvable_intro, solve_search_tres.
Qed.

Lemma group_solvable : forall a, ainv a -> Forall solvable (group_of f a).
Proof.
  intros a [Hc Hr]. rewrite group_split. apply Forall_app. split.
  - apply Forall_forall. intros x Hx. destruct (gpre_solvable a x Hc Hx) as [sr [_ [H _]]]. exact H.
  - eapply Forall_impl; [|exact Hr]. intros e [_ H]; exact H.
Qed.

Lemma ainv_rshape : forall a, ainv a -> Forall rshape (a_rest a).
Proof. intros a [_ Hr]. eapply Forall_impl; [|exact Hr]. intros e [H _]; exact H. Qed.

Lemma rshape_ecnt : forall r e, rshape e -> ecnt r e = bitr r (ev e).
Proof.
  intros r e H. destruct e; try contradiction; [reflexivity|]. destruct s; try contradiction.
  reflexivity.
Qed.

(* ---- plain evaluation of a batch: some needle holds ---- *)
Lemma existsb_swap : forall {A B} (P : A -> B -> bool) (la : list A) (lb : list B),
  existsb (fun b => existsb (fun a => P a b) la) lb = existsb (fun a => existsb (P a) lb) la.
Proof.
  intros A B P la lb. induction lb as [|b lb IH].
  - cbn [existsb]. induction la as [|a la IHa]; [reflexivity|]. cbn [existsb]. exact IHa.
  - cbn [existsb]. rewrite IH. clear IH. induction la as [|a la IHa]; [reflexivity|].
    cbn [existsb]. rewrite <- IHa. btauto.
Qed.

Lemma existsb_posT : forall {A} (q : A -> bool) l,
  existsb q l = (0 <? sumf (fun a => bitr T (if q a then T else F)) l)%nat.
Proof.
  intros A q l. induction l as [|a l IH]; [reflexivity|].
  cbn [existsb sumf]. rewrite IH. destruct (q a); cbn [bitr res3_eqb orb]; [|reflexivity].
  symmetry. apply Nat.ltb_lt. lia.
Qed.

Lemma tres_any : forall {A} (P : A -> str -> bool) (l : list A), l <> [] ->
  (0 <? bitr T (tres (fun h => existsb (fun a => P a h) l)))%nat
  = (0 <? sumf (fun a => bitr T (tres (P a))) l)%nat /\
  (0 <? bitr T (tres (fun h => existsb (fun a => P a h) l))
        + bitr F (tres (fun h => existsb (fun a => P a h) l)))%nat
  = (0 <? sumf (fun a => bitr T (tres (P a))) l + sumf (fun a => bitr F (tres (P a))) l)%nat.
Proof.
  intros A P l Hne. unfold tres. destruct tx as [ts|].
  - rewrite existsb_swap. split.
    + rewrite <- existsb_posT.
      destruct (existsb (fun a => existsb (P a) ts) l); reflexivity.
    + rewrite <- sumf_plus.
      rewrite (sumf_ext _ (fun _ => 1) l).
      2:{ intros a _. destruct (existsb (P a) ts); reflexivity. }
      rewrite sumf_one.
      destruct (existsb (fun a => existsb (P a) ts) l); cbn [bitr res3_eqb Nat.add];
        destruct l; try congruence; reflexivity.
  - cbn [bitr res3_eqb]. rewrite !sumf_zero. split; reflexivity.
Qed.

Lemma elem_max : forall a x, ainv a -> In x (group_of f a) ->
  (0 <? bitr T (ev x))%nat = (0 <? ecnt T x)%nat /\
  (0 <? bitr T (ev x) + bitr F (ev x))%nat = (0 <? ecnt T x + ecnt F x)%nat.
Proof.
  intros a x Hinv Hx. rewrite group_split in Hx. apply in_app_or in Hx. destruct Hx as [Hx|Hx].
  - destruct (gpre_solvable a x (proj1 Hinv) Hx) as [sr [-> [_ Hev]]].
    pose proof (group_okb f (norest a) (rest_inv_norest a)) as Hok.
    rewrite Forall_forall in Hok. specialize (Hok _ Hx).
    destruct sr; try (split; reflexivity).
    + (* automaton *)
      rewrite Hev. cbn [ecnt search okb] in *. unfold Wr.
      apply (tres_any (fun mt h => mtype_holds ci mt h)). destruct ctx; [discriminate Hok|discriminate].
    + (* regex set *)
      rewrite Hev. cbn [ecnt search okb] in *.
      apply (tres_any (fun p h => re_match o p ci h)). destruct pats; [discriminate Hok|discriminate].
  - pose proof (ainv_rshape a Hinv) as Hr. rewrite Forall_forall in Hr.
    rewrite !(rshape_ecnt _ x (Hr x Hx)). split; reflexivity.
Qed.

Lemma group_max : forall a, ainv a ->
  max3 (map ev (group_of f a))
  = if (0 <? accc T a)%nat then T else if (0 <? accc T a + accc F a)%nat then F else M.
Proof.
  intros a Hinv. rewrite max3_cn, !cn_map.
  rewrite <- !(group_cn _ a (proj1 Hinv) (ainv_rshape a Hinv)). unfold gcn.
  rewrite (sumf_pos (fun x => bitr T (ev x)) (ecnt T) (group_of f a)).
  2:{ intros x Hx. apply (elem_max a x Hinv Hx). }
  rewrite <- !sumf_plus.
  rewrite (sumf_pos (fun x => bitr T (ev x) + bitr F (ev x)) (fun x => ecnt T x + ecnt F x)
             (group_of f a)).
  2:{ intros x Hx. apply (elem_max a x Hinv Hx). }
  reflexivity.
Qed.

Lemma or_fold_ev : forall g acc, Forall solvable g -> acc <> T ->
  or_fold acc (map (fun x (_ : unit) => solve_body o x (pure_doc d)) g)
  = Ok (or3 acc (max3 (map ev g))).
Proof.
  induction g as [|x g IH]; intros acc Hg Hacc.
  - cbn [map or_fold max3 fold_right]. destruct acc; reflexivity.
  - inversion Hg as [|? ? Hx Hg']; subst. cbn [map or_fold]. rewrite Hx. cbn [bind].
    change (max3 (ev x :: map ev g)) with (or3 (ev x) (max3 (map ev g))).
    destruct (ev x).
    + destruct acc; reflexivity.
    + rewrite IH by (try assumption; discriminate).
      destruct acc, (max3 (map ev g)); try reflexivity; congruence.
    + rewrite IH by assumption.
      destruct acc, (max3 (map ev g)); try reflexivity; congruence.
Qed.


(* ---- what finish_seq returns, for any key ---- *)
Lemma finish_seq_gen : forall ki a,
  finish_seq ki a =
  if is_match_key (k_e ki) &&
     (1 <? b2n (a_boolean a) + b2n (a_mapping a) + b2n (a_number a) + b2n (a_string a))%nat
  then Err EInvalidIdent
  else if misc_is MInt (k_misc ki) && (a_boolean a || a_mapping a || a_string a)
  then Err EInvalidIdent
  else if misc_is MStr (k_misc ki) && (a_boolean a || a_mapping a || a_number a)
  then Err EInvalidIdent
  else
    match group_of (k_f ki) a with
    | [] => Err EInvalidIdent
    | [x] =>
        if negb (multiple_of a) &&
           negb (match k_e ki with EMatch (MOf c) _ => negb (c =? 1)%Z | _ => false end)
        then Ok x
        else match k_e ki with
             | EMatch mm _ => Ok (EMatch mm x)
             | _ => Ok (EGroup BOr (group_of (k_f ki) a))
             end
    | _ =>
        match k_e ki with
        | EMatch mm _ => Ok (EMatch mm (EGroup BOr (group_of (k_f ki) a)))
        | _ => Ok (EGroup BOr (group_of (k_f ki) a))
        end
    end.
Proof.
  intros ki a. unfold finish_seq, group_of, multiple_of, needles_of.
  destruct (add_needles MTExact (filter (fun i => negb (is_nil (pat_str i))) (a_exact a))
    (add_needles MTEndsWith (a_ends a)
       (add_needles MTContains (a_contains a)
          (add_needles MTStartsWith (a_starts a) ([], []))))) as [c0 ic0].
  cbn [fst snd].
  destruct c0 as [|m1 [|m' c0]]; destruct ic0 as [|mi ic0];
    destruct (map pat_str (filter (fun i => negb (id_ci i)) (a_regex a))) as [|r [|r' rs]];
    destruct (map pat_str (filter (fun i => id_ci i) (a_regex a))) as [|r2 [|r2' rs2]];
    reflexivity.
Qed.

Lemma finish_plain_shape : forall a e,
  base_mod m = true -> finish_seq (ki_of m f) a = Ok e ->
  e = EGroup BOr (group_of f a) \/ group_of f a = [e].
Proof.
  intros a e Hm. rewrite finish_seq_gen.
  assert (Hk : is_match_key (k_e (ki_of m f)) = false) by (destruct m; try discriminate Hm; reflexivity).
  rewrite Hk. cbn [andb k_f ki_of].
  destruct (misc_is MInt (k_misc (ki_of m f)) && (a_boolean a || a_mapping a || a_string a));
    [discriminate|].
  destruct (misc_is MStr (k_misc (ki_of m f)) && (a_boolean a || a_mapping a || a_number a));
    [discriminate|].
  destruct (group_of f a) as [|x [|y l]]; [discriminate| |].
  - destruct (negb (multiple_of a) && _); destruct m; try discriminate Hm;
      cbn [k_e key_expr]; intros H; inversion H; subst; auto.
  - destruct m; try discriminate Hm; cbn [k_e key_expr]; intros H; inversion H; subst; auto.
Qed.

Definition acc_init : seqacc := if misc_is MStr (misc_of m) then flag_cast acc0 else acc0.

Lemma acc_init_inv : base_mod m = true -> ainv acc_init /\ forall r, accc r acc_init = 0.
Proof.
  intros Hm. unfold acc_init, ainv, cst.
  destruct m; try discriminate Hm; cbn [misc_of misc_is modsym_eqb];
    (split; [split; [reflexivity|constructor]|intros r; reflexivity]).
Qed.

(* the list under a plain / int() / flt() / str() key: some member holds *)
Lemma plain_list : forall vs a e,
  base_mod m = true -> forallb scalar_yaml vs = true ->
  (forall v, In v vs -> excluded m v = false) ->
  seq_members o ic (ki_of m f) (key_expr m f) acc_init vs (map (fun _ => None) vs) = Ok a ->
  finish_seq (ki_of m f) a = Ok e ->
  solve_body o e (pure_doc d) = Ok (max3 (map mres vs)).
Proof.
  intros vs a e Hm Hvs Hx Hseq Hfin.
  destruct (acc_init_inv Hm) as [Hinv0 Hacc0].
  destruct (steps vs acc_init a Hm Hvs Hx Hseq Hinv0) as [Hinv Hacc].
  assert (Hmax : max3 (map ev (group_of f a)) = max3 (map mres vs)).
  { rewrite (group_max a Hinv), (max3_cn (map mres vs)), !Hacc, !Hacc0. reflexivity. }
  pose proof (group_solvable a Hinv) as Hsol.
  destruct (finish_plain_shape a e Hm Hfin) as [->|Hg].
  - change (solve_body o (EGroup BOr (group_of f a)) (pure_doc d))
      with (or_fold M (map (fun x (_ : unit) => solve_body o x (pure_doc d)) (group_of f a))).
    rewrite (or_fold_ev _ M Hsol) by discriminate. rewrite Hmax.
    destruct (max3 (map mres vs)); reflexivity.
  - rewrite Hg in *. inversion Hsol as [|? ? He _]; subst. rewrite He. rewrite <- Hmax.
    cbn [map]. destruct (ev e); reflexivity.
Qed.


(* ====================================================================================== *)
(* (E) quantified keys: all(f) / of(f, c)                                                  *)
(* ====================================================================================== *)

Definition flip3 (r : res3) : res3 := match r with T => F | F => T | M => M end.

(* a quantifier over one element that is not a batch *)
Definition plainq (x : expr) : bool :=
  match x with
  | EBexp _ _ _ => true
  | ESearch (SAho _ _) _ _ | ESearch (SRegexSet _ _) _ _ => false
  | ESearch _ _ _ => true
  | _ => false
  end.

Lemma sb_all_plain : forall x d', plainq x = true ->
  solve_body o (EMatch MAll x) d' = solve_body o x d'.
Proof.
  intros x d' H. destruct x; try discriminate H; [reflexivity|].
  destruct s; try discriminate H; reflexivity.
Qed.

Lemma sb_of_plain : forall c x d', plainq x = true ->
  solve_body o (EMatch (MOf c) x) d' =
  if (c =? 0)%Z then (do r <- solve_body o x d'; Ok (flip3 r))
  else (do r <- solve_body o x d'; Ok (match r with T => if (1 <? c)%Z then F else T | y => y end)).
Proof.
  intros c x d' H. destruct x; try discriminate H; [reflexivity|].
  destruct s; try discriminate H; reflexivity.
Qed.

Lemma sb_all_aho : forall ctx ci,
  solve_body o (EMatch MAll (ESearch (SAho ctx ci) f cst)) (pure_doc d)
  = Ok (tres (fun h => (slow_aho ctx ci h =? len_Z ctx)%Z)).
Proof. intros. apply field_search_tres. Qed.

Lemma sb_all_rset : forall ps ci,
  solve_body o (EMatch MAll (ESearch (SRegexSet ps ci) f cst)) (pure_doc d)
  = Ok (tres (fun h => (regexset_hits o ps ci h =? len_Z ps)%Z)).
Proof. intros. apply field_search_tres. Qed.

Lemma sb_of_aho : forall c ctx ci,
  solve_body o (EMatch (MOf c) (ESearch (SAho ctx ci) f cst)) (pure_doc d)
  = if (c =? 0)%Z then Ok (flip3 (tres (search o (SAho ctx ci))))
    else Ok (tres (fun h => (c <=? slow_aho ctx ci h)%Z)).
Proof.
  intros c ctx ci. unfold solve_body. cbn [solve]. destruct (c =? 0)%Z.
  - rewrite field_search_tres. reflexivity.
  - apply field_search_tres.
Qed.

Lemma sb_of_rset : forall c ps ci,
  solve_body o (EMatch (MOf c) (ESearch (SRegexSet ps ci) f cst)) (pure_doc d)
  = if (c =? 0)%Z then Ok (flip3 (tres (search o (SRegexSet ps ci))))
    else Ok (tres (fun h => (c <=? regexset_hits o ps ci h)%Z)).
Proof.
  intros c ps ci. unfold solve_body. cbn [solve]. destruct (c =? 0)%Z.
  - rewrite field_search_tres. reflexivity.
  - apply field_search_tres.
Qed.

Lemma Qm_single : forall mm r, threshold_ok mm ->
  Qm mm [r] = match mm with
              | MAll => r
              | MOf c => if (c =? 0)%Z then flip3 r
                         else match r with T => if (1 <? c)%Z then F else T | F => F | M => M end
              end.
Proof.
  intros [|c] r H; cbn [Qm].
  - destruct r; reflexivity.
  - rewrite C02_cond.of3_single by exact H. destruct r; reflexivity.
Qed.

Lemma existsb_never : forall {A} (l : list A), existsb (fun _ => false) l = false.
Proof. intros A l. induction l as [|x l IH]; [reflexivity|exact IH]. Qed.

(* a batch with ONE needle under a quantifier *)
Lemma unit_batch : forall (P1 : str -> bool) (cnt : str -> Z),
  (forall h, cnt h = if P1 h then 1%Z else 0%Z) ->
  tres (fun h => (cnt h =? 1)%Z) = tres P1 /\
  forall c, (0 < c)%Z ->
    tres (fun h => (c <=? cnt h)%Z)
    = match tres P1 with T => if (1 <? c)%Z then F else T | F => F | M => M end.
Proof.
  intros P1 cnt Hc. split.
  - apply tres_ext. intros h. rewrite Hc. destruct (P1 h); reflexivity.
  - intros c Hpos. destruct (Z.ltb_spec 1 c) as [H1|H1].
    + rewrite (tres_ext _ (fun _ => false)).
      2:{ intros h. rewrite Hc. destruct (P1 h); lia. }
      unfold tres. destruct tx as [ts|]; [|reflexivity].
      rewrite existsb_never. destruct (existsb P1 ts); reflexivity.
    + rewrite (tres_ext _ P1).
      2:{ intros h. rewrite Hc. destruct (P1 h); lia. }
      destruct (tres P1); reflexivity.
Qed.

Lemma slow_aho_one : forall mt ci h,
  slow_aho [mt] ci h = if mtype_holds ci mt h then 1%Z else 0%Z.
Proof.
  intros. unfold slow_aho, count_true. cbn [filter]. destruct (mtype_holds ci mt h); reflexivity.
Qed.

Lemma rset_one : forall p ci h,
  regexset_hits o [p] ci h = if re_match o p ci h then 1%Z else 0%Z.
Proof.
  intros. unfold regexset_hits, count_true. cbn [filter]. destruct (re_match o p ci h); reflexivity.
Qed.

(* a quantifier directly over ONE element that stands for one member *)
Lemma solve_match_unit : forall mm x, threshold_ok mm -> solvable x ->
  (rshape x \/ exists sr, x = ESearch sr f cst /\ is_listlike x = false /\ okb x = true) ->
  solve_body o (EMatch mm x) (pure_doc d) = Ok (Qm mm [ev x]).
Proof.
  intros mm x Hth Hsol Hsh. rewrite (Qm_single mm (ev x) Hth).
  assert (Hplain : plainq x = true ->
            solve_body o (EMatch mm x) (pure_doc d) =
            Ok match mm with
               | MAll => ev x
               | MOf c => if (c =? 0)%Z then flip3 (ev x)
                          else match ev x with
                               | T => if (1 <? c)%Z then F else T | F => F | M => M
                               end
               end).
  { intros Hp. destruct mm as [|c].
    - rewrite (sb_all_plain x _ Hp). exact Hsol.
    - rewrite (sb_of_plain c x _ Hp), Hsol. cbn [bind].
      destruct (c =? 0)%Z; destruct (ev x); reflexivity. }
  destruct Hsh as [Hr|[sr [-> [Hl Hok]]]].
  - apply Hplain. destruct x; try contradiction; [reflexivity|]. destruct s; try contradiction.
    reflexivity.
  - destruct sr; try (apply Hplain; reflexivity).
    + (* automaton with one needle *)
      destruct ctx as [|mt [|mt' l]]; [discriminate Hok| |discriminate Hl].
      rewrite ev_search.
      destruct (unit_batch (fun h => mtype_holds ci mt h) (fun h => slow_aho [mt] ci h)
                  (fun h => slow_aho_one mt ci h)) as [U1 U2].
      assert (Hs : tres (search o (SAho [mt] ci)) = tres (fun h => mtype_holds ci mt h)).
      { apply tres_ext. intros h. cbn [search existsb]. apply orb_false_r. }
      rewrite Hs.
      destruct mm as [|c].
      * rewrite sb_all_aho. change (len_Z [mt]) with 1%Z. rewrite U1. reflexivity.
      * rewrite sb_of_aho, Hs. cbn [threshold_ok] in Hth.
        destruct (Z.eqb_spec c 0); [reflexivity|]. rewrite U2 by lia. reflexivity.
    + (* regex set with one pattern *)
      destruct pats as [|p [|p' l]]; [discriminate Hok| |discriminate Hl].
      rewrite ev_search.
      destruct (unit_batch (fun h => re_match o p ci h) (fun h => regexset_hits o [p] ci h)
                  (fun h => rset_one p ci h)) as [U1 U2].
      assert (Hs : tres (search o (SRegexSet [p] ci)) = tres (fun h => re_match o p ci h)).
      { apply tres_ext. intros h. cbn [search existsb]. apply orb_false_r. }
      rewrite Hs.
      destruct mm as [|c].
      * rewrite sb_all_rset. change (len_Z [p]) with 1%Z. rewrite U1. reflexivity.
      * rewrite sb_of_rset, Hs. cbn [threshold_ok] in Hth.
        destruct (Z.eqb_spec c 0); [reflexivity|]. rewrite U2 by lia. reflexivity.
Qed.

(* an element that is not a multi-needle batch stands for exactly one member *)
Lemma unit_ecnt : forall a x r, ainv a -> In x (group_of f a) -> is_listlike x = false ->
  ecnt r x = bitr r (ev x).
Proof.
  intros a x r Hinv Hx Hl. rewrite group_split in Hx. apply in_app_or in Hx. destruct Hx as [Hx|Hx].
  - destruct (gpre_solvable a x (proj1 Hinv) Hx) as [sr [-> [_ Hev]]].
    pose proof (group_okb f (norest a) (rest_inv_norest a)) as Hok.
    rewrite Forall_forall in Hok. specialize (Hok _ Hx).
    destruct sr; try reflexivity.
    + destruct ctx as [|mt [|mt' l]]; [discriminate Hok| |discriminate Hl].
      rewrite Hev. cbn [ecnt sumf]. rewrite Nat.add_0_r. unfold Wr. f_equal.
      apply tres_ext. intros h. cbn [search existsb]. symmetry. apply orb_false_r.
    + destruct pats as [|p [|p' l]]; [discriminate Hok| |discriminate Hl].
      rewrite Hev. cbn [ecnt sumf]. rewrite Nat.add_0_r. f_equal.
      apply tres_ext. intros h. cbn [search existsb]. symmetry. apply orb_false_r.
  - pose proof (ainv_rshape a Hinv) as Hr. rewrite Forall_forall in Hr.
    apply rshape_ecnt, Hr, Hx.
Qed.

Lemma elem_kind : forall a x, ainv a -> In x (group_of f a) ->
  solvable x /\
  (rshape x \/ exists sr, x = ESearch sr f cst /\ okb x = true).
Proof.
  intros a x Hinv Hx. pose proof (group_solvable a Hinv) as Hs. rewrite Forall_forall in Hs.
  split; [apply Hs, Hx|].
  rewrite group_split in Hx. apply in_app_or in Hx. destruct Hx as [Hx|Hx].
  - right. destruct (gpre_solvable a x (proj1 Hinv) Hx) as [sr [-> _]].
    pose proof (group_okb f (norest a) (rest_inv_norest a)) as Hok.
    rewrite Forall_forall in Hok. exists sr. split; [reflexivity|apply Hok, Hx].
  - left. pose proof (ainv_rshape a Hinv) as Hr. rewrite Forall_forall in Hr. apply Hr, Hx.
Qed.

(* the folds over a group whose elements can all be solved *)
Lemma map_solvable : forall g, Forall solvable g ->
  map (fun x (_ : unit) => solve_body o x (pure_doc d)) g = C06.lz (map ev g).
Proof.
  intros g H. induction H as [|x g Hx _ IH]; [reflexivity|].
  cbn [map]. rewrite IH, Hx. reflexivity.
Qed.

Lemma fold_ev : forall mm g, threshold_ok mm -> Forall solvable g ->
  solve_body o (EMatch mm (EGroup BOr g)) (pure_doc d) = Ok (Qm mm (map ev g)).
Proof.
  intros mm g Hth Hg. destruct mm as [|c].
  - change (solve_body o (EMatch MAll (EGroup BOr g)) (pure_doc d))
      with (and_fold (map (fun x (_ : unit) => solve_body o x (pure_doc d)) g)).
    rewrite (map_solvable g Hg). apply C02_cond.and_fold_fnt.
  - change (solve_body o (EMatch (MOf c) (EGroup BOr g)) (pure_doc d))
      with (of_fold c (map (fun x (_ : unit) => solve_body o x (pure_doc d)) g)).
    rewrite (map_solvable g Hg). apply C02_cond.of_fold_of3. exact Hth.
Qed.


(* ---- a multi-needle batch under a quantifier, on a value that is not an array ---- *)
Lemma tx_cases : m = KPlain ->
  tx = None \/ (exists h, d f = Some (VStr h) /\ tx = Some [h]) \/ (exists l, d f = Some (VArr l)).
Proof.
  intros Hm. unfold tx, cst. rewrite Hm.
  destruct (d f) as [[]|]; cbn [texts_of]; eauto.
Qed.

Lemma sumf_tres_M : forall {A} r (P : A -> str -> bool) l, tx = None ->
  sumf (fun a => bitr r (tres (P a))) l = if res3_eqb r M then length l else 0.
Proof.
  intros A r P l Htx. rewrite (sumf_ext _ (fun _ => bitr r M) l).
  2:{ intros a _. unfold tres. rewrite Htx. reflexivity. }
  unfold bitr. destruct (res3_eqb r M); [apply sumf_one|apply sumf_zero].
Qed.

Lemma tres_one : forall h p, tx = Some [h] ->
  bitr T (tres p) = bit true (p h) /\ bitr F (tres p) = bit false (p h) /\ bitr M (tres p) = 0.
Proof.
  intros h p Htx. unfold tres. rewrite Htx. cbn [existsb]. destruct (p h); repeat split.
Qed.

Lemma solve_match_M : forall mm sr, tx = None ->
  solve_body o (EMatch mm (ESearch sr f cst)) (pure_doc d) = Ok M.
Proof.
  intros mm sr Htx.
  assert (Ht : forall p, tres p = M) by (intros p; unfold tres; rewrite Htx; reflexivity).
  destruct sr.
  2-6,8: (destruct mm as [|c];
          [ rewrite sb_all_plain by reflexivity; rewrite solve_search_tres, Ht; reflexivity
          | rewrite sb_of_plain by reflexivity; rewrite solve_search_tres, Ht; cbn [bind];
            destruct (c =? 0)%Z; reflexivity ]).
  - destruct mm as [|c]; [rewrite sb_all_aho|rewrite sb_of_aho]; rewrite ?Ht;
      try destruct (c =? 0)%Z; reflexivity.
  - destruct mm as [|c]; [rewrite sb_all_rset|rewrite sb_of_rset]; rewrite ?Ht;
      try destruct (c =? 0)%Z; reflexivity.
Qed.

Lemma QC_allM : forall mm n, threshold_ok mm -> (1 <= n)%nat -> QC mm 0 0 n = M.
Proof.
  intros [|c] n Hth Hn; cbn [QC threshold_ok] in *; crunch.
Qed.

Lemma solve_match_batch : forall mm x, m = KPlain -> threshold_ok mm ->
  (exists sr, x = ESearch sr f cst /\ okb x = true) -> is_listlike x = true ->
  match d f with Some (VArr _) => False | _ => True end ->
  solve_body o (EMatch mm x) (pure_doc d) = Ok (QC mm (ecnt T x) (ecnt F x) (ecnt M x)).
Proof.
  intros mm x Hm Hth [sr [-> Hok]] Hl Harr.
  destruct (tx_cases Hm) as [Htx|[[h [Hd Htx]]|[l Hd]]].
  - (* not a string: everything is missing *)
    rewrite (solve_match_M mm sr Htx).
    destruct sr; try discriminate Hl; cbn [ecnt is_listlike] in *; unfold Wr;
      rewrite !sumf_tres_M by exact Htx; cbn [res3_eqb];
      (rewrite QC_allM; [reflexivity|exact Hth|apply Nat.ltb_lt in Hl; lia]).
  - (* a string *)
    assert (Hcst : cst = false) by (unfold cst; rewrite Hm; reflexivity).
    assert (Hpd : pure_doc d f = Ok (Some (VStr h))) by (unfold pure_doc; rewrite Hd; reflexivity).
    assert (Hcnt : ecnt T (ESearch sr f cst) = bt o true h (ESearch sr f cst) /\
                   ecnt F (ESearch sr f cst) = bt o false h (ESearch sr f cst) /\
                   ecnt M (ESearch sr f cst) = 0 /\
                   (1 <= bt o true h (ESearch sr f cst) + bt o false h (ESearch sr f cst))%nat).
    { destruct sr; try discriminate Hl; cbn [ecnt bt is_listlike] in *; unfold Wr.
      - pose proof (sumf_total (fun mt => mtype_holds ci mt h) ctx) as Ht. cbv beta in Ht.
        apply Nat.ltb_lt in Hl.
        repeat split; try lia.
        + apply sumf_ext. intros mt _. apply (tres_one h _ Htx).
        + apply sumf_ext. intros mt _. apply (tres_one h _ Htx).
        + rewrite (sumf_ext _ (fun _ => 0)); [apply sumf_zero|]. intros mt _. apply (tres_one h _ Htx).
      - pose proof (sumf_total (fun p => re_match o p ci h) pats) as Ht. cbv beta in Ht.
        apply Nat.ltb_lt in Hl.
        repeat split; try lia.
        + apply sumf_ext. intros mt _. apply (tres_one h _ Htx).
        + apply sumf_ext. intros mt _. apply (tres_one h _ Htx).
        + rewrite (sumf_ext _ (fun _ => 0)); [apply sumf_zero|]. intros mt _. apply (tres_one h _ Htx). }
    destruct Hcnt as [HT [HF [HM Hpos]]]. rewrite HT, HF, HM, <- qt_QC.
    unfold solve_body. apply solve_match_single; assumption.
  - rewrite Hd in Harr. contradiction.
Qed.


(* ---- how many identifiers the accumulator holds; a multi-needle batch needs two ---- *)
Definition nids (a : seqacc) : nat :=
  length (a_exact a) + length (a_starts a) + length (a_ends a) + length (a_contains a)
  + length (a_regex a).

Lemma filter_len_le : forall {A} (q : A -> bool) l, (length (filter q l) <= length l)%nat.
Proof.
  intros A q l. induction l as [|x l IH]; [cbn; lia|]. cbn [filter]. destruct (q x); cbn [length]; lia.
Qed.

Lemma idw_one_le : forall mk l, (sumf (idw (fun _ _ => 1) mk) l <= length l)%nat.
Proof.
  intros mk l. rewrite <- (sumf_one l). apply sumf_le. intros i. unfold idw.
  destruct (needle_of mk i) as [[? ?]|]; lia.
Qed.

Lemma needles_len : forall a,
  (length (fst (needles_of a)) + length (snd (needles_of a))
   <= length (a_exact a) + length (a_starts a) + length (a_ends a) + length (a_contains a))%nat.
Proof.
  intros a. pose proof (needles_w (fun _ _ => 1) a) as H. unfold ctxw in H.
  rewrite !sumf_one in H. rewrite H.
  pose proof (idw_one_le MTStartsWith (a_starts a)).
  pose proof (idw_one_le MTContains (a_contains a)).
  pose proof (idw_one_le MTEndsWith (a_ends a)).
  pose proof (idw_one_le MTExact (filter (fun i => negb (is_nil (pat_str i))) (a_exact a))).
  pose proof (filter_len_le (fun i => negb (is_nil (pat_str i))) (a_exact a)).
  lia.
Qed.

Lemma listlike_nids : forall a x,
  Forall rshape (a_rest a) -> In x (group_of f a) -> is_listlike x = true -> (2 <= nids a)%nat.
Proof.
  intros a x Hr Hx Hl. pose proof (needles_len a) as Hn. unfold nids.
  unfold group_of in Hx.
  repeat (apply in_app_or in Hx; destruct Hx as [Hx|Hx]).
  - apply in_map_iff in Hx. destruct Hx as [i [<- _]]. discriminate Hl.
  - destruct (fst (needles_of a)) as [|mt [|mt' l]]; cbn [g1_of In] in Hx; try contradiction;
      destruct Hx as [<-|[]].
    + destruct mt; discriminate Hl.
    + cbn [length] in Hn. lia.
  - destruct (snd (needles_of a)) as [|mt l]; cbn [g2_of In] in Hx; try contradiction.
    destruct Hx as [<-|[]]. cbn [is_listlike] in Hl. apply Nat.ltb_lt in Hl. lia.
  - pose proof (filter_len_le (fun i => negb (id_ci i)) (a_regex a)) as Hf.
    rewrite <- (map_length pat_str) in Hf.
    destruct (map pat_str (filter (fun i => negb (id_ci i)) (a_regex a))) as [|p [|p' l]];
      cbn [g3_of In] in Hx; try contradiction; destruct Hx as [<-|[]]; try discriminate Hl.
    cbn [length] in Hf. lia.
  - pose proof (filter_len_le (fun i => id_ci i) (a_regex a)) as Hf.
    rewrite <- (map_length pat_str) in Hf.
    destruct (map pat_str (filter (fun i => id_ci i) (a_regex a))) as [|p [|p' l]];
      cbn [g3_of In] in Hx; try contradiction; destruct Hx as [<-|[]]; try discriminate Hl.
    cbn [length] in Hf. lia.
  - rewrite Forall_forall in Hr. specialize (Hr x Hx).
    destruct x; try contradiction; [discriminate Hl|]. destruct s; try contradiction. discriminate Hl.
Qed.

(* ---- the kind flags of the accumulator (plain members) ---- *)
Definition spat (v : yaml) : bool :=
  match v with
  | YStr s => match read_numeric o ic s with None => true | Some _ => false end
  | _ => false
  end.
Definition nkind (v : yaml) : bool :=
  match v with
  | YInt _ | YFloat _ => true
  | YStr s => match read_numeric o ic s with Some _ => true | None => false end
  | _ => false
  end.
Definition bkind (v : yaml) : bool := match v with YBool _ => true | _ => false end.

Definition flags_le (a a' : seqacc) : Prop :=
  (a_string a = true -> a_string a' = true) /\ (a_number a = true -> a_number a' = true) /\
  (a_boolean a = true -> a_boolean a' = true).

Ltac flags_tac :=
  unfold flags_le, nids; acc_simpl; rewrite ?app_length; cbn [length b2n is_ystr'];
  repeat split;
  try (let Hf := fresh "Hf" in
       intros Hf; try discriminate Hf; rewrite ?Hf, ?orb_true_r; reflexivity);
  try lia.

Lemma step_flags : forall a a' v, scalar_yaml v = true ->
  seq_member o ic (ki_of KPlain f) (EField f) a v None = Ok a' ->
  flags_le a a' /\ (spat v = true -> a_string a' = true) /\ (nkind v = true -> a_number a' = true) /\
  (bkind v = true -> a_boolean a' = true) /\ (nids a' <= nids a + b2n (is_ystr' v))%nat.
Proof.
  intros a a' v Hv H.
  destruct v as [|b|z|y|s|l|kv|tg v']; try discriminate Hv.
  - cbn [seq_member] in H. inversion H; subst a'; clear H. flags_tac.
  - cbn [seq_member ki_of k_misc misc_of misc_is] in H. inversion H; subst a'; clear H. flags_tac.
  - cbn [seq_member ki_of k_misc misc_of misc_is] in H.
    destruct (number_of z); inversion H; subst a'; clear H; flags_tac.
  - cbn [seq_member ki_of k_misc misc_of misc_is] in H. inversion H; subst a'; clear H. flags_tac.
  - unfold spat, nkind, bkind.
    destruct (read_numeric o ic s) as [[op c]|] eqn:En.
    + destruct (into_id_numeric o ic s op c En) as [Hid [Hop Hc]].
      unfold seq_member in H. rewrite Hid in H.
      cbn [bind id_pat id_ci ki_of k_misc k_f misc_of misc_is misc_pattern_check] in H.
      destruct c as [zc|yc], op; try discriminate Hop;
        cbn [num_pat numeric_expr cmp_expr bind] in H; inversion H; subst a'; clear H; flags_tac.
    + destruct (is_string_predicate o ic s) eqn:Es.
      * pose proof (into_id_string o ic s Es) as Hid. rewrite isp_eq in Es.
        unfold seq_member in H. rewrite Hid in H.
        cbn [bind id_pat id_ci ki_of k_misc k_f misc_of misc_is misc_pattern_check] in H.
        destruct (classify (snd (split_case ic s))) as [re| | |t|t|t|t];
          cbn [spec_pat isp_k] in *; try discriminate Es;
          inversion H; subst a'; clear H; flags_tac.
      * unfold seq_member in H. rewrite (into_id_nonstring o ic s En Es) in H. discriminate H.
Qed.

Lemma members_flags : forall vs a a', forallb scalar_yaml vs = true ->
  seq_members o ic (ki_of KPlain f) (EField f) a vs (map (fun _ => None) vs) = Ok a' ->
  flags_le a a' /\ (existsb spat vs = true -> a_string a' = true) /\
  (existsb nkind vs = true -> a_number a' = true) /\
  (existsb bkind vs = true -> a_boolean a' = true) /\
  (nids a' <= nids a + length (filter is_ystr' vs))%nat.
Proof.
  induction vs as [|v vs IH]; intros a a' Hvs H.
  - cbn [map seq_members] in H. inversion H; subst a'. unfold flags_le. cbn [existsb filter length].
    repeat split; try (intros Hf; try discriminate Hf; exact Hf). lia.
  - cbn [map seq_members tl] in H. cbn [forallb] in Hvs. apply andb_prop in Hvs.
    destruct Hvs as [Hv Hvs].
    destruct (seq_member o ic (ki_of KPlain f) (EField f) a v None) as [a1|k|n] eqn:Hs;
      cbn [bind] in H; try discriminate H.
    destruct (step_flags a a1 v Hv Hs) as [[L1 [L2 L3]] [S1 [N1 [B1 I1]]]].
    destruct (IH a1 a' Hvs H) as [[M1 [M2 M3]] [S2 [N2 [B2 I2]]]].
    unfold flags_le. cbn [existsb filter].
    repeat split; try (intros Hf; auto).
    + apply orb_prop in Hf. destruct Hf as [Hf|Hf]; auto.
    + apply orb_prop in Hf. destruct Hf as [Hf|Hf]; auto.
    + apply orb_prop in Hf. destruct Hf as [Hf|Hf]; auto.
    + clear - I1 I2. destruct (is_ystr' v); cbn [b2n] in I1; cbn [length]; lia.
Qed.


(* ---- false and missing do not both occur among the members of an all() list ---- *)
Lemma sem_number_notM : forall mm op c x, sem_number o mm op c x <> M.
Proof.
  intros mm op c x. unfold sem_number.
  destruct (num_of_value o mm x) as [[a|a]|], c as [b|b]; try discriminate;
    [destruct (rel_int op a b)|destruct (rel_flt op a b)]; discriminate.
Qed.

Lemma nonspat_notM : forall v x, m = KPlain -> d f = Some x ->
  scalar_yaml v = true -> spat v = false -> mres v <> M.
Proof.
  intros v x Hm Hd Hv Hs. unfold mres. rewrite Hd, Hm.
  destruct v as [|b|z|y|s|l|kv|tg v']; try discriminate Hv; cbn [sem_scalar].
  - destruct x; discriminate.
  - destruct x; try discriminate. destruct (Bool.eqb b0 b); discriminate.
  - apply sem_number_notM.
  - apply sem_number_notM.
  - cbn [spat] in Hs. destruct (read_numeric o ic s) as [[op c]|]; [|discriminate Hs].
    apply sem_number_notM.
Qed.

Lemma existsb_false_all : forall {A} (q : A -> bool) l,
  existsb q l = false -> forall x, In x l -> q x = false.
Proof.
  intros A q l H x Hx. destruct (q x) eqn:E; [|reflexivity].
  assert (existsb q l = true) by (apply existsb_exists; exists x; split; assumption). congruence.
Qed.

Lemma all_mixfree : forall vs a,
  m = KPlain -> forallb scalar_yaml vs = true ->
  seq_members o ic (ki_of KPlain f) (EField f) acc0 vs (map (fun _ => None) vs) = Ok a ->
  (1 <? b2n (a_boolean a) + b2n (a_mapping a) + b2n (a_number a) + b2n (a_string a))%nat = false ->
  existsb is_ynull vs && existsb is_ystr vs = false ->
  cn M (map mres vs) = 0 \/ cn T (map mres vs) + cn F (map mres vs) = 0.
Proof.
  intros vs a Hm Hvs Hseq Hk H32.
  destruct (d f) as [x|] eqn:Hd.
  2:{ right. rewrite !cn_map. unfold mres. rewrite Hd. cbn [bitr res3_eqb]. rewrite !sumf_zero.
      reflexivity. }
  destruct (members_flags vs acc0 a Hvs Hseq) as [_ [FS [FN [FB _]]]].
  rewrite forallb_forall in Hvs.
  destruct (existsb spat vs) eqn:Esp.
  - (* some string predicate: then all are *)
    specialize (FS eq_refl).
    assert (Hys : existsb is_ystr vs = true).
    { apply existsb_exists in Esp. destruct Esp as [v [Hv Hsv]]. apply existsb_exists.
      exists v. split; [exact Hv|]. destruct v; try discriminate Hsv. reflexivity. }
    rewrite Hys, andb_true_r in H32.
    assert (Hall : forall v, In v vs -> exists s, v = YStr s /\ read_numeric o ic s = None).
    { intros v Hv. specialize (Hvs v Hv).
      destruct v as [|b|z|y|s|l|kv|tg v']; try discriminate Hvs.
      - discriminate (existsb_false_all _ _ H32 _ Hv).
      - assert (Hb : a_boolean a = true).
        { apply FB, existsb_exists. exists (YBool b). split; [exact Hv|reflexivity]. }
        rewrite Hb, FS in Hk. destruct (a_mapping a), (a_number a); discriminate Hk.
      - assert (Hn : a_number a = true).
        { apply FN, existsb_exists. exists (YInt z). split; [exact Hv|reflexivity]. }
        rewrite Hn, FS in Hk. destruct (a_mapping a), (a_boolean a); discriminate Hk.
      - assert (Hn : a_number a = true).
        { apply FN, existsb_exists. exists (YFloat y). split; [exact Hv|reflexivity]. }
        rewrite Hn, FS in Hk. destruct (a_mapping a), (a_boolean a); discriminate Hk.
      - exists s. split; [reflexivity|].
        destruct (read_numeric o ic s) as [[op c]|] eqn:En; [|reflexivity].
        assert (Hn : a_number a = true).
        { apply FN, existsb_exists. exists (YStr s). split; [exact Hv|]. cbn [nkind]. rewrite En.
          reflexivity. }
        rewrite Hn, FS in Hk. destruct (a_mapping a), (a_boolean a); discriminate Hk. }
    destruct tx as [ts|] eqn:Htx.
    + left. rewrite cn_map. rewrite (sumf_ext _ (fun _ => 0)); [apply sumf_zero|].
      intros v Hv. destruct (Hall v Hv) as [s [-> En]]. rewrite (mres_string s En).
      unfold tres. rewrite Htx. destruct (existsb (documented o ic s) ts); reflexivity.
    + right. rewrite !cn_map, <- sumf_plus. rewrite (sumf_ext _ (fun _ => 0)); [apply sumf_zero|].
      intros v Hv. destruct (Hall v Hv) as [s [-> En]]. rewrite (mres_string s En).
      unfold tres. rewrite Htx. reflexivity.
  - (* no string predicate: nothing is missing *)
    left. rewrite cn_map. rewrite (sumf_ext _ (fun _ => 0)); [apply sumf_zero|].
    intros v Hv.
    pose proof (nonspat_notM v x Hm Hd (Hvs v Hv) (existsb_false_all _ _ Esp v Hv)) as Hn.
    destruct (mres v); try reflexivity. congruence.
Qed.

Lemma simple_not_listlike : forall x, simple x = true -> is_listlike x = false.
Proof. intros x H. destruct x; try discriminate H. destruct s; try discriminate H; reflexivity. Qed.

Lemma single_not_listlike : forall a, ainv a -> multiple_of a = false ->
  forall x, In x (group_of f a) -> is_listlike x = false.
Proof.
  intros a Hinv Hmul x Hx. rewrite group_split in Hx. apply in_app_or in Hx. destruct Hx as [Hx|Hx].
  - pose proof (group_simple f (norest a) (rest_inv_norest a) Hmul) as Hs.
    rewrite Forall_forall in Hs. apply simple_not_listlike, Hs, Hx.
  - pose proof (ainv_rshape a Hinv) as Hr. rewrite Forall_forall in Hr. specialize (Hr x Hx).
    destruct x; try contradiction; [reflexivity|]. destruct s; try contradiction. reflexivity.
Qed.

Lemma units_cn : forall a r, ainv a ->
  (forall x, In x (group_of f a) -> is_listlike x = false) ->
  cn r (map ev (group_of f a)) = accc r a.
Proof.
  intros a r Hinv Hu. rewrite cn_map, <- (group_cn r a (proj1 Hinv) (ainv_rshape a Hinv)).
  unfold gcn. apply sumf_ext. intros x Hx. symmetry. apply (unit_ecnt a x r Hinv Hx (Hu x Hx)).
Qed.

Lemma quant_list : forall mm vs a e,
  m = KPlain -> threshold_ok mm -> forallb scalar_yaml vs = true ->
  seq_members o ic (quant_key mm f) (EField f) acc0 vs (map (fun _ => None) vs) = Ok a ->
  finish_seq (quant_key mm f) a = Ok e ->
  exists_sub d10_here false e = false ->
  match mm with MAll => existsb is_ynull vs && existsb is_ystr vs = false | MOf _ => True end ->
  ((2 <= length (filter is_ystr' vs))%nat -> match d f with Some (VArr _) => False | _ => True end) ->
  solve_body o e (pure_doc d) = Ok (Qm mm (map mres vs)).
Proof.
  intros mm vs a e Hm Hth Hvs Hseq Hfin Hd10 H32 Harr.
  rewrite seq_members_key in Hseq.
  assert (Hb : base_mod m = true) by (rewrite Hm; reflexivity).
  assert (Hseq' : seq_members o ic (ki_of m f) (key_expr m f) acc_init vs (map (fun _ => None) vs) = Ok a).
  { unfold acc_init. rewrite Hm. exact Hseq. }
  assert (Hx : forall v, In v vs -> excluded m v = false).
  { intros v _. rewrite Hm. destruct v; reflexivity. }
  destruct (acc_init_inv Hb) as [Hinv0 Hacc0].
  destruct (steps vs acc_init a Hb Hvs Hx Hseq' Hinv0) as [Hinv Hacc].
  assert (Hc : forall r, accc r a = cn r (map mres vs)).
  { intros r. rewrite Hacc, Hacc0. reflexivity. }
  pose proof (fun r => group_cn r a (proj1 Hinv) (ainv_rshape a Hinv)) as Hg.
  destruct (members_flags vs acc0 a Hvs Hseq) as [_ [_ [_ [_ Hnid]]]].
  assert (Hk : (1 <? b2n (a_boolean a) + b2n (a_mapping a) + b2n (a_number a) + b2n (a_string a))%nat = false).
  { rewrite finish_seq_q_eq in Hfin.
    destruct (1 <? b2n (a_boolean a) + b2n (a_mapping a) + b2n (a_number a) + b2n (a_string a))%nat;
      [discriminate Hfin|reflexivity]. }
  assert (Hmix : mixfree mm (cn T (map mres vs)) (cn F (map mres vs)) (cn M (map mres vs))).
  { destruct mm as [|c]; [|exact I]. cbn [mixfree]. apply (all_mixfree vs a Hm Hvs Hseq Hk H32). }
  rewrite (Qm_cn mm (map mres vs) Hmix).
  (* the target in the form used for groups of units *)
  assert (Hunits : (forall x, In x (group_of f a) -> is_listlike x = false) ->
            Qm mm (map ev (group_of f a))
            = QC mm (cn T (map mres vs)) (cn F (map mres vs)) (cn M (map mres vs))).
  { intros Hu. rewrite Qm_cn; rewrite !(units_cn a _ Hinv Hu), !Hc; [reflexivity|exact Hmix]. }
  pose proof (group_solvable a Hinv) as Hsol.
  destruct (finish_seq_q_shape mm f a e Hfin) as [[x [Hgx [Hmul [Hkeep ->]]]]|[[x [Hgx ->]]|[Hlen ->]]].
  - (* one element, handed back as it is *)
    pose proof (single_not_listlike a Hinv Hmul) as Hu.
    rewrite <- (Hunits Hu). rewrite Hgx in *. inversion Hsol as [|? ? He _]; subst. rewrite He.
    cbn [map]. rewrite (Qm_single mm (ev x) Hth).
    destruct mm as [|c]; [reflexivity|]. cbn [keep_of] in Hkeep.
    apply negb_false_iff, Z.eqb_eq in Hkeep. subst c. destruct (ev x); reflexivity.
  - (* one element under the quantifier *)
    assert (Hin : In x (group_of f a)) by (rewrite Hgx; left; reflexivity).
    destruct (elem_kind a x Hinv Hin) as [Hsx Hkind].
    destruct (is_listlike x) eqn:Hl.
    + (* a batch of several needles: the value is not an array *)
      destruct Hkind as [Hr|[sr [Ex Hok]]].
      { destruct x; try contradiction; [discriminate Hl|]. destruct s; try contradiction. discriminate Hl. }
      pose proof (listlike_nids a x (ainv_rshape a Hinv) Hin Hl) as Hn2.
      assert (Ha : match d f with Some (VArr _) => False | _ => True end).
      { apply Harr. unfold nids in Hnid. cbn [acc0 a_exact a_starts a_ends a_contains a_regex length] in Hnid.
        unfold nids in Hn2. lia. }
      rewrite (solve_match_batch mm x Hm Hth (ex_intro _ sr (conj Ex Hok)) Hl Ha).
      assert (Hgc : forall r, ecnt r x = cn r (map mres vs)).
      { intros r. rewrite <- Hc, <- Hg, Hgx. unfold gcn. cbn [sumf]. lia. }
      rewrite !Hgc. reflexivity.
    + assert (Hu : forall y, In y (group_of f a) -> is_listlike y = false).
      { intros y Hy. rewrite Hgx in Hy. destruct Hy as [<-|[]]. exact Hl. }
      rewrite <- (Hunits Hu), Hgx. cbn [map].
      apply (solve_match_unit mm x Hth Hsx).
      destruct Hkind as [Hr|[sr [Ex Hok]]]; [left; exact Hr|right].
      exists sr. repeat split; assumption.
  - (* a group of two or more elements: none is a multi-needle batch *)
    apply exists_sub_head in Hd10. cbn [d10_here] in Hd10.
    replace (1 <? length (group_of f a))%nat with true in Hd10
      by (symmetry; apply Nat.ltb_lt; lia).
    cbn [andb] in Hd10.
    rewrite <- (Hunits (existsb_false_all _ _ Hd10)).
    apply (fold_ev mm _ Hth Hsol).
Qed.

End Entry.

(* ====================================================================================== *)
(* (F) the entry                                                                           *)
(* ====================================================================================== *)

Lemma key_cases_seq : forall o k vs ki,
  parse_key o (YStr k) (YSeq vs) = Ok ki ->
  (exists m f, read_key o k = Some (m, f) /\ simple_mod m = true /\ ki = ki_of m f) \/
  (exists mm f, read_key o k = Some (match mm with MAll => KAll | MOf c => KOf c end, f) /\
                ki = quant_key mm f /\ threshold_ok mm).
Proof.
  intros o k vs ki. unfold parse_key, read_key.
  destruct (tokenise o k) as [ts|e|n]; cbn [bind]; try discriminate.
  destruct (parse (merge_idents [] ts)) as [ex|e|n] eqn:Hp; cbn [bind]; try discriminate.
  destruct ex; try discriminate.
  - destruct m; intros H; inversion H; subst; left; eexists; eexists;
      (split; [reflexivity|split; reflexivity]).
  - intros H; inversion H; subst. left. exists KPlain. eexists.
    split; [reflexivity|split; reflexivity].
  - cbn [is_yseq]. destruct ex; try discriminate. intros H; inversion H; subst.
    right. exists k0, s. split; [destruct k0; reflexivity|]. split; [reflexivity|].
    pose proof (C02_cond.loaded_condition_thresholds _ _ Hp) as Ht.
    destruct k0; cbn [C02_cond.thresholds_ok threshold_ok] in *; [exact I|].
    apply Z.leb_le. exact Ht.
Qed.

Lemma seq_members_not : forall o ic f ue vs a subs,
  forallb scalar_yaml vs = true ->
  seq_members o ic (ki_of KNot f) ue a vs subs = seq_members o ic (ki_of KPlain f) ue a vs subs.
Proof.
  intros o ic f ue vs. induction vs as [|v vs IH]; intros a subs Hvs; [reflexivity|].
  cbn [forallb] in Hvs. apply andb_prop in Hvs. destruct Hvs as [Hv Hvs].
  cbn [seq_members].
  assert (E : seq_member o ic (ki_of KNot f) ue a v (match subs with s :: _ => s | [] => None end)
              = seq_member o ic (ki_of KPlain f) ue a v (match subs with s :: _ => s | [] => None end)).
  { destruct v; try discriminate Hv; reflexivity. }
  rewrite E.
  destruct (seq_member o ic (ki_of KPlain f) ue a v (match subs with s :: _ => s | [] => None end));
    cbn [bind]; [apply IH; exact Hvs|reflexivity|reflexivity].
Qed.

Lemma finish_seq_not : forall f a, finish_seq (ki_of KNot f) a = finish_seq (ki_of KPlain f) a.
Proof. intros f a. rewrite !finish_seq_gen. reflexivity. Qed.

Lemma excluded_members : forall o k vs m f,
  read_key o k = Some (m, f) -> excluded_entry o (YStr k) (YSeq vs) = false ->
  forall v, In v vs -> excluded m v = false.
Proof.
  intros o k vs m f Hr Hx v Hv. unfold excluded_entry, d27_entry, bigint_str_entry, key_mod in Hx.
  rewrite Hr in Hx. cbn [option_map fst] in Hx.
  destruct m; try (destruct v; reflexivity).
  cbn [is_ynull orb] in Hx. apply orb_false_elim in Hx. destruct Hx as [H27 H30].
  pose proof (existsb_false_all _ _ H27 v Hv) as E1.
  pose proof (existsb_false_all _ _ H30 v Hv) as E2.
  destruct v; try reflexivity; [discriminate E1|exact E2].
Qed.

Lemma Qm_allM : forall {A} mm (l : list A), threshold_ok mm -> l <> [] ->
  Qm mm (map (fun _ => M) l) = M.
Proof.
  intros A mm l Hth Hne.
  assert (HT : cn T (map (fun _ : A => M) l) = 0) by (rewrite cn_map; apply sumf_zero).
  assert (HF : cn F (map (fun _ : A => M) l) = 0) by (rewrite cn_map; apply sumf_zero).
  assert (HM : cn M (map (fun _ : A => M) l) = length l) by (rewrite cn_map; apply sumf_one).
  rewrite Qm_cn; rewrite HT, HF, HM.
  - apply QC_allM; [exact Hth|]. destruct l; [congruence|cbn [length]; lia].
  - destruct mm; cbn [mixfree]; auto.
Qed.

Lemma neg3_not3 : forall r, neg3 r = not3 r.
Proof. intros [| |]; reflexivity. Qed.

Lemma plain_entry : forall o ic m f vs a e (d : doc),
  base_mod m = true -> forallb scalar_yaml vs = true ->
  (forall v, In v vs -> excluded m v = false) ->
  seq_members o ic (ki_of m f) (key_expr m f) (acc_init m) vs (map (fun _ => None) vs) = Ok a ->
  finish_seq (ki_of m f) a = Ok e ->
  solve_body o e (pure_doc d)
  = Ok (match d f with None => M | Some x => max3 (map (fun v => sem_scalar o ic m v x) vs) end).
Proof.
  intros o ic m f vs a e d Hm Hvs Hx Hseq Hfin.
  rewrite (plain_list o ic m f d vs a e Hm Hvs Hx Hseq Hfin). unfold mres.
  destruct (d f) as [x|]; [reflexivity|]. rewrite max3_allM. reflexivity.
Qed.

Lemma list_entry_refines : forall o ic k vs e,
  forallb scalar_yaml vs = true ->
  excluded_entry o (YStr k) (YSeq vs) = false -> d32_entry o (YStr k) (YSeq vs) = false ->
  parse_entry o ic (YStr k) (YSeq vs) None (map (fun _ => None) vs) = Ok e ->
  exists_sub d10_here false e = false ->
  exists m f, read_key o k = Some (m, f) /\
    forall d : doc, array_ok m vs (d f) ->
      solve_body o e (pure_doc d) = Ok (sem_entry_list o ic m f vs d).
Proof.
  intros o ic k vs e Hvs Hex H32 Hpe Hd10.
  unfold parse_entry in Hpe.
  destruct (parse_key o (YStr k) (YSeq vs)) as [ki|ek|n] eqn:Hk; cbn [bind] in Hpe;
    try discriminate Hpe.
  destruct (key_cases_seq o k vs ki Hk) as [[m [f [Hr [Hs ->]]]]|[mm [f [Hr [-> Hth]]]]].
  - (* plain, not(), int(), flt(), str() *)
    exists m, f. split; [exact Hr|]. intros d _.
    pose proof (excluded_members o k vs m f Hr Hex) as Hx.
    unfold sem_entry_list.
    destruct m; try discriminate Hs;
      cbn [ki_of k_e k_f k_misc key_expr misc_of misc_is modsym_eqb] in Hpe.
    + destruct (seq_members o ic (ki_of KPlain f) (EField f) acc0 vs (map (fun _ => None) vs))
        as [a|ek|n] eqn:Hseq; cbn [bind] in Hpe; try discriminate Hpe.
      destruct (finish_seq (ki_of KPlain f) a) as [ex|ek|n] eqn:Hfin; cbn [bind] in Hpe;
        try discriminate Hpe.
      inversion Hpe; subst e.
      apply (plain_entry o ic KPlain f vs a ex d eq_refl Hvs Hx Hseq Hfin).
    + destruct (seq_members o ic (ki_of KNot f) (EField f) acc0 vs (map (fun _ => None) vs))
        as [a|ek|n] eqn:Hseq; cbn [bind] in Hpe; try discriminate Hpe.
      destruct (finish_seq (ki_of KNot f) a) as [ex|ek|n] eqn:Hfin; cbn [bind] in Hpe;
        try discriminate Hpe.
      inversion Hpe; subst e.
      rewrite seq_members_not in Hseq by exact Hvs. rewrite finish_seq_not in Hfin.
      change (solve_body o (ENegate ex) (pure_doc d))
        with (do r <- solve_body o ex (pure_doc d); Ok (neg3 r)).
      rewrite (plain_entry o ic KPlain f vs a ex d eq_refl Hvs (fun v _ => eq_refl) Hseq Hfin).
      cbn [bind]. rewrite neg3_not3. reflexivity.
    + destruct (seq_members o ic (ki_of KInt f) (ECast f MInt) acc0 vs (map (fun _ => None) vs))
        as [a|ek|n] eqn:Hseq; cbn [bind] in Hpe; try discriminate Hpe.
      destruct (finish_seq (ki_of KInt f) a) as [ex|ek|n] eqn:Hfin; cbn [bind] in Hpe;
        try discriminate Hpe.
      inversion Hpe; subst e.
      apply (plain_entry o ic KInt f vs a ex d eq_refl Hvs Hx Hseq Hfin).
    + destruct (seq_members o ic (ki_of KFlt f) (ECast f MFlt) acc0 vs (map (fun _ => None) vs))
        as [a|ek|n] eqn:Hseq; cbn [bind] in Hpe; try discriminate Hpe.
      destruct (finish_seq (ki_of KFlt f) a) as [ex|ek|n] eqn:Hfin; cbn [bind] in Hpe;
        try discriminate Hpe.
      inversion Hpe; subst e.
      apply (plain_entry o ic KFlt f vs a ex d eq_refl Hvs Hx Hseq Hfin).
    + destruct (seq_members o ic (ki_of KStr f) (ECast f MStr) (flag_cast acc0) vs (map (fun _ => None) vs))
        as [a|ek|n] eqn:Hseq; cbn [bind] in Hpe; try discriminate Hpe.
      destruct (finish_seq (ki_of KStr f) a) as [ex|ek|n] eqn:Hfin; cbn [bind] in Hpe;
        try discriminate Hpe.
      inversion Hpe; subst e.
      apply (plain_entry o ic KStr f vs a ex d eq_refl Hvs Hx Hseq Hfin).
  - (* all(), of() *)
    exists (match mm with MAll => KAll | MOf c => KOf c end), f. split; [exact Hr|].
    intros d Harr.
    cbn [quant_key k_e k_f k_misc misc_is] in Hpe.
    destruct (seq_members o ic (quant_key mm f) (EField f) acc0 vs (map (fun _ => None) vs))
      as [a|ek|n] eqn:Hseq; cbn [bind] in Hpe; try discriminate Hpe.
    destruct (finish_seq (quant_key mm f) a) as [ex|ek|n] eqn:Hfin; cbn [bind] in Hpe;
      try discriminate Hpe.
    inversion Hpe; subst e.
    assert (Hne : vs <> []).
    { intros ->. cbn [map seq_members] in Hseq. inversion Hseq; subst a.
      rewrite finish_seq_q_acc0 in Hfin. discriminate Hfin. }
    assert (H32' : match mm with
                   | MAll => existsb is_ynull vs && existsb is_ystr vs = false
                   | MOf _ => True
                   end).
    { destruct mm; [|exact I]. unfold d32_entry, key_mod in H32. rewrite Hr in H32. exact H32. }
    assert (Harr' : (2 <= length (filter is_ystr' vs))%nat ->
                    match d f with Some (VArr _) => False | _ => True end).
    { destruct mm; exact Harr. }
    rewrite (quant_list o ic KPlain f d mm vs a ex eq_refl Hth Hvs Hseq Hfin Hd10 H32' Harr').
    unfold sem_entry_list, mres. f_equal.
    destruct (d f) as [x|].
    + destruct mm; reflexivity.
    + rewrite (Qm_allM mm vs Hth Hne). destruct mm; reflexivity.
Qed.

(* ====================================================================================== *)
(* the reference semantics of a one-entry mapping, unfolded                                *)
(* ====================================================================================== *)
Lemma member_map : forall (G S : yaml -> res3) vs, forallb scalar_yaml vs = true ->
  map (fun v => match v with YMap _ => G v | _ => S v end) vs = map S vs.
Proof.
  intros G S vs H. apply map_ext_in. intros v Hv. rewrite forallb_forall in H.
  specialize (H v Hv). destruct v; try reflexivity. discriminate H.
Qed.

Lemma sem_entry_list_is_sem_mapping : forall o ic k vs m f (d : doc) n,
  forallb scalar_yaml vs = true -> read_key o k = Some (m, f) ->
  sem_mapping o ic (S n) (YMap [(YStr k, YSeq vs)]) d =
  first_non_true [sem_entry_list o ic m f vs d].
Proof.
  intros o ic k vs m f d n Hvs Hr.
  cbn [sem_mapping map fst snd]. rewrite Hr. unfold sem_entry_list.
  destruct (d f) as [x|]; [|destruct m; reflexivity].
  destruct m; cbn beta iota; rewrite (member_map _ _ vs Hvs); reflexivity.
Qed.

(* ====================================================================================== *)
(* non-vacuity                                                                             *)
(* ====================================================================================== *)
Lemma list_entry_example :
  let o0 := {| re_valid := fun _ _ => true; re_match := fun _ _ _ => false; f64_parse := fun _ => None;
               f64_show := fun _ => []; uni_alnum := fun _ => false; uni_num := fun _ => false |} in
  let k := [97; 108; 108; 40; 102; 41]%N in                          (* all(f) *)
  let vs := [YStr [42; 97; 42]; YStr [98; 42]; YStr [42; 99]]%N in    (* *a*  b*  *c *)
  exists e, parse_entry o0 false (YStr k) (YSeq vs) None [None; None; None] = Ok e /\
            exists_sub d10_here false e = false /\
            excluded_entry o0 (YStr k) (YSeq vs) = false /\ d32_entry o0 (YStr k) (YSeq vs) = false /\
            solve_body o0 e (pure_doc (fun _ => Some (VStr [98; 97; 99]%N))) = Ok T /\
            solve_body o0 e (pure_doc (fun _ => Some (VStr [98; 97]%N))) = Ok F.
Proof. cbv zeta. eexists. repeat split; vm_compute; reflexivity. Qed.

Print Assumptions sem_entry_list_is_sem_mapping.
Print Assumptions list_entry_refines.
Print Assumptions list_entry_example.
