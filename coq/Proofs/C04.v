(* C04  Loading arbitrary text returns a rule or an error, never a panic: proofs. *)
From TauModel Require Import Base Num Oracles Syntax Generated Token Pratt Ident Yaml ParseMap Rule.
From Coq Require Import Lia ZArith ZifyBool List Bool.

(* ------------------------------------------------------------------------------------ *)
(* "not a panic" and its closure properties                                              *)
(* ------------------------------------------------------------------------------------ *)

(* `str`/`chr` are aliases of `list N`/`N`; make them syntactically uniform for lia *)
Ltac llia := cbv delta [str chr] in *; lia.

Definition np {A} (x : out A) : Prop := forall site, x <> Panic site.

Lemma np_ok {A} (a : A) : np (Ok a).
Proof. intros site H; discriminate. Qed.

Lemma np_err {A} k : np (@Err A k).
Proof. intros site H; discriminate. Qed.

Lemma bind_np {A B} (x : out A) (f : A -> out B) :
  np x -> (forall a, x = Ok a -> np (f a)) -> np (bind x f).
Proof.
  intros Hx Hf. destruct x as [a|k|s]; cbn [bind].
  - apply Hf; reflexivity.
  - apply np_err.
  - exfalso. apply (Hx s). reflexivity.
Qed.

Lemma mapM_np {A B} (f : A -> out B) (l : list A) :
  (forall a, np (f a)) -> np (mapM f l).
Proof.
  intros Hf. induction l as [|a l IH]; cbn [mapM].
  - apply np_ok.
  - apply bind_np; [apply Hf|]. intros b _.
    apply bind_np; [exact IH|]. intros bs _. apply np_ok.
Qed.

Lemma as_rule_err_np {A} (x : out A) : np x -> np (as_rule_err x).
Proof. intros H. destruct x; cbn [as_rule_err]; [apply np_ok | apply np_err | exact H]. Qed.

(* head-directed case analysis on a goal `np t` *)
Ltac np_step :=
  match goal with
  | |- np (Ok _) => apply np_ok
  | |- np (Err _) => apply np_err
  | H : np ?x |- np ?x => exact H
  | |- np (bind _ _) => apply bind_np; [| intros ? ?; cbv beta]
  | |- np (match ?X with _ => _ end) => destruct X eqn:?
  end.

(* ------------------------------------------------------------------------------------ *)
(* the tokeniser                                                                         *)
(* ------------------------------------------------------------------------------------ *)

Lemma consume_while_len p s :
  forall a b, consume_while p s = (a, b) -> length a + length b = length s.
Proof.
  induction s as [|x s IH]; intros a b H; cbn [consume_while] in H.
  - inversion H; reflexivity.
  - destruct (p x).
    + destruct (consume_while p s) as [a' b'] eqn:E.
      specialize (IH _ _ eq_refl). inversion H; subst. cbn [length]. llia.
    + inversion H; subst. reflexivity.
Qed.

Lemma match_keyword_n kws s t n :
  Forall (fun e => 1 <= snd e) kws -> match_keyword kws s = Some (t, n) -> 1 <= n.
Proof.
  induction kws as [|[[kw t'] n'] kws IH]; cbn [match_keyword]; intros HF H.
  - discriminate.
  - inversion HF as [|e l H1 H2]; subst. destruct (match_ahead kw s).
    + inversion H; subst. exact H1.
    + apply IH; assumption.
Qed.

Lemma keywords_n : Forall (fun e => 1 <= snd e) keywords.
Proof. unfold keywords. repeat (constructor; [cbn [snd]; llia|]). constructor. Qed.

Lemma word_start_ident o x : is_word_start x = true -> is_ident_char o x = true.
Proof.
  unfold is_word_start, is_ident_char, is_alphanumeric, is_ascii_alpha, is_ascii_upper,
    is_ascii_lower, is_ascii, is_ascii_digit, ch_hash, ch_us, ch_dot, ch_lb, ch_rb.
  intros H. destruct (x <? 128)%N eqn:E.
  - llia.
  - exfalso. llia.
Qed.

Lemma lex_step_np o x s : np (lex_step o x s).
Proof. unfold lex_step. repeat np_step. Qed.

Lemma lex_step_progress : forall o x s t rest,
  lex_step o x (x :: s) = Ok (t, rest) -> (length rest < length (x :: s))%nat.
Proof.
  intros o x s t rest. unfold lex_step. cbn [length].
  destruct (is_number_start x) eqn:Ens.
  { destruct (consume_while (is_number_char o) (x :: s)) as [num r] eqn:Ecw.
    cbn [consume_while] in Ecw.
    destruct (is_number_char o x) eqn:Enc.
    - destruct (consume_while (is_number_char o) s) as [a b] eqn:E2.
      apply consume_while_len in E2. inversion Ecw; subst.
      repeat match goal with
             | |- (match ?X with _ => _ end) = _ -> _ => destruct X
             end;
        intros H; inversion H; subst; llia.
    - inversion Ecw; subst. cbn. discriminate. }
  destruct (is_word_start x) eqn:Ews.
  { destruct (match_keyword keywords (x :: s)) as [[t' n]|] eqn:Ek.
    - apply (match_keyword_n _ _ _ _ keywords_n) in Ek.
      intros H; inversion H; subst. rewrite skipn_length. cbn [length]. llia.
    - destruct (consume_while (is_ident_char o) (x :: s)) as [id r] eqn:Ecw.
      cbn [consume_while] in Ecw. rewrite (word_start_ident o x Ews) in Ecw.
      destruct (consume_while (is_ident_char o) s) as [a b] eqn:E2.
      apply consume_while_len in E2. intros H; inversion Ecw; inversion H; subst. llia. }
  repeat match goal with
         | |- (if ?b then _ else _) = _ -> _ => destruct b
         end;
    intros H; inversion H; subst; cbn [tl length]; first [llia | destruct s; cbn [length]; llia].
Qed.

Lemma lex_np o : forall n s, length s < n -> np (lex o n s).
Proof.
  induction n as [|n IH]; intros s Hl; [llia|].
  destruct s as [|x s']; cbn [lex]; [apply np_ok|].
  apply bind_np; [apply lex_step_np|].
  intros [t rest] E. apply lex_step_progress in E. cbn [length] in *.
  apply bind_np; [apply IH; llia|]. intros ts _. apply np_ok.
Qed.

Lemma lex_fuel o : forall n m s, length s < n -> length s < m -> lex o n s = lex o m s.
Proof.
  induction n as [|n IH]; intros m s Hn Hm; [llia|].
  destruct m as [|m]; [llia|].
  destruct s as [|x s']; [reflexivity|]. cbn [lex].
  destruct (lex_step o x (x :: s')) as [[t rest]| |] eqn:E; cbn [bind]; try reflexivity.
  apply lex_step_progress in E. cbn [length] in *.
  rewrite (IH m rest); [reflexivity | llia | llia].
Qed.

Theorem tokenise_total : forall o s site, tokenise o s <> Panic site.
Proof. intros o s. unfold tokenise. apply lex_np. llia. Qed.

Theorem lex_fuel_irrelevant : forall o s n, (length s < n)%nat -> lex o n s = tokenise o s.
Proof. intros o s n H. unfold tokenise. apply lex_fuel; llia. Qed.

(* ------------------------------------------------------------------------------------ *)
(* the Pratt parser                                                                      *)
(* ------------------------------------------------------------------------------------ *)

(* a recursive parser that is well behaved on inputs shorter than k *)
Definition good (rec : parser) (k : nat) : Prop :=
  forall rbp ts, length ts < k ->
    np (rec rbp ts) /\
    (forall e rest, rec rbp ts = Ok (e, rest) -> length rest < length ts).

Lemma collect_paren_len :
  forall ts d a b, collect_paren d ts = (a, b) -> length a + length b <= length ts.
Proof.
  induction ts as [|t ts IH]; intros d a b H; cbn [collect_paren] in H.
  - inversion H; subst. cbn [length]. llia.
  - destruct (token_is_lp t).
    + destruct (collect_paren (S d) ts) as [a' b'] eqn:E. apply IH in E.
      inversion H; subst. cbn [length]. llia.
    + destruct (token_is_rp t).
      * destruct d as [|d].
        -- inversion H; subst. cbn [length]. llia.
        -- destruct (collect_paren d ts) as [a' b'] eqn:E. apply IH in E.
           inversion H; subst. cbn [length]. llia.
      * destruct (collect_paren d ts) as [a' b'] eqn:E. apply IH in E.
        inversion H; subst. cbn [length]. llia.
Qed.

Lemma parse_all_np rec k ts : good rec k -> length ts < k -> np (parse_all rec ts).
Proof.
  intros Hg Hl. unfold parse_all. apply bind_np; [apply (Hg 0%N ts Hl)|].
  intros [e rest] _. destruct rest; [apply np_ok | apply np_err].
Qed.

Lemma paren_ident_np ts : np (paren_ident ts).
Proof. unfold paren_ident. repeat np_step. Qed.

Ltac break_goal :=
  repeat (match goal with
          | |- context [match ?x with _ => _ end] => destruct x
          end; try (intros; discriminate)).

Lemma paren_ident_len ts s r : paren_ident ts = Ok (s, r) -> length r < length ts.
Proof.
  unfold paren_ident. break_goal.
  intros H; inversion H; subst. cbn [length]. llia.
Qed.

Lemma led_check_np l s r : np (led_check l s r).
Proof. unfold led_check. repeat np_step. Qed.

Lemma parse_nud_good rec k ts : good rec k -> length ts <= k ->
  np (parse_nud rec ts) /\
  (forall e rest, parse_nud rec ts = Ok (e, rest) -> length rest < length ts).
Proof.
  intros Hg Hl. unfold parse_nud. destruct ts as [|t rest0].
  { split; [apply np_err | intros; discriminate]. }
  cbn [length] in Hl. assert (Hr : length rest0 < k) by llia.
  destruct t as [d|f|s|z|b|m| |m].
  - destruct d.
    + split; [apply np_err | intros; discriminate].
    + destruct (collect_paren 0 rest0) as [inner after] eqn:E.
      apply collect_paren_len in E. split.
      * apply bind_np; [apply (parse_all_np rec k); [exact Hg | llia]|].
        intros; apply np_ok.
      * intros e rest. destruct (parse_all rec inner); cbn [bind]; intros H;
          inversion H; subst. cbn [length]. llia.
    + split; [apply np_err | intros; discriminate].
  - split; [apply np_ok | intros e rest H; inversion H; subst; cbn [length]; llia].
  - split; [apply np_ok | intros e rest H; inversion H; subst; cbn [length]; llia].
  - split; [apply np_ok | intros e rest H; inversion H; subst; cbn [length]; llia].
  - split; [apply np_err | intros; discriminate].
  - split.
    + apply bind_np; [apply paren_ident_np|]. intros [s r] _. apply np_ok.
    + intros e rest. destruct (paren_ident rest0) as [[s r]| |] eqn:E; cbn [bind];
        intros H; try discriminate. apply paren_ident_len in E. inversion H; subst.
      cbn [length]. llia.
  - destruct (Hg bp_not rest0 Hr) as [Hn Hs]. split.
    + apply bind_np; [exact Hn|]. intros [rgt rest'] _.
      destruct (negatable rgt); [apply np_ok | apply np_err].
    + intros e rest.
      destruct (rec bp_not rest0) as [[rgt rest']| |] eqn:E; cbn [bind];
        try (intros; discriminate).
      specialize (Hs _ _ eq_refl).
      destruct (negatable rgt); intros H; inversion H; subst. cbn [length]. llia.
  - destruct m.
    + split.
      * apply bind_np; [apply paren_ident_np|]. intros [s r] _. apply np_ok.
      * intros e rest. destruct (paren_ident rest0) as [[s r]| |] eqn:E;
          cbn [bind]; intros H; try discriminate.
        apply paren_ident_len in E. inversion H; subst. cbn [length]. llia.
    + split.
      * repeat np_step.
      * intros e rest. break_goal. intros H; inversion H; subst. cbn [length]. llia.
Qed.

Lemma parse_led_good rec k ts lft : good rec k -> length ts <= k ->
  np (parse_led rec lft ts) /\
  (forall e rest, parse_led rec lft ts = Ok (e, rest) -> length rest < length ts).
Proof.
  intros Hg Hl. unfold parse_led. destruct ts as [|t rest0].
  { split; [apply np_err | intros; discriminate]. }
  cbn [length] in Hl. assert (Hr : length rest0 < k) by llia.
  destruct t as [d|f|s|z|b|m| |m];
    try (split; [apply np_err | intros; discriminate]).
  destruct (Hg (binding_power (TOp b)) rest0 Hr) as [Hn Hs]. split.
  - apply bind_np; [exact Hn|]. intros [rgt rest'] _.
    apply bind_np; [apply led_check_np|]. intros; apply np_ok.
  - intros e rest.
    destruct (rec (binding_power (TOp b)) rest0) as [[rgt rest']| |] eqn:E;
      cbn [bind]; try (intros; discriminate).
    specialize (Hs _ _ eq_refl).
    destruct (led_check lft b rgt); cbn [bind]; intros H; inversion H; subst.
    cbn [length]. llia.
Qed.

Lemma parse_loop_good rec k : good rec k ->
  forall n rbp lft ts, length ts <= k -> length ts <= n ->
    np (parse_loop rec n rbp lft ts) /\
    (forall e rest, parse_loop rec n rbp lft ts = Ok (e, rest) -> length rest <= length ts).
Proof.
  intros Hg. induction n as [|n IH]; intros rbp lft ts Hk Hn.
  - destruct ts as [|next ts']; [|cbn [length] in Hn; llia].
    cbn [parse_loop]. split; [apply np_ok | intros e rest H; inversion H; subst; llia].
  - destruct ts as [|next ts']; cbn [parse_loop].
    { split; [apply np_ok | intros e rest H; inversion H; subst; llia]. }
    destruct (binding_power next <=? rbp)%N.
    { split; [apply np_ok | intros e rest H; inversion H; subst; llia]. }
    destruct (parse_led_good rec k (next :: ts') lft Hg Hk) as [Hnp Hs].
    destruct (parse_led rec lft (next :: ts')) as [[lft' rest1]| |] eqn:E; cbn [bind].
    + specialize (Hs _ _ eq_refl).
      destruct (IH rbp lft' rest1) as [A B]; try (cbn [length] in *; llia).
      split; [exact A|]. intros e rest H. apply B in H. llia.
    + split; [apply np_err | intros; discriminate].
    + exfalso. apply (Hnp site). reflexivity.
Qed.

Lemma parse_expr_good : forall n, good (parse_expr n) n.
Proof.
  induction n as [|n IH]; intros rbp ts Hl; [llia|].
  cbn [parse_expr].
  destruct (parse_nud_good (parse_expr n) n ts IH) as [Hnp Hs]; [llia|].
  destruct (parse_nud (parse_expr n) ts) as [[lft rest]| |] eqn:E; cbn [bind].
  - specialize (Hs _ _ eq_refl).
    destruct (parse_loop_good (parse_expr n) n IH (length rest) rbp lft rest) as [A B];
      try llia.
    split; [exact A|]. intros e r H. apply B in H. llia.
  - split; [apply np_err | intros; discriminate].
  - exfalso. apply (Hnp site). reflexivity.
Qed.

Theorem parse_total : forall ts site, parse ts <> Panic site.
Proof.
  intros ts. unfold parse.
  apply (parse_all_np _ (S (length ts))); [apply parse_expr_good | llia].
Qed.

(* ------------------------------------------------------------------------------------ *)
(* identifier patterns                                                                   *)
(* ------------------------------------------------------------------------------------ *)

Lemma first_last_len c s :
  first_is c s = true -> last_is c s = true -> str_eqb s [c] = false -> 2 <= length s.
Proof.
  intros Hf Hl He. destruct s as [|a [|b s']].
  - discriminate Hf.
  - cbn [first_is] in Hf. cbn [str_eqb] in He.
    rewrite N.eqb_sym in He. rewrite Hf in He. discriminate He.
  - cbn [length]. llia.
Qed.

Lemma slice_inner_np s : 2 <= length s -> np (slice_inner s).
Proof.
  intros H. unfold slice_inner. destruct (length s <? 2) eqn:E.
  - apply Nat.ltb_lt in E. llia.
  - apply np_ok.
Qed.

Lemma num_pattern_np o mi mf s : np (num_pattern o mi mf s).
Proof. unfold num_pattern. repeat np_step. Qed.

Lemma into_identifier_np o ic s0 : np (into_identifier o ic s0).
Proof.
  unfold into_identifier.
  match goal with |- np (match ?X with _ => _ end) => destruct X as [ci s] end.
  apply bind_np; [|intros; apply np_ok].
  destruct (strip_prefix [ch_qmark] s); [repeat np_step|].
  destruct (strip_prefix [ch_gt; ch_eq] s); [apply num_pattern_np|].
  destruct (strip_prefix [ch_gt] s); [apply num_pattern_np|].
  destruct (strip_prefix [ch_lt; ch_eq] s); [apply num_pattern_np|].
  destruct (strip_prefix [ch_lt] s); [apply num_pattern_np|].
  destruct (strip_prefix [ch_eq] s); [apply num_pattern_np|].
  destruct (str_eqb s [ch_star]) eqn:E1; [apply np_ok|].
  destruct (first_is ch_star s && last_is ch_star s) eqn:E2.
  { apply andb_prop in E2. destruct E2 as [Ef El].
    apply bind_np; [|intros; apply np_ok].
    apply slice_inner_np. exact (first_last_len _ _ Ef El E1). }
  destruct (strip_prefix [ch_star] s); [apply np_ok|].
  destruct (strip_suffix [ch_star] s); [apply np_ok|].
  match goal with |- np (if ?b then _ else _) => destruct b eqn:E3 end; [|apply np_ok].
  apply andb_prop in E3. destruct E3 as [E3 _]. apply Nat.ltb_lt in E3.
  apply bind_np; [|intros; apply np_ok].
  apply slice_inner_np. llia.
Qed.

Theorem into_identifier_total : forall o ic s site, into_identifier o ic s <> Panic site.
Proof. exact into_identifier_np. Qed.

(* ------------------------------------------------------------------------------------ *)
(* mapping keys and identifier blocks                                                    *)
(* ------------------------------------------------------------------------------------ *)

Lemma parse_key_np o k v : np (parse_key o k v).
Proof.
  unfold parse_key. destruct k; try apply np_err.
  apply bind_np; [exact (tokenise_total o s)|]. intros ts _.
  apply bind_np; [exact (parse_total _)|]. intros ex _.
  repeat np_step.
Qed.

Theorem parse_key_total : forall o k v site, parse_key o k v <> Panic site.
Proof. exact parse_key_np. Qed.

Lemma misc_pattern_check_np misc p : np (misc_pattern_check misc p).
Proof. unfold misc_pattern_check. repeat np_step. Qed.

Lemma scalar_string_expr_np o ic ki s : np (scalar_string_expr o ic ki s).
Proof.
  unfold scalar_string_expr.
  apply bind_np; [apply into_identifier_np|]. intros id _.
  apply bind_np; [apply misc_pattern_check_np|]. intros u _.
  cbv zeta. repeat np_step.
Qed.

(* what the supplied sub-results must satisfy *)
Definition sub_ok (sub : option (out expr)) : Prop := forall r, sub = Some r -> np r.

Lemma sub_ok_none : sub_ok None.
Proof. intros r H; discriminate. Qed.

Lemma seq_member_np o ic ki ue a v sub :
  sub_ok sub -> np (seq_member o ic ki ue a v sub).
Proof.
  intros Hs. unfold seq_member. cbv zeta. destruct v.
  - repeat np_step.
  - repeat np_step.
  - repeat np_step.
  - repeat np_step.
  - apply bind_np; [apply into_identifier_np|]. intros id _.
    apply bind_np; [apply misc_pattern_check_np|]. intros u _.
    repeat np_step.
  - apply np_err.
  - destruct (k_misc ki); [apply np_err|].
    destruct sub as [r|]; [|apply np_err].
    apply bind_np; [apply Hs; reflexivity|]. intros; apply np_ok.
  - apply np_err.
Qed.

Lemma seq_members_np o ic ki ue : forall vs a subs,
  Forall sub_ok subs -> np (seq_members o ic ki ue a vs subs).
Proof.
  induction vs as [|v vs IH]; intros a subs HF; cbn [seq_members].
  - apply np_ok.
  - apply bind_np.
    + apply seq_member_np. destruct subs as [|s subs']; [apply sub_ok_none|].
      inversion HF; assumption.
    + intros a' _. apply IH. destruct subs as [|s subs']; cbn [tl]; [constructor|].
      inversion HF; assumption.
Qed.

Lemma finish_seq_np ki a : np (finish_seq ki a).
Proof. unfold finish_seq. cbv zeta. repeat np_step. Qed.

Lemma parse_entry_np o ic k v sub subs :
  sub_ok sub -> Forall sub_ok subs -> np (parse_entry o ic k v sub subs).
Proof.
  intros Hs HF. unfold parse_entry.
  apply bind_np; [apply parse_key_np|]. intros ki _. cbv zeta.
  apply bind_np; [|intros; apply np_ok].
  destruct v.
  - apply np_ok.
  - repeat np_step.
  - repeat np_step.
  - repeat np_step.
  - apply scalar_string_expr_np.
  - apply bind_np; [apply seq_members_np; exact HF|]. intros a _. apply finish_seq_np.
  - destruct (k_misc ki); [apply np_err|].
    destruct sub as [r|]; [|apply np_err].
    apply bind_np; [apply Hs; reflexivity|]. intros; apply np_ok.
  - apply np_err.
Qed.

Lemma finish_mapping_np es : np (finish_mapping es).
Proof. unfold finish_mapping. repeat np_step. Qed.

Fixpoint parse_mapping_np (o : oracles) (ic : bool) (y : yaml) {struct y} :
  np (parse_mapping o ic y).
Proof.
  destruct y as [| | | | |l|kv|tag w]; try apply np_err.
  cbn [parse_mapping].
  apply bind_np; [|intros; apply finish_mapping_np].
  induction kv as [|[k v] kv' IH].
  - apply np_ok.
  - apply bind_np.
    + apply parse_entry_np.
      * intros r Hr. pose proof (parse_mapping_np o ic v) as Hv.
        destruct v as [| | | | |l|kv0|tag w]; try discriminate Hr.
        injection Hr as <-. exact Hv.
      * destruct v as [| | | | |l|kv0|tag w]; try constructor.
        induction l as [|m l IHl]; cbn [map]; constructor; [|exact IHl].
        intros r Hr. pose proof (parse_mapping_np o ic m) as Hm.
        destruct m as [| | | | |l0|kv0|tag w]; try discriminate Hr.
        injection Hr as <-. exact Hm.
    + intros e _. apply bind_np; [exact IH|]. intros; apply np_ok.
Qed.

Lemma parse_identifier_np o ic y : np (parse_identifier o ic y).
Proof.
  unfold parse_identifier. destruct y as [| | | | |l|kv|tag w]; try apply np_err.
  - destruct l as [|first others]; [apply np_err|].
    destruct (is_ymap first); [|apply np_err].
    apply bind_np; [apply parse_mapping_np|]. intros e0 _.
    apply bind_np; [|intros; apply np_ok].
    apply mapM_np. intros v. destruct (is_ymap v); [apply parse_mapping_np | apply np_err].
  - apply parse_mapping_np.
Qed.

Theorem parse_identifier_total : forall o ic y site, parse_identifier o ic y <> Panic site.
Proof. exact parse_identifier_np. Qed.

(* ------------------------------------------------------------------------------------ *)
(* whole rules                                                                           *)
(* ------------------------------------------------------------------------------------ *)

Lemma load_entries_np o ic : forall kv cond ids, np (load_entries o ic kv cond ids).
Proof.
  induction kv as [|[k v] kv IH]; intros cond ids; cbn [load_entries].
  - apply np_ok.
  - destruct (untag k); try apply np_err.
    destruct (str_eqb s cond_key).
    + destruct (untag v); try apply np_err. apply IH.
    + apply bind_np; [apply as_rule_err_np, parse_identifier_np|].
      intros e _. apply IH.
Qed.

Lemma load_detection_np o ic y : np (load_detection o ic y).
Proof.
  unfold load_detection. destruct (untag y); try apply np_err.
  apply bind_np; [apply load_entries_np|]. intros [cond ids] _.
  destruct cond as [raw|]; [|apply np_err].
  apply bind_np; [apply as_rule_err_np; exact (tokenise_total o raw)|]. intros ts _.
  destruct (negb (idents_known ids None None ts)); [apply np_err|].
  apply bind_np; [apply as_rule_err_np; exact (parse_total ts)|]. intros e _.
  destruct (is_solvable e); [apply np_ok | apply np_err].
Qed.

Lemma load_rule_np o ic y : np (load_rule o ic y).
Proof.
  unfold load_rule. destruct (untag y); try apply np_err.
  apply bind_np; [destruct (option_map untag (ylookup key_optimised kv)) as [[]|]; repeat np_step|]. intros opt _.
  apply bind_np.
  { destruct (ylookup key_detection kv); [apply load_detection_np | apply np_err]. }
  intros det _.
  apply bind_np; [destruct (option_map untag (ylookup key_tp kv)) as [[]|]; repeat np_step|]. intros tp _.
  apply bind_np; [destruct (option_map untag (ylookup key_tn kv)) as [[]|]; repeat np_step|]. intros tn _.
  apply np_ok.
Qed.

Theorem load_rule_total : forall o ic y site, load_rule o ic y <> Panic site.
Proof. exact load_rule_np. Qed.

(* ------------------------------------------------------------------------------------ *)
(* non-vacuity                                                                           *)
(* ------------------------------------------------------------------------------------ *)

Lemma lone_quote_example :
  forall o, into_identifier o false [34%N] = Ok {| id_ci := false; id_pat := PExact [34%N] |} /\
            into_identifier o false [105%N; 39%N] = Ok {| id_ci := true; id_pat := PExact [39%N] |}.
Proof. intros o. split; reflexivity. Qed.
