(* C02 (part): lifting the scalar-entry refinement to mappings and identifiers.
   The scalar-entry lemma `entry_refines_excl_stmt` (Model/Spec.v) is a Section hypothesis here; it
   is proved in Proofs/C02_entry.v.  After the section the two named lemmas take its proof as
   their first argument. *)
From TauModel Require Import Base Num Oracles Syntax Value Yaml Token Pratt Ident ParseMap
     PatSpec Solver Rule Spec.
From Coq Require Import Lia List Bool Arith.
Import ListNotations.

(* ================= generic helpers ================= *)

Lemma bind_ok_inv {A B} (x : out A) (f : A -> out B) b :
  bind x f = Ok b -> exists a, x = Ok a /\ f a = Ok b.
Proof. destruct x; cbn [bind]; intros H; try discriminate H. eauto. Qed.

Lemma mapM_F2 {A B} (f : A -> out B) : forall l bs,
  mapM f l = Ok bs -> Forall2 (fun a b => f a = Ok b) l bs.
Proof.
  induction l as [|a l IH]; intros bs H; cbn [mapM] in H.
  - inversion H; subst. constructor.
  - destruct (f a) as [b| |] eqn:Ea; try discriminate H.
    destruct (mapM f l) as [bs'| |] eqn:El; try discriminate H.
    inversion H; subst. constructor; [exact Ea | exact (IH _ eq_refl)].
Qed.

Lemma F2_flip_map {A B C} (Q : A -> B -> Prop) (P : B -> C -> Prop) (f : A -> C) :
  (forall a b, Q a b -> P b (f a)) ->
  forall l l', Forall2 Q l l' -> Forall2 P l' (map f l).
Proof.
  intros HQ. induction 1 as [|a b l l' Hab _ IH]; cbn [map]; constructor; auto.
Qed.

Lemma F2_impl {A B} (Q Q' : A -> B -> Prop) :
  (forall a b, Q a b -> Q' a b) -> forall l l', Forall2 Q l l' -> Forall2 Q' l l'.
Proof. intros HQ. induction 1; constructor; auto. Qed.

Lemma F2_impl_in {A B} (Q Q' : A -> B -> Prop) : forall l l',
  (forall a b, In a l -> Q a b -> Q' a b) -> Forall2 Q l l' -> Forall2 Q' l l'.
Proof.
  intros l l' HQ HF. induction HF as [|a b l l' Hab _ IH]; constructor.
  - apply HQ; [left; reflexivity|exact Hab].
  - apply IH. intros a' b' Hin. apply HQ. right; exact Hin.
Qed.

(* ---- three-valued tables ---- *)
Lemma fnt_single r : first_non_true [r] = r.
Proof. destruct r; reflexivity. Qed.

Lemma max3_single r : max3 [r] = r.
Proof. destruct r; reflexivity. Qed.

Lemma max3_cons r rs : max3 (r :: rs) = or3 r (max3 rs).
Proof. reflexivity. Qed.

(* ---- groups over members whose results are known ---- *)
Lemma solve_and_group o g d :
  solve_body o (EGroup BAnd g) d = and_fold (map (fun x (_ : unit) => solve_body o x d) g).
Proof. reflexivity. Qed.

Lemma solve_or_group o g d :
  solve_body o (EGroup BOr g) d = or_fold M (map (fun x (_ : unit) => solve_body o x d) g).
Proof. reflexivity. Qed.

Lemma and_fold_F2 {A} o (r : A -> res3) d : forall kv es,
  Forall2 (fun p e => solve_body o e d = Ok (r p)) kv es ->
  and_fold (map (fun x (_ : unit) => solve_body o x d) es) = Ok (first_non_true (map r kv)).
Proof.
  induction 1 as [|p e kv es Hpe _ IH]; [reflexivity|].
  cbn [map and_fold first_non_true]. rewrite Hpe. cbn [bind].
  destruct (r p); [exact IH|reflexivity|reflexivity].
Qed.

Lemma or_fold_F2 {A} o (r : A -> res3) d : forall kv es,
  Forall2 (fun p e => solve_body o e d = Ok (r p)) kv es ->
  forall acc, acc <> T ->
  or_fold acc (map (fun x (_ : unit) => solve_body o x d) es) = Ok (or3 acc (max3 (map r kv))).
Proof.
  induction 1 as [|p e kv es Hpe _ IH]; intros acc Hacc.
  - cbn [map or_fold max3 fold_right]. destruct acc; reflexivity.
  - cbn [map or_fold]. rewrite Hpe. cbn [bind]. rewrite max3_cons.
    destruct (r p).
    + destruct acc; reflexivity.
    + rewrite IH by discriminate.
      destruct acc, (max3 (map r kv)); try reflexivity; congruence.
    + rewrite IH by assumption.
      destruct acc, (max3 (map r kv)); try reflexivity; congruence.
Qed.

(* ---- Nested with a body that is not a quantifier ---- *)
Definition any_true_list (slv : docq -> out res3) : list (list (str * value)) -> out res3 :=
  fix any_true (objs : list (list (str * value))) : out res3 :=
    match objs with
    | [] => Ok F
    | kv :: rest =>
        do r <- slv (obj_doc kv);
        match r with T => Ok T | _ => any_true rest end
    end.

Lemma solve_nested o f e' d : is_match_key e' = false ->
  solve_body o (ENested f e') d =
  do x <- d f;
  match x with
  | None => Ok M
  | Some (VObj kv) => solve_body o e' (obj_doc kv)
  | Some (VArr a) => any_true_list (solve_body o e') (objects_of a)
  | Some _ => Ok F
  end.
Proof. intros H. destruct e'; try discriminate H; reflexivity. Qed.

Lemma any_true_spec (slv : docq -> out res3) (r : list (str * value) -> res3) :
  (forall kv, slv (obj_doc kv) = Ok (r kv)) ->
  forall l, any_true_list slv (objects_of l) =
            Ok (if existsb (fun e => match e with
                                     | VObj kv' => res3_eqb (r kv') T
                                     | _ => false
                                     end) l then T else F).
Proof.
  intros Hs. induction l as [|v l IH]; [reflexivity|].
  unfold objects_of. cbn [flat_map existsb]. fold (objects_of l).
  destruct v; cbn [app orb]; try exact IH.
  cbn [any_true_list]. rewrite Hs. cbn [bind].
  destruct (r kv); cbn [res3_eqb orb]; [reflexivity|exact IH|exact IH].
Qed.

(* ---- depth of the values of a mapping / the members of a sequence ---- *)
Lemma depth_map_value : forall kv p, In p kv -> yaml_depth (snd p) < yaml_depth (YMap kv).
Proof.
  intros kv p. cbn [yaml_depth].
  induction kv as [|q kv IH]; intros Hin; [contradiction|].
  cbn [fold_right]. destruct Hin as [->|Hin]; [lia|].
  specialize (IH Hin). lia.
Qed.

Lemma depth_seq_member : forall l m, In m l -> yaml_depth m < yaml_depth (YSeq l).
Proof.
  intros l m. cbn [yaml_depth].
  induction l as [|q l IH]; intros Hin; [contradiction|].
  cbn [fold_right]. destruct Hin as [->|Hin]; [lia|].
  specialize (IH Hin). lia.
Qed.

Lemma depth_map_single : forall kv p, In p kv -> yaml_depth (YMap [p]) <= yaml_depth (YMap kv).
Proof.
  intros kv p. cbn [yaml_depth fold_right].
  induction kv as [|q kv IH]; intros Hin; [contradiction|].
  cbn [fold_right]. destruct Hin as [->|Hin]; [lia|].
  specialize (IH Hin). lia.
Qed.

(* entry_exists only finds more with more fuel *)
Lemma entry_exists_mono p : forall n n' y, n <= n' ->
  entry_exists n p y = true -> entry_exists n' p y = true.
Proof.
  induction n as [|n IH]; intros n' y Hle H; [discriminate H|].
  destruct n' as [|n']; [lia|].
  assert (Hle' : n <= n') by lia.
  destruct y; cbn [entry_exists] in H |- *; try discriminate H.
  - apply existsb_exists in H. destruct H as (m & Hin & Hm).
    apply existsb_exists. exists m. split; [exact Hin|]. exact (IH _ _ Hle' Hm).
  - apply existsb_exists in H. destruct H as (e & Hin & He).
    apply existsb_exists. exists e. split; [exact Hin|].
    apply orb_true_iff in He. apply orb_true_iff.
    destruct He as [He|He]; [left; exact He|right; exact (IH _ _ Hle' He)].
Qed.

Lemma entry_exists_anti p n n' y : n <= n' ->
  entry_exists n' p y = false -> entry_exists n p y = false.
Proof.
  intros Hle H. destruct (entry_exists n p y) eqn:E; [|reflexivity].
  rewrite (entry_exists_mono p _ _ _ Hle E) in H. discriminate H.
Qed.

(* ================= the reference semantics, one entry at a time ================= *)
Section Sem.
Variable o : oracles.
Variable ic : bool.

Definition member (rec : yaml -> doc -> res3) (x : value) (m' : keymod) (v : yaml) : res3 :=
  match v with
  | YMap _ =>
      match x with
      | VObj kv' => rec v (obj_find kv')
      | VArr l =>
          if existsb (fun e => match e with
                               | VObj kv' => res3_eqb (rec v (obj_find kv')) T
                               | _ => false
                               end) l
          then T else F
      | _ => F
      end
  | _ => sem_scalar o ic m' v x
  end.

Definition entry_sem (rec : yaml -> doc -> res3) (d : doc) (p : yaml * yaml) : res3 :=
  match fst p with
  | YStr k =>
      match read_key o k with
      | None => M
      | Some (m, f) =>
          let base : res3 :=
            match d f with
            | None => M
            | Some x =>
                match snd p with
                | YSeq vs =>
                    match m with
                    | KAll => first_non_true (map (member rec x KPlain) vs)
                    | KOf c => of3 c (map (member rec x KPlain) vs)
                    | KNot => max3 (map (member rec x KPlain) vs)
                    | _ => max3 (map (member rec x m) vs)
                    end
                | v =>
                    match m with
                    | KNot => member rec x KPlain v
                    | KAll | KOf _ => M
                    | _ => member rec x m v
                    end
                end
            end in
          match m with KNot => not3 base | _ => base end
      end
  | _ => M
  end.

Lemma sem_mapping_S fu kv d :
  sem_mapping o ic (S fu) (YMap kv) d =
  first_non_true (map (entry_sem (sem_mapping o ic fu) d) kv).
Proof. reflexivity. Qed.

Lemma sem_mapping_single fu p d :
  sem_mapping o ic (S fu) (YMap [p]) d = entry_sem (sem_mapping o ic fu) d p.
Proof. rewrite sem_mapping_S. cbn [map]. apply fnt_single. Qed.

Lemma entry_sem_scalar rec d k v m f :
  scalar_yaml v = true -> read_key o k = Some (m, f) ->
  match m with KAll | KOf _ => False | _ => True end ->
  entry_sem rec d (YStr k, v) = sem_entry_scalar o ic m f v d.
Proof.
  intros Hv Hk Hm. unfold entry_sem, sem_entry_scalar. cbn [fst snd]. rewrite Hk. cbv zeta.
  destruct (d f) as [x|].
  - destruct v; try discriminate Hv; destruct m; try contradiction; reflexivity.
  - reflexivity.
Qed.

Lemma entry_sem_nested rec d k kv' f :
  read_key o k = Some (KPlain, f) ->
  entry_sem rec d (YStr k, YMap kv') =
  match d f with None => M | Some x => member rec x KPlain (YMap kv') end.
Proof. intros Hk. unfold entry_sem. cbn [fst snd]. rewrite Hk. reflexivity. Qed.

(* ================= the loader, one entry at a time ================= *)

(* the expressions an entry whose value is not a list can give *)
Definition eshape (e : expr) : bool :=
  match e with
  | EGroup _ _ | EMatrix _ _ | EMatch _ _ => false
  | ESearch (SAho ctx _) _ _ => (length ctx =? 1)%nat
  | ESearch (SRegexSet _ _) _ _ => false
  | _ => true
  end.

Lemma eshape_no_match e : eshape e = true -> is_match_key e = false.
Proof. destruct e; cbn [eshape is_match_key]; intros H; try reflexivity; discriminate H. Qed.

Lemma scalar_string_expr_shape ki s e : scalar_string_expr o ic ki s = Ok e -> eshape e = true.
Proof.
  unfold scalar_string_expr. intros H.
  apply bind_ok_inv in H. destruct H as (id & _ & H).
  apply bind_ok_inv in H. destruct H as (u & _ & H). cbv zeta in H.
  destruct (id_pat id); cbn [numeric_expr] in H; inversion H; subst; clear H;
    try reflexivity; destruct (id_ci id); try reflexivity.
  all: destruct s0; reflexivity.
Qed.

Lemma parse_entry_shape k v sub subs e :
  parse_entry o ic k v sub subs = Ok e -> is_yseq v = false -> eshape e = true.
Proof.
  intros H Hv. unfold parse_entry in H.
  apply bind_ok_inv in H. destruct H as (ki & _ & H). cbv zeta in H.
  apply bind_ok_inv in H. destruct H as (ex & Hex & H).
  assert (Hw : eshape ex = true).
  { clear H. destruct v as [| b | z | x | s | l | kv | tag w].
    - inversion Hex; subst; reflexivity.
    - destruct (misc_is MInt (k_misc ki)); [|destruct (misc_is MStr (k_misc ki))];
        inversion Hex; subst; reflexivity.
    - destruct (number_of z);
        [ destruct (misc_is MStr (k_misc ki))
        | destruct (misc_is MInt (k_misc ki)); [|destruct (misc_is MStr (k_misc ki))] ];
        inversion Hex; subst; reflexivity.
    - destruct (misc_is MInt (k_misc ki)); [|destruct (misc_is MStr (k_misc ki))];
        inversion Hex; subst; reflexivity.
    - exact (scalar_string_expr_shape _ _ _ Hex).
    - discriminate Hv.
    - destruct (k_misc ki); [discriminate Hex|].
      destruct sub as [r|]; [|discriminate Hex].
      apply bind_ok_inv in Hex. destruct Hex as (x & Hr & Hx). inversion Hx; subst.
      reflexivity.
    - discriminate Hex. }
  destruct (misc_is MNot (k_misc ki)); inversion H; subst; [reflexivity|exact Hw].
Qed.

(* the sub-results are consulted for mapping / sequence values only *)
Lemma parse_entry_scalar_subs k v sub subs :
  scalar_yaml v = true -> parse_entry o ic k v sub subs = parse_entry o ic k v None [].
Proof. intros Hv. destruct v; try discriminate Hv; reflexivity. Qed.

(* a nested block: the key is a plain field name *)
Lemma parse_entry_nested k kv' r subs e :
  parse_entry o ic (YStr k) (YMap kv') (Some r) subs = Ok e ->
  exists f e', read_key o k = Some (KPlain, f) /\ r = Ok e' /\ e = ENested f e'.
Proof.
  unfold parse_entry, parse_key, read_key.
  destruct (tokenise o k) as [ts| |]; cbn [bind]; try discriminate.
  destruct (parse (merge_idents [] ts)) as [ex| |]; cbn [bind]; try discriminate.
  destruct ex; cbn [bind is_yseq k_misc k_e k_f]; try discriminate.
  intros H. apply bind_ok_inv in H. destruct H as (ex & Hex & H).
  apply bind_ok_inv in Hex. destruct Hex as (x & Hr & Hx).
  inversion Hx; subst. cbn [misc_is] in H. inversion H; subst.
  eauto.
Qed.

(* the entries loop of parse_mapping *)
Definition entries_of : list (yaml * yaml) -> out (list expr) :=
  fix entries (kv : list (yaml * yaml)) : out (list expr) :=
    match kv with
    | [] => Ok []
    | (k, v) :: kv' =>
        let sub := match v with YMap _ => Some (parse_mapping o ic v) | _ => None end in
        let subs :=
          match v with
          | YSeq l => map (fun m => match m with
                                    | YMap _ => Some (parse_mapping o ic m)
                                    | _ => None
                                    end) l
          | _ => []
          end in
        do e <- parse_entry o ic k v sub subs;
        do es <- entries kv';
        Ok (e :: es)
    end.

Lemma parse_mapping_YMap kv :
  parse_mapping o ic (YMap kv) = do es <- entries_of kv; finish_mapping es.
Proof. reflexivity. Qed.

Section Lift.
Hypothesis H_entry : entry_refines_excl_stmt.

(* what is proved, at any fuel above the depth *)
Definition mapping_ok (n : nat) : Prop :=
  forall y e,
    yaml_depth y < n -> simple_mapping n y = true ->
    entry_exists n (excluded_entry o) y = false ->
    parse_mapping o ic y = Ok e ->
    (forall d : doc, solve_body o e (pure_doc d) = Ok (sem_mapping o ic n y d)) /\
    is_match_key e = false.

Definition entry_ok (fu : nat) (p : yaml * yaml) (e : expr) : Prop :=
  (forall d : doc, solve_body o e (pure_doc d) = Ok (entry_sem (sem_mapping o ic fu) d p)) /\
  eshape e = true.

Definition simple_entry (fu : nat) (p : yaml * yaml) : bool :=
  match fst p with YStr _ => true | _ => false end &&
  (scalar_yaml (snd p) || simple_mapping fu (snd p)).

Definition excl_in_entry (fu : nat) (e : yaml * yaml) : bool :=
  excluded_entry o (fst e) (snd e) || entry_exists fu (excluded_entry o) (snd e).

Lemma one_entry_ok fu k v e :
  mapping_ok fu ->
  yaml_depth v < fu -> simple_entry fu (k, v) = true -> excl_in_entry fu (k, v) = false ->
  parse_entry o ic k v
    (match v with YMap _ => Some (parse_mapping o ic v) | _ => None end)
    (match v with
     | YSeq l => map (fun m => match m with
                               | YMap _ => Some (parse_mapping o ic m)
                               | _ => None
                               end) l
     | _ => []
     end) = Ok e ->
  entry_ok fu (k, v) e.
Proof.
  intros IH Hd Hs H27 Hp.
  unfold simple_entry in Hs. cbn [fst snd] in Hs. apply andb_true_iff in Hs.
  destruct Hs as [Hk Hs]. destruct k as [| | | |k| | |]; try discriminate Hk. clear Hk.
  unfold excl_in_entry in H27. cbn [fst snd] in H27. apply orb_false_iff in H27.
  destruct H27 as [H27 H27v].
  destruct (scalar_yaml v) eqn:Hsc.
  - (* a scalar entry *)
    assert (Hp' : parse_entry o ic (YStr k) v None [] = Ok e).
    { rewrite <- Hp. symmetry. apply parse_entry_scalar_subs. exact Hsc. }
    destruct (H_entry o ic k v e Hsc H27 Hp') as (m & f & Hrk & Hm & Hsolve).
    split.
    + intros d. rewrite Hsolve. f_equal. symmetry. apply entry_sem_scalar; assumption.
    + apply (parse_entry_shape _ _ _ _ _ Hp').
      destruct v; try discriminate Hsc; reflexivity.
  - (* a nested block *)
    cbn [orb] in Hs.
    destruct v as [| | | | | |kv'|]; try (destruct fu; discriminate Hs).
    destruct (parse_entry_nested _ _ _ _ _ Hp) as (f & e' & Hrk & Hsub & ->).
    destruct (IH _ _ Hd Hs H27v Hsub) as [Hsolve Hnm].
    split; [|reflexivity].
    intros d. rewrite (solve_nested _ _ _ _ Hnm). rewrite (entry_sem_nested _ _ _ _ _ Hrk).
    unfold pure_doc at 1. cbn [bind].
    destruct (d f) as [x|]; [|reflexivity].
    destruct x; try reflexivity.
    + (* array *)
      cbn [member].
      apply (any_true_spec (solve_body o e')
                           (fun kv => sem_mapping o ic fu (YMap kv') (obj_find kv))).
      intros kv. exact (Hsolve (obj_find kv)).
    + (* object *)
      cbn [member]. exact (Hsolve (obj_find kv)).
Qed.

Lemma entries_ok fu : mapping_ok fu ->
  forall kv es,
    (forall p, In p kv -> yaml_depth (snd p) < fu) ->
    forallb (simple_entry fu) kv = true ->
    existsb (excl_in_entry fu) kv = false ->
    entries_of kv = Ok es ->
    Forall2 (entry_ok fu) kv es.
Proof.
  intros IH. induction kv as [|[k v] kv' IHkv]; intros es Hd Hs H27 Hes.
  - inversion Hes; subst. constructor.
  - cbn [forallb] in Hs. apply andb_true_iff in Hs. destruct Hs as [Hs Hs'].
    cbn [existsb] in H27. apply orb_false_iff in H27. destruct H27 as [H27 H27'].
    change (entries_of ((k, v) :: kv')) with
      (do e <- parse_entry o ic k v
                 (match v with YMap _ => Some (parse_mapping o ic v) | _ => None end)
                 (match v with
                  | YSeq l => map (fun m => match m with
                                            | YMap _ => Some (parse_mapping o ic m)
                                            | _ => None
                                            end) l
                  | _ => []
                  end);
       do es <- entries_of kv'; Ok (e :: es)) in Hes.
    apply bind_ok_inv in Hes. destruct Hes as (e & He & Hes).
    apply bind_ok_inv in Hes. destruct Hes as (es' & Hes' & Hes).
    inversion Hes; subst. constructor.
    + apply one_entry_ok; try assumption.
      apply (Hd (k, v)). left; reflexivity.
    + apply IHkv; try assumption. intros p Hin. apply Hd. right; exact Hin.
Qed.

(* the entries of a simple mapping, at fuel S fu *)
Lemma mapping_entries fu kv e :
  mapping_ok fu ->
  yaml_depth (YMap kv) < S fu -> simple_mapping (S fu) (YMap kv) = true ->
  entry_exists (S fu) (excluded_entry o) (YMap kv) = false ->
  parse_mapping o ic (YMap kv) = Ok e ->
  exists es, finish_mapping es = Ok e /\ Forall2 (entry_ok fu) kv es.
Proof.
  intros IH Hd Hs H27 Hp. rewrite parse_mapping_YMap in Hp.
  apply bind_ok_inv in Hp. destruct Hp as (es & Hes & Hfin).
  exists es. split; [exact Hfin|].
  apply (entries_ok fu IH kv es); try assumption.
  intros p Hin. pose proof (depth_map_value kv p Hin). lia.
Qed.

(* finish_mapping: the conjunction in written order *)
Lemma finish_ok fu kv es e :
  Forall2 (entry_ok fu) kv es -> finish_mapping es = Ok e ->
  (forall d : doc, solve_body o e (pure_doc d) =
                   Ok (first_non_true (map (entry_sem (sem_mapping o ic fu) d) kv))) /\
  is_match_key e = false.
Proof.
  intros HF Hfin.
  assert (Hgroup : forall d : doc,
             solve_body o (EGroup BAnd es) (pure_doc d) =
             Ok (first_non_true (map (entry_sem (sem_mapping o ic fu) d) kv))).
  { intros d. rewrite solve_and_group. apply and_fold_F2.
    apply (F2_impl (entry_ok fu)); [|exact HF]. intros p x [Hx _]. apply Hx. }
  unfold finish_mapping in Hfin.
  destruct HF as [|p x kv es [Hx Hsh] HF]; [discriminate Hfin|].
  destruct HF as [|p2 x2 kv es Hx2 HF].
  - inversion Hfin; subst. split.
    + intros d. cbn [map]. rewrite fnt_single. apply Hx.
    + apply eshape_no_match. exact Hsh.
  - inversion Hfin; subst. split; [exact Hgroup|reflexivity].
Qed.

Lemma mapping_ok_all : forall n, mapping_ok n.
Proof.
  induction n as [|fu IH]; intros y e Hd Hs H27 Hp; [lia|].
  destruct y as [| | | | | |kv|]; try discriminate Hs.
  destruct (mapping_entries fu kv e IH Hd Hs H27 Hp) as (es & Hfin & HF).
  destruct (finish_ok fu kv es e HF Hfin) as [Hsolve Hnm].
  split; [|exact Hnm].
  intros d. rewrite sem_mapping_S. apply Hsolve.
Qed.

Lemma mapping_refines_simple_sec : forall y e,
  simple_mapping (S (yaml_depth y)) y = true -> excl_free o y -> parse_mapping o ic y = Ok e ->
  forall d : doc, solve_body o e (pure_doc d) = Ok (sem_mapping o ic (S (yaml_depth y)) y d).
Proof.
  intros y e Hs H27 Hp.
  apply (mapping_ok_all (S (yaml_depth y)) y e); [lia|exact Hs|exact H27|exact Hp].
Qed.

(* ---- identifiers ---- *)

Lemma identifier_map_ok kv b :
  simple_mapping (S (yaml_depth (YMap kv))) (YMap kv) = true -> excl_free o (YMap kv) ->
  parse_mapping o ic (YMap kv) = Ok b -> ident_ok o ic (YMap kv) b.
Proof.
  intros Hs H27 Hp. unfold excl_free in H27.
  remember (yaml_depth (YMap kv)) as fu eqn:Efu.
  assert (Hd : yaml_depth (YMap kv) < S fu) by lia.
  destruct (mapping_entries fu kv b (mapping_ok_all fu) Hd Hs H27 Hp) as (es & Hfin & HF).
  destruct (finish_ok fu kv es b HF Hfin) as [Hsolve _].
  assert (Hwhole : forall d : doc,
             solve_body o b (pure_doc d) = Ok (sem_identifier o ic (YMap kv) d)).
  { intros d. unfold sem_identifier, sem_identifier_members. rewrite max3_single.
    rewrite <- Efu. rewrite sem_mapping_S. apply Hsolve. }
  split; [exact Hwhole|].
  clear Hwhole Hsolve Hs H27 Hp Hd.
  unfold finish_mapping in Hfin.
  destruct HF as [|p x kv1 es1 [Hx Hsh] HF]; [discriminate Hfin|].
  destruct HF as [|p2 x2 kv2 es2 Hx2 HF].
  - (* one entry: the identifier is that entry *)
    inversion Hfin; subst b.
    assert (Hent : forall d : doc,
               sem_entries o ic (YMap [p]) d = [sem_identifier o ic (YMap [p]) d]).
    { intros d. unfold sem_entries, sem_identifier, sem_identifier_members. cbn [map].
      rewrite max3_single. reflexivity. }
    destruct x; cbn [eshape] in Hsh; try discriminate Hsh; try exact Hent.
    destruct s; try discriminate Hsh; try exact Hent.
    split; [|exact Hent]. apply Nat.eqb_eq. exact Hsh.
  - (* two or more entries: their conjunction *)
    inversion Hfin; subst b.
    split; [left; reflexivity|].
    intros d. unfold sem_entries. rewrite <- Efu.
    apply (F2_flip_map (entry_ok fu)
             (fun x r => solve_body o x (pure_doc d) = Ok r)
             (fun p => sem_mapping o ic (S fu) (YMap [p]) d)).
    + intros q z [Hz _]. rewrite sem_mapping_single. apply Hz.
    + constructor; [split; assumption|]. constructor; assumption.
Qed.

Lemma identifier_refines_simple_sec : forall y b,
  simple_identifier y = true -> excl_free o y -> parse_identifier o ic y = Ok b ->
  ident_ok o ic y b.
Proof.
  intros y b Hs H27 Hp.
  destruct y as [| | | | |l|kv|]; try discriminate Hs.
  - (* a sequence of mappings: their disjunction *)
    cbn [simple_identifier] in Hs. cbn [parse_identifier] in Hp.
    destruct l as [|first others]; [discriminate Hp|].
    assert (Hmem : forall m e, In m (first :: others) -> parse_mapping o ic m = Ok e ->
                   forall d : doc, solve_body o e (pure_doc d) =
                                   Ok (sem_mapping o ic (S (yaml_depth m)) m d)).
    { intros m e Hin Hpm. apply mapping_refines_simple_sec; [| |exact Hpm].
      - rewrite forallb_forall in Hs. exact (Hs m Hin).
      - unfold excl_free in H27 |- *. cbn [entry_exists] in H27.
        apply (entry_exists_anti _ (S (yaml_depth m)) (yaml_depth (YSeq (first :: others)))).
        + pose proof (depth_seq_member _ _ Hin). lia.
        + destruct (entry_exists (yaml_depth (YSeq (first :: others))) (excluded_entry o) m) eqn:E;
            [|reflexivity].
          rewrite <- H27. symmetry. apply existsb_exists. exists m. split; assumption. }
    destruct (is_ymap first) eqn:Hf; [|discriminate Hp].
    apply bind_ok_inv in Hp. destruct Hp as (e0 & H0 & Hp).
    apply bind_ok_inv in Hp. destruct Hp as (es & Hes & Hp). inversion Hp; subst b.
    apply mapM_F2 in Hes.
    assert (HF : forall d : doc,
               Forall2 (fun m e => solve_body o e (pure_doc d) =
                                   Ok (sem_mapping o ic (S (yaml_depth m)) m d))
                       (first :: others) (e0 :: es)).
    { intros d. constructor.
      - apply Hmem; [left; reflexivity|exact H0].
      - apply (F2_impl_in (fun v e => (if is_ymap v then parse_mapping o ic v
                                       else Err EInvalidIdent) = Ok e)); [|exact Hes].
        intros m e Hin Hme. destruct (is_ymap m); [|discriminate Hme].
        apply Hmem; [right; exact Hin|exact Hme]. }
    split.
    + intros d. rewrite solve_or_group.
      rewrite (or_fold_F2 o (fun m => sem_mapping o ic (S (yaml_depth m)) m d) (pure_doc d)
                 (first :: others) (e0 :: es) (HF d) M) by discriminate.
      unfold sem_identifier, sem_identifier_members.
      destruct (max3 (map (fun m => sem_mapping o ic (S (yaml_depth m)) m d) (first :: others)));
        reflexivity.
    + split; [right; reflexivity|].
      intros d. unfold sem_entries, sem_identifier_members.
      apply (F2_flip_map
               (fun m e => solve_body o e (pure_doc d) =
                           Ok (sem_mapping o ic (S (yaml_depth m)) m d))
               (fun x r => solve_body o x (pure_doc d) = Ok r)
               (fun m => sem_mapping o ic (S (yaml_depth m)) m d)).
      * intros m e Hme. exact Hme.
      * exact (HF d).
  - (* a mapping *)
    cbn [simple_identifier] in Hs. cbn [parse_identifier] in Hp.
    apply identifier_map_ok; assumption.
Qed.

End Lift.
End Sem.

(* ================= the statements of Properties/C02.v ================= *)
Section Lift.
Hypothesis H_entry : entry_refines_excl_stmt.

Lemma mapping_refines_simple : forall o ic y e,
  simple_mapping (S (yaml_depth y)) y = true -> excl_free o y ->
  parse_mapping o ic y = Ok e ->
  forall d : doc, solve_body o e (pure_doc d) = Ok (sem_mapping o ic (S (yaml_depth y)) y d).
Proof. intros o ic. exact (mapping_refines_simple_sec o ic H_entry). Qed.

Lemma identifier_refines_simple : forall o ic y b,
  simple_identifier y = true -> excl_free o y ->
  parse_identifier o ic y = Ok b -> ident_ok o ic y b.
Proof. intros o ic. exact (identifier_refines_simple_sec o ic H_entry). Qed.

End Lift.

Check mapping_refines_simple.
Check identifier_refines_simple.
Print Assumptions mapping_refines_simple.
Print Assumptions identifier_refines_simple.
