(* C01 (after crate fix D15/D20): identifiers that a quantifier counts.

   Since the repair an identifier body that is not inlined is optimised ENTRY BY ENTRY and its
   top-level group stays (Optimiser.entries).  all(X) / of(X, n) in the condition count the entries
   of X, so they see the same number of entries, each with a related result.  Hence the conjunct
   `sw_coalesce sw || no_quant_ident (d_expr dt)` of the scopes (and the `no_quant_ident` conjunct
   of the matrix part) is no longer needed: scope_quant_all_sound_noq is Properties/C01_matrix_quant
   .scope_quant_all_sound with these two conjuncts removed from the scope.

   Method.  (1) a loaded body is never an and/or chain at its top (top_ok), so an identifier body
   that is not a group keeps its head constructor through shake (a search stays as it is, the other
   heads -- comparison, quantifier, negation, nested block -- stay): all()/of() over it take the
   same arm of Solver.match_all / match_of before and after.  (2) the two lemmas on changing the
   identifier table under a condition (C01_shake1.solve_ids_change, C01_nested.solve_ids_change_truth)
   are redone with the quantifier-over-identifier case, from a per-identifier hypothesis (IRx / IRt)
   that follows from the entry-wise relation of the bodies.  (3) the whole-rule statements are redone
   on top of these. *)
From Coq Require Import List ZArith Bool Permutation Lia.
From TauModel Require Import Base Num Oracles Syntax Generated Token Pratt Ident Value Yaml ParseMap Solver Rule Keys Optimiser Known.
From TauModel Require Scope Scope2.
Import ListNotations.
From TauProofs Require C01 C03 C03_opt C03_matrix C01_shake1 C01_loaded C01_nested C01_scope2
     C01_matrix C01_matrix_nested C01_matrix_quant.
Module S1 := C01_shake1.
Module N := C01_nested.

(* ====================================================================================== *)
(* 1. a loaded identifier body is not an and/or chain at its top                          *)
(* ====================================================================================== *)
Definition top_ok (e : expr) : bool :=
  match e with EBexp _ s _ => negb (is_and_or s) | _ => true end.

Lemma mem_top x : C01_loaded.mem_ok x -> top_ok x = true.
Proof. intros [_ H]. destruct x; try discriminate H; try reflexivity. exact H. Qed.

Lemma finish_tail_top (ke : expr) (multiple : bool) (group : list expr) e :
  Forall C01_loaded.mem_ok group ->
  match group with
  | [] => Err EInvalidIdent
  | [x] =>
      let keep_of := match ke with
                     | EMatch (MOf c) _ => negb (c =? 1)%Z
                     | _ => false
                     end in
      if negb multiple && negb keep_of then Ok x
      else match ke with
           | EMatch m _ => Ok (EMatch m x)
           | _ => Ok (EGroup BOr group)
           end
  | _ =>
      match ke with
      | EMatch m _ => Ok (EMatch m (EGroup BOr group))
      | _ => Ok (EGroup BOr group)
      end
  end = Ok e -> top_ok e = true.
Proof.
  intros HF. destruct group as [|x [|y rest]].
  - intros H; discriminate H.
  - cbv zeta. inversion HF as [|x' l' Hx _]; subst.
    destruct (negb multiple && negb _).
    + intros H; inversion H; subst. exact (mem_top _ Hx).
    + destruct ke; intros H; inversion H; subst; reflexivity.
  - destruct ke; intros H; inversion H; subst; reflexivity.
Qed.

Lemma finish_seq_top ki a e : Forall C01_loaded.mem_ok (a_rest a) -> finish_seq ki a = Ok e -> top_ok e = true.
Proof.
  intros Ha. unfold finish_seq. cbv zeta.
  C03.destruct_let_pair.
  C03.destruct_let_pair.
  C03.destruct_let_pair.
  C03.destruct_let_pair.
  C03.destruct_let_pair.
  match goal with |- (if ?b then _ else _) = _ -> _ => destruct b end; [intros H; discriminate H|].
  match goal with |- (if ?b then _ else _) = _ -> _ => destruct b end; [intros H; discriminate H|].
  match goal with |- (if ?b then _ else _) = _ -> _ => destruct b end; [intros H; discriminate H|].
  apply finish_tail_top.
  repeat (apply Forall_app; split); try exact Ha; try apply C01_loaded.Forall_search_map;
    match goal with
    | H : match ?X with _ => _ end = (?g, _) |- Forall C01_loaded.mem_ok ?g =>
        destruct X as [|? [|? ?]]; inversion H; subst;
        repeat first [apply C01_loaded.search_mem | constructor]
    end.
Qed.

Lemma parse_entry_top o ic k v sub subs e :
  C01_loaded.sub_ok sub -> Forall C01_loaded.sub_ok subs ->
  parse_entry o ic k v sub subs = Ok e -> top_ok e = true.
Proof.
  intros Hs HF H. unfold parse_entry in H.
  apply C03.bind_ok_inv in H. destruct H as (ki & Hk & H). cbv zeta in H.
  apply C01_loaded.parse_key_ok in Hk.
  apply C03.bind_ok_inv in H. destruct H as (ex & Hex & H).
  assert (Hw : top_ok ex = true).
  { clear H.
    destruct v as [| b | z | x | s | l | kv | tag w].
    - inversion Hex; subst. reflexivity.
    - destruct (misc_is MInt (k_misc ki)); [|destruct (misc_is MStr (k_misc ki))];
        inversion Hex; subst; reflexivity.
    - destruct (number_of z);
        [ destruct (misc_is MStr (k_misc ki))
        | destruct (misc_is MInt (k_misc ki)); [|destruct (misc_is MStr (k_misc ki))] ];
        inversion Hex; subst; reflexivity.
    - destruct (misc_is MInt (k_misc ki)); [|destruct (misc_is MStr (k_misc ki))];
        inversion Hex; subst; reflexivity.
    - apply mem_top.
      exact (C01_loaded.scalar_string_expr_ok _ _ _ _ _ (C01_loaded.key_ok_leaf _ _ Hk eq_refl) Hex).
    - apply C03.bind_ok_inv in Hex. destruct Hex as (a & Hm & Hf).
      apply (finish_seq_top ki a); [|exact Hf].
      refine (C01_loaded.seq_members_ok _ _ _ _ (C01_loaded.key_ok_ue _ _ Hk) _ _ _ _ HF _ Hm).
      destruct (misc_is MStr (k_misc ki)); apply Forall_nil.
    - destruct (k_misc ki); [discriminate Hex|].
      destruct sub as [r|]; [|discriminate Hex].
      apply C03.bind_ok_inv in Hex. destruct Hex as (x & Hr & Hx). inversion Hx; subst. reflexivity.
    - discriminate Hex. }
  destruct (misc_is MNot (k_misc ki)); inversion H; subst; [reflexivity|exact Hw].
Qed.

Lemma parse_mapping_top o ic y e : parse_mapping o ic y = Ok e -> top_ok e = true.
Proof.
  destruct y as [| | | | |l|kv|tag w]; try (intros H; discriminate H).
  cbn [parse_mapping]. intros H.
  apply C03.bind_ok_inv in H. destruct H as (es & Hes & Hfin).
  assert (HT : Forall (fun x => top_ok x = true) es).
  { clear Hfin e. revert es Hes.
    induction kv as [|[k v] kv' IH]; intros es Hes.
    - inversion Hes; subst. constructor.
    - assert (H1 : C01_loaded.sub_ok (match v with YMap _ => Some (parse_mapping o ic v) | _ => None end)).
      { clear Hes IH. intros r x Hr Hx.
        destruct v as [| | | | |l|kv0|tag w]; try discriminate Hr.
        injection Hr as <-. exact (C01_loaded.parse_mapping_ok o ic (YMap kv0) x Hx). }
      assert (H2 : Forall C01_loaded.sub_ok
                     (match v with
                      | YSeq l => map (fun m => match m with
                                                | YMap _ => Some (parse_mapping o ic m)
                                                | _ => None
                                                end) l
                      | _ => []
                      end)).
      { clear Hes IH H1. destruct v as [| | | | |l|kv0|tag w]; try constructor.
        induction l as [|m l IHl]; cbn [map]; constructor; [|exact IHl].
        intros r x Hr Hx.
        destruct m as [| | | | |l0|kv0|tag w]; try discriminate Hr.
        injection Hr as <-. exact (C01_loaded.parse_mapping_ok o ic (YMap kv0) x Hx). }
      apply C03.bind_ok_inv in Hes. destruct Hes as (e0 & He & Hes).
      apply C03.bind_ok_inv in Hes. destruct Hes as (es' & Hes' & Hes).
      inversion Hes; subst. constructor; [|exact (IH _ Hes')].
      exact (parse_entry_top _ _ _ _ _ _ _ H1 H2 He). }
  unfold finish_mapping in Hfin. destruct es as [|x [|y0 rest]]; inversion Hfin; subst.
  - inversion HT; assumption.
  - reflexivity.
Qed.

Lemma parse_identifier_top o ic y e : parse_identifier o ic y = Ok e -> top_ok e = true.
Proof.
  intros H. unfold parse_identifier in H.
  destruct y as [| | | | |l|kv|tag w]; try discriminate H.
  - destruct l as [|first others]; [discriminate H|].
    destruct (is_ymap first); [|discriminate H].
    apply C03.bind_ok_inv in H. destruct H as (e0 & H0 & H).
    apply C03.bind_ok_inv in H. destruct H as (es & Hes & H). inversion H; subst. reflexivity.
  - exact (parse_mapping_top _ _ _ _ H).
Qed.

Lemma load_entries_top o ic : forall kv cond ids cond' ids',
  Forall (fun kv : str * expr => top_ok (snd kv) = true) ids ->
  load_entries o ic kv cond ids = Ok (cond', ids') ->
  Forall (fun kv : str * expr => top_ok (snd kv) = true) ids'.
Proof.
  induction kv as [|[k v] kv IH]; intros cond ids cond' ids' Hids H; cbn [load_entries] in H.
  - inversion H; subst. exact Hids.
  - destruct (untag k); try discriminate H.
    destruct (str_eqb s cond_key).
    + destruct (untag v); try discriminate H. exact (IH _ _ _ _ Hids H).
    + apply C03.bind_ok_inv in H. destruct H as (e & He & H).
      apply C03.as_rule_err_ok in He.
      refine (IH _ _ _ _ _ H).
      apply C03.Forall_snoc; [exact Hids|]. cbn [snd]. exact (parse_identifier_top _ _ _ _ He).
Qed.

Lemma load_top o ic y r : load_rule o ic y = Ok r ->
  Forall (fun kv : str * expr => top_ok (snd kv) = true) (d_ids (r_det r)).
Proof.
  intros H. destruct (C03.load_rule_det _ _ _ _ H) as [dy Hd]. revert Hd.
  unfold load_detection. intros Hd. destruct (untag dy); try discriminate Hd.
  apply C03.bind_ok_inv in Hd. destruct Hd as ([cond ids] & Hent & Hd).
  destruct cond as [raw|]; [|discriminate Hd].
  apply C03.bind_ok_inv in Hd. destruct Hd as (ts & _ & Hd).
  destruct (idents_known ids None None ts); [|discriminate Hd]. cbn [negb] in Hd.
  apply C03.bind_ok_inv in Hd. destruct Hd as (e & He & Hd).
  destruct (is_solvable e); [|discriminate Hd]. inversion Hd; subst. cbn [d_ids].
  exact (load_entries_top _ _ _ _ [] _ _ (Forall_nil _) Hent).
Qed.

(* ====================================================================================== *)
(* 2. a body that is not a group keeps its head through shake                              *)
(* ====================================================================================== *)
(* the two arms of Solver.match_all / match_of that matter for a loadable body which is not a
   group: a search (kept as it is by shake) and the "other" heads *)
Definition same_head (b b' : expr) : Prop :=
  b' = b \/ (C01.other_q b = true /\ C01.other_q b' = true).

Lemma shake0_head : forall fuel e e', C01.inv e = true -> top_ok e = true ->
  (forall s l, e <> EGroup s l) -> shake0 fuel e = Ok e' -> same_head e e'.
Proof.
  intros [|fu] e e' Hi Ht Hng H.
  { injection H as <-. left. reflexivity. }
  destruct e as [s l|l s r|b|f m|f|x|i|z|k e|cols rows|e|f e| |s f c]; try discriminate Hi.
  - exfalso. exact (Hng s l eq_refl).
  - cbn [top_ok] in Ht. apply negb_true_iff in Ht.
    rewrite (C01.shake0_bexp_cmp fu l s r Ht) in H.
    apply C01.bind_ok_inv in H. destruct H as [l' [_ H]].
    apply C01.bind_ok_inv in H. destruct H as [r' [_ H]]. injection H as <-.
    right. split; reflexivity.
  - right. split; [reflexivity|].
    destruct (C01.shake0_match_inv _ _ _ _ H) as [(s0 & l0 & l' & _ & _ & ->)|(_ & x & _ & ->)]; reflexivity.
  - cbn [C01.inv] in Hi. apply andb_true_iff in Hi. destruct Hi as [Hh Hi].
    apply negb_true_iff in Hh. cbn [shake0] in H.
    apply C01.bind_ok_inv in H. destruct H as [x [Hx H]].
    destruct (C01.shake0_post C01.o0 fu e x Hi Hx) as [_ [P2 _]].
    assert (Hhx : C01.head_neg x = false).
    { destruct (C01.head_neg x) eqn:E; [|reflexivity]. rewrite (P2 eq_refl) in Hh. discriminate Hh. }
    right. split; [reflexivity|].
    destruct x; try (injection H as <-; reflexivity). discriminate Hhx.
  - cbn [shake0] in H. apply C01.bind_ok_inv in H. destruct H as [x [_ H]]. injection H as <-.
    right. split; reflexivity.
  - injection H as <-. left. reflexivity.
Qed.

Lemma inv_nongroup_head : forall e, C01.inv e = true -> (forall s l, e <> EGroup s l) ->
  (exists s f c, e = ESearch s f c) \/ C01.other_q e = true.
Proof.
  intros e Hi Hng. destruct e; try discriminate Hi; try (right; reflexivity).
  - exfalso. exact (Hng _ _ eq_refl).
  - left. eauto.
Qed.

Lemma shake_head : forall ord e e', C01.inv e = true -> top_ok e = true ->
  (forall s l, e <> EGroup s l) -> shake ord e = Ok e' -> same_head e e'.
Proof.
  intros ord e e' Hi Ht Hng H. unfold shake in H.
  apply C01.bind_ok_inv in H. destruct H as [e0 [H0 H]]. injection H as <-.
  destruct (shake0_head _ _ _ Hi Ht Hng H0) as [->|[Q1 Q2]].
  - destruct (inv_nongroup_head e Hi Hng) as [(s & f & c & ->)|Hq].
    + left. apply S1.shake1_search.
    + right. split; [exact Hq|apply S1.shake1_other_q; exact Hq].
  - right. split; [exact Q1|apply S1.shake1_other_q; exact Q2].
Qed.

(* ====================================================================================== *)
(* 3. the entry-wise relation of two identifier bodies, and what the condition sees of it  *)
(* ====================================================================================== *)
Definition vrel (o : oracles) (d : docq) (neg : bool) (x y : expr) : Prop :=
  exists v v', solve_body o x d = Ok v /\ solve_body o y d = Ok v' /\ N.rel neg v' v.

(* a group body: same connective, entries related one by one (so all()/of() count the same
   number of entries); another body: related, and the same arm of match_all / match_of *)
Definition BR (o : oracles) (d : docq) (neg : bool) (b b' : expr) : Prop :=
  match b with
  | EGroup s l => exists l', b' = EGroup s l' /\ Forall2 (vrel o d neg) l l'
  | _ => vrel o d neg b b' /\ same_head b b'
  end.

Lemma members_vals : forall o d neg l l', Forall2 (vrel o d neg) l l' ->
  exists vs vs',
    map (fun x (_ : unit) => solve_body o x d) l = map (fun v (_ : unit) => Ok ((fun r : res3 => r) v)) vs /\
    map (fun x (_ : unit) => solve_body o x d) l' = map (fun v (_ : unit) => Ok ((fun r : res3 => r) v)) vs' /\
    Forall2 (N.rel neg) vs' vs.
Proof.
  intros o d neg l l' HF.
  induction HF as [|x x' l0 l0' (v & v' & E1 & E2 & R) _ (vs & vs' & I1 & I2 & I3)].
  - exists [], []. repeat split; constructor.
  - exists (v :: vs), (v' :: vs'). cbn [map]. rewrite E1, E2, I1, I2. repeat split. constructor; assumption.
Qed.

(* the value of an expression under an identifier table, as a relation between two tables *)
Definition crel (o : oracles) (ids ids' : list (str * expr)) (d : docq) (neg : bool) (e : expr) : Prop :=
  exists v v', solve_cond o ids e d = Ok v /\ solve_cond o ids' e d = Ok v' /\ N.rel neg v' v.

Lemma vrel_whole : forall o d neg b b', wf_body b = true -> BR o d neg b b' -> vrel o d neg b b'.
Proof.
  intros o d neg b b' Hw H. destruct b as [s l| | | | | | | | | | | | |]; try exact (proj1 H).
  destruct H as [l' [-> HF]]. exact (N.group_vals_rel o d neg s l l' (C01.wf_body_group _ _ Hw) HF).
Qed.

Section Ident.
Variable o : oracles.
Variable ids ids' : list (str * expr).
Variable d : docq.
Variable i : str.
Variable b b' : expr.
Hypothesis L : lookup i ids = Some b.
Hypothesis L' : lookup i ids' = Some b'.
Hypothesis Hw : wf_body b = true.

Lemma ident_rel : forall neg, BR o d neg b b' -> crel o ids ids' d neg (EIdent i).
Proof.
  intros neg H. destruct (vrel_whole o d neg b b' Hw H) as (v & v' & E & E' & R).
  exists v, v'. unfold solve_cond. cbn [solve]. rewrite L, L'. auto.
Qed.

Lemma other_all : forall (slv : expr -> docq -> out res3) e, C01.other_q e = true ->
  match_all o slv e d = slv e d.
Proof. intros slv e H. destruct e; try discriminate H; reflexivity. Qed.

Lemma other_of : forall (slv : expr -> docq -> out res3) e c, C01.other_q e = true ->
  match_of o slv e d c =
  if (c =? 0)%Z then (do r <- slv e d; Ok (match r with T => F | F => T | M => M end))
  else (do r <- slv e d; Ok (match r with T => if (1 <? c)%Z then F else T | x => x end)).
Proof. intros slv e c H. unfold match_of. destruct e; try discriminate H; reflexivity. Qed.

Lemma all_ident_nongroup : (forall s l, b <> EGroup s l) ->
  solve_cond o ids (EMatch MAll (EIdent i)) d = match_all o (solve_body o) b d.
Proof.
  clear Hw. intros Hng. unfold solve_cond. cbn [solve]. rewrite L.
  destruct b; try reflexivity. exfalso. exact (Hng _ _ eq_refl).
Qed.
Lemma of_ident_nongroup : forall c, (forall s l, b <> EGroup s l) ->
  solve_cond o ids (EMatch (MOf c) (EIdent i)) d = match_of o (solve_body o) b d c.
Proof.
  clear Hw. intros c Hng. unfold solve_cond. cbn [solve]. rewrite L.
  destruct b; try reflexivity. exfalso. exact (Hng _ _ eq_refl).
Qed.
End Ident.

Section Ident2.
Variable o : oracles.
Variable ids ids' : list (str * expr).
Hypothesis Hids : forallb (fun kv => wf_body (snd kv)) ids = true.
Variable d : docq.
Hypothesis Hd : C03.npd d.
Variable i : str.
Variable b b' : expr.
Hypothesis L : lookup i ids = Some b.
Hypothesis L' : lookup i ids' = Some b'.
Hypothesis Hw : wf_body b = true.

Lemma has_key_i : has_key i ids = true.
Proof. unfold has_key. rewrite L. reflexivity. Qed.

Lemma all_ident_rel : forall neg, BR o d neg b b' -> crel o ids ids' d neg (EMatch MAll (EIdent i)).
Proof.
  intros neg H. destruct (C01.is_group_dec b) as [[s [l ->]]|Hng].
  - destruct H as [l' [-> HF]]. destruct (members_vals o d neg l l' HF) as (vs & vs' & E1 & E2 & R).
    exists (N.andl vs), (N.andl vs'). unfold solve_cond. cbn [solve]. rewrite L, L'.
    split; [rewrite E1, N.and_fold_pure, map_id; reflexivity|].
    split; [rewrite E2, N.and_fold_pure, map_id; reflexivity|].
    apply N.andl_cong. exact R.
  - assert (Hb : match b with EGroup _ _ => False | _ => True end).
    { destruct b; try exact I. exact (Hng _ _ eq_refl). }
    assert (H' : vrel o d neg b b' /\ same_head b b') by (destruct b; try exact H; contradiction).
    destruct H' as [(v & v' & E & E' & R) [->|[Q Q']]].
    + destruct (C03.solve_cond_ok o ids (EMatch MAll (EIdent i)) d has_key_i Hids Hd) as [r Hr].
      exists r, r. split; [exact Hr|]. split; [|apply N.rel_refl].
      rewrite (all_ident_nongroup o ids d i b L Hng) in Hr.
      rewrite (all_ident_nongroup o ids' d i b L' Hng). exact Hr.
    + assert (Hng' : forall s l, b' <> EGroup s l) by (intros s l ->; discriminate Q').
      exists v, v'.
      rewrite (all_ident_nongroup o ids d i b L Hng), (all_ident_nongroup o ids' d i b' L' Hng').
      rewrite !other_all by assumption. auto.
Qed.

Lemma of_ident_rel : forall neg c, (neg = true \/ (c =? 0)%Z = false) ->
  BR o d neg b b' -> crel o ids ids' d neg (EMatch (MOf c) (EIdent i)).
Proof.
  intros neg c Hc H. destruct (C01.is_group_dec b) as [[s [l ->]]|Hng].
  - destruct H as [l' [-> HF]]. destruct (members_vals o d neg l l' HF) as (vs & vs' & E1 & E2 & R).
    exists (N.ofl c vs), (N.ofl c vs'). unfold solve_cond. cbn [solve]. rewrite L, L'.
    split; [rewrite E1, N.of_fold_pure, map_id; reflexivity|].
    split; [rewrite E2, N.of_fold_pure, map_id; reflexivity|].
    apply N.ofl_cong. destruct Hc as [-> | Hc]; [exact R|rewrite Hc, orb_false_r; exact R].
  - assert (H' : vrel o d neg b b' /\ same_head b b').
    { destruct b; try exact H. exfalso. exact (Hng _ _ eq_refl). }
    destruct H' as [(v & v' & E & E' & R) [->|[Q Q']]].
    + assert (Hk : wf_cond ids (EMatch (MOf c) (EIdent i)) = true) by exact has_key_i.
      destruct (C03.solve_cond_ok o ids (EMatch (MOf c) (EIdent i)) d Hk Hids Hd) as [r Hr].
      exists r, r. split; [exact Hr|]. split; [|apply N.rel_refl].
      rewrite (of_ident_nongroup o ids d i b L c Hng) in Hr.
      rewrite (of_ident_nongroup o ids' d i b L' c Hng). exact Hr.
    + assert (Hng' : forall s l, b' <> EGroup s l) by (intros s l ->; discriminate Q').
      unfold crel.
      rewrite (of_ident_nongroup o ids d i b L c Hng), (of_ident_nongroup o ids' d i b' L' c Hng').
      rewrite !other_of by assumption. rewrite E, E'. cbn [bind].
      destruct (c =? 0)%Z eqn:Ec.
      * destruct Hc as [-> | Hc]; [|discriminate Hc]. cbn [N.rel] in R. subst v'.
        eexists. eexists. split; [reflexivity|]. split; [reflexivity|]. apply N.rel_refl.
      * eexists. eexists. split; [reflexivity|]. split; [reflexivity|].
        destruct neg; cbn [N.rel] in R |- *.
        -- subst v'. reflexivity.
        -- destruct v, v', (1 <? c)%Z; try tauto; destruct R as [R1 R2]; split; intros X;
             try discriminate X; try (discriminate (R1 eq_refl)); try (discriminate (R2 eq_refl)).
Qed.
End Ident2.

(* ====================================================================================== *)
(* 4. changing the identifier table under a condition that may count identifiers          *)
(* ====================================================================================== *)
(* what the condition can see of identifier i: its value, and all(i) / of(i, n) *)
Definition IRx (o : oracles) (ids ids' : list (str * expr)) (d : docq) : Prop :=
  forall i, has_key i ids = true ->
    solve_cond o ids' (EIdent i) d = solve_cond o ids (EIdent i) d /\
    forall k, solve_cond o ids' (EMatch k (EIdent i)) d = solve_cond o ids (EMatch k (EIdent i)) d.

(* C01_shake1.solve_ids_change without no_quant_ident *)
Lemma cond_change_exact : forall o ids ids' (d : docq), IRx o ids ids' d ->
  forall e, wf_cond ids e = true -> C01.no_nested e = true ->
  solve_cond o ids' e d = solve_cond o ids e d.
Proof.
  intros o ids ids' d Hrel. induction e as [e IH] using C01.size_ind. intros Hw Hn.
  assert (Hmem : forall l, (forall x, In x l -> (expr_size x < expr_size e)%nat) ->
            forallb (wf_cond ids) l = true -> forallb C01.no_nested l = true ->
            Forall2 (fun y x => (fun (y : expr) (_ : unit) => solve_cond o ids' y d) y tt =
                                (fun (x : expr) (_ : unit) => solve_cond o ids x d) x tt) l l).
  { intros l Hsz H1 H2. apply S1.Forall2_diag. intros x Hx. cbn beta.
    apply IH; [apply Hsz; exact Hx|apply (C01.forallb_In _ _ _ H1 Hx)|apply (C01.forallb_In _ _ _ H2 Hx)]. }
  destruct e as [s l|l s r|b|f m|f|z|i|z|k e|cols rows|e|f e| |s f c]; try discriminate Hw.
  - (* EGroup *)
    cbn [wf_cond C01.no_nested] in Hw, Hn.
    apply andb_true_iff in Hw. destruct Hw as [Hs Hw].
    pose proof (Hmem l (fun x Hx => C01.size_member s l x Hx) Hw Hn) as HF.
    destruct s; try discriminate Hs.
    + rewrite !S1.cs_group_and. apply C01.and_fold_F2. exact HF.
    + rewrite !S1.cs_group_or. apply C01.or_fold_F2. exact HF.
  - (* EBexp *)
    destruct s; try reflexivity; cbn [wf_cond is_and_or_op C01.no_nested] in Hw, Hn;
      apply andb_true_iff in Hw; destruct Hw as [Hw1 Hw2];
      apply andb_true_iff in Hn; destruct Hn as [Hn1 Hn2].
    + rewrite !S1.cs_bexp_and. unfold and2.
      rewrite (IH l), (IH r); try assumption; try reflexivity; cbn [expr_size]; lia.
    + rewrite !S1.cs_bexp_or. unfold or2.
      rewrite (IH l), (IH r); try assumption; try reflexivity; cbn [expr_size]; lia.
  - (* EIdent *)
    exact (proj1 (Hrel i Hw)).
  - (* EMatch *)
    destruct e as [s l|l s r|b|f m|f|z|i|z|k0 e|cols rows|e|f e| |s f c]; try discriminate Hw;
      try discriminate Hn.
    + cbn [wf_cond C01.no_nested] in Hw, Hn.
      apply andb_true_iff in Hw. destruct Hw as [Hs Hw].
      assert (HF := Hmem l ltac:(intros x Hx; pose proof (C01.size_member s l x Hx); cbn [expr_size] in *; lia) Hw Hn).
      destruct k as [|n].
      * rewrite !S1.cs_all_group. apply C01.and_fold_F2. exact HF.
      * rewrite !S1.cs_of_group. apply C01.of_fold_F2. exact HF.
    + apply S1.h7_ids; [reflexivity|]. apply IH; [cbn [expr_size]; lia|exact Hw|exact Hn].
    + (* a quantifier over an identifier: the entries are counted *)
      exact (proj2 (Hrel i Hw) k).
    + apply S1.h7_ids; [reflexivity|]. apply IH; [cbn [expr_size]; lia|exact Hw|exact Hn].
    + apply S1.h7_ids; [reflexivity|]. apply IH; [cbn [expr_size]; lia|exact Hw|exact Hn].
    + destruct k; destruct s; reflexivity.
  - (* ENegate *)
    cbn [wf_cond C01.no_nested] in Hw, Hn.
    rewrite !S1.cs_negate, (IH e); try assumption; try reflexivity. cbn [expr_size]. lia.
  - (* ENested *)
    discriminate Hn.
  - (* ESearch *)
    reflexivity.
Qed.


(* the same for truth, under a condition without negation (so without of(.., 0)) *)
Definition IRt (o : oracles) (ids ids' : list (str * expr)) (d : docq) : Prop :=
  forall i, has_key i ids = true ->
    N.rel false (N.Vc o ids' d (EIdent i)) (N.Vc o ids d (EIdent i)) /\
    N.rel false (N.Vc o ids' d (EMatch MAll (EIdent i))) (N.Vc o ids d (EMatch MAll (EIdent i))) /\
    forall c, (c =? 0)%Z = false ->
      N.rel false (N.Vc o ids' d (EMatch (MOf c) (EIdent i))) (N.Vc o ids d (EMatch (MOf c) (EIdent i))).

(* C01_nested.solve_ids_change_truth without no_quant_ident *)
Lemma cond_change_truth : forall o ids ids' (d : docq), C03.npd d ->
  forallb (fun kv => wf_body (snd kv)) ids = true ->
  forallb (fun kv => wf_body (snd kv)) ids' = true ->
  IRt o ids ids' d ->
  forall e, wf_cond ids e = true -> wf_cond ids' e = true ->
    C01.no_nested e = true -> has_negative e = false ->
    (solve_cond o ids' e d = Ok T <-> solve_cond o ids e d = Ok T).
Proof.
  intros o ids ids' d Hd Hi Hi' Hrel.
  enough (E : forall e, wf_cond ids e = true -> wf_cond ids' e = true ->
            C01.no_nested e = true -> has_negative e = false ->
            N.rel false (N.Vc o ids' d e) (N.Vc o ids d e)).
  { intros e H1 H2 H3 H5. specialize (E e H1 H2 H3 H5). cbn in E.
    rewrite (N.Vc_ok o ids' Hi' d Hd e H2), (N.Vc_ok o ids Hi d Hd e H1).
    split; intros X; injection X as X; f_equal; apply E; exact X. }
  induction e as [e IH] using C01.size_ind. intros Hw Hw' Hn Hneg.
  assert (Hmem : forall l, (forall x, In x l -> (expr_size x < expr_size e)%nat) ->
            forallb (wf_cond ids) l = true -> forallb (wf_cond ids') l = true ->
            forallb C01.no_nested l = true ->
            (forall x, In x l -> has_negative x = false) ->
            Forall2 (N.rel false) (map (N.Vc o ids' d) l) (map (N.Vc o ids d) l)).
  { intros l Hsz H1 H2 H3 H5. induction l as [|x l IHl]; cbn [map]; constructor.
    - apply IH; [apply Hsz; left; reflexivity|apply (C01.forallb_In _ _ _ H1 (or_introl eq_refl))
                 |apply (C01.forallb_In _ _ _ H2 (or_introl eq_refl))|apply (C01.forallb_In _ _ _ H3 (or_introl eq_refl))
                 |apply H5; left; reflexivity].
    - cbn [forallb] in H1, H2, H3.
      apply andb_prop in H1. apply andb_prop in H2. apply andb_prop in H3.
      apply IHl; try tauto; intros y Hy; [apply Hsz|apply H5]; right; exact Hy. }
  destruct e as [s l|l s r|b|f m|f|z|i|z|k e|cols rows|e|f e| |s f c]; try discriminate Hw.
  - (* group *)
    cbn [wf_cond C01.no_nested] in Hw, Hw', Hn.
    apply andb_prop in Hw. destruct Hw as [Hs Hw]. apply andb_prop in Hw'. destruct Hw' as [_ Hw'].
    pose proof (Hmem l (fun x Hx => C01.size_member s l x Hx) Hw Hw' Hn (N.has_negative_group s l Hneg)) as HF.
    destruct s; try discriminate Hs.
    + rewrite !N.Vc_and; try assumption; try (intros x Hx; eapply C01.forallb_In; eassumption).
      apply N.andl_cong. exact HF.
    + rewrite !N.Vc_or; try assumption; try (intros x Hx; eapply C01.forallb_In; eassumption).
      apply N.orl_cong; [discriminate|exact HF].
  - (* bexp *)
    assert (Sl : (expr_size l < expr_size (EBexp l s r))%nat) by (cbn [expr_size]; lia).
    assert (Sr : (expr_size r < expr_size (EBexp l s r))%nat) by (cbn [expr_size]; lia).
    pose proof (IH l Sl) as IHl. pose proof (IH r Sr) as IHr. clear IH Hmem.
    destruct s; try (apply N.rel_eq; unfold N.Vc, S1.rv; reflexivity);
      cbn [wf_cond is_and_or_op C01.no_nested] in Hw, Hw', Hn;
      apply andb_prop in Hw; destruct Hw as [Hw1 Hw2]; apply andb_prop in Hw'; destruct Hw' as [Hw1' Hw2'];
      apply andb_prop in Hn; destruct Hn as [Hn1 Hn2];
      unfold has_negative in Hneg; cbn [exists_sub orb] in Hneg; apply orb_false_iff in Hneg; destruct Hneg as [Hg1 Hg2].
    + rewrite (N.Vc_bexp_and o ids' Hi' d Hd l r Hw1' Hw2'), (N.Vc_bexp_and o ids Hi d Hd l r Hw1 Hw2). apply N.andl_cong.
      apply Forall2_cons; [exact (IHl Hw1 Hw1' Hn1 Hg1)|].
      apply Forall2_cons; [exact (IHr Hw2 Hw2' Hn2 Hg2)|apply Forall2_nil].
    + rewrite (N.Vc_bexp_or o ids' Hi' d Hd l r Hw1' Hw2'), (N.Vc_bexp_or o ids Hi d Hd l r Hw1 Hw2). apply N.orl_cong; [discriminate|].
      apply Forall2_cons; [exact (IHl Hw1 Hw1' Hn1 Hg1)|].
      apply Forall2_cons; [exact (IHr Hw2 Hw2' Hn2 Hg2)|apply Forall2_nil].
  - (* ident *)
    exact (proj1 (Hrel i Hw)).
  - (* match *)
    destruct e as [s l|l s r|b|f m|f|z|i|z|k0 e|cols rows|e|f e| |s f c]; try discriminate Hw;
      try discriminate Hn.
    + cbn [wf_cond C01.no_nested] in Hw, Hw', Hn.
      apply andb_prop in Hw. destruct Hw as [Hs Hw]. apply andb_prop in Hw'. destruct Hw' as [_ Hw'].
      assert (Hsz : forall x, In x l -> (expr_size x < expr_size (EMatch k (EGroup s l)))%nat).
      { intros x Hx. pose proof (C01.size_member s l x Hx). cbn [expr_size] in *. lia. }
      destruct k as [|n].
      * assert (Hg : forall x, In x l -> has_negative x = false).
        { unfold has_negative in Hneg. cbn [exists_sub orb] in Hneg.
          intros x Hx. apply (C01.existsb_false_In _ _ _ Hneg Hx). }
        pose proof (Hmem l Hsz Hw Hw' Hn Hg) as HF.
        rewrite !N.Vc_all_group; try assumption; try (intros x Hx; eapply C01.forallb_In; eassumption).
        apply N.andl_cong. exact HF.
      * unfold has_negative in Hneg. cbn [exists_sub orb] in Hneg. apply orb_false_iff in Hneg.
        destruct Hneg as [Hn0 Hneg]. rewrite Hn0 in Hneg. cbn [orb] in Hneg.
        assert (Hg : forall x, In x l -> has_negative x = false).
        { intros x Hx. apply (C01.existsb_false_In _ _ _ Hneg Hx). }
        pose proof (Hmem l Hsz Hw Hw' Hn Hg) as HF.
        rewrite !N.Vc_of_group; try assumption; try (intros x Hx; eapply C01.forallb_In; eassumption).
        apply (N.ofl_cong false). rewrite Hn0. exact HF.
    + (* bexp operand *)
      assert (HE : N.rel false (N.Vc o ids' d (EBexp l s r)) (N.Vc o ids d (EBexp l s r))).
      { apply IH; try assumption; [cbn [expr_size]; lia|].
        unfold has_negative in *. destruct k as [|n]; cbn [exists_sub orb] in Hneg; [exact Hneg|].
        apply orb_false_iff in Hneg. destruct Hneg as [Hn0 Hneg]. rewrite Hn0 in Hneg. exact Hneg. }
      destruct k as [|n].
      * rewrite !N.Vc_all_other by reflexivity. exact HE.
      * rewrite !N.Vc_of_other; try assumption; try reflexivity.
        unfold has_negative in Hneg. cbn [exists_sub orb] in Hneg. apply orb_false_iff in Hneg.
        destruct Hneg as [Hn0 _]. rewrite Hn0. cbn in HE |- *.
        destruct (N.Vc o ids' d (EBexp l s r)); destruct (N.Vc o ids d (EBexp l s r)); destruct (1 <? n)%Z; try tauto;
          destruct HE as [A B]; split; intros E; try discriminate E;
          try (discriminate (A eq_refl)); try (discriminate (B eq_refl)).
    + (* a quantifier over an identifier: the entries are counted *)
      destruct k as [|n].
      * exact (proj1 (proj2 (Hrel i Hw))).
      * apply (proj2 (proj2 (Hrel i Hw))).
        unfold has_negative in Hneg. cbn [exists_sub orb] in Hneg. apply orb_false_iff in Hneg.
        exact (proj1 Hneg).
    + (* match operand *)
      assert (HE : N.rel false (N.Vc o ids' d (EMatch k0 e)) (N.Vc o ids d (EMatch k0 e))).
      { apply IH; try assumption; [cbn [expr_size]; lia|].
        unfold has_negative in *. destruct k as [|n]; cbn [exists_sub orb] in Hneg; [exact Hneg|].
        apply orb_false_iff in Hneg. destruct Hneg as [Hn0 Hneg]. rewrite Hn0 in Hneg. exact Hneg. }
      destruct k as [|n].
      * rewrite !N.Vc_all_other by reflexivity. exact HE.
      * rewrite !N.Vc_of_other; try assumption; try reflexivity.
        unfold has_negative in Hneg. cbn [exists_sub orb] in Hneg. apply orb_false_iff in Hneg.
        destruct Hneg as [Hn0 _]. rewrite Hn0. cbn in HE |- *.
        destruct (N.Vc o ids' d (EMatch k0 e)); destruct (N.Vc o ids d (EMatch k0 e)); destruct (1 <? n)%Z; try tauto;
          destruct HE as [A B]; split; intros E; try discriminate E;
          try (discriminate (A eq_refl)); try (discriminate (B eq_refl)).
    + (* negate operand: excluded *)
      exfalso. unfold has_negative in Hneg. destruct k as [|n]; cbn [exists_sub orb] in Hneg.
      * discriminate Hneg.
      * apply orb_false_iff in Hneg. destruct Hneg as [_ Hneg]. discriminate Hneg.
    + (* search operand *)
      apply N.rel_eq. unfold N.Vc, S1.rv. destruct k; destruct s; reflexivity.
  - (* negate *)
    discriminate Hneg.
  - (* nested *)
    discriminate Hn.
  - (* search *)
    apply N.rel_refl.
Qed.


(* ====================================================================================== *)
(* 5. whole rules without matrix: C01_nested.optimise_no_matrix_nested, quantified        *)
(*    identifiers allowed when they are not inlined                                       *)
(* ====================================================================================== *)
(* one identifier body through the shake pass, entry by entry: the entry-wise relation *)
Lemma shake_entries_BR : forall o ord neg b (d : doc),
  (forall l, Permutation (ord l) l) ->
  wf_body b = true -> C01.sh0 b = true -> C01.no_dneg b = true -> C01.shx b = true ->
  top_ok b = true ->
  forallb (fun x => let m := ok_or (shake0 (shake_fuel x) x) x in
                    N.shake1_safe ord neg (shake_fuel m) m) (N.entry_trees b) = true ->
  exists b2, entries (shake ord) b = Ok b2 /\ wf_body b2 = true /\ BR o (pure_doc d) neg b b2.
Proof.
  intros o ord neg b d Hperm Hw H1 H2 H3 Ht Hs.
  pose proof (C03.npd_pure d) as Hd.
  destruct (C01.entries_rel (shake ord)
              (fun x => wf_body x = true /\ C01.sh0 x = true /\ C01.no_dneg x = true /\ C01.shx x = true /\
                        N.shake1_safe ord neg (shake_fuel (ok_or (shake0 (shake_fuel x) x) x))
                                      (ok_or (shake0 (shake_fuel x) x) x) = true)
              (fun x y => shake ord x = Ok y /\ wf_body y = true /\ vrel o (pure_doc d) neg x y) b)
    as [b2 [Hb2 Hrel]].
  - intros x [Wx [X1 [X2 [X3 X4]]]].
    destruct (N.shake_body_run o ord neg x d Hperm Wx X1 X2 X3 X4) as [y [Hy [Wy [Ty Ey]]]].
    exists y. split; [exact Hy|]. split; [exact Hy|]. split; [exact Wy|].
    destruct (C03.solve_body_ok o x (pure_doc d) Wx Hd) as [v Ev].
    destruct (C03.solve_body_ok o y (pure_doc d) Wy Hd) as [v' Ev'].
    exists v, v'. split; [exact Ev|]. split; [exact Ev'|].
    rewrite Ev, Ev' in Ty, Ey. destruct neg; cbn [N.rel].
    + specialize (Ey eq_refl). injection Ey as Ey. exact Ey.
    + split; intros X; [assert (Y : Ok v = Ok T) by (apply Ty; rewrite X; reflexivity)
                       |assert (Y : Ok v' = Ok T) by (apply Ty; rewrite X; reflexivity)];
        injection Y as Y; exact Y.
  - destruct b as [s l| | | | | | | | | | | | |]; cbn [N.entry_trees forallb] in Hs;
      try (rewrite andb_true_r in Hs; auto).
    intros x Hx. pose proof (C01.forallb_In _ _ _ Hs Hx) as Sx. cbn beta zeta in Sx.
    cbn [C01.sh0] in H1.
    split; [exact (C01.wf_body_member _ _ _ Hw Hx)|]. split; [exact (C01.forallb_In _ _ _ H1 Hx)|].
    split; [exact (C01.no_dneg_member _ _ _ H2 Hx)|]. split; [exact (C01.shx_member _ _ _ H3 Hx)|exact Sx].
  - exists b2. split; [exact Hb2|].
    assert (Hi : C01.inv b = true) by (apply (C01.inv_of b false); auto using C01.no_dneg_here).
    destruct (C01.is_group_dec b) as [[s [l ->]]|Hng].
    + destruct Hrel as [l' [-> HF]]. pose proof (C01.wf_body_group _ _ Hw) as Hsg. split.
      * cbn [wf_body]. change (is_and_or_op s) with (is_and_or s). rewrite Hsg. cbn [andb].
        eapply C01.Forall2_forallb; [exact HF|]. intros x y _ [_ [Wy _]]. exact Wy.
      * cbn [BR]. exists l'. split; [reflexivity|].
        eapply C01.Forall2_In_impl; [exact HF|]. intros x y _ _ [_ [_ R]]. exact R.
    + assert (Hq : shake ord b = Ok b2 /\ wf_body b2 = true /\ vrel o (pure_doc d) neg b b2).
      { destruct b; try exact Hrel. exfalso. exact (Hng _ _ eq_refl). }
      destruct Hq as [Hsk [W2 R2]]. split; [exact W2|].
      assert (HB : vrel o (pure_doc d) neg b b2 /\ same_head b b2).
      { split; [exact R2|exact (shake_head ord b b2 Hi Ht Hng Hsk)]. }
      destruct b; try exact HB. exfalso. exact (Hng _ _ eq_refl).
Qed.

Lemma optimise_no_matrix_nested_q : forall o ord sw r (d : doc),
  (forall l, Permutation (ord l) l) ->
  C01.H_strip o ->
  sw_matrix sw = false ->
  wf_det (r_det r) = true -> r_optimised r = false ->
  C01.no_nested (d_expr (r_det r)) = true -> C01.cmp_leaves (d_expr (r_det r)) = true ->
  Forall (fun kv : str * expr => top_ok (snd kv) = true) (d_ids (r_det r)) ->
  (sw_shake sw = true ->
     forallb (fun t => Scope.sh0 t && Scope.no_dneg t && Scope.shx t) (all_trees (staged sw (r_det r))) = true /\
     N.run_safe ord sw (r_det r) = true) ->
  exists r', optimise o ord sw r = Ok r' /\ matches o r' d = matches o r d.
Proof.
  intros o ord sw r d Hperm Hst Hmx Hwf Hopt Hnn Hcl Htop Hin.
  pose proof (S1.perm_ord_keeps ord Hperm) as Hord.
  destruct (sw_shake sw) eqn:Hsh.
  2:{ destruct (C01.optimise_coalesce_rewrite_exact_alt o ord sw r (pure_doc d) Hst Hsh Hmx Hwf Hopt Hnn Hcl)
        as [r' [E1 E2]].
      exists r'. split; [exact E1|]. unfold matches. rewrite E2. reflexivity. }
  destruct (Hin eq_refl) as [Hin1 Hin2]. clear Hin.
  pose proof (C03.npd_pure d) as Hd.
  pose proof (C01.wf_det_ids _ Hwf) as Hids.
  destruct r as [opt [e ids] tp tn]. cbn [r_det r_optimised d_expr d_ids] in *. subst opt.
  unfold wf_det in Hwf. cbn [d_expr d_ids] in Hwf.
  apply andb_prop in Hwf. destruct Hwf as [Hwc Hwb].
  unfold N.run_safe, staged in Hin2. unfold staged in Hin1. cbn [d_expr d_ids] in Hin1, Hin2.
  unfold optimise, matches. cbn [r_optimised r_det r_tp r_tn]. unfold optimise_detection.
  rewrite Hsh, Hmx. cbn [d_expr d_ids].
  destruct (sw_coalesce sw) eqn:Hco.
  - (* coalesce on: one identifier-free tree *)
    destruct (C01.coalesce_sem o ids Hids e Hwc Hnn Hcl) as [e1 [He1 [Hw1 Hsem1]]].
    rewrite He1 in Hin1, Hin2. cbn [ok_or all_trees fst snd map forallb shaken0] in Hin1, Hin2.
    apply andb_prop in Hin1. destruct Hin1 as [Hin1 _].
    destruct (N.input_ok_split3 e1 Hin1) as [I2 [I3 I4]].
    apply andb_prop in Hin2. destruct Hin2 as [Hin2 _].
    destruct (N.shake_body_run o ord false e1 d Hperm Hw1 I2 I3 I4 Hin2) as [e2 [He2 [Hw2 [Htr _]]]].
    rewrite He1. cbn [bind d_expr d_ids]. rewrite He2. cbn [bind map_ids mapM d_expr d_ids].
    destruct (sw_rewrite sw); (eexists; split; [reflexivity|]); cbn [r_det]; unfold solve_rule3;
      cbn [d_expr d_ids map].
    + change (solve_cond o [] (rewrite o e2) (pure_doc d)) with (solve_body o (rewrite o e2) (pure_doc d)).
      rewrite (C01.rw_body o Hst). apply N.verdict_of_truth.
      * apply (C03.solve_body_ok o e2 (pure_doc d) Hw2 Hd).
      * rewrite <- Hsem1. apply (C03.solve_body_ok o e1 (pure_doc d) Hw1 Hd).
      * rewrite <- Hsem1. exact Htr.
    + change (solve_cond o [] e2 (pure_doc d)) with (solve_body o e2 (pure_doc d)).
      apply N.verdict_of_truth.
      * apply (C03.solve_body_ok o e2 (pure_doc d) Hw2 Hd).
      * rewrite <- Hsem1. apply (C03.solve_body_ok o e1 (pure_doc d) Hw1 Hd).
      * rewrite <- Hsem1. exact Htr.
  - (* coalesce off: the condition and every identifier body, entry by entry *)
    cbn [bind all_trees fst snd forallb shaken0] in *.
    apply andb_prop in Hin1. destruct Hin1 as [Hine Hinb].
    destruct (N.input_ok_split3 e Hine) as [I2 [I3 I4]].
    apply andb_prop in Hin2. destruct Hin2 as [_ Hsb].
    set (ng := body_neg (e, ids)) in *.
    assert (Hbody : forall kv, In kv ids ->
              exists b2, entries (shake ord) (snd kv) = Ok b2 /\ wf_body b2 = true /\
                         BR o (pure_doc d) ng (snd kv) b2).
    { intros kv Hkv. pose proof (C01.forallb_In _ _ _ Hwb Hkv) as Hw. cbn beta in Hw.
      assert (Hin' : In (snd kv) (map snd ids)) by (apply in_map; exact Hkv).
      pose proof (C01.forallb_In _ _ _ Hinb Hin') as Hb. cbn beta in Hb.
      destruct (N.input_ok_split3 _ Hb) as [B2 [B3 B4]].
      rewrite Forall_forall in Htop.
      apply (shake_entries_BR o ord ng (snd kv) d Hperm Hw B2 B3 B4 (Htop kv Hkv)).
      apply (C01.forallb_In _ _ _ Hsb Hkv). }
    destruct (S1.map_ids_ok (entries (shake ord)) ids) as [ids2 Hids2].
    { intros kv Hkv. destruct (Hbody kv Hkv) as [b2 [Hb2 _]]. exists b2. exact Hb2. }
    pose proof (S1.map_ids_F2 _ _ _ Hids2) as HF.
    assert (HF' : Forall2 (fun kv kv' => fst kv' = fst kv /\
                     (wf_body (snd kv') = true /\ BR o (pure_doc d) ng (snd kv) (snd kv'))) ids ids2).
    { eapply C01.Forall2_In_impl; [exact HF|]. intros kv kv' Hkv _ [Hk Hs].
      split; [exact Hk|]. destruct (Hbody kv Hkv) as [b2 [Hb2 [W2 R2]]].
      rewrite Hs in Hb2. injection Hb2 as <-. auto. }
    assert (Hwb2 : forallb (fun kv => wf_body (snd kv)) ids2 = true).
    { eapply C01.Forall2_forallb; [exact HF'|]. intros kv kv' _ [_ [Hw _]]. exact Hw. }
    assert (HrelB : S1.ids_rel (fun b b' => BR o (pure_doc d) ng b b') ids ids2).
    { apply S1.ids_rel_F2. eapply C01.Forall2_In_impl; [exact HF'|]. intros kv kv' _ _ [Hk [_ Hs]].
      split; [exact Hk|exact Hs]. }
    pose proof (S1.wf_cond_rel _ _ _ HrelB e Hwc) as Hwc2.
    assert (Hie : S1.invc e = true) by (apply (S1.invc_of ids e false); auto using C01.no_dneg_here).
    destruct (S1.shake_total ord e Hie) as [e2 He2].
    pose proof (S1.shake_cond_exact o ord ids2 e e2 (pure_doc d) Hord Hd Hwb2 Hwc2 Hie He2) as Hsem.
    (* what the condition sees of each identifier *)
    assert (Hlook : forall i, has_key i ids = true ->
              exists b b', lookup i ids = Some b /\ lookup i ids2 = Some b' /\ wf_body b = true /\
                           BR o (pure_doc d) ng b b').
    { intros i Hi. unfold has_key in Hi. specialize (HrelB i).
      destruct (lookup i ids) as [b|] eqn:E1; [|discriminate Hi].
      destruct (lookup i ids2) as [b'|] eqn:E2; [|contradiction].
      exists b, b'. split; [reflexivity|]. split; [reflexivity|]. split; [|exact HrelB].
      destruct (C01.lookup_In i ids b E1) as [k0 Hk]. apply (C01.forallb_In _ _ _ Hwb Hk). }
    assert (Hfin : solve_cond o ids2 e2 (pure_doc d) = Ok T <-> solve_cond o ids e (pure_doc d) = Ok T).
    { rewrite Hsem. destruct ng eqn:Eng.
      - assert (Hx : IRx o ids ids2 (pure_doc d)).
        { intros i Hi. destruct (Hlook i Hi) as (b & b' & L & L' & Wb & R). split.
          - destruct (ident_rel o ids ids2 (pure_doc d) i b b' L L' Wb true R) as (v & v' & E & E' & Rv).
            cbn [N.rel] in Rv. rewrite E, E', Rv. reflexivity.
          - intros [|c].
            + destruct (all_ident_rel o ids ids2 Hwb (pure_doc d) Hd i b b' L L' Wb true R) as (v & v' & E & E' & Rv).
              cbn [N.rel] in Rv. rewrite E, E', Rv. reflexivity.
            + destruct (of_ident_rel o ids ids2 Hwb (pure_doc d) Hd i b b' L L' Wb true c (or_introl eq_refl) R)
                as (v & v' & E & E' & Rv).
              cbn [N.rel] in Rv. rewrite E, E', Rv. reflexivity. }
        rewrite (cond_change_exact o ids ids2 (pure_doc d) Hx e Hwc Hnn). tauto.
      - assert (Ht : IRt o ids ids2 (pure_doc d)).
        { intros i Hi. destruct (Hlook i Hi) as (b & b' & L & L' & Wb & R).
          assert (Hv : forall E0, crel o ids ids2 (pure_doc d) false E0 ->
                    N.rel false (N.Vc o ids2 (pure_doc d) E0) (N.Vc o ids (pure_doc d) E0)).
          { intros E0 (v & v' & E & E' & Rv). unfold N.Vc, S1.rv. rewrite E, E'. exact Rv. }
          split; [|split].
          - apply Hv. exact (ident_rel o ids ids2 (pure_doc d) i b b' L L' Wb false R).
          - apply Hv. exact (all_ident_rel o ids ids2 Hwb (pure_doc d) Hd i b b' L L' Wb false R).
          - intros c Hc. apply Hv.
            exact (of_ident_rel o ids ids2 Hwb (pure_doc d) Hd i b b' L L' Wb false c (or_intror Hc) R). }
        apply (cond_change_truth o ids ids2 (pure_doc d) Hd Hwb Hwb2 Ht e Hwc Hwc2 Hnn Eng). }
    assert (Htot : exists b, solve_cond o ids e (pure_doc d) = Ok b)
      by (apply (C03.solve_cond_ok o ids e (pure_doc d) Hwc Hwb Hd)).
    assert (Htot2 : exists a, solve_cond o ids2 e2 (pure_doc d) = Ok a).
    { rewrite Hsem. apply (C03.solve_cond_ok o ids2 e (pure_doc d) Hwc2 Hwb2 Hd). }
    cbn [d_expr d_ids]. rewrite He2. cbn [bind]. rewrite Hids2. cbn [bind d_expr d_ids].
    destruct (sw_rewrite sw); (eexists; split; [reflexivity|]); cbn [r_det]; unfold solve_rule3;
      cbn [d_expr d_ids].
    + rewrite (C01.rewrite_exact o ids2 e2 (pure_doc d) Hst). apply N.verdict_of_truth; assumption.
    + apply N.verdict_of_truth; assumption.
Qed.


(* ====================================================================================== *)
(* 6. the weakened scopes and the whole-rule statements                                   *)
(* ====================================================================================== *)
(* Scope2.c01_scope2 / c01_scope_nested / c01_scope_quant_all without
   `sw_coalesce sw || no_quant_ident (d_expr dt)` and without the `no_quant_ident (d_expr dt)`
   conjunct of the matrix part; everything else is the model's own definition *)
Definition c01_scope2_noq (ord : hord) (sw : switches) (dt : detection) : bool :=
  negb (sw_matrix sw) &&
  (negb (sw_shake sw) || Scope2.shake_input_ok2 ord sw dt).
Definition c01_scope_nested_noq (ord : hord) (sw : switches) (dt : detection) : bool :=
  c01_scope2_noq ord sw dt && (negb (sw_shake sw) || Scope2.run_safe ord sw dt).
Definition c01_scope_quant_all_noq (o : oracles) (ord : hord) (sw : switches) (dt : detection) : bool :=
  c01_scope_nested_noq ord (Scope.sw_without_matrix sw) dt &&
  (negb (sw_matrix sw) || Scope2.matrix_input_ok3 o ord sw dt).

(* the old scopes are inside the new ones *)
Lemma scope_quant_all_weaker : forall o ord sw dt,
  Scope2.c01_scope_quant_all o ord sw dt = true -> c01_scope_quant_all_noq o ord sw dt = true.
Proof.
  intros o ord sw dt H. unfold Scope2.c01_scope_quant_all in H. apply andb_prop in H. destruct H as [H1 H2].
  unfold c01_scope_quant_all_noq. apply andb_true_intro. split.
  - unfold Scope2.c01_scope_nested in H1. apply andb_prop in H1. destruct H1 as [H1 H3].
    unfold c01_scope_nested_noq. rewrite H3, andb_true_r.
    unfold Scope2.c01_scope2 in H1. apply andb_prop in H1. destruct H1 as [H1 H4].
    apply andb_prop in H1. destruct H1 as [H1 _]. unfold c01_scope2_noq. rewrite H1, H4. reflexivity.
  - destruct (sw_matrix sw); [|reflexivity]. cbn [negb orb] in *. apply andb_prop in H2. exact (proj2 H2).
Qed.

Lemma scope_nested_sound_noq : forall o ic ord sw y r (d : doc),
  (forall l, Permutation (ord l) l) ->
  C01.H_strip o ->
  load_rule o ic y = Ok r -> r_optimised r = false ->
  c01_scope_nested_noq ord sw (r_det r) = true ->
  exists r', optimise o ord sw r = Ok r' /\ matches o r' d = matches o r d.
Proof.
  intros o ic ord sw y r d Hperm Hs Hl Hopt Hsc.
  unfold c01_scope_nested_noq in Hsc. apply andb_prop in Hsc. destruct Hsc as [Hsc Hrun].
  pose proof (C03.load_wf _ _ _ _ Hl) as Hwf.
  destruct (C03.load_rule_det _ _ _ _ Hl) as [dy Hd].
  destruct (C01_loaded.load_detection_parse _ _ _ _ Hd) as [ts Hp].
  destruct (C01_loaded.loaded_condition_shapes _ _ Hp) as [Hnn Hcl].
  unfold c01_scope2_noq in Hsc. apply andb_prop in Hsc. destruct Hsc as [H1 H3].
  apply (optimise_no_matrix_nested_q o ord sw r d Hperm Hs); try assumption.
  - destruct (sw_matrix sw); [discriminate H1|reflexivity].
  - exact (load_top _ _ _ _ Hl).
  - intros Hsh. rewrite Hsh in H3, Hrun. cbn [negb orb] in H3, Hrun. split; [|exact Hrun].
    unfold Scope2.shake_input_ok2 in H3. apply andb_prop in H3. destruct H3 as [H3 _]. exact H3.
Qed.

(* ---- Properties/C01_matrix_quant.scope_quant_all_sound, the two conjuncts removed ---- *)
Import Scope C03_opt C03_matrix C01_matrix C01_matrix_nested C01_matrix_quant.
Lemma scope_quant_all_sound_noq : forall o ic ord sw y r (d : doc),
  (forall l, Permutation (ord l) l) ->
  C01.H_strip o ->
  load_rule o ic y = Ok r -> r_optimised r = false ->
  c01_scope_quant_all_noq o ord sw (r_det r) = true ->
  exists r', optimise o ord sw r = Ok r' /\ matches o r' d = matches o r d.
Proof.
  intros o ic ord sw y r d Hord Hs Hl Hopt Hsc.
  unfold c01_scope_quant_all_noq in Hsc. apply andb_prop in Hsc. destruct Hsc as [Hsc0 Hscm].
  destruct (sw_matrix sw) eqn:Em.
  2:{ apply (scope_nested_sound_noq o ic ord sw y r d Hord Hs Hl Hopt).
      destruct sw as [c s w m]. cbn [sw_matrix] in Em. subst m. exact Hsc0. }
  cbn [negb orb] in Hscm. pose proof Hscm as Hmi.
  (* the passes before matrix: the verdict is preserved *)
  set (sw0 := Scope.sw_without_matrix sw) in *.
  destruct (scope_nested_sound_noq o ic ord sw0 y r d Hord Hs Hl Hopt Hsc0) as (r1 & Hr1 & Hsem).
  (* the stage before matrix *)
  destruct (no_matrix_stage_good o ord sw _ (load_good _ _ _ _ Hl)) as (s3 & Hst & [Gc Gi]).
  assert (Er1 : r_det r1 = s3).
  { unfold optimise in Hr1. rewrite Hopt in Hr1. unfold sw0 in Hr1.
    rewrite optimise_detection_stage, stage_sw, Hst in Hr1. cbn [bind Scope.sw_without_matrix sw_matrix] in Hr1.
    inversion Hr1; subst r1. reflexivity. }
  pose proof (no_matrix_stage_pre _ _ _ _ _ Hst) as Hpre.
  unfold Scope2.matrix_input_ok3 in Hmi. cbv zeta in Hmi.
  apply andb_prop in Hmi. destruct Hmi as [Hmi Xnm]. apply andb_prop in Hmi. destruct Hmi as [Hmi Xqi].
  apply andb_prop in Hmi. destruct Hmi as [Hmi Xqc]. apply andb_prop in Hmi. destruct Hmi as [Hmi Xcr].
  apply andb_prop in Hmi. destruct Hmi as [K17 _].
  apply negb_true_iff in K17.
  (* optimise returns *)
  destruct (optimise_total_stage_all o ord sw _ (perm_len ord Hord) (load_good _ _ _ _ Hl)) as [dt' Hdt'].
  exists {| r_optimised := true; r_det := dt'; r_tp := r_tp r; r_tn := r_tn r |}.
  split; [unfold optimise; rewrite Hopt, Hdt'; reflexivity|].
  rewrite optimise_detection_stage, Hst, Em in Hdt'. cbn [bind] in Hdt'.
  apply C03.bind_ok_inv in Hdt'. destruct Hdt' as (e4 & He4 & Hdt').
  apply C03.bind_ok_inv in Hdt'. destruct Hdt' as (ids4 & Hids4 & Hdt'). inversion Hdt'; subst dt'; clear Hdt'.
  unfold known_d17 in K17. rewrite Em, Hpre in K17. cbn [andb] in K17.
  rewrite Hpre in Xcr, Xnm, Xqc, Xqi. cbn [fst snd] in Xnm, Xqc, Xqi.
  assert (Hnm : d_ids s3 = [] \/ no_match (d_expr s3) = true).
  { apply Bool.orb_prop in Xnm. destruct Xnm as [Hco|Hno]; [left|right; exact Hno].
    exact (stage_coalesce_ids o ord sw _ s3 Hco Hst). }
  destruct (matrix_stage_verdict_q o ord d (d_expr s3) (d_ids s3) e4 ids4 Hord Gc Gi Xcr Hnm Xqc Xqi K17 He4 Hids4)
    as (v & v' & Ev & Ev' & R).
  rewrite <- Hsem.
  apply (teq_matches o r1 _ d v v'); [|exact Ev' | exact R].
  rewrite Er1. exact Ev.
Qed.


(* ---- the new part of the scope is inhabited ----
   detection: { A: [ {g: [{p: a}, {p: b}]}, {g: [{q: c}]}, {h: d} ], condition: of(A, 2) }
   The condition counts the three entries of A.  With the identifier not inlined the rule is
   outside Scope2.c01_scope_quant_all for every switch set without coalesce (no_quant_ident;
   with the matrix switch even with coalesce), and inside the
   weakened scope for all switch sets but coalesce off + matrix on (there the condition handed
   to matrix holds a quantifier).  shake alone merges the two blocks of the FIRST entry; the
   body still has three entries (before the repair the nested blocks on g of entries one and
   two were merged into one entry) *)
Definition c_of2 : str := [111; 102; 40; 65; 44; 32; 50; 41]%N.          (* of(A, 2) *)
Definition y_count : yaml :=
  YMap [(YStr key_detection,
         YMap [(YStr [65%N], YSeq [YMap [(YStr [103%N], YSeq [mp 112 97; mp 112 98])];
                                   YMap [(YStr [103%N], YSeq [mp 113 99])];
                                   mp 104 100]);
               (YStr cond_key, YStr c_of2)]);
        (YStr key_tp, YSeq []); (YStr key_tn, YSeq [])].
Definition d_count : doc :=
  obj_find [([103%N], VObj [([112%N], VStr [98%N])]); ([104%N], VStr [100%N])].

Lemma quant_ident_example :
  exists r, load_rule C01.o0 false y_count = Ok r /\ r_optimised r = false /\
    d_expr (r_det r) = EMatch (MOf 2) (EIdent [65%N]) /\
    forallb (fun sw => sw_coalesce sw || negb (Scope2.c01_scope_quant_all C01.o0 idord sw (r_det r))) all16 = true /\
    forallb (fun sw => Bool.eqb (c01_scope_quant_all_noq C01.o0 idord sw (r_det r))
                                (sw_coalesce sw || negb (sw_matrix sw))) all16 = true /\
    matches C01.o0 r d_count = Ok true /\
    exists r', optimise C01.o0 idord (sw_of false true false false) r = Ok r' /\
      d_ids (r_det r') =
        [([65%N], EGroup BOr
            [ENested [103%N] (ESearch (SAho [MTExact [97%N]; MTExact [98%N]] false) [112%N] false);
             ENested [103%N] (ESearch (SExact [99%N]) [113%N] false);
             ESearch (SExact [100%N]) [104%N] false])] /\
      matches C01.o0 r' d_count = Ok true.
Proof.
  eexists. split; [vm_compute; reflexivity|]. split; [reflexivity|]. split; [reflexivity|].
  split; [vm_compute; reflexivity|]. split; [vm_compute; reflexivity|]. split; [vm_compute; reflexivity|].
  eexists. split; [vm_compute; reflexivity|]. split; vm_compute; reflexivity.
Qed.

(* ====================================================================================== *)
(* 7. run_safe over the entries of the shaken_0 bodies                                    *)
(* ====================================================================================== *)
(* Scope2.run_safe ranges over the entries of the STAGED bodies and shakes_0 each entry itself,
   because that is the run the crate performs (entries shake).  Reading the entries off
   Known.shaken0 instead -- the text below -- checks another run when a body that is not a group
   has a group as its shake_0 (an and/or chain `a and b` as a body): the crate then runs shake_1
   on that whole group, the text below on its members.  No loaded body is such a chain (load_top),
   and any other body that is not a group keeps its head through shake_0 (shake0_head): on loaded
   rules the two predicates are equal. *)
Definition run_safe_entries (ord : hord) (sw : switches) (dt : detection) : bool :=
  let st := staged sw dt in
  Scope2.shake1_safe ord false (shake_fuel (fst (shaken0 st))) (fst (shaken0 st)) &&
  forallb (fun b : str * expr =>
             forallb (fun m => Scope2.shake1_safe ord (body_neg st) (shake_fuel m) m)
                     (Scope2.entry_trees (snd b)))
          (snd (shaken0 st)).

Lemma load_entries_P o ic (P : expr -> Prop) :
  (forall y e, parse_identifier o ic y = Ok e -> P e) ->
  forall kv cond ids cond' ids',
  Forall (fun kv : str * expr => P (snd kv)) ids ->
  load_entries o ic kv cond ids = Ok (cond', ids') ->
  Forall (fun kv : str * expr => P (snd kv)) ids'.
Proof.
  intros HP. induction kv as [|[k v] kv IH]; intros cond ids cond' ids' Hids H; cbn [load_entries] in H.
  - inversion H; subst. exact Hids.
  - destruct (untag k); try discriminate H.
    destruct (str_eqb s cond_key).
    + destruct (untag v); try discriminate H. exact (IH _ _ _ _ Hids H).
    + apply C03.bind_ok_inv in H. destruct H as (e & He & H).
      apply C03.as_rule_err_ok in He.
      refine (IH _ _ _ _ _ H).
      apply C03.Forall_snoc; [exact Hids|]. cbn [snd]. exact (HP _ _ He).
Qed.

Lemma load_bodies o ic (P : expr -> Prop) :
  (forall y e, parse_identifier o ic y = Ok e -> P e) ->
  forall y r, load_rule o ic y = Ok r -> Forall (fun kv : str * expr => P (snd kv)) (d_ids (r_det r)).
Proof.
  intros HP y r H. destruct (C03.load_rule_det _ _ _ _ H) as [dy Hd]. revert Hd.
  unfold load_detection. intros Hd. destruct (untag dy); try discriminate Hd.
  apply C03.bind_ok_inv in Hd. destruct Hd as ([cond ids] & Hent & Hd).
  destruct cond as [raw|]; [|discriminate Hd].
  apply C03.bind_ok_inv in Hd. destruct Hd as (ts & _ & Hd).
  destruct (idents_known ids None None ts); [|discriminate Hd]. cbn [negb] in Hd.
  apply C03.bind_ok_inv in Hd. destruct Hd as (e & He & Hd).
  destruct (is_solvable e); [|discriminate Hd]. inversion Hd; subst. cbn [d_ids].
  exact (load_entries_P o ic P HP _ _ [] _ _ (Forall_nil _) Hent).
Qed.

Lemma forallb_map_comp {A B} (p : B -> bool) (g : A -> B) l :
  forallb p (map g l) = forallb (fun x => p (g x)) l.
Proof. induction l as [|x l IH]; [reflexivity|]. cbn [map forallb]. rewrite IH. reflexivity. Qed.

Lemma entries_of_shaken0 : forall (p : expr -> bool) b,
  C01.inv b = true -> top_ok b = true ->
  forallb p (Scope2.entry_trees (on_entries (fun x => ok_or (shake0 (shake_fuel x) x) x) b)) =
  forallb (fun x => p (ok_or (shake0 (shake_fuel x) x) x)) (Scope2.entry_trees b).
Proof.
  intros p b Hi Ht. destruct (C01.is_group_dec b) as [[s [l ->]]|Hng].
  - cbn [on_entries Scope2.entry_trees]. apply forallb_map_comp.
  - assert (E : on_entries (fun x => ok_or (shake0 (shake_fuel x) x) x) b = ok_or (shake0 (shake_fuel b) b) b).
    { destruct b; try reflexivity. exfalso. exact (Hng _ _ eq_refl). }
    assert (E2 : Scope2.entry_trees b = [b]).
    { destruct b; try reflexivity. exfalso. exact (Hng _ _ eq_refl). }
    rewrite E, E2. cbn [forallb].
    assert (Hng' : forall s l, ok_or (shake0 (shake_fuel b) b) b <> EGroup s l).
    { destruct (shake0 (shake_fuel b) b) as [b'| |] eqn:E0; cbn [ok_or]; try exact Hng.
      destruct (shake0_head _ _ _ Hi Ht Hng E0) as [->|[_ Q]]; [exact Hng|].
      intros s l ->. discriminate Q. }
    destruct (ok_or (shake0 (shake_fuel b) b) b); try reflexivity. exfalso. exact (Hng' _ _ eq_refl).
Qed.

Lemma run_safe_entries_eq : forall o ic y r ord sw, load_rule o ic y = Ok r ->
  run_safe_entries ord sw (r_det r) = Scope2.run_safe ord sw (r_det r).
Proof.
  intros o ic y r ord sw Hl. unfold run_safe_entries, Scope2.run_safe. cbv zeta. f_equal.
  unfold staged. destruct (sw_coalesce sw); [reflexivity|]. cbn [snd shaken0].
  rewrite forallb_map_comp. cbn [snd].
  pose proof (load_top _ _ _ _ Hl) as Htop.
  pose proof (load_bodies o ic (fun e => C01.inv e = true) (C01_loaded.parse_identifier_inv o ic) _ _ Hl) as Hinv.
  rewrite Forall_forall in Htop, Hinv.
  apply C03_opt.forallb_ext_In. intros kv Hkv.
  exact (entries_of_shaken0 _ (snd kv) (Hinv kv Hkv) (Htop kv Hkv)).
Qed.

(* hence the whole-rule statement holds with either text *)
Lemma scope_nested_sound_entries : forall o ic ord sw y r (d : doc),
  (forall l, Permutation (ord l) l) ->
  C01.H_strip o ->
  load_rule o ic y = Ok r -> r_optimised r = false ->
  Scope2.c01_scope2 ord sw (r_det r) = true ->
  negb (sw_shake sw) || run_safe_entries ord sw (r_det r) = true ->
  exists r', optimise o ord sw r = Ok r' /\ matches o r' d = matches o r d.
Proof.
  intros o ic ord sw y r d Hperm Hs Hl Hopt H2 Hrun.
  rewrite (run_safe_entries_eq o ic y r ord sw Hl) in Hrun.
  exact (C01_nested.scope2_sound_alt o ic ord sw y r d Hperm Hs Hl Hopt H2 Hrun).
Qed.

Print Assumptions scope_quant_all_sound_noq.
