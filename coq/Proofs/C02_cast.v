(* C02: the value-kind dispatch of the string searches regenerated from src/solver.rs
   (Model/GeneratedCast.v, five copies) is the dispatch of Solver.search_value / cast_text. *)
From Coq Require Import List Bool.
From TauModel Require Import Base Num Oracles Syntax Value Solver CastTable GeneratedCast.

Definition canonical : str_dispatch :=
  ([(SKString, false); (SKArray, false); (SKBool, true); (SKFloat, true); (SKInt, true); (SKUInt, true)],
   [SKBool; SKFloat; SKInt; SKUInt]).

Lemma all_copies_canonical : str_dispatches = [canonical; canonical; canonical; canonical; canonical].
Proof. reflexivity. Qed.

(* a value is looked at by a search (otherwise the predicate is missing) exactly when it reaches an arm *)
Lemma canonical_is_search_value : forall o p cast v,
  reaches_arm canonical v cast = match search_value o p cast v with Some _ => true | None => false end.
Proof.
  intros o p cast v. destruct v; cbn; try reflexivity; destruct cast; reflexivity.
Qed.

(* an array element that is not a string contributes its text exactly when cast_text gives one *)
Lemma canonical_is_cast_text : forall o v,
  match v with VStr _ => true | _ => element_stringified canonical v end =
  match value_to_string o v with Some _ => true | None => false end.
Proof. intros o v. destruct v; reflexivity. Qed.

Lemma every_copy_is_search_value : forall d, In d str_dispatches ->
  (forall o p cast v, reaches_arm d v cast = match search_value o p cast v with Some _ => true | None => false end) /\
  (forall o v, match v with VStr _ => true | _ => element_stringified d v end =
               match value_to_string o v with Some _ => true | None => false end).
Proof.
  intros d Hd. rewrite all_copies_canonical in Hd.
  assert (d = canonical) as -> by (cbn in Hd; intuition congruence).
  split; [exact canonical_is_search_value | exact canonical_is_cast_text].
Qed.

Lemma five_copies : length str_dispatches = 5.
Proof. reflexivity. Qed.
