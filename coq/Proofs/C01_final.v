(* C01 (twelfth file): the two relaxations of C01_sh0w.v and C01_nomatch.v together.

   Properties/C01_final.v: Scope6.c01_scope_quant_all_f is Scope2.c01_scope_quant_all_noq with sh0w
   for sh0 (Scope4) and without the conjunct `sw_coalesce sw || no_match (fst pm)` (Scope5).  All
   four statements are proved as stated.

   Method.  Nothing new is needed: the passes before matrix are C01_sh0w.scope_nested_sound_w (at
   the switch set without matrix), the matrix stage is C01_matrix_quant.matrix_stage_verdict_q
   when coalesce is on (no identifier table) and C01_nomatch.matrix_stage_verdict_nm when it is
   off (the quantifiers of the condition are over identifiers: C01_nomatch.stage_qid, which only
   needs the shape of a loaded condition).  Neither matrix-stage lemma takes a hypothesis about
   sh0, so the composition is the one of C01_nomatch.scope_quant_all_sound_nm with the `_w`
   theorem for the first stage. *)
From Coq Require Import Permutation List Bool.
From TauModel Require Import Base Num Oracles Syntax Value Yaml Pratt ParseMap Solver Rule Keys Optimiser Known.
From TauModel Require Import Scope.
From TauModel Require Scope2 Scope4 Scope5 Scope6 Order.
From TauProofs Require C01 C03 C01_sh0w C01_nomatch C12_order.
From TauProofs Require Import C03_opt C03_matrix C01_matrix C01_matrix_nested C01_matrix_quant.
Import ListNotations.

Lemma scope_quant_all_sound_f : forall o ic ord sw y r (d : doc),
  (forall l, Permutation (ord l) l) ->
  C01.H_strip o ->
  load_rule o ic y = Ok r -> r_optimised r = false ->
  Scope6.c01_scope_quant_all_f o ord sw (r_det r) = true ->
  exists r', optimise o ord sw r = Ok r' /\ matches o r' d = matches o r d.
Proof.
  intros o ic ord sw y r d Hord Hs Hl Hopt Hsc.
  unfold Scope6.c01_scope_quant_all_f in Hsc. apply andb_prop in Hsc. destruct Hsc as [Hsc0 Hscm].
  destruct (sw_matrix sw) eqn:Em.
  2:{ apply (C01_sh0w.scope_nested_sound_w o ic ord sw y r d Hord Hs Hl Hopt).
      destruct sw as [c s w m]. cbn [sw_matrix] in Em. subst m. exact Hsc0. }
  cbn [negb orb] in Hscm. pose proof Hscm as Hmi.
  (* the passes before matrix: the verdict is preserved *)
  set (sw0 := Scope.sw_without_matrix sw) in *.
  destruct (C01_sh0w.scope_nested_sound_w o ic ord sw0 y r d Hord Hs Hl Hopt Hsc0) as (r1 & Hr1 & Hsem).
  (* the stage before matrix *)
  destruct (no_matrix_stage_good o ord sw _ (load_good _ _ _ _ Hl)) as (s3 & Hst & [Gc Gi]).
  assert (Er1 : r_det r1 = s3).
  { unfold optimise in Hr1. rewrite Hopt in Hr1. unfold sw0 in Hr1.
    rewrite optimise_detection_stage, stage_sw, Hst in Hr1. cbn [bind Scope.sw_without_matrix sw_matrix] in Hr1.
    inversion Hr1; subst r1. reflexivity. }
  pose proof (no_matrix_stage_pre _ _ _ _ _ Hst) as Hpre.
  unfold Scope5.matrix_input_ok4 in Hmi. cbv zeta in Hmi.
  apply andb_prop in Hmi. destruct Hmi as [Hmi Xqi].
  apply andb_prop in Hmi. destruct Hmi as [Hmi Xqc]. apply andb_prop in Hmi. destruct Hmi as [Hmi Xcr].
  apply andb_prop in Hmi. destruct Hmi as [K17 _].
  apply negb_true_iff in K17.
  (* optimise returns *)
  destruct (optimise_total_stage_all o ord sw _ (perm_len ord Hord) (load_good _ _ _ _ Hl)) as [dt' Hdt'].
  exists {| r_optimised := true; r_det := dt'; r_tp := r_tp r; r_tn := r_tn r |}.
  split; [unfold optimise; rewrite Hopt, Hdt'; reflexivity|].
  rewrite optimise_detection_stage, Hst, Em in Hdt'. cbn [bind] in Hdt'.
  apply C03.bind_ok_inv in Hdt'. destruct Hdt' as (e4 & He4 & Hdt').
  apply C03.bind_ok_inv in Hdt'. destruct Hdt' as (ids4 & Hids4 & Hdt'). inversion Hdt'; subst dt'; clear Hdt'.
  unfold known_d17 in K17. rewrite Em, Hpre in K17. cbn [andb] in K17.
  rewrite Hpre in Xcr, Xqc, Xqi. cbn [fst snd] in Xqc, Xqi.
  assert (Hv : exists v v', solve_cond o (d_ids s3) (d_expr s3) (pure_doc d) = Ok v /\
                            solve_cond o ids4 e4 (pure_doc d) = Ok v' /\ teq v' v).
  { destruct (sw_coalesce sw) eqn:Ec.
    - (* identifiers inlined: no table, quantifiers over lists of the condition itself *)
      exact (matrix_stage_verdict_q o ord d (d_expr s3) (d_ids s3) e4 ids4 Hord Gc Gi Xcr
               (or_introl (stage_coalesce_ids o ord sw _ s3 Ec Hst)) Xqc Xqi K17 He4 Hids4).
    - (* identifiers kept: the quantifiers of the condition are over identifiers *)
      destruct (C03.load_rule_det _ _ _ _ Hl) as [dy Hdy].
      destruct (load_detection_shapes _ _ _ _ Hdy) as [Hcs _].
      pose proof (C01_nomatch.stage_qid o ord sw _ s3 (load_good _ _ _ _ Hl) Ec
                    (C01_nomatch.cond_shape_qid _ Hcs) Hst) as Hq.
      exact (C01_nomatch.matrix_stage_verdict_nm o ord d (d_expr s3) (d_ids s3) e4 ids4 Hord Gc Gi Xcr Hq Xqi
               K17 He4 Hids4). }
  destruct Hv as (v & v' & Ev & Ev' & R).
  rewrite <- Hsem.
  apply (teq_matches o r1 _ d v v'); [|exact Ev' | exact R].
  rewrite Er1. exact Ev.
Qed.

(* it contains both earlier scopes *)
Lemma scope_w_in_f : forall o ord sw dt,
  Scope4.c01_scope_quant_all_w o ord sw dt = true -> Scope6.c01_scope_quant_all_f o ord sw dt = true.
Proof.
  intros o ord sw dt H. unfold Scope4.c01_scope_quant_all_w in H. apply andb_prop in H. destruct H as [H1 H2].
  unfold Scope6.c01_scope_quant_all_f. rewrite H1. cbn [andb].
  destruct (sw_matrix sw); [|reflexivity]. cbn [negb orb] in *.
  unfold Scope2.matrix_input_ok3 in H2. cbv zeta in H2. apply andb_prop in H2. destruct H2 as [H2 _].
  exact H2.
Qed.

Lemma scope_nm_in_f : forall o ord sw dt,
  Scope5.c01_scope_quant_all_nm o ord sw dt = true -> Scope6.c01_scope_quant_all_f o ord sw dt = true.
Proof.
  intros o ord sw dt H. unfold Scope5.c01_scope_quant_all_nm in H. apply andb_prop in H. destruct H as [H1 H2].
  unfold Scope6.c01_scope_quant_all_f. apply andb_true_intro. split; [|exact H2].
  unfold Scope2.c01_scope_nested_noq in H1. apply andb_prop in H1. destruct H1 as [H1 H3].
  unfold Scope4.c01_scope_nested_w. apply andb_true_intro. split; [|exact H3].
  unfold Scope2.c01_scope2_noq in H1. apply andb_prop in H1. destruct H1 as [H1 H4].
  unfold Scope4.c01_scope2_w. apply andb_true_intro. split; [exact H1|].
  destruct (negb (sw_shake (Scope.sw_without_matrix sw))); [reflexivity|].
  cbn [orb] in H4 |- *. exact (C01_sh0w.shake_input_ok2_weaker _ _ _ H4).
Qed.

(* at the crate's own map order *)
Lemma crate_order_scope_quant_all_f_sound : forall o ic sw y r (d : doc),
  C01.H_strip o ->
  load_rule o ic y = Ok r -> r_optimised r = false ->
  Scope6.c01_scope_quant_all_f o Order.rust_ord sw (r_det r) = true ->
  exists r', optimise o Order.rust_ord sw r = Ok r' /\ matches o r' d = matches o r d.
Proof.
  intros o ic sw y r d Hs Hl Hopt Hsc.
  exact (scope_quant_all_sound_f o ic Order.rust_ord sw y r d C12_order.rust_ord_perm Hs Hl Hopt Hsc).
Qed.

Print Assumptions scope_quant_all_sound_f.
Print Assumptions scope_w_in_f.
Print Assumptions scope_nm_in_f.
Print Assumptions crate_order_scope_quant_all_f_sound.
