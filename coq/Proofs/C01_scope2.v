(* the executable scope of Model/Scope2.v implies the hypotheses of C01_nested.scope2_sound_alt *)
From Coq Require Import Permutation.
From TauModel Require Import Base Num Oracles Syntax Value Yaml Pratt ParseMap Solver Rule Keys Optimiser Known Order.
From TauModel Require Scope Scope2.
From TauProofs Require C01 C01_nested C12_order.

Lemma scope_nested_sound : forall o ic ord sw y r (d : doc),
  (forall l, Permutation (ord l) l) ->
  C01.H_strip o ->
  load_rule o ic y = Ok r -> r_optimised r = false ->
  Scope2.c01_scope_nested ord sw (r_det r) = true ->
  exists r', optimise o ord sw r = Ok r' /\ matches o r' d = matches o r d.
Proof.
  intros o ic ord sw y r d Hord Hs Hl Hopt Hsc.
  unfold Scope2.c01_scope_nested in Hsc. apply andb_prop in Hsc. destruct Hsc as [H2 Hrun].
  exact (C01_nested.scope2_sound_alt o ic ord sw y r d Hord Hs Hl Hopt H2 Hrun).
Qed.

Lemma crate_order_scope_nested_sound : forall o ic sw y r (d : doc),
  C01.H_strip o ->
  load_rule o ic y = Ok r -> r_optimised r = false ->
  Scope2.c01_scope_nested rust_ord sw (r_det r) = true ->
  exists r', optimise o rust_ord sw r = Ok r' /\ matches o r' d = matches o r d.
Proof.
  intros o ic sw y r d Hs Hl Hopt Hsc.
  exact (scope_nested_sound o ic rust_ord sw y r d C12_order.rust_ord_perm Hs Hl Hopt Hsc).
Qed.

Lemma nested_merge_example_safe :
  let n := [110%N] in let f := [102%N] in let g := [103%N] in
  let e := EGroup BAnd [ENested n (ESearch (SExact [97%N]) f false); ENested n (ESearch (SExact [98%N]) g false);
                        ESearch (SExact [99%N]) f false] in
  C01_nested.shake1_safe (fun k => k) false (shake_fuel e) e = true /\ C01_nested.shake1_safe (fun k => k) true (shake_fuel e) e = false.
Proof. vm_compute. split; reflexivity. Qed.
