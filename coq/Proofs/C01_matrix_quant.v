(* C01 (seventh file): the matrix pass on trees with nested blocks AND quantifiers: proofs.

   Both statements of Properties/C01_matrix_quant.v are proved as stated:
     matrix_truth_quant      (the pass alone, truth preservation, nested blocks and quantifiers)
     scope_quant_all_sound   (whole loaded rules, all sixteen switch sets)
   and, for free, matrix_exact_quant: without multi-cell rows at all (C01_matrix.no_multi_cell) and
   with the quantifier operands shaken safely at NEGATIVE polarity the pass preserves all three
   values.

   Method.  The quantifier arm of `matrix` is one step of shake_1:
       matrix ord F (EMatch k x) = Ok (shake1 ord (S F) (EMatch k x))        (C01_matrix.matrix_match)
   and `match_safe ord neg F (EMatch k x)` is, by computation, `shake1_safe ord neg (S F) (EMatch k x)`
   (match_safe_match).  C01_nested.shake1_P (the induction behind shake1_truth_run /
   shake1_exact_run) says that along a safe run the result is related to the input at EVERY
   document (exact at negative, truth-preserving at positive polarity), and that the same holds
   under a nested block as soon as the body does not become / stop being an all()-over-or list --
   which the quantifier arm of shake_1 never does (is_allor_shake1_match: the head `EMatch k
   (EGroup s _)` is kept, members are mapped).  So:
     - the quantifier arm of the induction of C01_matrix_nested (matrix_sem_n, there excluded by
       Scope.no_match) is shake1_P, first component;
     - a nested block whose body IS a quantifier (solver: the per-member path for all() over an
       or-list, the generic path otherwise) is shake1_P, second component;
     - a nested block whose body is not a quantifier is on the generic path before and after the
       pass as in C01_matrix_nested; `matrix` does not make a quantifier out of something else
       (matrix_not_match_q: an or-group collapses to its single remaining member only when the
       table fired, and a lone quantifier counts no field).
   Identifiers and quantifiers do not meet: the induction carries `am = true \/ no_match e = true`
   (as C01_matrix.matrix_sem does); `am = true` is used with empty identifier tables only (after
   coalesce, and for identifier bodies), where the value of a tree is C01_nested.V by conversion.
   Whole rules: as C01_matrix_nested.scope_nested_all_sound, with matrix_stage_verdict_q in place
   of matrix_stage_verdict_n.  Not used by the proof: the conjuncts `negb (known_d16 ..)` and
   `Scope.no_quant_ident (d_expr dt)` of the scope (the first is subsumed by match_safe, the
   second by `sw_coalesce sw || no_match (fst pm)`); totality of optimise no longer needs the D21
   exclusion (C03_matrix.optimise_total_stage_all, the model carries the D21 repair).
   Section 5: loaded rules inside the scope whose quantifier operands the pass really rewrites. *)
From Coq Require Import Permutation Lia ZArith ZifyBool List Bool.
From TauModel Require Import Base Num Oracles Syntax Generated Token Pratt Ident Value Yaml ParseMap Solver Rule Keys Optimiser Known.
From TauModel Require Import Scope.
From TauModel Require Scope2.
From TauProofs Require C01 C03 C01_flat C01_shake1 C01_loaded C01_nested C01_scope2.
From TauProofs Require Import C03_opt C03_matrix C01_matrix C01_matrix_nested.
Import ListNotations.

(* ---- the helper definitions of Properties/C01_matrix_quant.v, restated identically ---- *)
Fixpoint match_safe (ord : hord) (neg : bool) (fuel : nat) (e : expr) : bool :=
  match e with
  | EGroup _ l => forallb (match_safe ord neg fuel) l
  | EBexp l _ r => match_safe ord neg fuel l && match_safe ord neg fuel r
  | EMatch k (EGroup _ l) => forallb (Scope2.shake1_safe ord (Scope2.neg_of neg k) fuel) l
  | EMatch k e' => Scope2.shake1_safe ord (Scope2.neg_of neg k) fuel e'
  | ENegate e' => match_safe ord true fuel e'
  | ENested _ e' => match_safe ord neg fuel e'
  | _ => true
  end.

Definition matrix_input_ok3 (o : oracles) (ord : hord) (sw : switches) (dt : detection) : bool :=
  let pm := pre_matrix o ord sw dt in
  negb (known_d17 o ord sw dt) && negb (known_d16 ord sw dt) &&
  forallb Scope.cmp_reads (all_trees pm) &&
  match_safe ord false (shake_fuel (fst pm)) (fst pm) &&
  forallb (fun b : str * expr =>
             forallb (fun m => match_safe ord (body_neg pm) (shake_fuel m) m) (Scope2.entry_trees (snd b)))
          (snd pm) &&
  (sw_coalesce sw || Scope.no_match (fst pm)).
Definition c01_scope_quant_all (o : oracles) (ord : hord) (sw : switches) (dt : detection) : bool :=
  Scope2.c01_scope_nested ord (Scope.sw_without_matrix sw) dt &&
  (negb (sw_matrix sw) || (Scope.no_quant_ident (d_expr dt) && matrix_input_ok3 o ord sw dt)).

(* ====================================================================================== *)
(* 1. the quantifier arm is one step of shake_1                                           *)
(* ====================================================================================== *)

(* at a quantifier, match_safe is the run-following predicate one step up *)
Lemma match_safe_match ord neg F k x :
  match_safe ord neg F (EMatch k x) = C01_nested.shake1_safe ord neg (S F) (EMatch k x).
Proof. destruct x; reflexivity. Qed.

(* the quantifier arm of shake_1 keeps the head of the operand: an all()-over-or list stays one,
   anything else does not become one *)
Lemma is_allor_shake1_match ord F k x :
  is_allor (shake1 ord (S F) (EMatch k x)) = is_allor (EMatch k x).
Proof.
  destruct k as [|c]; [|destruct x; reflexivity].
  destruct x as [s l|l s r|b|f m|f|z|i|z|k0 x0|cols rows|x0|f x0| |s f c]; try reflexivity;
    destruct F as [|fu]; try reflexivity.
  destruct x0; reflexivity.
Qed.

Lemma place_all_length cols : forall sc rows others, place_all cols sc = Ok (rows, others) ->
  length rows + length others = length sc.
Proof.
  induction sc as [|e sc IH]; intros rows others H; cbn [place_all] in H.
  - inversion H; subst. reflexivity.
  - apply C03.bind_ok_inv in H. destruct H as (p & Hp & H).
    apply C03.bind_ok_inv in H. destruct H as ([rows' others'] & Hq & H). inversion H; subst; clear H.
    pose proof (IH _ _ Hq) as E.
    destruct (place_member_shape _ _ _ Hp) as [[row ->]| ->]; cbn [fst snd length]; lia.
Qed.

(* matrix does not make a quantifier out of something else *)
Lemma matrix_not_match_q ord e F e' : is_match e = false -> matrix ord F e = Ok e' -> is_match e' = false.
Proof.
  intros Hn H.
  dex e; try discriminate Hn; try (inversion H; subst; reflexivity).
  - (* group *)
    destruct s; try (inversion H; subst; reflexivity).
    + cbn [matrix] in H. apply C03.bind_ok_inv in H. destruct H as (l' & _ & H). inversion H; subst. reflexivity.
    + rewrite matrix_or_eq in H. apply C03.bind_ok_inv in H. destruct H as (scratch & Hm & H).
      destruct (matrix_table scratch) eqn:Et; [|inversion H; subst; reflexivity].
      cbv zeta in H. apply C03.bind_ok_inv in H. destruct H as ([rows others] & Hp & H).
      pose proof (place_all_others _ _ _ _ Hp) as Hsub.
      pose proof (place_all_length _ _ _ _ Hp) as Hlen.
      destruct rows as [|r0 rows0]; cbn [app] in H.
      * destruct others as [|a [|b rest]]; inversion H; subst; try reflexivity.
        (* the single remaining member: the table fired on it, so it counts a field *)
        cbn [length] in Hlen. destruct scratch as [|y [|y2 sc]]; try discriminate Hlen.
        destruct (Hsub e' (or_introl eq_refl)) as [<-|[]].
        destruct y; try reflexivity.
        apply matrix_table_fires in Et. discriminate Et.
      * destruct others as [|a rest]; inversion H; subst; reflexivity.
  - cbn [matrix] in H. apply C03.bind_ok_inv in H. destruct H as (l' & _ & H).
    apply C03.bind_ok_inv in H. destruct H as (r' & _ & H). inversion H; subst. reflexivity.
  - cbn [matrix] in H. apply C03.bind_ok_inv in H. destruct H as (x & _ & H). inversion H; subst. reflexivity.
  - cbn [matrix] in H. apply C03.bind_ok_inv in H. destruct H as (x & _ & H). inversion H; subst. reflexivity.
Qed.

(* ====================================================================================== *)
(* 2. the pass, semantically, at every document                                           *)
(* ====================================================================================== *)

Section MainQ.
Variable o : oracles.
Variable ord : hord.
Hypothesis Hord : forall l, Permutation (ord l) l.
Variables ids1 ids2 : list (str * expr).
Variable K : str -> bool.

Let S1 (d : doc) (e : expr) : out res3 := Sd o ids1 (solve_body o) d e.
Let S2 (d : doc) (e : expr) : out res3 := Sd o ids2 (solve_body o) d e.
Let V1 (d : doc) (e : expr) : res3 := val o ids1 (solve_body o) d e.
Let V2 (d : doc) (e : expr) : res3 := val o ids2 (solve_body o) d e.

Hypothesis Hok1 : forall (d : doc) e, gm K e = true -> C03.okr (S1 d e).
Hypothesis Hok2 : forall (d : doc) e, gm K e = true -> C03.okr (S2 d e).
(* identifiers: related as the bodies are *)
Variable bn : bool.
Hypothesis Hid : forall (d : doc) i, K i = true -> Rn bn (V2 d (EIdent i)) (V1 d (EIdent i)).
(* quantifiers, when allowed at all: a safe run of shake_1 relates the values at every document,
   also under a nested block when the body keeps its all()-over-or shape *)
Variable am : bool.
Hypothesis HM : am = true -> forall neg F x (d : doc),
  gk K x = true -> C01_nested.shake1_safe ord neg F x = true ->
  Rn neg (V2 d (shake1 ord F x)) (V1 d x) /\
  (is_allor (shake1 ord F x) = is_allor x ->
   forall f, Rn neg (V2 d (ENested f (shake1 ord F x))) (V1 d (ENested f x))).

Lemma matrix_sem_q : forall e neg F e' (d : doc),
  gk K e = true -> cmp_reads e = true ->
  exists_sub (d17_here ord) neg e = false ->
  (bn = true \/ (neg = false /\ no_neg e = true)) ->
  (am = true \/ no_match e = true) ->
  match_safe ord neg F e = true ->
  matrix ord F e = Ok e' ->
  Rn neg (V2 d e') (V1 d e).
Proof.
  induction e as [e IH] using C01.size_ind. intros neg F e' d Hg Hcr H17 Hpn Hpm Hms H.
  dex e; cbn [gk] in Hg; try discriminate Hg.
  - (* group *)
    apply andb_prop in Hg. destruct Hg as [Hs Hl].
    cbn [cmp_reads exists_sub no_match match_safe] in Hcr, H17, Hpm, Hms.
    apply orb_false_iff in H17. destruct H17 as [Hh17 Hs17].
    pose proof (d18_here_never ord neg (EGroup s g)) as Hh18.
    assert (Hmem : forall x y, In x g -> matrix ord F x = Ok y ->
              gm K y = true /\ cr2 y = true /\ Rn neg (V2 d y) (V1 d x)).
    { intros x y Hx Hy.
      pose proof (C01.forallb_In _ _ _ Hl Hx) as Gx.
      split; [exact (matrix_gm' ord K x neg Gx (d18_sub_never ord neg x) F y Hy)|].
      split; [exact (matrix_cr2 ord K x F y Gx (C01.forallb_In _ _ _ Hcr Hx) Hy)|].
      apply (IH x (C01.size_member s g x Hx) neg F y d Gx (C01.forallb_In _ _ _ Hcr Hx)
                (C01.existsb_false_In _ _ _ Hs17 Hx)); [| |exact (C01.forallb_In _ _ _ Hms Hx)|exact Hy].
      - destruct Hpn as [Hb|[Hn Hq]]; [left; exact Hb|right]. split; [exact Hn|].
        cbn [no_neg] in Hq. exact (C01.forallb_In _ _ _ Hq Hx).
      - destruct Hpm as [Ha|Hq]; [left; exact Ha|right]. exact (C01.forallb_In _ _ _ Hq Hx). }
    assert (Hgl : forallb (gm K) g = true).
    { apply C01.forallb_intro. intros x Hx. exact (proj1 (gk_gm K x (C01.forallb_In _ _ _ Hl Hx))). }
    assert (Hsc : forall scratch, mapM (fun x => matrix ord F x) g = Ok scratch ->
              forallb (gm K) scratch = true /\ (forall y, In y scratch -> cr2 y = true) /\
              Forall2 (Rn neg) (map (V2 d) scratch) (map (V1 d) g)).
    { intros scratch Hm. apply C01.mapM_Forall2 in Hm. split; [|split].
      - apply C01.forallb_intro. intros y Hy. destruct (Forall2_In_r _ _ _ y Hm Hy) as (x & Hx & Hxy).
        exact (proj1 (Hmem x y Hx Hxy)).
      - intros y Hy. destruct (Forall2_In_r _ _ _ y Hm Hy) as (x & Hx & Hxy).
        exact (proj1 (proj2 (Hmem x y Hx Hxy))).
      - apply Forall2_map2. apply (F2_rel _ _ _ _ Hm). intros x y Hx Hxy.
        exact (proj2 (proj2 (Hmem x y Hx Hxy))). }
    destruct s; try discriminate Hs.
    + (* and *)
      cbn [matrix] in H. apply C03.bind_ok_inv in H. destruct H as (l' & Hm & H). inversion H; subst e'.
      destruct (Hsc l' Hm) as (G' & _ & HR).
      unfold V1, V2. rewrite (val_and o ids1 _ d K (Hok1 d) g Hgl), (val_and o ids2 _ d K (Hok2 d) l' G').
      apply Rn_conj3. exact HR.
    + (* or *)
      rewrite matrix_or_eq in H. apply C03.bind_ok_inv in H. destruct H as (scratch & Hm & H).
      destruct (Hsc scratch Hm) as (G' & C' & HR).
      assert (HV1 : V1 d (EGroup BOr g) = sumr (map (V1 d) g)) by (apply (val_or o ids1 _ d K (Hok1 d) g Hgl)).
      assert (HRs : Rn neg (sumr (map (V2 d) scratch)) (V1 d (EGroup BOr g))).
      { rewrite HV1. apply Rn_sumr. exact HR. }
      destruct (matrix_table scratch) eqn:Et.
      2:{ inversion H; subst e'. unfold V2 at 1. rewrite (val_or o ids2 _ d K (Hok2 d) scratch G'). exact HRs. }
      pose proof (matrix_table_fires _ Et) as Ef.
      cbv zeta in H. set (cols := matrix_cols ord (count_fields scratch)) in *.
      apply C03.bind_ok_inv in H. destruct H as ([rows others] & Hp & H).
      pose proof (scratch_d18 ord neg F g scratch Hh18 Hm Ef) as Hd18.
      assert (Hmc : neg = true -> existsb multi_cell scratch = false).
      { intros ->. exact (scratch_d17 ord F g scratch Hh17 Hm Ef). }
      assert (HF : Forall (mem_ok cols K neg) scratch).
      { apply Forall_forall. intros y Hy. unfold mem_ok.
        split; [exact (C01.forallb_In _ _ _ G' Hy)|]. split; [exact (C' y Hy)|].
        split; [exact (C01.existsb_false_In _ _ _ Hd18 Hy)|]. split.
        - intros Hn. exact (C01.existsb_false_In _ _ _ (Hmc Hn) Hy).
        - intros f Hf. apply matrix_cols_In; [exact Hord|]. exact (count_fields_In f scratch y Hy Hf). }
      destruct (place_all_spec o ids2 (solve_body o) d cols K (Hok2 d) neg scratch rows others HF Hp)
        as (Hsub & wss & HW & HRp).
      apply (Rn_trans neg _ (sumr (map (V2 d) scratch))); [|exact HRs].
      refine (Rn_trans neg _ _ _ _ HRp). apply Rn_eq.
      assert (Hoth : Forall2 (fun x v => S2 d x = Ok v) others (map (V2 d) others)).
      { clear - Hsub G' Hok2. induction others as [|a others IHo]; cbn [map]; constructor.
        - apply (val_ok o ids2 (solve_body o) d K (Hok2 d)). apply (C01.forallb_In _ _ _ G'). apply Hsub. left. reflexivity.
        - apply IHo. intros x Hx. apply Hsub. right. exact Hx. }
      destruct rows as [|r0 rows0].
      * cbn [app] in H. cbn [map] in HW. inversion HW; subst wss.
        cbn [map sumr fold_right]. rewrite join_M_l.
        assert (E : e' = match others with [x] => x | _ => EGroup BOr others end)
          by (destruct others as [|a [|b rest]]; inversion H; reflexivity).
        assert (HS : Sd o ids2 (solve_body o) d e' = Ok (sumr (map (V2 d) others))).
        { rewrite E. exact (Sd_collapse o ids2 (solve_body o) d others (map (V2 d) others) Hoth). }
        unfold V2 at 1, val. rewrite HS. reflexivity.
      * cbn [app] in H.
        assert (E : e' = match EMatrix cols (r0 :: rows0) :: others with [x] => x | l => EGroup BOr l end)
          by (destruct others as [|a rest]; inversion H; reflexivity).
        assert (HS : Sd o ids2 (solve_body o) d e' = Ok (sumr (sumr (map conj3o wss) :: map (V2 d) others))).
        { rewrite E. clear E H Hsub Hp.
          pose proof (Sd_matrix o ids2 (solve_body o) d cols (r0 :: rows0) wss HW) as HMx.
          destruct others as [|a rest].
          - apply (Sd_collapse o ids2 (solve_body o) d [EMatrix cols (r0 :: rows0)] [sumr (map conj3o wss)]).
            constructor; [exact HMx | constructor].
          - apply (Sd_collapse o ids2 (solve_body o) d (EMatrix cols (r0 :: rows0) :: a :: rest)
                     (sumr (map conj3o wss) :: map (V2 d) (a :: rest))).
            constructor; [exact HMx | exact Hoth]. }
        unfold V2 at 1, val. rewrite HS. reflexivity.
  - (* bexp *)
    cbn [matrix] in H. cbn [cmp_reads exists_sub no_match match_safe] in Hcr, H17, Hpm, Hms.
    apply orb_false_iff in H17. destruct H17 as [_ Hs17].
    destruct (is_and_or op) eqn:Eop.
    + apply andb_prop in Hg. destruct Hg as [G1 G2].
      apply andb_prop in Hcr. destruct Hcr as [C1 C2].
      apply andb_prop in Hms. destruct Hms as [Q1 Q2].
      apply orb_false_iff in Hs17. destruct Hs17 as [A1 A2].
      apply C03.bind_ok_inv in H. destruct H as (l' & Hl' & H).
      apply C03.bind_ok_inv in H. destruct H as (r' & Hr' & H). inversion H; subst e'.
      assert (P1 : (bn = true \/ neg = false /\ no_neg l1 = true) /\ (bn = true \/ neg = false /\ no_neg r1 = true)).
      { destruct Hpn as [Hb|[Hn Hq]]; [split; left; exact Hb|].
        cbn [no_neg] in Hq. apply andb_prop in Hq. destruct Hq. split; right; split; assumption. }
      assert (P2 : (am = true \/ no_match l1 = true) /\ (am = true \/ no_match r1 = true)).
      { destruct Hpm as [Ha|Hq]; [split; left; exact Ha|].
        apply andb_prop in Hq. destruct Hq. split; right; assumption. }
      pose proof (IH l1 (size_bl l1 op r1) neg F l' d G1 C1 A1 (proj1 P1) (proj1 P2) Q1 Hl') as R1.
      pose proof (IH r1 (size_br l1 op r1) neg F r' d G2 C2 A2 (proj2 P1) (proj2 P2) Q2 Hr') as R2.
      pose proof (matrix_gm' ord K l1 neg G1 (d18_sub_never ord neg l1) F l' Hl') as GL.
      pose proof (matrix_gm' ord K r1 neg G2 (d18_sub_never ord neg r1) F r' Hr') as GR.
      pose proof (proj1 (gk_gm K l1 G1)) as GL0. pose proof (proj1 (gk_gm K r1 G2)) as GR0.
      assert (HF2 : Forall2 (Rn neg) (map (V2 d) [l'; r']) (map (V1 d) [l1; r1])) by (repeat constructor; assumption).
      destruct op; try discriminate Eop.
      * replace (V2 d (EBexp l' BAnd r')) with (V2 d (EGroup BAnd [l'; r'])).
        2:{ unfold V2, val, Sd. cbn [solve]. rewrite C01.and2_fold. reflexivity. }
        replace (V1 d (EBexp l1 BAnd r1)) with (V1 d (EGroup BAnd [l1; r1])).
        2:{ unfold V1, val, Sd. cbn [solve]. rewrite C01.and2_fold. reflexivity. }
        unfold V1, V2. rewrite (val_and o ids1 _ d K (Hok1 d)), (val_and o ids2 _ d K (Hok2 d)).
        -- apply Rn_conj3. exact HF2.
        -- cbn [forallb]. rewrite GL, GR. reflexivity.
        -- cbn [forallb]. rewrite GL0, GR0. reflexivity.
      * replace (V2 d (EBexp l' BOr r')) with (V2 d (EGroup BOr [l'; r'])).
        2:{ unfold V2, val, Sd. cbn [solve]. rewrite C01.or2_fold. reflexivity. }
        replace (V1 d (EBexp l1 BOr r1)) with (V1 d (EGroup BOr [l1; r1])).
        2:{ unfold V1, val, Sd. cbn [solve]. rewrite C01.or2_fold. reflexivity. }
        unfold V1, V2. rewrite (val_or o ids1 _ d K (Hok1 d)), (val_or o ids2 _ d K (Hok2 d)).
        -- apply Rn_sumr. exact HF2.
        -- cbn [forallb]. rewrite GL, GR. reflexivity.
        -- cbn [forallb]. rewrite GL0, GR0. reflexivity.
    + apply andb_prop in Hg. destruct Hg as [G1 G2].
      rewrite (matrix_leaf ord F l1 G1), (matrix_leaf ord F r1 G2) in H. cbn [bind] in H.
      inversion H; subst e'. apply Rn_eq. unfold V1, V2, val, Sd. rewrite !solve_cmp by exact Eop. reflexivity.
  - (* ident *)
    inversion H; subst e'. apply (Rn_weaken bn); [exact (Hid d i Hg)|].
    destruct Hpn as [Hb|[Hn _]]; [left; exact Hb | right; exact Hn].
  - (* match: one step of shake_1 *)
    rewrite matrix_match in H.
    assert (E : e' = shake1 ord (S F) (EMatch k e)) by congruence. rewrite E.
    destruct Hpm as [Ha|Hq]; [|discriminate Hq].
    rewrite match_safe_match in Hms.
    exact (proj1 (HM Ha neg (S F) (EMatch k e) d Hg Hms)).
  - (* negate *)
    cbn [matrix] in H. apply C03.bind_ok_inv in H. destruct H as (x & Hx & H). inversion H; subst e'.
    cbn [cmp_reads exists_sub no_match match_safe] in Hcr, H17, Hpm, Hms.
    apply orb_false_iff in H17. destruct H17 as [_ Hs17].
    assert (Hb : bn = true) by (destruct Hpn as [Hb|[_ Hq]]; [exact Hb | discriminate Hq]).
    pose proof (IH e (size_ng e) true F x d Hg Hcr Hs17 (or_introl Hb) Hpm Hms Hx) as R. cbn [Rn] in R.
    pose proof (matrix_gm' ord K e true Hg (d18_sub_never ord true e) F x Hx) as GX.
    apply Rn_eq. unfold V1, V2, val, Sd. cbn [solve].
    fold (Sd o ids2 (solve_body o) d x). fold (Sd o ids1 (solve_body o) d e).
    rewrite (val_ok o ids2 _ d K (Hok2 d) x GX), (val_ok o ids1 _ d K (Hok1 d) e (proj1 (gk_gm K e Hg))).
    cbn [bind]. fold (V2 d x). fold (V1 d e). rewrite R. reflexivity.
  - (* nested *)
    cbn [matrix] in H. apply C03.bind_ok_inv in H. destruct H as (x & Hx & H). inversion H; subst e'.
    cbn [cmp_reads exists_sub no_match match_safe] in Hcr, H17, Hpm, Hms.
    apply orb_false_iff in H17. destruct H17 as [_ Hs17].
    destruct (is_match e) eqn:Eme.
    + (* the body is a quantifier: shake_1 under the block *)
      destruct e as [s l|l s r|b|f0 m|f0|z|i|z|k e0|cols rows|e0|f0 e0| |s f0 c]; try discriminate Eme.
      rewrite matrix_match in Hx.
      assert (E : x = shake1 ord (S F) (EMatch k e0)) by congruence. rewrite E.
      destruct Hpm as [Ha|Hq]; [|discriminate Hq].
      rewrite match_safe_match in Hms.
      exact (proj2 (HM Ha neg (S F) (EMatch k e0) d Hg Hms) (is_allor_shake1_match ord F k e0) f).
    + assert (Hpn' : bn = true \/ neg = false /\ no_neg e = true).
      { destruct Hpn as [Hb|[Hn Hq]]; [left; exact Hb | right; split; [exact Hn | exact Hq]]. }
      pose proof (matrix_gm' ord K e neg Hg (d18_sub_never ord neg e) F x Hx) as GX.
      pose proof (proj1 (gk_gm K e Hg)) as GE.
      destruct (nested_rel o ids1 ids2 (solve_body o) (solve_body o) neg f e x d
                  Eme (matrix_not_match_q ord e F x Eme Hx)) as (v & v' & E1 & E2 & R).
      { intros d'. exists (V1 d' e), (V2 d' x).
        split; [exact (val_ok o ids1 (solve_body o) d' K (Hok1 d') e GE)|].
        split; [exact (val_ok o ids2 (solve_body o) d' K (Hok2 d') x GX)|].
        exact (IH e (size_ns f e) neg F x d' Hg Hcr Hs17 Hpn' Hpm Hms Hx). }
      unfold V1, V2, val, Sd. rewrite E1, E2. exact R.
  - (* search *)
    inversion H; subst e'. apply Rn_eq. reflexivity.
Qed.

End MainQ.

(* ====================================================================================== *)
(* 3. identifier-free trees: statement 1                                                  *)
(* ====================================================================================== *)

Section FlatQ.
Variable o : oracles.
Variable ord : hord.
Hypothesis Hord : forall l, Permutation (ord l) l.

(* with empty identifier tables the value of a tree is C01_nested.V (by conversion), and the
   run-following induction of C01_nested applies *)
Lemma hm_q (K : str -> bool) : (forall i, K i = false) ->
  forall neg F x (d : doc),
  gk K x = true -> C01_nested.shake1_safe ord neg F x = true ->
  Rn neg (val o [] (solve_body o) d (shake1 ord F x)) (val o [] (solve_body o) d x) /\
  (is_allor (shake1 ord F x) = is_allor x ->
   forall f, Rn neg (val o [] (solve_body o) d (ENested f (shake1 ord F x)))
                    (val o [] (solve_body o) d (ENested f x))).
Proof.
  intros HK neg F x d Hg Hs.
  assert (Hgb : gb x = true).
  { unfold gb. rewrite <- Hg. apply gk_ext. intros i. unfold nokey. symmetry. apply HK. }
  destruct (C01_nested.shake1_P o ord Hord F neg x Hgb Hs) as [P1 P2].
  split; [exact (P1 d)|]. intros Ha f. exact (P2 Ha f d).
Qed.

Lemma matrix_quant_rel neg F e e' (d : doc) :
  gb e = true -> cmp_reads e = true -> match_safe ord neg F e = true ->
  exists_sub (d17_here ord) neg e = false ->
  matrix ord F e = Ok e' ->
  exists v v', solve_body o e (pure_doc d) = Ok v /\ solve_body o e' (pure_doc d) = Ok v' /\ Rn neg v' v.
Proof.
  intros Hg Hc Hms H17 H.
  assert (Hid : forall (d0 : doc) i, nokey i = true ->
            Rn true (val o [] (solve_body o) d0 (EIdent i)) (val o [] (solve_body o) d0 (EIdent i)))
    by (intros d0 i Hi; discriminate Hi).
  pose proof (matrix_sem_q o ord Hord [] [] nokey (ok_nil_n o) (ok_nil_n o) true Hid
                true (fun _ => hm_q nokey (fun _ => eq_refl))
                e neg F e' d Hg Hc H17 (or_introl eq_refl) (or_introl eq_refl) Hms H) as R.
  pose proof (matrix_gm' ord nokey e neg Hg (d18_sub_never ord neg e) F e' H) as Gm'.
  exists (val o [] (solve_body o) d e), (val o [] (solve_body o) d e').
  split; [|split; [|exact R]].
  - exact (val_ok o [] (solve_body o) d nokey (ok_nil_n o d) e (proj1 (gk_gm nokey e Hg))).
  - exact (val_ok o [] (solve_body o) d nokey (ok_nil_n o d) e' Gm').
Qed.

End FlatQ.

(* ---- statement 1 ---- *)
Lemma matrix_truth_quant : forall o ord fuel e e' (d : doc),
  (forall l, Permutation (ord l) l) ->
  wf_body e = true -> C01.cmp_leaves e = true ->
  Scope.cmp_reads e = true -> match_safe ord false fuel e = true ->
  exists_sub (d17_here ord) false e = false ->
  matrix ord fuel e = Ok e' ->
  (solve_body o e' (pure_doc d) = Ok T <-> solve_body o e (pure_doc d) = Ok T).
Proof.
  intros o ord fuel e e' d Hord Hw Hcl Hcr Hms H17 H.
  destruct (matrix_quant_rel o ord Hord false fuel e e' d (gb_of_wf_body e Hw Hcl) Hcr Hms H17 H)
    as (v & v' & E1 & E2 & R).
  cbn [Rn] in R. unfold teq in R. rewrite E1, E2. split; intros E; inversion E; subst; f_equal; tauto.
Qed.

(* for free: without multi-cell rows at all, and the quantifier operands shaken safely at negative
   polarity, the pass is exact (all three values) *)
Lemma matrix_exact_quant : forall o ord fuel e e' (d : doc),
  (forall l, Permutation (ord l) l) ->
  wf_body e = true -> C01.cmp_leaves e = true ->
  Scope.cmp_reads e = true -> match_safe ord true fuel e = true ->
  no_multi_cell ord e = true ->
  matrix ord fuel e = Ok e' ->
  solve_body o e' (pure_doc d) = solve_body o e (pure_doc d).
Proof.
  intros o ord fuel e e' d Hord Hw Hcl Hcr Hms Hmc H.
  unfold no_multi_cell in Hmc. apply negb_true_iff in Hmc.
  rewrite (exists_sub_neg_irrel _ (d17_here ord)) in Hmc by (intros n x; reflexivity).
  destruct (matrix_quant_rel o ord Hord true fuel e e' d (gb_of_wf_body e Hw Hcl) Hcr Hms Hmc H)
    as (v & v' & E1 & E2 & R).
  cbn [Rn] in R. rewrite E1, E2, R. reflexivity.
Qed.

(* ====================================================================================== *)
(* 4. whole rules: statement 2                                                            *)
(* ====================================================================================== *)

(* the matrix stage on the trees handed to it (nested blocks and quantifiers allowed; a quantifier
   in the condition only when there is no identifier table, i.e. after coalesce) *)
Lemma matrix_stage_verdict_q o ord (d : doc) e3 ids3 e4 ids4 :
  (forall l, Permutation (ord l) l) ->
  gk (keys_of ids3) e3 = true -> gids ids3 ->
  forallb cmp_reads (all_trees (e3, ids3)) = true ->
  (ids3 = [] \/ no_match e3 = true) ->
  match_safe ord false (shake_fuel e3) e3 = true ->
  forallb (fun b : str * expr =>
             forallb (fun m => match_safe ord (body_neg (e3, ids3)) (shake_fuel m) m) (Scope2.entry_trees (snd b)))
          ids3 = true ->
  any_tree (d17_here ord) (e3, ids3) = false ->
  matrix ord (shake_fuel e3) e3 = Ok e4 ->
  map_ids (entries (fun x => matrix ord (shake_fuel x) x)) ids3 = Ok ids4 ->
  exists v v', solve_cond o ids3 e3 (pure_doc d) = Ok v /\ solve_cond o ids4 e4 (pure_doc d) = Ok v' /\
               teq v' v.
Proof.
  intros Hord Gc Gi Hcr Hnm Qc Qi H17 He4 Hids4.
  cbn [all_trees fst snd forallb] in Hcr.
  apply andb_prop in Hcr. destruct Hcr as [Cc Ci].
  unfold any_tree in H17. cbn [fst snd] in H17.
  apply orb_false_iff in H17. destruct H17 as [A1 A2].
  set (bn := body_neg (e3, ids3)) in *.
  set (K := keys_of ids3).
  (* the bodies *)
  pose proof (C01_shake1.map_ids_F2 _ _ _ Hids4) as HF.
  assert (Hbody : forall kv kv' : str * expr, In kv ids3 ->
            entries (fun x => matrix ord (shake_fuel x) x) (snd kv) = Ok (snd kv') ->
            gm nokey (snd kv') = true /\
            forall d0 : doc, exists v v', solve_body o (snd kv) (pure_doc d0) = Ok v /\
                         solve_body o (snd kv') (pure_doc d0) = Ok v' /\ Rn bn v' v).
  { intros kv kv' Hkv Hm.
    assert (Hin : In (snd kv) (map snd ids3)) by (apply in_map; exact Hkv).
    pose proof (C01.forallb_In _ _ _ Ci Hin) as C.
    pose proof (C01.forallb_In _ _ _ Qi Hkv) as Q. cbn beta in Q.
    pose proof (C01.existsb_false_In _ _ _ A2 Hkv) as A.
    cbn beta in A. unfold gids in Gi. rewrite Forall_forall in Gi. pose proof (Gi kv Hkv) as G.
    (* fix D15/D20: entry by entry, each entry with its own fuel *)
    split; [exact (entries_matrix_gm ord _ _ bn (perm_len ord Hord) G (d18_sub_never ord bn _) Hm)|].
    intros d0.
    apply (C01_nested.entries_vals_rel o (pure_doc d0) bn (fun x => matrix ord (shake_fuel x) x)
             (fun x => gb x = true /\ cmp_reads x = true /\ match_safe ord bn (shake_fuel x) x = true /\
                       exists_sub (d17_here ord) bn x = false)
             (fun _ => True) (snd kv) (snd kv')); [| | | |exact Hm].
    - intros; exact I.
    - destruct (snd kv) as [s0 l0| | | | | | | | | | | | |]; try exact I.
      unfold gb in G. cbn [gk] in G. apply andb_prop in G. exact (proj1 G).
    - intros x Hx. pose proof (C01.forallb_In _ _ _ Q Hx) as Qx. cbn beta in Qx.
      destruct (snd kv) as [s0 l0| | | | | | | | | | | | |]; cbn [C01_nested.entry_trees] in Hx;
        try (destruct Hx as [<-|[]]; auto).
      unfold gb in G. cbn [gk] in G. apply andb_prop in G. destruct G as [_ G].
      cbn [cmp_reads] in C.
      split; [exact (C01.forallb_In _ _ _ G Hx)|]. split; [exact (C01.forallb_In _ _ _ C Hx)|].
      split; [exact Qx|exact (C01.exists_sub_member _ _ _ _ _ A Hx)].
    - intros x x' (Gx & Cx & Qx & Ax) Hx. split; [exact I|].
      exact (matrix_quant_rel o ord Hord bn _ _ _ d0 Gx Cx Qx Ax Hx). }
  assert (Gi4 : Forall (fun kv : str * expr => gm nokey (snd kv) = true) ids4).
  { apply Forall_forall. intros kv' Hkv'. destruct (Forall2_In_r _ _ _ kv' HF Hkv') as (kv & Hkv & _ & Hm).
    exact (proj1 (Hbody kv kv' Hkv Hm)). }
  assert (Hfst : map fst ids4 = map fst ids3) by (exact (proj1 (map_ids_inv _ _ _ Hids4))).
  assert (Hok1 : forall (d0 : doc) e, gm K e = true -> C03.okr (Sd o ids3 (solve_body o) d0 e)).
  { intros d0 e Hg. exact (solve_cond_m o ids3 e (pure_doc d0) Hg (gm_of_gids _ Gi) (C03.npd_pure d0)). }
  assert (Hok2 : forall (d0 : doc) e, gm K e = true -> C03.okr (Sd o ids4 (solve_body o) d0 e)).
  { intros d0 e Hg. apply (solve_cond_m o ids4 e (pure_doc d0)); [|exact Gi4 | apply C03.npd_pure].
    rewrite (gm_ext _ K); [exact Hg|]. intros i. unfold K, keys_of. apply has_key_fst. exact Hfst. }
  assert (Hrel : C01_shake1.ids_rel (fun b b' => entries (fun x => matrix ord (shake_fuel x) x) b = Ok b') ids3 ids4).
  { apply C01_shake1.ids_rel_F2. exact HF. }
  assert (Hlk : forall i b, lookup i ids3 = Some b -> exists kv, In kv ids3 /\ snd kv = b).
  { intros i b Hl. destruct (C03.lookup_in _ _ _ Hl) as [k Hk]. exists (k, b). split; [exact Hk | reflexivity]. }
  assert (Hid : forall (d0 : doc) i, K i = true ->
            Rn bn (val o ids4 (solve_body o) d0 (EIdent i)) (val o ids3 (solve_body o) d0 (EIdent i))).
  { intros d0 i Hi. unfold K, keys_of, has_key in Hi. specialize (Hrel i).
    destruct (lookup i ids3) as [b|] eqn:E3; [|discriminate Hi].
    destruct (lookup i ids4) as [b'|] eqn:E4; [|contradiction].
    destruct (Hlk i b E3) as (kv & Hkv & <-).
    destruct (Hbody kv (fst kv, b') Hkv Hrel) as (_ & Hb). destruct (Hb d0) as (v & v' & Ev & Ev' & R).
    cbn [snd] in Ev'. unfold val, Sd. cbn [solve]. rewrite E3, E4, Ev, Ev'. exact R. }
  assert (Gm4 : gm K e4 = true) by exact (matrix_gm' ord K e3 false Gc (d18_sub_never ord false e3) _ _ He4).
  assert (Hpn : bn = true \/ (false = false /\ no_neg e3 = true)).
  { destruct bn eqn:Ebn; [left; reflexivity|right]. split; [reflexivity|].
    unfold bn, body_neg, has_negative in Ebn. cbn [fst] in Ebn. exact (has_negative_no_neg e3 false Ebn). }
  exists (val o ids3 (solve_body o) d e3), (val o ids4 (solve_body o) d e4).
  split; [exact (val_ok o ids3 (solve_body o) d K (Hok1 d) e3 (proj1 (gk_gm K e3 Gc)))|].
  split; [exact (val_ok o ids4 (solve_body o) d K (Hok2 d) e4 Gm4)|].
  destruct Hnm as [Hnil|Hnm].
  - (* no identifier table: quantifiers allowed in the condition *)
    subst ids3. inversion HF; subst ids4.
    exact (matrix_sem_q o ord Hord [] [] K Hok1 Hok2 bn Hid true
             (fun _ => hm_q o ord Hord K (fun _ => eq_refl))
             e3 false _ e4 d Gc Cc A1 Hpn (or_introl eq_refl) Qc He4).
  - assert (HM : false = true -> forall neg F x (d0 : doc),
              gk K x = true -> C01_nested.shake1_safe ord neg F x = true ->
              Rn neg (val o ids4 (solve_body o) d0 (shake1 ord F x)) (val o ids3 (solve_body o) d0 x) /\
              (is_allor (shake1 ord F x) = is_allor x ->
               forall f, Rn neg (val o ids4 (solve_body o) d0 (ENested f (shake1 ord F x)))
                                (val o ids3 (solve_body o) d0 (ENested f x))))
      by (intros Hf; discriminate Hf).
    exact (matrix_sem_q o ord Hord ids3 ids4 K Hok1 Hok2 bn Hid false HM
             e3 false _ e4 d Gc Cc A1 Hpn (or_intror Hnm) Qc He4).
Qed.

(* ---- statement 2 ---- *)
Lemma scope_quant_all_sound : forall o ic ord sw y r (d : doc),
  (forall l, Permutation (ord l) l) ->
  C01.H_strip o ->
  load_rule o ic y = Ok r -> r_optimised r = false ->
  c01_scope_quant_all o ord sw (r_det r) = true ->
  exists r', optimise o ord sw r = Ok r' /\ matches o r' d = matches o r d.
Proof.
  intros o ic ord sw y r d Hord Hs Hl Hopt Hsc.
  unfold c01_scope_quant_all in Hsc. apply andb_prop in Hsc. destruct Hsc as [Hsc0 Hscm].
  destruct (sw_matrix sw) eqn:Em.
  2:{ apply (C01_scope2.scope_nested_sound o ic ord sw y r d Hord Hs Hl Hopt).
      destruct sw as [c s w m]. cbn [sw_matrix] in Em. subst m. exact Hsc0. }
  cbn [negb orb] in Hscm. apply andb_prop in Hscm. destruct Hscm as [_ Hmi].
  (* the passes before matrix: the verdict is preserved *)
  set (sw0 := Scope.sw_without_matrix sw) in *.
  destruct (C01_scope2.scope_nested_sound o ic ord sw0 y r d Hord Hs Hl Hopt Hsc0) as (r1 & Hr1 & Hsem).
  (* the stage before matrix *)
  destruct (no_matrix_stage_good o ord sw _ (load_good _ _ _ _ Hl)) as (s3 & Hst & [Gc Gi]).
  assert (Er1 : r_det r1 = s3).
  { unfold optimise in Hr1. rewrite Hopt in Hr1. unfold sw0 in Hr1.
    rewrite optimise_detection_stage, stage_sw, Hst in Hr1. cbn [bind Scope.sw_without_matrix sw_matrix] in Hr1.
    inversion Hr1; subst r1. reflexivity. }
  pose proof (no_matrix_stage_pre _ _ _ _ _ Hst) as Hpre.
  unfold matrix_input_ok3 in Hmi. cbv zeta in Hmi.
  apply andb_prop in Hmi. destruct Hmi as [Hmi Xnm]. apply andb_prop in Hmi. destruct Hmi as [Hmi Xqi].
  apply andb_prop in Hmi. destruct Hmi as [Hmi Xqc]. apply andb_prop in Hmi. destruct Hmi as [Hmi Xcr].
  apply andb_prop in Hmi. destruct Hmi as [K17 _].
  apply negb_true_iff in K17.
  (* optimise returns *)
  destruct (optimise_total_stage_all o ord sw _ (perm_len ord Hord) (load_good _ _ _ _ Hl)) as [dt' Hdt'].
  exists {| r_optimised := true; r_det := dt'; r_tp := r_tp r; r_tn := r_tn r |}.
  split; [unfold optimise; rewrite Hopt, Hdt'; reflexivity|].
  rewrite optimise_detection_stage, Hst, Em in Hdt'. cbn [bind] in Hdt'.
  apply C03.bind_ok_inv in Hdt'. destruct Hdt' as (e4 & He4 & Hdt').
  apply C03.bind_ok_inv in Hdt'. destruct Hdt' as (ids4 & Hids4 & Hdt'). inversion Hdt'; subst dt'; clear Hdt'.
  unfold known_d17 in K17. rewrite Em, Hpre in K17. cbn [andb] in K17.
  rewrite Hpre in Xcr, Xnm, Xqc, Xqi. cbn [fst snd] in Xnm, Xqc, Xqi.
  assert (Hnm : d_ids s3 = [] \/ no_match (d_expr s3) = true).
  { apply Bool.orb_prop in Xnm. destruct Xnm as [Hco|Hno]; [left|right; exact Hno].
    exact (stage_coalesce_ids o ord sw _ s3 Hco Hst). }
  destruct (matrix_stage_verdict_q o ord d (d_expr s3) (d_ids s3) e4 ids4 Hord Gc Gi Xcr Hnm Xqc Xqi K17 He4 Hids4)
    as (v & v' & Ev & Ev' & R).
  rewrite <- Hsem.
  apply (teq_matches o r1 _ d v v'); [|exact Ev' | exact R].
  rewrite Er1. exact Ev.
Qed.

(* ====================================================================================== *)
(* 5. the scope is inhabited: rules with quantifiers whose operands the pass rewrites      *)
(* ====================================================================================== *)
Definition idord : hord := fun k => k.
Definition sw_of (c s w m : bool) : switches :=
  {| sw_coalesce := c; sw_shake := s; sw_rewrite := w; sw_matrix := m |}.
Definition all16 : list switches :=
  flat_map (fun c => flat_map (fun s => flat_map (fun w => map (fun m => sw_of c s w m) [false; true])
                                                  [false; true]) [false; true]) [false; true].
Definition k_all_f : str := [97; 108; 108; 40; 102; 41]%N.              (* all(f) *)
Definition k_of_f0 : str := [111; 102; 40; 102; 44; 32; 48; 41]%N.      (* of(f, 0) *)
Definition mp (k c : N) : yaml := YMap [(YStr [k], YStr [c])].
(* detection: { A: { <key>: [ {g: [{p: a}, {p: b}]}, {g: [{q: c}]} ] }, condition: A } *)
Definition y_quant (key : str) : yaml :=
  YMap [(YStr key_detection,
         YMap [(YStr [65%N], YMap [(YStr key,
                   YSeq [YMap [(YStr [103%N], YSeq [mp 112 97; mp 112 98])];
                         YMap [(YStr [103%N], YSeq [mp 113 99])]])]);
               (YStr cond_key, YStr [65%N])]);
        (YStr key_tp, YSeq []); (YStr key_tn, YSeq [])].
(* f: [ {g: [{p: b}]}, {g: {q: c}} ] *)
Definition d_quant : doc :=
  obj_find [([102%N], VArr [VObj [([103%N], VArr [VObj [([112%N], VStr [98%N])]])];
                            VObj [([103%N], VObj [([113%N], VStr [99%N])])]])].

(* all(f) over a list of blocks: in scope for all sixteen switch sets; the matrix switch alone
   shakes the first member (its two blocks on g are merged, the two needles become an automaton) *)
Lemma quant_all_example :
  exists r, load_rule C01.o0 false (y_quant k_all_f) = Ok r /\ r_optimised r = false /\
    forallb (fun sw => c01_scope_quant_all C01.o0 idord sw (r_det r)) all16 = true /\
    matches C01.o0 r d_quant = Ok true /\
    exists r', optimise C01.o0 idord (sw_of false false false true) r = Ok r' /\
      d_ids (r_det r') =
        [([65%N], EMatch MAll (EGroup BOr
            [ENested [102%N] (ENested [103%N] (ESearch (SAho [MTExact [97%N]; MTExact [98%N]] false) [112%N] false));
             ENested [102%N] (ENested [103%N] (ESearch (SExact [99%N]) [113%N] false))]))] /\
      matches C01.o0 r' d_quant = Ok true.
Proof.
  eexists. split; [vm_compute; reflexivity|]. split; [reflexivity|].
  split; [vm_compute; reflexivity|]. split; [vm_compute; reflexivity|].
  eexists. split; [vm_compute; reflexivity|]. split; vm_compute; reflexivity.
Qed.

(* of(f, 0) (a negative position: the members must be shaken exactly): in scope as well *)
Lemma quant_none_example :
  exists r, load_rule C01.o0 false (y_quant k_of_f0) = Ok r /\ r_optimised r = false /\
    forallb (fun sw => c01_scope_quant_all C01.o0 idord sw (r_det r)) all16 = true /\
    matches C01.o0 r d_quant = Ok false /\
    exists r', optimise C01.o0 idord (sw_of true true true true) r = Ok r' /\
      d_expr (r_det r') =
        EMatch (MOf 0) (EGroup BOr
            [ENested [102%N] (ENested [103%N] (ESearch (SAho [MTExact [97%N]; MTExact [98%N]] false) [112%N] false));
             ENested [102%N] (ENested [103%N] (ESearch (SExact [99%N]) [113%N] false))]) /\
      matches C01.o0 r' d_quant = Ok false.
Proof.
  eexists. split; [vm_compute; reflexivity|]. split; [reflexivity|].
  split; [vm_compute; reflexivity|]. split; [vm_compute; reflexivity|].
  eexists. split; [vm_compute; reflexivity|]. split; vm_compute; reflexivity.
Qed.

Print Assumptions matrix_truth_quant.
Print Assumptions matrix_exact_quant.
Print Assumptions scope_quant_all_sound.
