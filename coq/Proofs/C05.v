(* C05  Condition grammar: fixed precedence, associativity and parentheses: proofs. *)
From TauModel Require Import Base Num Oracles Syntax Generated Token Pratt Grammar.
From Coq Require Import Lia ZArith ZifyBool List Bool Arith.
Import ListNotations.

(* ====================================================================== *)
(*                              Tokeniser                                 *)
(* ====================================================================== *)

Lemma bind_ok_id : forall A (x : out A), bind x (fun a => Ok a) = x.
Proof. intros A x. destruct x; reflexivity. Qed.

Ltac nlia := change chr with N in *; lia.

Section Tok.
Variable o : oracles.

(* ---- consume_while ---- *)

Lemma cw_len : forall p s, length (snd (consume_while p s)) <= length s.
Proof.
  intros p s. induction s as [|x s IH]; cbn [consume_while].
  - cbn. lia.
  - destruct (p x).
    + destruct (consume_while p s) as [a b]. cbn [snd length] in *. lia.
    + cbn [snd length]. lia.
Qed.

Lemma cw_stop : forall p y s1 s2, p y = false ->
  consume_while p (s1 ++ y :: s2) =
  (fst (consume_while p s1), snd (consume_while p s1) ++ y :: s2).
Proof.
  intros p y s1 s2 Hy. induction s1 as [|x s1 IH].
  - cbn [app consume_while fst snd]. rewrite Hy. reflexivity.
  - cbn [app consume_while]. destruct (p x).
    + rewrite IH. destruct (consume_while p s1) as [a b]. reflexivity.
    + reflexivity.
Qed.

Lemma cw_all : forall p s, forallb p s = true -> consume_while p s = (s, []).
Proof.
  intros p s. induction s as [|x s IH]; intros H.
  - reflexivity.
  - cbn [forallb] in H. apply andb_true_iff in H. destruct H as [Hx Hs].
    cbn [consume_while]. rewrite Hx, (IH Hs). reflexivity.
Qed.

(* ---- character classes ---- *)

Lemma word_start_ident : forall x, is_word_start x = true -> is_ident_char o x = true.
Proof.
  intros x H.
  unfold is_word_start, is_ident_char, is_alphanumeric, is_ascii, is_ascii_alpha,
    is_ascii_upper, is_ascii_lower, is_ascii_digit, ch_hash, ch_us, ch_dot, ch_lb, ch_rb in *.
  destruct (x <? 128)%N eqn:Ha; lia.
Qed.

Lemma word_char_ident : forall x, word_char x = true -> is_ident_char o x = true.
Proof.
  intros x H.
  unfold word_char, is_ident_char, is_alphanumeric, is_ascii, is_ascii_alpha,
    is_ascii_upper, is_ascii_lower, is_ascii_digit, ch_hash, ch_us, ch_dot, ch_lb, ch_rb in *.
  destruct (x <? 128)%N eqn:Ha; lia.
Qed.

Lemma alpha_not_number_start : forall x, is_ascii_alpha x = true -> is_number_start x = false.
Proof.
  intros x H.
  unfold is_number_start, is_ascii_alpha, is_ascii_upper, is_ascii_lower, is_ascii_digit,
    ch_dot, ch_minus in *. lia.
Qed.

Lemma alpha_word_start : forall x, is_ascii_alpha x = true -> is_word_start x = true.
Proof. intros x H. unfold is_word_start. rewrite H. reflexivity. Qed.

Lemma space_not_number_char : is_number_char o ch_space = false.
Proof. reflexivity. Qed.

Lemma space_not_ident_char : is_ident_char o ch_space = false.
Proof. reflexivity. Qed.

(* ---- the keyword table ---- *)

Lemma match_keyword_n : forall s t n, match_keyword keywords s = Some (t, n) -> 1 <= n.
Proof.
  intros s t n. unfold keywords. cbn [match_keyword].
  repeat (destruct (match_ahead _ s); [intros H; inversion H; lia|]).
  discriminate.
Qed.

(* all characters of a keyword but the last differ from the space *)
Fixpoint nsp_init (kw : str) : bool :=
  match kw with
  | [] => true
  | k :: kw' => match kw' with [] => true | _ => negb (N.eqb k ch_space) && nsp_init kw' end
  end.

Definition kw_entry_ok (e : str * token * nat) : bool :=
  let '(kw, _, n) := e in nsp_init kw && (n <? length kw).

Lemma keywords_ok : forallb kw_entry_ok keywords = true.
Proof. reflexivity. Qed.

Lemma is_prefix_double : forall kw s1 s2, nsp_init kw = true ->
  is_prefix kw (s1 ++ ch_space :: s2) = is_prefix kw (s1 ++ ch_space :: ch_space :: s2).
Proof.
  intros kw s1. revert kw. induction s1 as [|y s1 IH]; intros kw s2 Hk.
  - cbn [app]. destruct kw as [|k kw']; [reflexivity|].
    destruct kw' as [|k' kw''].
    + cbn [is_prefix]. reflexivity.
    + cbn [nsp_init] in Hk. apply andb_true_iff in Hk. destruct Hk as [Hk _].
      cbn [is_prefix]. destruct (N.eqb k ch_space); [discriminate|]. reflexivity.
  - cbn [app]. destruct kw as [|k kw']; [reflexivity|].
    cbn [is_prefix]. f_equal. apply IH.
    cbn [nsp_init] in Hk. destruct kw' as [|k' kw'']; [reflexivity|].
    apply andb_true_iff in Hk. destruct Hk as [_ Hk]. exact Hk.
Qed.

Lemma is_prefix_bound : forall kw s1 s2, nsp_init kw = true ->
  is_prefix kw (s1 ++ ch_space :: s2) = true -> length kw <= S (length s1).
Proof.
  intros kw s1. revert kw. induction s1 as [|y s1 IH]; intros kw s2 Hk Hp.
  - cbn [app] in Hp. destruct kw as [|k kw']; [cbn; lia|].
    destruct kw' as [|k' kw'']; [cbn; lia|].
    cbn [nsp_init] in Hk. apply andb_true_iff in Hk. destruct Hk as [Hk _].
    cbn [is_prefix] in Hp. destruct (N.eqb k ch_space); discriminate.
  - cbn [app] in Hp. destruct kw as [|k kw']; [cbn; lia|].
    cbn [is_prefix] in Hp. apply andb_true_iff in Hp. destruct Hp as [_ Hp].
    cbn [length]. apply le_n_S. apply (IH kw' s2); [|exact Hp].
    cbn [nsp_init] in Hk. destruct kw' as [|k' kw'']; [reflexivity|].
    apply andb_true_iff in Hk. destruct Hk as [_ Hk]. exact Hk.
Qed.

Lemma match_keyword_double : forall kws s1 s2, forallb kw_entry_ok kws = true ->
  match_keyword kws (s1 ++ ch_space :: s2) = match_keyword kws (s1 ++ ch_space :: ch_space :: s2).
Proof.
  intros kws s1 s2. induction kws as [|[[kw t] n] kws IH]; intros Hok; [reflexivity|].
  cbn [forallb kw_entry_ok] in Hok. apply andb_true_iff in Hok. destruct Hok as [Hk Hok].
  apply andb_true_iff in Hk. destruct Hk as [Hk _].
  cbn [match_keyword]. unfold match_ahead. rewrite <- (is_prefix_double kw s1 s2 Hk).
  rewrite (IH Hok). reflexivity.
Qed.

Lemma match_keyword_bound : forall kws s1 s2 t n, forallb kw_entry_ok kws = true ->
  match_keyword kws (s1 ++ ch_space :: s2) = Some (t, n) -> n <= length s1.
Proof.
  intros kws s1 s2 t n. induction kws as [|[[kw t'] n'] kws IH]; intros Hok H; [discriminate|].
  cbn [forallb kw_entry_ok] in Hok. apply andb_true_iff in Hok. destruct Hok as [Hk Hok].
  apply andb_true_iff in Hk. destruct Hk as [Hk Hn].
  cbn [match_keyword] in H. unfold match_ahead in H.
  destruct (is_prefix kw (s1 ++ ch_space :: s2)) eqn:Hp.
  - inversion H; subst. pose proof (is_prefix_bound kw s1 s2 Hk Hp). lia.
  - apply IH; assumption.
Qed.

(* ---- one step of the tokeniser consumes something ---- *)

Lemma lex_step_shrink : forall x s' t rest,
  lex_step o x (x :: s') = Ok (t, rest) -> length rest <= length s'.
Proof.
  intros x s' t rest. unfold lex_step.
  destruct (is_number_start x) eqn:Hn.
  { cbn [consume_while]. destruct (is_number_char o x) eqn:Hc.
    - pose proof (cw_len (is_number_char o) s') as Hl.
      destruct (consume_while (is_number_char o) s') as [a b]. cbn [snd] in Hl.
      cbv beta iota.
      match goal with |- context [str_contains_char ch_dot ?l] =>
        destruct (str_contains_char ch_dot l) end.
      + match goal with |- context [f64_parse o ?l] => destruct (f64_parse o l) end;
          intros H; inversion H; subst; exact Hl.
      + match goal with |- context [parse_i64 ?l] => destruct (parse_i64 l) end;
          intros H; inversion H; subst; exact Hl.
    - cbn. discriminate. }
  destruct (is_word_start x) eqn:Hw.
  { destruct (match_keyword keywords (x :: s')) as [[t' n]|] eqn:Hk.
    - intros H. inversion H; subst. apply match_keyword_n in Hk. rewrite skipn_length.
      cbn [length]. nlia.
    - cbn [consume_while]. rewrite (word_start_ident x Hw).
      pose proof (cw_len (is_ident_char o) s') as Hl.
      destruct (consume_while (is_ident_char o) s') as [a b]. cbn [snd] in Hl.
      cbv beta iota. intros H. inversion H; subst. exact Hl. }
  assert (Hs2 : length (skipn 2 (x :: s')) <= length s').
  { rewrite skipn_length. cbn [length]. nlia. }
  destruct (is_space x). { intros H. inversion H; subst. cbn [tl]. nlia. }
  destruct (N.eqb x ch_eq).
  { destruct (second_is_eq (x :: s')); intros H; inversion H; subst. exact Hs2. }
  destruct (N.eqb x ch_lt).
  { destruct (second_is_eq (x :: s')); intros H; inversion H; subst; [exact Hs2|cbn [tl]; nlia]. }
  destruct (N.eqb x ch_gt).
  { destruct (second_is_eq (x :: s')); intros H; inversion H; subst; [exact Hs2|cbn [tl]; nlia]. }
  destruct (N.eqb x ch_comma). { intros H. inversion H; subst. cbn [tl]. nlia. }
  destruct (N.eqb x ch_lp). { intros H. inversion H; subst. cbn [tl]. nlia. }
  destruct (N.eqb x ch_rp). { intros H. inversion H; subst. cbn [tl]. nlia. }
  discriminate.
Qed.

(* ---- fuel irrelevance ---- *)

Lemma lex_fuel : forall n m s, length s < n -> length s < m -> lex o n s = lex o m s.
Proof.
  induction n as [|n IH]; intros m s Hn Hm; [nlia|].
  destruct m as [|m]; [nlia|].
  destruct s as [|x s]; [reflexivity|].
  cbn [lex]. destruct (lex_step o x (x :: s)) as [[t rest]|k|p] eqn:Hs; cbn [bind]; try reflexivity.
  apply lex_step_shrink in Hs. cbn [length] in Hn, Hm.
  rewrite (IH m rest); [reflexivity|nlia|nlia].
Qed.

Lemma lex_S : forall n x s,
  lex o (S n) (x :: s) =
  (do r <- lex_step o x (x :: s);
   let '(t, rest) := r in
   do ts <- lex o n rest;
   Ok (match t with Some t => t :: ts | None => ts end)).
Proof. reflexivity. Qed.

Lemma lex_space : forall n s, length s < n ->
  lex o (S n) (ch_space :: s) = lex o (S (length s)) s.
Proof.
  intros n s Hn. rewrite lex_S.
  change (lex_step o ch_space (ch_space :: s)) with (@Ok (option token * str) (None, s)).
  cbn [bind]. rewrite bind_ok_id. apply lex_fuel; nlia.
Qed.

(* ---- one step on the two inputs of space_doubling ---- *)

Lemma lex_step_double : forall x s1 s2,
  match lex_step o x ((x :: s1) ++ ch_space :: s2) with
  | Ok (t, r) => exists r', r = r' ++ ch_space :: s2 /\ length r' <= length s1 /\
      lex_step o x ((x :: s1) ++ ch_space :: ch_space :: s2) = Ok (t, r' ++ ch_space :: ch_space :: s2)
  | Err k => lex_step o x ((x :: s1) ++ ch_space :: ch_space :: s2) = Err k
  | Panic p => lex_step o x ((x :: s1) ++ ch_space :: ch_space :: s2) = Panic p
  end.
Proof.
  intros x s1 s2. unfold lex_step. change chr with N in *.
  destruct (is_number_start x) eqn:Hn.
  { rewrite !(cw_stop _ _ _ _ space_not_number_char).
    pose proof (cw_len (is_number_char o) (x :: s1)) as Hl.
    destruct (consume_while (is_number_char o) (x :: s1)) as [a b] eqn:Hc. cbn [fst snd] in *.
    assert (Hb : a <> [] -> length b <= length s1).
    { cbn [consume_while] in Hc. destruct (is_number_char o x).
      - pose proof (cw_len (is_number_char o) s1) as Hl'.
        destruct (consume_while (is_number_char o) s1) as [a' b']. cbn [snd] in Hl'.
        inversion Hc; subst. intros _. exact Hl'.
      - inversion Hc; subst. intros Hne. contradiction. }
    destruct (str_contains_char ch_dot a) eqn:Hd.
    - destruct a as [|a0 a]; [discriminate|].
      destruct (f64_parse o (a0 :: a)); [|reflexivity].
      exists b. split; [reflexivity|]. split; [apply Hb; discriminate|reflexivity].
    - destruct a as [|a0 a]; [reflexivity|].
      destruct (parse_i64 (a0 :: a)); [|reflexivity].
      exists b. split; [reflexivity|]. split; [apply Hb; discriminate|reflexivity]. }
  destruct (is_word_start x) eqn:Hw.
  { rewrite <- (match_keyword_double keywords (x :: s1) s2 keywords_ok).
    destruct (match_keyword keywords ((x :: s1) ++ ch_space :: s2)) as [[t n]|] eqn:Hk.
    - pose proof (match_keyword_bound _ _ _ _ _ keywords_ok Hk) as Hb.
      pose proof (match_keyword_n _ _ _ Hk) as Hn1.
      exists (skipn n (x :: s1)).
      rewrite !skipn_app. replace (n - length (x :: s1)) with 0 by nlia. cbn [skipn].
      split; [reflexivity|]. split; [|reflexivity].
      rewrite skipn_length. cbn [length]. nlia.
    - rewrite !(cw_stop _ _ _ _ space_not_ident_char).
      cbn [consume_while]. rewrite (word_start_ident x Hw).
      pose proof (cw_len (is_ident_char o) s1) as Hl.
      destruct (consume_while (is_ident_char o) s1) as [a b]. cbn [fst snd] in *.
      exists b. split; [reflexivity|]. split; [exact Hl|reflexivity]. }
  assert (Htl : exists r', s1 ++ ch_space :: s2 = r' ++ ch_space :: s2 /\ length r' <= length s1 /\
     @Ok (option token * str) (None, s1 ++ ch_space :: ch_space :: s2) = Ok (None, r' ++ ch_space :: ch_space :: s2)).
  { exists s1. split; [reflexivity|]. split; [nlia|reflexivity]. }
  cbn [app tl].
  destruct (is_space x). { exists s1. split; [reflexivity|]. split; [nlia|reflexivity]. }
  assert (Hse : second_is_eq (x :: s1 ++ ch_space :: s2) = second_is_eq (x :: s1 ++ ch_space :: ch_space :: s2)).
  { destruct s1; reflexivity. }
  rewrite <- Hse.
  assert (Hsk : second_is_eq (x :: s1 ++ ch_space :: s2) = true ->
     exists r', skipn 2 (x :: s1 ++ ch_space :: s2) = r' ++ ch_space :: s2 /\ length r' <= length s1 /\
       skipn 2 (x :: s1 ++ ch_space :: ch_space :: s2) = r' ++ ch_space :: ch_space :: s2).
  { destruct s1 as [|y s1].
    - cbn. discriminate.
    - intros _. exists s1. cbn [skipn app length]. split; [reflexivity|]. split; [nlia|reflexivity]. }
  destruct (N.eqb x ch_eq).
  { destruct (second_is_eq (x :: s1 ++ ch_space :: s2)); [|reflexivity].
    destruct (Hsk eq_refl) as [r' [E1 [E2 E3]]]. exists r'. rewrite E1, E3. auto. }
  destruct (N.eqb x ch_lt).
  { destruct (second_is_eq (x :: s1 ++ ch_space :: s2)).
    - destruct (Hsk eq_refl) as [r' [E1 [E2 E3]]]. exists r'. rewrite E1, E3. auto.
    - exists s1. split; [reflexivity|]. split; [nlia|reflexivity]. }
  destruct (N.eqb x ch_gt).
  { destruct (second_is_eq (x :: s1 ++ ch_space :: s2)).
    - destruct (Hsk eq_refl) as [r' [E1 [E2 E3]]]. exists r'. rewrite E1, E3. auto.
    - exists s1. split; [reflexivity|]. split; [nlia|reflexivity]. }
  destruct (N.eqb x ch_comma). { exists s1. split; [reflexivity|]. split; [nlia|reflexivity]. }
  destruct (N.eqb x ch_lp). { exists s1. split; [reflexivity|]. split; [nlia|reflexivity]. }
  destruct (N.eqb x ch_rp). { exists s1. split; [reflexivity|]. split; [nlia|reflexivity]. }
  reflexivity.
Qed.

Lemma lex_double : forall k s1 s2 n m, length s1 <= k ->
  length (s1 ++ ch_space :: s2) < n -> length (s1 ++ ch_space :: ch_space :: s2) < m ->
  lex o n (s1 ++ ch_space :: s2) = lex o m (s1 ++ ch_space :: ch_space :: s2).
Proof.
  induction k as [|k IH]; intros s1 s2 n m Hk Hn Hm.
  - destruct s1 as [|x s1]; [|cbn [length] in Hk; nlia].
    cbn [app length] in *.
    destruct n as [|n]; [nlia|]. destruct m as [|m]; [nlia|]. destruct m as [|m]; [nlia|].
    rewrite (lex_space n s2) by nlia.
    rewrite (lex_space (S m) (ch_space :: s2)) by (cbn [length]; nlia).
    cbn [length]. rewrite (lex_space (S (length s2)) s2) by nlia. reflexivity.
  - destruct s1 as [|x s1].
    + apply (IH [] s2 n m); [cbn; nlia|exact Hn|exact Hm].
    + destruct n as [|n]; [nlia|]. destruct m as [|m]; [nlia|].
      pose proof (lex_step_double x s1 s2) as Hd.
      change ((x :: s1) ++ ch_space :: s2) with (x :: s1 ++ ch_space :: s2) in *.
      change ((x :: s1) ++ ch_space :: ch_space :: s2) with (x :: s1 ++ ch_space :: ch_space :: s2) in *.
      cbn [lex].
      destruct (lex_step o x (x :: s1 ++ ch_space :: s2)) as [[t r]|e|p].
      * destruct Hd as [r' [E1 [E2 E3]]]. subst r. rewrite E3. cbn [bind].
        rewrite (IH r' s2 n m); [reflexivity| | |].
        -- cbn [length] in Hk. nlia.
        -- rewrite app_length in *. cbn [length] in *. rewrite app_length in Hn. cbn [length] in Hn. nlia.
        -- rewrite app_length in *. cbn [length] in *. rewrite app_length in Hm. cbn [length] in Hm. nlia.
      * rewrite Hd. reflexivity.
      * rewrite Hd. reflexivity.
Qed.

Lemma space_doubling_o : forall s1 s2,
  tokenise o (s1 ++ [ch_space] ++ s2) = tokenise o (s1 ++ [ch_space; ch_space] ++ s2).
Proof.
  intros s1 s2. unfold tokenise. cbn [app].
  apply (lex_double (length s1)); nlia.
Qed.

Lemma leading_space_o : forall s, tokenise o (ch_space :: s) = tokenise o s.
Proof.
  intros s. unfold tokenise. cbn [length]. apply lex_space. nlia.
Qed.

(* ---- words ---- *)

Lemma is_prefix_word : forall (kw w : str), forallb word_char w = true ->
  is_prefix kw w = true -> forallb word_char kw = true.
Proof.
  induction kw as [|k kw IH]; intros w Hw Hp; [reflexivity|].
  destruct w as [|y w]; [discriminate|].
  cbn [is_prefix] in Hp. apply andb_true_iff in Hp. destruct Hp as [Hk Hp].
  apply N.eqb_eq in Hk. subst y.
  cbn [forallb] in *. apply andb_true_iff in Hw. destruct Hw as [Hy Hw].
  rewrite Hy. cbn [andb]. apply (IH w); assumption.
Qed.

Lemma is_prefix_word_ctx : forall (w kw rest : str), forallb word_char w = true ->
  is_prefix kw (w ++ ch_space :: rest) = true ->
  snd (consume_while word_char kw) = [] \/
  (fst (consume_while word_char kw) = w /\
   exists more, snd (consume_while word_char kw) = ch_space :: more).
Proof.
  induction w as [|y w IH]; intros kw rest Hw Hp.
  - cbn [app] in Hp. destruct kw as [|k kw]; [left; reflexivity|].
    cbn [is_prefix] in Hp. apply andb_true_iff in Hp. destruct Hp as [Hk _].
    apply N.eqb_eq in Hk. subst k. right.
    change (consume_while word_char (ch_space :: kw)) with (@nil N, ch_space :: kw).
    cbn [fst snd]. split; [reflexivity|]. exists kw. reflexivity.
  - cbn [app] in Hp. destruct kw as [|k kw]; [left; reflexivity|].
    cbn [is_prefix] in Hp. apply andb_true_iff in Hp. destruct Hp as [Hk Hp].
    apply N.eqb_eq in Hk. subst k.
    cbn [forallb] in Hw. apply andb_true_iff in Hw. destruct Hw as [Hy Hw].
    cbn [consume_while]. rewrite Hy.
    destruct (IH kw rest Hw Hp) as [H|[H1 [more H2]]].
    + left. destruct (consume_while word_char kw) as [a b]. cbn [snd] in *. exact H.
    + right. destruct (consume_while word_char kw) as [a b]. cbn [fst snd] in *. subst.
      split; [reflexivity|]. exists more. reflexivity.
Qed.

Lemma match_keyword_word : forall (w : str), forallb word_char w = true ->
  match_keyword keywords w = None.
Proof.
  intros w Hw. unfold keywords. cbn [match_keyword]. unfold match_ahead.
  repeat match goal with |- context [is_prefix ?kw w] =>
    let Hp := fresh "Hp" in
    destruct (is_prefix kw w) eqn:Hp;
    [exfalso; apply (is_prefix_word _ _ Hw) in Hp; vm_compute in Hp; discriminate Hp
    |clear Hp] end.
  reflexivity.
Qed.

Lemma match_keyword_word_ctx : forall (w rest : str), forallb word_char w = true ->
  w <> kw_and -> w <> kw_or -> w <> kw_not ->
  match_keyword keywords (w ++ ch_space :: rest) = None.
Proof.
  intros w rest Hw Hna Hno Hnn. unfold keywords. cbn [match_keyword]. unfold match_ahead.
  repeat match goal with |- context [is_prefix ?kw (w ++ ch_space :: rest)] =>
    let Hp := fresh "Hp" in
    let Hq := fresh "Hq" in
    let more := fresh "more" in
    destruct (is_prefix kw (w ++ ch_space :: rest)) eqn:Hp;
    [exfalso; apply (is_prefix_word_ctx _ _ _ Hw) in Hp; vm_compute in Hp;
     destruct Hp as [Hp|[Hp [more Hq]]];
     [discriminate Hp
     |first [discriminate Hq
            |apply Hna; symmetry; exact Hp|apply Hno; symmetry; exact Hp
            |apply Hnn; symmetry; exact Hp]]
    |clear Hp] end.
  reflexivity.
Qed.

Lemma word_chars_ident : forall (w : str), forallb word_char w = true ->
  forallb (is_ident_char o) w = true.
Proof.
  intros w Hw. apply forallb_forall. intros y Hy. apply word_char_ident.
  rewrite forallb_forall in Hw. apply Hw. exact Hy.
Qed.

Lemma keyword_prefix_words_o : forall w, is_word w = true -> tokenise o w = Ok [TIdent w].
Proof.
  intros w H. destruct w as [|x w]; [discriminate|].
  cbn [is_word] in H. apply andb_true_iff in H. destruct H as [Hx Hw].
  unfold tokenise. cbn [length]. rewrite lex_S.
  assert (Hs : lex_step o x (x :: w) = Ok (Some (TIdent (x :: w)), [])).
  { unfold lex_step. change chr with N in *.
    rewrite (alpha_not_number_start x Hx), (alpha_word_start x Hx).
    rewrite (match_keyword_word _ Hw).
    rewrite (cw_all (is_ident_char o) (x :: w) (word_chars_ident _ Hw)). reflexivity. }
  rewrite Hs. cbn [bind]. destruct (length w); reflexivity.
Qed.

Lemma keyword_prefix_words_in_context_o : forall w rest,
  is_word w = true -> w <> kw_and -> w <> kw_or -> w <> kw_not ->
  tokenise o (w ++ [ch_space] ++ rest) =
  bind (tokenise o rest) (fun ts => Ok (TIdent w :: ts)).
Proof.
  intros w rest H Hna Hno Hnn. destruct w as [|x w]; [discriminate|].
  cbn [is_word] in H. apply andb_true_iff in H. destruct H as [Hx Hw].
  unfold tokenise.
  change ((x :: w) ++ [ch_space] ++ rest) with (x :: (w ++ ch_space :: rest)).
  cbn [length]. rewrite lex_S.
  assert (Hs : lex_step o x (x :: w ++ ch_space :: rest)
               = Ok (Some (TIdent (x :: w)), ch_space :: rest)).
  { unfold lex_step. change chr with N in *.
    rewrite (alpha_not_number_start x Hx), (alpha_word_start x Hx).
    change (x :: w ++ ch_space :: rest) with ((x :: w) ++ ch_space :: rest).
    rewrite (match_keyword_word_ctx _ rest Hw Hna Hno Hnn).
    rewrite (cw_stop _ _ _ _ space_not_ident_char).
    rewrite (cw_all (is_ident_char o) (x :: w) (word_chars_ident _ Hw)). reflexivity. }
  rewrite Hs. cbn [bind].
  rewrite (lex_fuel (S (length (w ++ ch_space :: rest))) (S (S (length rest))) (ch_space :: rest)).
  - rewrite (lex_space (S (length rest)) rest) by nlia.
    destruct (lex o (S (length rest)) rest); reflexivity.
  - rewrite app_length. cbn [length]. nlia.
  - cbn [length]. nlia.
Qed.

End Tok.

Lemma space_doubling : forall o s1 s2,
  tokenise o (s1 ++ [ch_space] ++ s2) = tokenise o (s1 ++ [ch_space; ch_space] ++ s2).
Proof. exact space_doubling_o. Qed.

Lemma leading_space : forall o s, tokenise o (ch_space :: s) = tokenise o s.
Proof. exact leading_space_o. Qed.

Lemma keyword_prefix_words : forall o w,
  is_word w = true -> tokenise o w = Ok [TIdent w].
Proof. exact keyword_prefix_words_o. Qed.

Lemma keyword_prefix_words_in_context : forall o w rest,
  is_word w = true -> w <> kw_and -> w <> kw_or -> w <> kw_not ->
  tokenise o (w ++ [ch_space] ++ rest) =
  bind (tokenise o rest) (fun ts => Ok (TIdent w :: ts)).
Proof. exact keyword_prefix_words_in_context_o. Qed.

(* ====================================================================== *)
(*                               Parser                                   *)
(* ====================================================================== *)

Ltac blia :=
  unfold bp_cmp, bp_or, bp_and, bp_not, bp_mod, bp_match, bp_atom in *; lia.

(* destruct the variables that are scrutinised in the goal *)
Ltac dvars :=
  repeat match goal with
         | |- context [match ?x with _ => _ end] => is_var x; destruct x
         end.

Definition noninc (rec : parser) : Prop :=
  forall rbp ts e rest, rec rbp ts = Ok (e, rest) -> length rest <= length ts.

Definition nopanic_below (rec : parser) (L : nat) : Prop :=
  forall rbp ts, length ts < L -> is_panic (rec rbp ts) = false.

Lemma collect_paren_len : forall ts d,
  length (fst (collect_paren d ts)) + length (snd (collect_paren d ts)) <= length ts.
Proof.
  induction ts as [|t ts IH]; intros d; cbn [collect_paren].
  - cbn. lia.
  - destruct (token_is_lp t).
    { pose proof (IH (S d)) as H. destruct (collect_paren (S d) ts) as [a b].
      cbn [fst snd length] in *. lia. }
    destruct (token_is_rp t).
    { destruct d as [|d].
      - cbn [fst snd length]. lia.
      - pose proof (IH d) as H. destruct (collect_paren d ts) as [a b].
        cbn [fst snd length] in *. lia. }
    pose proof (IH d) as H. destruct (collect_paren d ts) as [a b].
    cbn [fst snd length] in *. lia.
Qed.

Lemma loop_eq : forall rec m rbp l ts,
  parse_loop rec m rbp l ts =
  match ts with
  | [] => Ok (l, [])
  | next :: _ =>
      if (binding_power next <=? rbp)%N then Ok (l, ts)
      else match m with
           | O => Panic 0
           | S n' =>
               do r <- parse_led rec l ts;
               let '(l', rest) := r in
               parse_loop rec n' rbp l' rest
           end
  end.
Proof. intros rec m rbp l ts. destruct m; reflexivity. Qed.

Lemma paren_ident_shrink : forall ts s rest,
  paren_ident ts = Ok (s, rest) -> length rest < length ts.
Proof.
  intros ts s rest. unfold paren_ident. dvars; intros H; inversion H; subst.
  cbn [length]. lia.
Qed.

Lemma paren_ident_nopanic : forall ts, is_panic (paren_ident ts) = false.
Proof. intros ts. unfold paren_ident. dvars; reflexivity. Qed.

Lemma led_check_nopanic : forall l s r, is_panic (led_check l s r) = false.
Proof.
  intros l s r. unfold led_check.
  destruct s; repeat match goal with |- context [if ?c then _ else _] => destruct c end;
    reflexivity.
Qed.

(* ---- the parser consumes tokens ---- *)

Lemma nud_shrink : forall rec ts e rest, noninc rec ->
  parse_nud rec ts = Ok (e, rest) -> length rest < length ts.
Proof.
  intros rec ts e rest Hni. destruct ts as [|t ts]; [discriminate|].
  cbn [parse_nud]. destruct t as [d|f|s|z|b|m| |m].
  - destruct d; try discriminate.
    pose proof (collect_paren_len ts 0) as Hl.
    destruct (collect_paren 0 ts) as [inner after]. cbn [fst snd] in Hl.
    destruct (parse_all rec inner); cbn [bind]; intros H; inversion H; subst.
    cbn [length]. lia.
  - intros H; inversion H; subst. cbn [length]. lia.
  - intros H; inversion H; subst. cbn [length]. lia.
  - intros H; inversion H; subst. cbn [length]. lia.
  - discriminate.
  - destruct (paren_ident ts) as [[s r]|k|p] eqn:Hp; cbn [bind]; try discriminate.
    intros H; inversion H; subst. apply paren_ident_shrink in Hp. cbn [length]. lia.
  - destruct (rec bp_not ts) as [[rgt r]|k|p] eqn:Hr; cbn [bind]; try discriminate.
    destruct (negatable rgt); intros H; inversion H; subst.
    apply Hni in Hr. cbn [length]. lia.
  - destruct m.
    + destruct (paren_ident ts) as [[s r]|k|p] eqn:Hp; cbn [bind]; try discriminate.
      intros H; inversion H; subst. apply paren_ident_shrink in Hp. cbn [length]. lia.
    + repeat (match goal with |- context [match ?x with _ => _ end] =>
                is_var x; destruct x end; try discriminate);
      (match goal with |- context [(?c <? 0)%Z] => destruct (c <? 0)%Z end;
       try discriminate; intros H; inversion H; subst; cbn [length]; lia).
Qed.

Lemma led_shrink : forall rec l ts e rest, noninc rec ->
  parse_led rec l ts = Ok (e, rest) -> length rest < length ts.
Proof.
  intros rec l ts e rest Hni. destruct ts as [|t ts]; [discriminate|].
  cbn [parse_led]. destruct t; try discriminate.
  destruct (rec (binding_power (TOp b)) ts) as [[rgt r]|k|p] eqn:Hr; cbn [bind]; try discriminate.
  destruct (led_check l b rgt); cbn [bind]; try discriminate.
  intros H; inversion H; subst. apply Hni in Hr. cbn [length]. lia.
Qed.

Lemma loop_noninc : forall rec, noninc rec -> forall m rbp l ts e rest,
  parse_loop rec m rbp l ts = Ok (e, rest) -> length rest <= length ts.
Proof.
  intros rec Hni. induction m as [|m IH]; intros rbp l ts e rest; rewrite loop_eq.
  - destruct ts as [|t ts]; [intros H; inversion H; subst; lia|].
    destruct (binding_power t <=? rbp)%N; [intros H; inversion H; subst; lia|discriminate].
  - destruct ts as [|t ts]; [intros H; inversion H; subst; lia|].
    destruct (binding_power t <=? rbp)%N; [intros H; inversion H; subst; lia|].
    destruct (parse_led rec l (t :: ts)) as [[l' r]|k|p] eqn:Hl; cbn [bind]; try discriminate.
    intros H. apply IH in H. apply (led_shrink _ _ _ _ _ Hni) in Hl. lia.
Qed.

Lemma P_shrink : forall f rbp ts e rest,
  parse_expr f rbp ts = Ok (e, rest) -> length rest < length ts.
Proof.
  induction f as [|f IH]; intros rbp ts e rest; [discriminate|].
  assert (Hni : noninc (parse_expr f)).
  { intros rbp' ts' e' rest' H. apply IH in H. lia. }
  cbn [parse_expr].
  destruct (parse_nud (parse_expr f) ts) as [[l r]|k|p] eqn:Hn; cbn [bind]; try discriminate.
  intros H. apply (loop_noninc _ Hni) in H. apply (nud_shrink _ _ _ _ Hni) in Hn. lia.
Qed.

Lemma P_noninc : forall f, noninc (parse_expr f).
Proof. intros f rbp ts e rest H. apply P_shrink in H. lia. Qed.

Lemma loop_fuel : forall rec, noninc rec -> forall m1 m2 rbp l ts,
  length ts <= m1 -> length ts <= m2 ->
  parse_loop rec m1 rbp l ts = parse_loop rec m2 rbp l ts.
Proof.
  intros rec Hni. induction m1 as [|m1 IH]; intros m2 rbp l ts H1 H2;
    rewrite (loop_eq rec _ rbp l ts); rewrite (loop_eq rec m2 rbp l ts);
    destruct ts as [|t ts]; try reflexivity;
    destruct (binding_power t <=? rbp)%N; try reflexivity.
  - cbn [length] in H1. lia.
  - destruct m2 as [|m2]; [cbn [length] in H2; lia|].
    destruct (parse_led rec l (t :: ts)) as [[l' r]|k|p] eqn:Hl; cbn [bind]; try reflexivity.
    apply (led_shrink _ _ _ _ _ Hni) in Hl. cbn [length] in *. apply IH; lia.
Qed.

(* ---- the parser never runs out of fuel ---- *)

Lemma nud_nopanic : forall rec ts, nopanic_below rec (length ts) ->
  is_panic (parse_nud rec ts) = false.
Proof.
  intros rec ts Hnp. destruct ts as [|t ts]; [reflexivity|].
  cbn [parse_nud]. destruct t as [d|f|s|z|b|m| |m]; try reflexivity.
  - destruct d; try reflexivity.
    pose proof (collect_paren_len ts 0) as Hl.
    destruct (collect_paren 0 ts) as [inner after]. cbn [fst snd] in Hl.
    unfold parse_all.
    pose proof (Hnp 0%N inner) as Hi. cbn [length] in Hi.
    destruct (rec 0%N inner) as [[e r]|k|p]; cbn [bind].
    + destruct r; reflexivity.
    + reflexivity.
    + cbn [is_panic] in Hi. assert (true = false) by (apply Hi; lia). discriminate.
  - pose proof (paren_ident_nopanic ts) as Hp.
    destruct (paren_ident ts) as [[s r]|k|p]; cbn [bind]; try reflexivity.
    cbn [is_panic] in Hp. discriminate.
  - pose proof (Hnp bp_not ts) as Hi. cbn [length] in Hi.
    destruct (rec bp_not ts) as [[rgt r]|k|p]; cbn [bind].
    + destruct (negatable rgt); reflexivity.
    + reflexivity.
    + cbn [is_panic] in Hi. assert (true = false) by (apply Hi; lia). discriminate.
  - destruct m.
    + pose proof (paren_ident_nopanic ts) as Hp.
      destruct (paren_ident ts) as [[s r]|k|p]; cbn [bind]; try reflexivity.
      cbn [is_panic] in Hp. discriminate.
    + dvars; try reflexivity; destruct (_ <? 0)%Z; reflexivity.
Qed.

Lemma led_nopanic : forall rec l ts, nopanic_below rec (length ts) ->
  is_panic (parse_led rec l ts) = false.
Proof.
  intros rec l ts Hnp. destruct ts as [|t ts]; [reflexivity|].
  cbn [parse_led]. destruct t; try reflexivity.
  pose proof (Hnp (binding_power (TOp b)) ts) as Hi. cbn [length] in Hi.
  destruct (rec (binding_power (TOp b)) ts) as [[rgt r]|k|p]; cbn [bind].
  - pose proof (led_check_nopanic l b rgt) as Hc.
    destruct (led_check l b rgt); cbn [bind]; try reflexivity.
    cbn [is_panic] in Hc. discriminate.
  - reflexivity.
  - cbn [is_panic] in Hi. assert (true = false) by (apply Hi; lia). discriminate.
Qed.

Lemma loop_nopanic : forall rec, noninc rec -> forall m rbp l ts,
  length ts <= m -> nopanic_below rec (length ts) ->
  is_panic (parse_loop rec m rbp l ts) = false.
Proof.
  intros rec Hni. induction m as [|m IH]; intros rbp l ts Hm Hnp; rewrite loop_eq;
    destruct ts as [|t ts]; try reflexivity;
    destruct (binding_power t <=? rbp)%N; try reflexivity.
  - cbn [length] in Hm. lia.
  - pose proof (led_nopanic rec l (t :: ts) Hnp) as Hp.
    destruct (parse_led rec l (t :: ts)) as [[l' r]|k|p] eqn:Hl; cbn [bind].
    + apply (led_shrink _ _ _ _ _ Hni) in Hl. cbn [length] in *.
      apply IH; [lia|]. intros rbp' ts' Hlt. apply Hnp. cbn [length]. lia.
    + reflexivity.
    + cbn [is_panic] in Hp. discriminate.
Qed.

Lemma P_nopanic : forall f rbp ts, length ts < f -> is_panic (parse_expr f rbp ts) = false.
Proof.
  induction f as [|f IH]; intros rbp ts Hlt; [lia|].
  cbn [parse_expr].
  assert (Hnp : nopanic_below (parse_expr f) (length ts)).
  { intros rbp' ts' Hlt'. apply IH. lia. }
  pose proof (nud_nopanic _ _ Hnp) as Hp.
  destruct (parse_nud (parse_expr f) ts) as [[l r]|k|p] eqn:Hn; cbn [bind].
  - apply (nud_shrink _ _ _ _ (P_noninc f)) in Hn.
    apply (loop_nopanic _ (P_noninc f)); [lia|].
    intros rbp' ts' Hlt'. apply IH. lia.
  - reflexivity.
  - cbn [is_panic] in Hp. discriminate.
Qed.

Lemma parse_never_out_of_fuel : forall ts site, parse ts <> Panic site.
Proof.
  intros ts site. unfold parse, parse_all.
  pose proof (P_nopanic (S (length ts)) 0%N ts (Nat.lt_succ_diag_r _)) as Hp.
  destruct (parse_expr (S (length ts)) 0%N ts) as [[e r]|k|p]; cbn [bind].
  - destruct r; discriminate.
  - discriminate.
  - cbn [is_panic] in Hp. discriminate.
Qed.

(* ---- completeness with respect to the grammar ---- *)

Scheme g_atom_mind := Minimality for g_atom Sort Prop
  with g_un_mind := Minimality for g_un Sort Prop
  with g_cmp_mind := Minimality for g_cmp Sort Prop
  with g_or_mind := Minimality for g_or Sort Prop
  with g_and_mind := Minimality for g_and Sort Prop.
Combined Scheme g_mutind from g_atom_mind, g_un_mind, g_cmp_mind, g_or_mind, g_and_mind.

(* balanced token lists are transparent for collect_paren *)
Definition bal (ts : list token) : Prop :=
  forall d rest, collect_paren d (ts ++ rest) =
                 (ts ++ fst (collect_paren d rest), snd (collect_paren d rest)).

Lemma bal_app : forall a b, bal a -> bal b -> bal (a ++ b).
Proof.
  intros a b Ha Hb d rest. rewrite <- app_assoc. rewrite Ha, Hb. cbn [fst snd].
  rewrite app_assoc. reflexivity.
Qed.

Lemma bal_single : forall t, token_is_lp t = false -> token_is_rp t = false -> bal [t].
Proof.
  intros t H1 H2 d rest. cbn [app collect_paren]. rewrite H1, H2.
  destruct (collect_paren d rest); reflexivity.
Qed.

Lemma bal_paren : forall a, bal a -> bal (LP :: a ++ [RP]).
Proof.
  intros a Ha d rest. cbn [app collect_paren token_is_lp].
  rewrite <- app_assoc. rewrite Ha. cbn [app collect_paren token_is_lp token_is_rp].
  destruct (collect_paren d rest) as [x y]. cbn [fst snd].
  rewrite <- app_assoc. reflexivity.
Qed.

Lemma g_bal :
  (forall ts e, g_atom ts e -> bal ts) /\ (forall ts e, g_un ts e -> bal ts) /\
  (forall ts e, g_cmp ts e -> bal ts) /\ (forall ts e, g_or ts e -> bal ts) /\
  (forall ts e, g_and ts e -> bal ts).
Proof.
  apply g_mutind; intros.
  - apply bal_single; reflexivity.
  - apply bal_single; reflexivity.
  - apply bal_single; reflexivity.
  - apply (bal_app [TMod m] (LP :: [TIdent s] ++ [RP])).
    + apply bal_single; reflexivity.
    + apply bal_paren. apply bal_single; reflexivity.
  - apply (bal_app [TMatch MSAll] (LP :: [TIdent s] ++ [RP])).
    + apply bal_single; reflexivity.
    + apply bal_paren. apply bal_single; reflexivity.
  - apply (bal_app [TMatch MSOf] (LP :: [TIdent s; TDel DComma; TInt c] ++ [RP])).
    + apply bal_single; reflexivity.
    + apply bal_paren.
      apply (bal_app [TIdent s] ([TDel DComma] ++ [TInt c]));
        [|apply bal_app]; apply bal_single; reflexivity.
  - apply bal_paren. assumption.
  - assumption.
  - apply (bal_app [TMiscNot] ts); [apply bal_single; reflexivity|assumption].
  - assumption.
  - apply bal_app; [assumption|]. apply (bal_app [TOp o] ts2); [|assumption].
    apply bal_single; reflexivity.
  - assumption.
  - apply bal_app; [assumption|]. apply (bal_app [TOp BOr] ts2); [|assumption].
    apply bal_single; reflexivity.
  - assumption.
  - apply bal_app; [assumption|]. apply (bal_app [TOp BAnd] ts2); [|assumption].
    apply bal_single; reflexivity.
Qed.

Lemma collect_paren_bal : forall ts rest, bal ts ->
  collect_paren 0 (ts ++ RP :: rest) = (ts, rest).
Proof.
  intros ts rest Hb. rewrite Hb. cbn [collect_paren token_is_lp token_is_rp fst snd].
  rewrite app_nil_r. reflexivity.
Qed.

(* the loop of parse_expr with exactly the fuel parse_expr gives it *)
Definition ploop (rec : parser) (rbp : N) (l : expr) (ts : list token) :=
  parse_loop rec (length ts) rbp l ts.

Definition stop (b : N) (rest : list token) : Prop :=
  match rest with [] => True | t :: _ => (binding_power t <= b)%N end.

Lemma stop_weaken : forall b1 b2 rest, (b1 <= b2)%N -> stop b1 rest -> stop b2 rest.
Proof. intros b1 b2 rest Hb. destruct rest as [|t rest]; cbn [stop]; [trivial|lia]. Qed.

Lemma stop_not : forall rest, stop bp_not rest.
Proof.
  intros rest. destruct rest as [|t rest]; cbn [stop]; [trivial|].
  destruct t as [d|f|s|z|b|m| |m]; try destruct b; cbn [binding_power]; blia.
Qed.

Lemma ploop_stop : forall rec rbp l rest, stop rbp rest -> ploop rec rbp l rest = Ok (l, rest).
Proof.
  intros rec rbp l rest Hs. unfold ploop. rewrite loop_eq.
  destruct rest as [|t rest]; [reflexivity|].
  cbn [stop] in Hs. apply N.leb_le in Hs. rewrite Hs. reflexivity.
Qed.

Lemma ploop_step : forall rec rbp l o ts r rest' e, noninc rec ->
  (rbp < binding_power (TOp o))%N ->
  rec (binding_power (TOp o)) ts = Ok (r, rest') ->
  led_check l o r = Ok e ->
  ploop rec rbp l (TOp o :: ts) = ploop rec rbp e rest'.
Proof.
  intros rec rbp l o ts r rest' e Hni Hlt Hrec Hled. unfold ploop.
  cbn [length]. rewrite loop_eq.
  assert (Hb : (binding_power (TOp o) <=? rbp)%N = false) by (apply N.leb_gt; exact Hlt).
  rewrite Hb. cbn [parse_led]. rewrite Hrec. cbn [bind]. rewrite Hled. cbn [bind].
  apply (loop_fuel _ Hni); [|lia]. apply Hni in Hrec. exact Hrec.
Qed.

Lemma P_S : forall f rbp ts,
  parse_expr (S f) rbp ts =
  (do r <- parse_nud (parse_expr f) ts;
   let '(l, rest) := r in ploop (parse_expr f) rbp l rest).
Proof. reflexivity. Qed.

Lemma P_of_nud : forall f rbp ts rest e,
  parse_nud (parse_expr f) (ts ++ rest) = Ok (e, rest) ->
  parse_expr (S f) rbp (ts ++ rest) = ploop (parse_expr f) rbp e rest.
Proof. intros f rbp ts rest e H. rewrite P_S, H. reflexivity. Qed.

Definition nud_spec (ts : list token) (e : expr) : Prop :=
  forall f rest, length ts <= f -> parse_nud (parse_expr f) (ts ++ rest) = Ok (e, rest).

Definition level_spec (b : N) (ts : list token) (e : expr) : Prop :=
  forall f rbp rest, length ts <= f -> (rbp < b)%N -> stop b rest ->
    parse_expr (S f) rbp (ts ++ rest) = ploop (parse_expr f) rbp e rest.

Lemma level_weaken : forall b1 b2 ts e, (b2 <= b1)%N ->
  level_spec b1 ts e -> level_spec b2 ts e.
Proof.
  intros b1 b2 ts e Hb H f rbp rest Hf Hr Hs. apply H; [exact Hf|lia|].
  apply (stop_weaken b2 b1); assumption.
Qed.

Definition right_spec (b : N) (ts : list token) (e : expr) : Prop :=
  forall f rest, length ts <= f -> stop b rest ->
    parse_expr (S f) b (ts ++ rest) = Ok (e, rest).

Lemma nud_level : forall b ts e, nud_spec ts e -> level_spec b ts e.
Proof. intros b ts e H f rbp rest Hf _ _. apply P_of_nud. apply H. exact Hf. Qed.

Lemma nud_right : forall b ts e, nud_spec ts e -> right_spec b ts e.
Proof.
  intros b ts e H f rest Hf Hs. rewrite (P_of_nud f b ts rest e (H f rest Hf)).
  apply ploop_stop. exact Hs.
Qed.

Lemma level_right : forall b b' ts e, (b < b')%N -> level_spec b' ts e -> right_spec b ts e.
Proof.
  intros b b' ts e Hb H f rest Hf Hs. rewrite H; [|exact Hf|exact Hb|].
  - apply ploop_stop. exact Hs.
  - apply (stop_weaken b b'); [lia|exact Hs].
Qed.

(* one binary level: a derivation of the same level, the operator, a derivation of the next
   tighter level *)
Lemma level_binary : forall b ts1 e1 o ts2 e2 e,
  binding_power (TOp o) = b ->
  level_spec b ts1 e1 -> right_spec b ts2 e2 -> led_check e1 o e2 = Ok e ->
  level_spec b (ts1 ++ TOp o :: ts2) e.
Proof.
  intros b ts1 e1 o ts2 e2 e Hbp H1 H2 Hled f rbp rest Hf Hr Hs.
  rewrite app_length in Hf. cbn [length] in Hf.
  rewrite <- app_assoc, <- app_comm_cons.
  rewrite (H1 f rbp (TOp o :: ts2 ++ rest)); [|lia|exact Hr|cbn [stop]; rewrite Hbp; lia].
  destruct f as [|f]; [lia|].
  assert (E2 : parse_expr (S f) (binding_power (TOp o)) (ts2 ++ rest) = Ok (e2, rest)).
  { rewrite Hbp. apply H2; [lia|exact Hs]. }
  eapply ploop_step; [apply P_noninc|rewrite Hbp; exact Hr|exact E2|exact Hled].
Qed.

Lemma g_complete :
  (forall ts e, g_atom ts e -> nud_spec ts e) /\
  (forall ts e, g_un ts e -> nud_spec ts e) /\
  (forall ts e, g_cmp ts e -> level_spec bp_cmp ts e) /\
  (forall ts e, g_or ts e -> level_spec bp_or ts e) /\
  (forall ts e, g_and ts e -> level_spec bp_and ts e).
Proof.
  apply g_mutind.
  - intros s f rest Hf. reflexivity.
  - intros z f rest Hf. reflexivity.
  - intros fl f rest Hf. reflexivity.
  - intros m s f rest Hf. reflexivity.
  - intros s f rest Hf. reflexivity.
  - intros s c Hc f rest Hf. cbn [app parse_nud].
    replace (c <? 0)%Z with false by lia. reflexivity.
  - (* parentheses *)
    intros ts e Hg IH f rest Hf.
    cbn [length] in Hf. rewrite app_length in Hf. cbn [length] in Hf.
    rewrite <- app_comm_cons, <- app_assoc. cbn [app parse_nud].
    rewrite (collect_paren_bal ts rest (proj2 (proj2 (proj2 (proj2 g_bal))) ts e Hg)).
    destruct f as [|f]; [lia|]. unfold parse_all.
    pose proof (IH f 0%N [] ltac:(lia) ltac:(blia) I) as E.
    rewrite app_nil_r in E. rewrite E. reflexivity.
  - intros ts e _ IH. exact IH.
  - (* not *)
    intros ts e _ IH Hneg f rest Hf. cbn [length] in Hf.
    destruct f as [|f]; [lia|].
    cbn [app parse_nud].
    rewrite (P_of_nud f bp_not ts rest e (IH f rest ltac:(lia))).
    rewrite (ploop_stop _ _ _ _ (stop_not rest)). cbn [bind]. rewrite Hneg. reflexivity.
  - intros ts e _ IH. apply nud_level. exact IH.
  - (* comparison *)
    intros ts1 e1 o ts2 e2 e _ IH1 _ IH2 Ho Hled.
    apply (level_binary bp_cmp ts1 e1 o ts2 e2 e).
    + destruct o; try discriminate Ho; reflexivity.
    + apply nud_level. exact IH1.
    + apply nud_right. exact IH2.
    + exact Hled.
  - intros ts e _ IH. apply (level_weaken bp_cmp bp_or); [blia|exact IH].
  - (* or *)
    intros ts1 e1 ts2 e2 _ IH1 _ IH2 Hs1 Hs2.
    apply (level_binary bp_or ts1 e1 BOr ts2 e2).
    + reflexivity.
    + exact IH1.
    + apply (level_right bp_or bp_cmp); [blia|exact IH2].
    + cbn [led_check]. rewrite Hs1, Hs2. reflexivity.
  - intros ts e _ IH. apply (level_weaken bp_or bp_and); [blia|exact IH].
  - (* and *)
    intros ts1 e1 ts2 e2 _ IH1 _ IH2 Hs1 Hs2.
    apply (level_binary bp_and ts1 e1 BAnd ts2 e2).
    + reflexivity.
    + exact IH1.
    + apply (level_right bp_and bp_or); [blia|exact IH2].
    + cbn [led_check]. rewrite Hs1, Hs2. reflexivity.
Qed.

Lemma pratt_complete : forall ts e, g_and ts e -> parse ts = Ok e.
Proof.
  intros ts e Hg. unfold parse, parse_all.
  pose proof (proj2 (proj2 (proj2 (proj2 g_complete))) ts e Hg
                (length ts) 0%N [] (le_n _) ltac:(blia) I) as E.
  rewrite app_nil_r in E. rewrite E. reflexivity.
Qed.

Lemma parens_operand : forall ts e, g_and ts e -> g_atom (LP :: ts ++ [RP]) e.
Proof. intros ts e H. apply GA_paren. exact H. Qed.

Lemma parens_redundant : forall ts e,
  g_and ts e -> parse (LP :: ts ++ [RP]) = parse ts.
Proof.
  intros ts e H. rewrite (pratt_complete ts e H).
  apply pratt_complete. apply GN_or, GO_cmp, GC_un, GU_atom, GA_paren. exact H.
Qed.

Lemma precedence_examples : forall a b c,
  parse [TIdent a; TOp BAnd; TIdent b; TOp BOr; TIdent c]
    = Ok (EBexp (EIdent a) BAnd (EBexp (EIdent b) BOr (EIdent c))) /\
  parse [TIdent a; TOp BOr; TIdent b; TOp BAnd; TIdent c]
    = Ok (EBexp (EBexp (EIdent a) BOr (EIdent b)) BAnd (EIdent c)) /\
  parse [TIdent a; TOp BAnd; TIdent b; TOp BAnd; TIdent c]
    = Ok (EBexp (EBexp (EIdent a) BAnd (EIdent b)) BAnd (EIdent c)) /\
  parse [TIdent a; TOp BOr; TIdent b; TOp BOr; TIdent c]
    = Ok (EBexp (EBexp (EIdent a) BOr (EIdent b)) BOr (EIdent c)) /\
  parse [TMiscNot; TIdent a; TOp BAnd; TIdent b]
    = Ok (EBexp (ENegate (EIdent a)) BAnd (EIdent b)) /\
  parse [TMiscNot; TIdent a; TOp BOr; TIdent b]
    = Ok (EBexp (ENegate (EIdent a)) BOr (EIdent b)) /\
  parse [TIdent a; TOp BAnd; LP; TIdent b; TOp BAnd; TIdent c; RP]
    = Ok (EBexp (EIdent a) BAnd (EBexp (EIdent b) BAnd (EIdent c))).
Proof. intros a b c. repeat split; reflexivity. Qed.

Lemma grammar_example :
  let a := [65%N] in let b := [66%N] in let x := [120%N] in
  g_and [TMiscNot; TIdent a; TOp BAnd; LP; TIdent b; TOp BOr; TMod MInt; LP; TIdent x; RP;
         TOp BGreaterThanOrEqual; TInt 3; RP]
        (EBexp (ENegate (EIdent a)) BAnd
               (EBexp (EIdent b) BOr (EBexp (ECast x MInt) BGreaterThanOrEqual (EInt 3)))).
Proof.
  intros a b x.
  apply (GN_and [TMiscNot; TIdent a] (ENegate (EIdent a))
                [LP; TIdent b; TOp BOr; TMod MInt; LP; TIdent x; RP;
                 TOp BGreaterThanOrEqual; TInt 3; RP]
                (EBexp (EIdent b) BOr (EBexp (ECast x MInt) BGreaterThanOrEqual (EInt 3))));
    [| |reflexivity|reflexivity].
  - apply GN_or, GO_cmp, GC_un, GU_not; [|reflexivity]. apply GU_atom, GA_id.
  - apply GO_cmp, GC_un, GU_atom.
    apply (GA_paren [TIdent b; TOp BOr; TMod MInt; LP; TIdent x; RP;
                     TOp BGreaterThanOrEqual; TInt 3]).
    apply GN_or.
    apply (GO_or [TIdent b] (EIdent b)
                 [TMod MInt; LP; TIdent x; RP; TOp BGreaterThanOrEqual; TInt 3]
                 (EBexp (ECast x MInt) BGreaterThanOrEqual (EInt 3)));
      [| |reflexivity|reflexivity].
    + apply GO_cmp, GC_un, GU_atom, GA_id.
    + apply (GC_cmp [TMod MInt; LP; TIdent x; RP] (ECast x MInt) BGreaterThanOrEqual
                    [TInt 3] (EInt 3)); [| |reflexivity|reflexivity].
      * apply GU_atom, GA_cast.
      * apply GU_atom, GA_int.
Qed.
