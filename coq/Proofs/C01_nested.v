(* C01 (fifth file): the merging pass shake_1 on trees WITH nested blocks: proofs. *)
From Coq Require Import Lia ZArith ZifyBool List Bool Permutation.
From TauModel Require Import Base Num Oracles Syntax Value Yaml Pratt ParseMap Solver Rule Keys Optimiser Known.
From TauModel Require Scope.
Import ListNotations.
From TauProofs Require C01 C03 C03_opt C10 C01_shake1 C01_loaded.

(* ====================================================================== *)
(*  Part S: the executable classifier of the _alt statements               *)
(*  (text proposed for Model/Scope.v; restated identically in Properties)  *)
(* ====================================================================== *)

(* the regrouped member lists of the two group arms of shake_1, `sh` being the recursive call *)
Definition and_scratch (ord : hord) (sh : expr -> expr) (shaken : list expr) : list expr :=
  let nested :=
    fold_left (fun m x => match x with
                          | ENested f inner => if is_all_match inner then m else amap_push f [inner] m
                          | _ => m
                          end) shaken [] in
  let plain := filter (fun x => match x with ENested _ inner => is_all_match inner | _ => true end) shaken in
  let merged :=
    map (fun kv : key * list expr =>
           let '(f, es) := kv in
           ENested f (match es with
                      | [x] => sh x
                      | _ => sh (EMatch MAll (EGroup BOr es))
                      end)) (amap_iter ord nested) in
  plain ++ merged.
Definition or_scratch (ord : hord) (sh : expr -> expr) (shaken : list expr) : list expr :=
  let a := fold_left or_classify shaken oracc0 in
  let b := fold_left needle_bucket (amap_iter ord (oa_needles a)) buckets0 in
  let nested :=
    map (fun kv : key * list expr =>
           let '(f, es) := kv in
           ENested f (match es with
                      | [x] => sh x
                      | _ => sh (EGroup BOr es)
                      end)) (amap_iter ord (oa_nested a)) in
  let pats := map pattern_exprs (amap_iter ord (oa_patterns a)) in
  let regex := flat_map fst pats in
  let regex_set := flat_map snd pats in
  oa_any a ++ sort_by len_lt (b_exact b) ++ sort_by len_lt (b_starts b)
       ++ sort_by len_lt (b_ends b) ++ sort_by len_lt (b_contains b)
       ++ sort_by aho_lt (b_aho b) ++ sort_by regex_lt regex
       ++ sort_by regexset_lt regex_set ++ oa_rest a ++ nested.
(* the nested blocks of a shaken member list that the pass merges, per field (both arms collect
   them alike; since the D29 repair a block whose body is an all() list is left alone) *)
Definition merges (x : expr) : bool :=
  match x with ENested _ inner => negb (is_all_match inner) | _ => false end.
Definition nested_of (shaken : list expr) : list (key * list expr) :=
  fold_left (fun m x => match x with
                        | ENested f inner => if is_all_match inner then m else amap_push f [inner] m
                        | _ => m
                        end) shaken [].
(* the body a merged nested block is built from (q: and-arm) *)
Definition merge_body (q : bool) (es : list expr) : expr :=
  match es with
  | [x] => x
  | _ => if q then EMatch MAll (EGroup BOr es) else EGroup BOr es
  end.
Definition neg_of (neg : bool) (k : matchk) : bool :=
  match k with MOf c => neg || (c =? 0)%Z | MAll => neg end.

(* follows the run of shake_1: same recursion, same fuel; `neg` is the polarity as in
   Known.exists_sub.  At every group the run meets -- those of the tree, the re-runs on a
   regrouped list, and the new groups made of merged bodies -- it checks D16 (negative
   position, and-group of two or more members one of which shakes to a nested block that is
   merged / moved), and that the body of a rebuilt nested block does not become (or stop being)
   an all()-over-or list (a one-member group around one is unwrapped) *)
Fixpoint shake1_safe (ord : hord) (neg : bool) (fuel : nat) (e : expr) : bool :=
  match fuel with
  | O => true
  | S fu =>
      let sh := shake1 ord fu in
      let nest_ok := fun x => Bool.eqb (is_allor (sh x)) (is_allor x) && shake1_safe ord neg fu x in
      let entries_ok := fun q shaken =>
        forallb (fun kv : key * list expr => nest_ok (merge_body q (snd kv)))
                (amap_iter ord (nested_of shaken)) in
      match e with
      | EGroup BAnd l =>
          let shaken := map sh l in
          let scratch := and_scratch ord sh shaken in
          forallb (shake1_safe ord neg fu) l &&
          negb (neg && (1 <? length l)%nat && existsb merges shaken) &&
          entries_ok true shaken &&
          (if negb (length scratch =? length l)%nat then shake1_safe ord neg fu (EGroup BAnd scratch) else true)
      | EGroup BOr l =>
          let shaken := map sh l in
          let scratch := or_scratch ord sh shaken in
          forallb (shake1_safe ord neg fu) l &&
          entries_ok false shaken &&
          (if negb (length scratch =? length l)%nat then shake1_safe ord neg fu (EGroup BOr scratch) else true)
      | EGroup _ l => forallb (shake1_safe ord neg fu) l
      | EBexp l _ r => shake1_safe ord neg fu l && shake1_safe ord neg fu r
      | EMatch k (EGroup _ l) => forallb (shake1_safe ord (neg_of neg k) fu) l
      | EMatch k e' => shake1_safe ord (neg_of neg k) fu e'
      | ENegate e' => shake1_safe ord true fu e'
      | ENested _ e' => nest_ok e'
      | _ => true
      end
  end.

(* ====================================================================== *)
(*  Part R: witnesses (model with the D29 repair)                          *)
(* ====================================================================== *)

Definition idord : hord := fun k => k.
Lemma idord_perm : forall l, Permutation (idord l) l.
Proof. intros l. apply Permutation_refl. Qed.

Definition sx (c f : N) : expr := ESearch (SExact [c]) [f] false.

(* the D29-one-level-down witness of the model before the repair: a merged or-group is shaken
   again and used to merge nested(g, all-list) with nested(g, z); now the block with the all()
   body is left alone and the verdict is kept *)
Definition e_deep : expr :=
  EGroup BOr [ENested [102%N] (ENested [103%N] (EMatch MAll (EGroup BOr [sx 97 120; sx 98 121])));
              ENested [102%N] (ENested [103%N] (sx 99 122))].
Definition d_deep : doc :=
  obj_find [([102%N], VObj [([103%N], VArr [VObj [([120%N], VStr [97%N])]; VObj [([121%N], VStr [98%N])]])])].
Lemma deep_merge_repaired :
  shake1 idord (shake_fuel e_deep) e_deep =
    ENested [102%N] (EGroup BOr [ENested [103%N] (EMatch MAll (EGroup BOr [sx 97 120; sx 98 121]));
                                 ENested [103%N] (sx 99 122)]) /\
  shake1_safe idord false (shake_fuel e_deep) e_deep = true /\
  solve_body C01.o0 e_deep (pure_doc d_deep) = Ok T /\
  solve_body C01.o0 (shake1 idord (shake_fuel e_deep) e_deep) (pure_doc d_deep) = Ok T.
Proof. vm_compute. repeat split; reflexivity. Qed.

(* STILL a refutation of "truth is preserved outside D16": a one-member group around an
   all()-over-or list, as the body of a nested block: shake_1 unwraps it and the solver switches
   to its per-member array path (the shake_0 analogue is excluded by Scope.shx / nested_ok;
   shake_1 alone is not covered by d16_here): F becomes T *)
Definition e_unwrap : expr :=
  ENested [102%N] (EGroup BAnd [EMatch MAll (EGroup BOr [sx 97 120; sx 98 121])]).
Definition d_unwrap : doc :=
  obj_find [([102%N], VArr [VObj [([120%N], VStr [97%N])]; VObj [([121%N], VStr [98%N])]])].
Lemma shake1_truth_nested_refuted :
  wf_body e_unwrap = true /\ C01.cmp_leaves e_unwrap = true /\
  exists_sub (d16_here idord) false e_unwrap = false /\
  exists_sub (d29_here idord) false e_unwrap = false /\
  shake1_safe idord false (shake_fuel e_unwrap) e_unwrap = false /\
  shake1 idord (shake_fuel e_unwrap) e_unwrap =
    ENested [102%N] (EMatch MAll (EGroup BOr [sx 97 120; sx 98 121])) /\
  solve_body C01.o0 e_unwrap (pure_doc d_unwrap) = Ok F /\
  solve_body C01.o0 (shake1 idord (shake_fuel e_unwrap) e_unwrap) (pure_doc d_unwrap) = Ok T.
Proof. vm_compute. repeat split; reflexivity. Qed.

Lemma shake1_truth_nested_false :
  ~ (forall o ord e (d : doc),
      (forall l, Permutation (ord l) l) ->
      wf_body e = true -> C01.cmp_leaves e = true ->
      exists_sub (d16_here ord) false e = false ->
      (solve_body o (shake1 ord (shake_fuel e) e) (pure_doc d) = Ok T <-> solve_body o e (pure_doc d) = Ok T)).
Proof.
  intros H.
  destruct shake1_truth_nested_refuted as [H1 [H2 [H3 [_ [_ [_ [H5 H6]]]]]]].
  pose proof (H C01.o0 idord e_unwrap d_unwrap idord_perm H1 H2 H3) as [Hb _].
  rewrite H5 in Hb. specialize (Hb H6). discriminate Hb.
Qed.


(* ====================================================================== *)
(*  Part V: the value of a well-formed tree, as a function of the document *)
(* ====================================================================== *)
Import C03_opt.

Lemma gb_group : forall s g, gb (EGroup s g) = true -> is_and_or s = true /\ forall x, In x g -> gb x = true.
Proof.
  intros s g H. unfold gb in *. cbn [gk] in H. apply andb_prop in H. destruct H as [Hs Hg].
  split; [exact Hs|]. intros x Hx. exact (C01.forallb_In _ _ _ Hg Hx).
Qed.
Lemma gb_group_intro : forall s g, is_and_or s = true -> (forall x, In x g -> gb x = true) -> gb (EGroup s g) = true.
Proof.
  intros s g Hs Hg. unfold gb in *. cbn [gk]. rewrite Hs. cbn [andb]. apply C01.forallb_intro. exact Hg.
Qed.

(* pure versions of the solver's folds *)
Fixpoint andl (l : list res3) : res3 :=
  match l with [] => T | T :: r => andl r | x :: _ => x end.
Fixpoint orl (acc : res3) (l : list res3) : res3 :=
  match l with [] => acc | T :: _ => T | F :: r => orl F r | M :: r => orl acc r end.
Fixpoint of0l (acc : res3) (l : list res3) : res3 :=
  match l with [] => acc | T :: _ => F | F :: r => of0l T r | M :: r => of0l acc r end.
Fixpoint ofnl (c count : Z) (acc : res3) (l : list res3) : res3 :=
  match l with
  | [] => acc
  | T :: r => if (c <=? count + 1)%Z then T else ofnl c (count + 1)%Z F r
  | F :: r => ofnl c count F r
  | M :: r => ofnl c count acc r
  end.
Definition ofl (c : Z) (l : list res3) : res3 :=
  if (c =? 0)%Z then of0l M l else ofnl c 0 M l.
Fixpoint someo (p : list (str * value) -> res3) (objs : list (list (str * value))) (acc : res3) : res3 :=
  match objs with
  | [] => acc
  | kv :: rest => match p kv with T => T | F => someo p rest F | M => someo p rest acc end
  end.
Fixpoint anyt (p : list (str * value) -> res3) (objs : list (list (str * value))) : res3 :=
  match objs with
  | [] => F
  | kv :: rest => match p kv with T => T | _ => anyt p rest end
  end.

Lemma and_fold_pure : forall {A} (v : A -> res3) g,
  and_fold (map (fun x (_ : unit) => Ok (v x)) g) = Ok (andl (map v g)).
Proof.
  intros A v. induction g as [|x g IH]; [reflexivity|]. cbn [map and_fold andl bind].
  destruct (v x); [exact IH|reflexivity|reflexivity].
Qed.
Lemma or_fold_pure : forall {A} (v : A -> res3) g acc,
  or_fold acc (map (fun x (_ : unit) => Ok (v x)) g) = Ok (orl acc (map v g)).
Proof.
  intros A v. induction g as [|x g IH]; intros acc; [reflexivity|]. cbn [map or_fold orl bind].
  destruct (v x); [reflexivity|apply IH|apply IH].
Qed.
Lemma of0_fold_pure : forall {A} (v : A -> res3) g acc,
  of0_fold acc (map (fun x (_ : unit) => Ok (v x)) g) = Ok (of0l acc (map v g)).
Proof.
  intros A v. induction g as [|x g IH]; intros acc; [reflexivity|]. cbn [map of0_fold of0l bind].
  destruct (v x); [reflexivity|apply IH|apply IH].
Qed.
Lemma ofn_fold_pure : forall {A} (v : A -> res3) g c count acc,
  ofn_fold c count acc (map (fun x (_ : unit) => Ok (v x)) g) = Ok (ofnl c count acc (map v g)).
Proof.
  intros A v. induction g as [|x g IH]; intros c count acc; [reflexivity|]. cbn [map ofn_fold ofnl bind].
  destruct (v x); [|apply IH|apply IH].
  destruct (c <=? count + 1)%Z; [reflexivity|apply IH].
Qed.
Lemma of_fold_pure : forall {A} (v : A -> res3) g c,
  of_fold c (map (fun x (_ : unit) => Ok (v x)) g) = Ok (ofl c (map v g)).
Proof.
  intros A v g c. unfold of_fold, ofl. destruct (c =? 0)%Z; [apply of0_fold_pure|apply ofn_fold_pure].
Qed.
Lemma some_object_pure : forall (s : cellfn) p objs acc,
  (forall kv, s (obj_doc kv) = Ok (p kv)) -> some_object s objs acc = Ok (someo p objs acc).
Proof.
  intros s p objs acc H. revert acc. induction objs as [|kv rest IH]; intros acc; [reflexivity|].
  cbn [some_object someo]. rewrite H. cbn [bind]. destruct (p kv); [reflexivity|apply IH|apply IH].
Qed.
Lemma any_true_pure : forall (s : docq -> out res3) p objs,
  (forall kv, s (obj_doc kv) = Ok (p kv)) -> C01.any_true s objs = Ok (anyt p objs).
Proof.
  intros s p objs H. induction objs as [|kv rest IH]; [reflexivity|].
  cbn [C01.any_true anyt]. rewrite H. cbn [bind]. destruct (p kv); [reflexivity|exact IH|exact IH].
Qed.

Section Den.
Variable o : oracles.

Definition V (e : expr) (d : doc) : res3 := C01_shake1.rv o [] (pure_doc d) e.

Lemma V_ok : forall e d, gb e = true -> solve_body o e (pure_doc d) = Ok (V e d).
Proof.
  intros e d H. destruct (C03.solve_body_ok o e (pure_doc d) (gb_wf_body e H) (C03.npd_pure d)) as [r Hr].
  unfold V, C01_shake1.rv. change (solve_cond o [] e (pure_doc d)) with (solve_body o e (pure_doc d)).
  rewrite Hr. reflexivity.
Qed.
Lemma V_of_solve : forall e d r, solve_body o e (pure_doc d) = Ok r -> V e d = r.
Proof.
  intros e d r H. unfold V, C01_shake1.rv.
  change (solve_cond o [] e (pure_doc d)) with (solve_body o e (pure_doc d)). rewrite H. reflexivity.
Qed.

Lemma members_F2 : forall g d, (forall x, In x g -> gb x = true) ->
  Forall2 (fun x y => (fun (x : expr) (_ : unit) => solve_body o x (pure_doc d)) x tt =
                      (fun (y : expr) (_ : unit) => Ok (V y d)) y tt) g g.
Proof.
  induction g as [|x g IH]; intros d H; constructor.
  - cbn beta. apply V_ok. apply H. left. reflexivity.
  - apply IH. intros y Hy. apply H. right. exact Hy.
Qed.

Lemma V_and : forall g d, (forall x, In x g -> gb x = true) ->
  V (EGroup BAnd g) d = andl (map (fun x => V x d) g).
Proof.
  intros g d H. apply V_of_solve. rewrite C01.sb_group_and.
  etransitivity; [apply (C01.and_fold_F2 _ _ _ _ (members_F2 g d H))|apply and_fold_pure].
Qed.
Lemma V_or : forall g d, (forall x, In x g -> gb x = true) ->
  V (EGroup BOr g) d = orl M (map (fun x => V x d) g).
Proof.
  intros g d H. apply V_of_solve. rewrite C01.sb_group_or.
  etransitivity; [apply (C01.or_fold_F2 _ _ _ _ (members_F2 g d H))|apply or_fold_pure].
Qed.
Lemma V_all_group : forall s g d, (forall x, In x g -> gb x = true) ->
  V (EMatch MAll (EGroup s g)) d = andl (map (fun x => V x d) g).
Proof.
  intros s g d H. apply V_of_solve. rewrite C01.sb_all_group.
  etransitivity; [apply (C01.and_fold_F2 _ _ _ _ (members_F2 g d H))|apply and_fold_pure].
Qed.
Lemma V_of_group : forall n s g d, (forall x, In x g -> gb x = true) ->
  V (EMatch (MOf n) (EGroup s g)) d = ofl n (map (fun x => V x d) g).
Proof.
  intros n s g d H. apply V_of_solve. rewrite C01.sb_of_group.
  etransitivity; [apply (C01.of_fold_F2 _ _ _ _ (members_F2 g d H))|apply of_fold_pure].
Qed.
Lemma V_bexp_and : forall l r d, gb l = true -> gb r = true ->
  V (EBexp l BAnd r) d = andl [V l d; V r d].
Proof.
  intros l r d Hl Hr. apply V_of_solve. rewrite C01.sb_bexp_and. unfold and2.
  rewrite (V_ok l d Hl), (V_ok r d Hr). cbn [bind andl]. destruct (V l d); try reflexivity.
  destruct (V r d); reflexivity.
Qed.
Lemma V_bexp_or : forall l r d, gb l = true -> gb r = true ->
  V (EBexp l BOr r) d = orl M [V l d; V r d].
Proof.
  intros l r d Hl Hr. apply V_of_solve. rewrite C01.sb_bexp_or. unfold or2.
  rewrite (V_ok l d Hl), (V_ok r d Hr). cbn [bind orl].
  destruct (V l d); destruct (V r d); reflexivity.
Qed.
Lemma V_negate : forall e d, gb e = true -> V (ENegate e) d = neg3 (V e d).
Proof.
  intros e d H. apply V_of_solve. rewrite C01.sb_negate, (V_ok e d H). reflexivity.
Qed.
Lemma V_all_other : forall e d, C01.other_q e = true -> V (EMatch MAll e) d = V e d.
Proof.
  intros e d H. unfold V, C01_shake1.rv.
  change (solve_cond o [] (EMatch MAll e) (pure_doc d)) with (solve_body o (EMatch MAll e) (pure_doc d)).
  rewrite C01.sb_all_other by exact H. reflexivity.
Qed.
Lemma V_of_other : forall n e d, C01.other_q e = true -> gb e = true ->
  V (EMatch (MOf n) e) d =
  if (n =? 0)%Z then match V e d with T => F | F => T | M => M end
  else match V e d with T => if (1 <? n)%Z then F else T | x => x end.
Proof.
  intros n e d H Hg. apply V_of_solve. rewrite C01.sb_of_other by exact H.
  rewrite (V_ok e d Hg). cbn [bind]. destruct (n =? 0)%Z; destruct (V e d); reflexivity.
Qed.

(* a nested block *)
Definition varr (e : expr) (objs : list (list (str * value))) : res3 :=
  match e with
  | EMatch MAll (EGroup BOr ms) => andl (map (fun m => someo (fun kv => V m (obj_find kv)) objs M) ms)
  | _ => anyt (fun kv => V e (obj_find kv)) objs
  end.

Lemma V_nested : forall f e d, gb e = true ->
  V (ENested f e) d =
  match d f with
  | None => M
  | Some (VObj kv) => V e (obj_find kv)
  | Some (VArr a) => varr e (objects_of a)
  | Some _ => F
  end.
Proof.
  intros f e d H. apply V_of_solve. rewrite C01.sb_nested. unfold pure_doc at 1. cbn [bind].
  destruct (d f) as [v|]; [|reflexivity].
  destruct v as [|b0|f1|z0|z0|s0|l|l]; try reflexivity.
  - (* array *)
    unfold C01.nested_arr, varr.
    assert (Hgen : C01.any_true (solve_body o e) (objects_of l) = Ok (anyt (fun kv => V e (obj_find kv)) (objects_of l))).
    { apply any_true_pure. intros kv. apply (V_ok e (obj_find kv) H). }
    destruct e as [s g|l1 s r1|b|f0 m|f0|x|i|z|k e|cols rows|e|f0 e| |s f0 c]; try exact Hgen.
    destruct k as [|n]; [|exact Hgen].
    destruct e as [s g|l1 s r1|b|f0 m|f0|x|i|z|k e|cols rows|e|f0 e| |s f0 c]; try exact Hgen.
    + destruct s; try exact Hgen.
      unfold gb in H. cbn [gk is_and_or andb] in H.
      assert (HF : Forall2 (fun x y => (fun (m : expr) (_ : unit) =>
                     some_object (fun d' => solve_body o m d') (objects_of l) M) x tt =
                   (fun (m : expr) (_ : unit) => Ok (someo (fun kv => V m (obj_find kv)) (objects_of l) M)) y tt) g g).
      { clear Hgen. induction g as [|m g IH]; constructor.
        - cbn beta. apply some_object_pure. intros kv. apply (V_ok m (obj_find kv)).
          cbn [forallb] in H. apply andb_prop in H. apply H.
        - apply IH. cbn [forallb] in H. apply andb_prop in H. apply H. }
      etransitivity; [apply (C01.and_fold_F2 _ _ _ _ HF)|apply and_fold_pure].
    + discriminate H.
  - (* object *)
    apply (V_ok e (obj_find l) H).
Qed.

End Den.

(* ====================================================================== *)
(*  Part P: exact / truth-preserving, on values                            *)
(* ====================================================================== *)
Definition rel (neg : bool) (a b : res3) : Prop := if neg then a = b else (a = T <-> b = T).

Lemma rel_refl : forall neg a, rel neg a a.
Proof. intros [|] a; cbn; [reflexivity|tauto]. Qed.
Lemma rel_trans : forall neg a b c, rel neg a b -> rel neg b c -> rel neg a c.
Proof. intros [|] a b c; cbn; [congruence|tauto]. Qed.
Lemma rel_sym : forall neg a b, rel neg a b -> rel neg b a.
Proof. intros [|] a b; cbn; [congruence|tauto]. Qed.
Lemma rel_eq : forall neg a b, a = b -> rel neg a b.
Proof. intros neg a b ->. apply rel_refl. Qed.
Lemma rel_weak : forall neg a b, rel true a b -> rel neg a b.
Proof. intros neg a b H. cbn in H. subst. apply rel_refl. Qed.

Lemma F2_rel_true_eq : forall l' l, Forall2 (rel true) l' l -> l' = l.
Proof. intros l' l H. induction H as [|a b l' l Hab _ IH]; [reflexivity|]. cbn in Hab. subst. reflexivity. Qed.

Lemma andl_T : forall l, andl l = T <-> forall x, In x l -> x = T.
Proof.
  induction l as [|a l IH]; cbn [andl In].
  - split; [intros _ x []|reflexivity].
  - destruct a.
    + rewrite IH. split; [intros H x [<-|Hx]; auto|intros H x Hx; apply H; right; exact Hx].
    + split; [discriminate|]. intros H. apply (H F). left. reflexivity.
    + split; [discriminate|]. intros H. apply (H M). left. reflexivity.
Qed.

Lemma F2_rel_false_all : forall l' l, Forall2 (rel false) l' l ->
  ((forall x, In x l' -> x = T) <-> (forall x, In x l -> x = T)).
Proof.
  intros l' l H. induction H as [|a b l' l Hab _ IH]; [tauto|]. cbn in Hab. cbn [In]. split.
  - intros Hall x [<-|Hx]; [apply (proj1 Hab); apply Hall; left; reflexivity|].
    apply (proj1 IH); [|exact Hx]. intros y Hy. apply Hall. right. exact Hy.
  - intros Hall x [<-|Hx]; [apply (proj2 Hab); apply Hall; left; reflexivity|].
    apply (proj2 IH); [|exact Hx]. intros y Hy. apply Hall. right. exact Hy.
Qed.
Lemma F2_rel_false_ex : forall l' l, Forall2 (rel false) l' l -> (In T l' <-> In T l).
Proof.
  intros l' l H. induction H as [|a b l' l Hab _ IH]; [tauto|]. cbn in Hab. cbn [In].
  split; intros [E|Hx].
  - left. apply (proj1 Hab). exact E.
  - right. apply (proj1 IH). exact Hx.
  - left. apply (proj2 Hab). exact E.
  - right. apply (proj2 IH). exact Hx.
Qed.

Lemma andl_cong : forall neg l' l, Forall2 (rel neg) l' l -> rel neg (andl l') (andl l).
Proof.
  intros [|] l' l H.
  - rewrite (F2_rel_true_eq _ _ H). reflexivity.
  - cbn. rewrite !andl_T. apply F2_rel_false_all. exact H.
Qed.

Lemma orl_T : forall l acc, acc <> T -> (orl acc l = T <-> In T l).
Proof.
  induction l as [|a l IH]; intros acc Hacc; cbn [orl In].
  - split; [intros H; congruence|intros []].
  - destruct a.
    + split; auto.
    + rewrite IH by discriminate. split; [auto|]. intros [E|H]; [discriminate|exact H].
    + rewrite IH by exact Hacc. split; [auto|]. intros [E|H]; [discriminate|exact H].
Qed.
Lemma orl_cong : forall neg l' l acc, acc <> T -> Forall2 (rel neg) l' l -> rel neg (orl acc l') (orl acc l).
Proof.
  intros [|] l' l acc Hacc H.
  - rewrite (F2_rel_true_eq _ _ H). reflexivity.
  - cbn. rewrite !orl_T by exact Hacc. apply F2_rel_false_ex. exact H.
Qed.
(* the value of an or-list *)
Lemma orl_val : forall l acc, acc <> T ->
  orl acc l = if existsb (fun x => res3_eqb x T) l then T
              else if existsb (fun x => negb (res3_eqb x M)) l then F else acc.
Proof.
  induction l as [|a l IH]; intros acc Hacc; cbn [orl existsb]; [reflexivity|].
  destruct a; cbn [res3_eqb negb orb].
  - reflexivity.
  - rewrite IH by discriminate. destruct (existsb (fun x => res3_eqb x T) l); [reflexivity|].
    destruct (existsb (fun x => negb (res3_eqb x M)) l); reflexivity.
  - apply IH. exact Hacc.
Qed.
Lemma orl_M : forall l, orl M l = M <-> forall x, In x l -> x = M.
Proof.
  intros l. rewrite orl_val by discriminate.
  destruct (existsb (fun x => res3_eqb x T) l) eqn:E1.
  - apply existsb_exists in E1. destruct E1 as [x [Hx E]]. split; [discriminate|].
    intros H. rewrite (H x Hx) in E. discriminate.
  - destruct (existsb (fun x => negb (res3_eqb x M)) l) eqn:E2.
    + apply existsb_exists in E2. destruct E2 as [x [Hx E]]. split; [discriminate|].
      intros H. rewrite (H x Hx) in E. discriminate.
    + split; [|reflexivity]. intros _ x Hx.
      pose proof (C01.existsb_false_In _ _ _ E2 Hx) as E. destruct x; try discriminate; reflexivity.
Qed.

Lemma ofnl_congT : forall l' l, Forall2 (rel false) l' l -> forall c n acc' acc, acc' <> T -> acc <> T ->
  (ofnl c n acc' l' = T <-> ofnl c n acc l = T).
Proof.
  intros l' l H. induction H as [|a b l' l Hab _ IH]; intros c n acc' acc H1 H2; cbn [ofnl].
  - split; intros; congruence.
  - cbn in Hab. destruct a; destruct b;
      try (exfalso; destruct Hab as [Hab1 Hab2]; first [discriminate (Hab1 eq_refl)|discriminate (Hab2 eq_refl)]).
    + destruct (c <=? n + 1)%Z; [tauto|apply IH; discriminate].
    + apply IH; discriminate.
    + apply IH; [discriminate|exact H2].
    + apply IH; [exact H1|discriminate].
    + apply IH; assumption.
Qed.
Lemma ofl_cong : forall neg c l' l, Forall2 (rel (neg || (c =? 0)%Z)) l' l -> rel neg (ofl c l') (ofl c l).
Proof.
  intros neg c l' l H. unfold ofl. destruct (c =? 0)%Z eqn:E.
  - rewrite orb_true_r in H. rewrite (F2_rel_true_eq _ _ H). apply rel_refl.
  - rewrite orb_false_r in H. destruct neg.
    + rewrite (F2_rel_true_eq _ _ H). apply rel_refl.
    + cbn. apply ofnl_congT; [exact H|discriminate|discriminate].
Qed.

Lemma someo_T : forall p objs acc, acc <> T -> (someo p objs acc = T <-> exists kv, In kv objs /\ p kv = T).
Proof.
  intros p. induction objs as [|kv rest IH]; intros acc Hacc; cbn [someo In].
  - split; [congruence|intros [kv [[] _]]].
  - destruct (p kv) eqn:E.
    + split; [intros _; exists kv; auto|reflexivity].
    + rewrite IH by discriminate. split.
      * intros [kv' [H1 H2]]. exists kv'. auto.
      * intros [kv' [[<-|H1] H2]]; [congruence|]. exists kv'. auto.
    + rewrite IH by exact Hacc. split.
      * intros [kv' [H1 H2]]. exists kv'. auto.
      * intros [kv' [[<-|H1] H2]]; [congruence|]. exists kv'. auto.
Qed.
Lemma someo_ext : forall p' p objs acc, (forall kv, p' kv = p kv) -> someo p' objs acc = someo p objs acc.
Proof.
  intros p' p objs acc H. revert acc. induction objs as [|kv rest IH]; intros acc; [reflexivity|].
  cbn [someo]. rewrite H. destruct (p kv); [reflexivity|apply IH|apply IH].
Qed.
Lemma someo_cong : forall neg p' p objs acc, acc <> T -> (forall kv, rel neg (p' kv) (p kv)) ->
  rel neg (someo p' objs acc) (someo p objs acc).
Proof.
  intros [|] p' p objs acc Hacc H.
  - cbn. apply someo_ext. exact H.
  - cbn. rewrite !someo_T by exact Hacc. cbn in H.
    split; intros [kv [H1 H2]]; exists kv; (split; [exact H1|apply H; exact H2]).
Qed.
Lemma anyt_T : forall p objs, anyt p objs = T <-> exists kv, In kv objs /\ p kv = T.
Proof.
  intros p. induction objs as [|kv rest IH]; cbn [anyt In].
  - split; [discriminate|intros [kv [[] _]]].
  - destruct (p kv) eqn:E.
    + split; [intros _; exists kv; auto|reflexivity].
    + rewrite IH. split.
      * intros [kv' [H1 H2]]. exists kv'. auto.
      * intros [kv' [[<-|H1] H2]]; [congruence|]. exists kv'. auto.
    + rewrite IH. split.
      * intros [kv' [H1 H2]]. exists kv'. auto.
      * intros [kv' [[<-|H1] H2]]; [congruence|]. exists kv'. auto.
Qed.
Lemma anyt_TF : forall p objs, anyt p objs = T \/ anyt p objs = F.
Proof.
  intros p. induction objs as [|kv rest IH]; cbn [anyt]; [right; reflexivity|].
  destruct (p kv); [left; reflexivity|exact IH|exact IH].
Qed.
Lemma anyt_F : forall p objs, anyt p objs <> T -> anyt p objs = F.
Proof. intros p objs H. destruct (anyt_TF p objs); [contradiction|assumption]. Qed.
Lemma anyt_cong : forall neg p' p objs, (forall kv, rel false (p' kv) (p kv)) ->
  rel neg (anyt p' objs) (anyt p objs).
Proof.
  intros neg p' p objs H.
  assert (HT : anyt p' objs = T <-> anyt p objs = T).
  { rewrite !anyt_T. cbn in H. split; intros [kv [H1 H2]]; exists kv; (split; [exact H1|apply H; exact H2]). }
  destruct neg; [|exact HT]. cbn.
  destruct (anyt_TF p' objs) as [E1|E1]; destruct (anyt_TF p objs) as [E2|E2]; try congruence.
  - apply HT in E1. congruence.
  - apply HT in E2. congruence.
Qed.

(* ====================================================================== *)
(*  Part C: congruences and the two merges, on expressions                 *)
(* ====================================================================== *)
Section Cong.
Variable o : oracles.
Local Notation V := (V o).

Definition R (neg : bool) (X' X : expr) : Prop := forall d, rel neg (V X' d) (V X d).

Lemma R_refl : forall neg X, R neg X X.
Proof. intros neg X d. apply rel_refl. Qed.
Lemma R_trans : forall neg X Y Z, R neg X Y -> R neg Y Z -> R neg X Z.
Proof. intros neg X Y Z H1 H2 d. eapply rel_trans; [apply H1|apply H2]. Qed.
Lemma R_weak : forall neg X Y, R true X Y -> R neg X Y.
Proof. intros neg X Y H d. apply rel_weak. apply H. Qed.

Lemma F2_vals : forall neg g' g d, Forall2 (R neg) g' g ->
  Forall2 (rel neg) (map (fun x => V x d) g') (map (fun x => V x d) g).
Proof. intros neg g' g d H. induction H; cbn [map]; constructor; auto. Qed.

Lemma F2_gb_l : forall neg g' g, Forall2 (fun x' x => gb x' = true /\ gb x = true /\ R neg x' x) g' g ->
  (forall x, In x g' -> gb x = true) /\ (forall x, In x g -> gb x = true) /\ Forall2 (R neg) g' g.
Proof.
  intros neg g' g H. induction H as [|a b g' g [H1 [H2 H3]] _ [I1 [I2 I3]]].
  - repeat split; try constructor; intros x [].
  - repeat split.
    + intros x [<-|Hx]; auto.
    + intros x [<-|Hx]; auto.
    + constructor; assumption.
Qed.

Definition Rg (neg : bool) (x' x : expr) : Prop := gb x' = true /\ gb x = true /\ R neg x' x.

Lemma R_group_cong : forall neg s g' g, is_and_or s = true -> Forall2 (Rg neg) g' g ->
  R neg (EGroup s g') (EGroup s g).
Proof.
  intros neg s g' g Hs H d. destruct (F2_gb_l neg g' g H) as [G1 [G2 HR]].
  destruct s; try discriminate.
  - rewrite !V_and by assumption. apply andl_cong. apply F2_vals. exact HR.
  - rewrite !V_or by assumption. apply orl_cong; [discriminate|]. apply F2_vals. exact HR.
Qed.

Lemma R_bexp_cong : forall neg s l' l r' r, is_and_or s = true -> Rg neg l' l -> Rg neg r' r ->
  R neg (EBexp l' s r') (EBexp l s r).
Proof.
  intros neg s l' l r' r Hs [L1 [L2 L3]] [R1 [R2 R3]] d. destruct s; try discriminate.
  - rewrite !V_bexp_and by assumption. apply andl_cong. repeat constructor; auto.
  - rewrite !V_bexp_or by assumption. apply orl_cong; [discriminate|]. repeat constructor; auto.
Qed.

Lemma R_negate : forall neg e' e, Rg true e' e -> R neg (ENegate e') (ENegate e).
Proof.
  intros neg e' e [H1 [H2 H3]] d. rewrite !V_negate by assumption.
  apply rel_eq. f_equal. apply (H3 d).
Qed.

Lemma R_match_group : forall neg k s g' g, Forall2 (Rg (neg_of neg k)) g' g ->
  R neg (EMatch k (EGroup s g')) (EMatch k (EGroup s g)).
Proof.
  intros neg k s g' g H d. destruct (F2_gb_l _ g' g H) as [G1 [G2 HR]].
  destruct k as [|c]; cbn [neg_of] in HR.
  - rewrite !V_all_group by assumption. apply andl_cong. apply F2_vals. exact HR.
  - rewrite !V_of_group by assumption. apply ofl_cong. apply F2_vals. exact HR.
Qed.

Lemma R_match_other : forall neg k e' e, C01.other_q e' = true -> C01.other_q e = true ->
  Rg (neg_of neg k) e' e -> R neg (EMatch k e') (EMatch k e).
Proof.
  intros neg k e' e Q1 Q2 [H1 [H2 H3]] d. destruct k as [|c]; cbn [neg_of] in H3.
  - rewrite !V_all_other by assumption. apply H3.
  - rewrite !V_of_other by assumption. specialize (H3 d). destruct (c =? 0)%Z.
    + rewrite orb_true_r in H3. cbn in H3. rewrite H3. apply rel_refl.
    + rewrite orb_false_r in H3. destruct neg; cbn in H3 |- *.
      * rewrite H3. reflexivity.
      * destruct (V e' d); destruct (V e d); destruct (1 <? c)%Z; try tauto;
          destruct H3 as [A B]; split; intros E; try discriminate E;
          try (discriminate (A eq_refl)); try (discriminate (B eq_refl)).
Qed.

(* ---- nested blocks ---- *)
Lemma varr_generic : forall e objs, is_allor e = false ->
  varr o e objs = anyt (fun kv => V e (obj_find kv)) objs.
Proof.
  intros e objs H. unfold varr.
  destruct e as [s g|l1 s r1|b|f0 m|f0|x|i|z|k e|cols rows|e|f0 e| |s f0 c]; try reflexivity.
  destruct k as [|n]; [|reflexivity].
  destruct e as [s g|l1 s r1|b|f0 m|f0|x|i|z|k e|cols rows|e|f0 e| |s f0 c]; try reflexivity.
  destruct s; try reflexivity. discriminate H.
Qed.

(* both bodies plain *)
Lemma R_nested_plain : forall neg f X' X, Rg neg X' X -> is_allor X' = false -> is_allor X = false ->
  R neg (ENested f X') (ENested f X).
Proof.
  intros neg f X' X [H1 [H2 H3]] A1 A2 d. rewrite !V_nested by assumption.
  destruct (d f) as [v|]; [|apply rel_refl].
  destruct v; try apply rel_refl.
  - rewrite !varr_generic by assumption. apply anyt_cong.
    intros kv. specialize (H3 (obj_find kv)). destruct neg; [apply (rel_weak false); exact H3|exact H3].
  - apply H3.
Qed.

(* both bodies all()-lists, member by member *)
Lemma R_nested_allor : forall neg f ms' ms, Forall2 (Rg neg) ms' ms ->
  R neg (ENested f (EMatch MAll (EGroup BOr ms'))) (ENested f (EMatch MAll (EGroup BOr ms))).
Proof.
  intros neg f ms' ms H d. destruct (F2_gb_l _ ms' ms H) as [G1 [G2 HR]].
  assert (Hg' : gb (EMatch MAll (EGroup BOr ms')) = true).
  { unfold gb. cbn [gk]. apply (gb_group_intro BOr ms' eq_refl G1). }
  assert (Hg : gb (EMatch MAll (EGroup BOr ms)) = true).
  { unfold gb. cbn [gk]. apply (gb_group_intro BOr ms eq_refl G2). }
  rewrite !V_nested by assumption.
  destruct (d f) as [v|]; [|apply rel_refl].
  destruct v; try apply rel_refl.
  - unfold varr. apply andl_cong. clear G1 G2 Hg Hg' H.
    induction HR as [|a b ms' ms Hab _ IH]; cbn [map]; constructor; [|exact IH].
    apply someo_cong; [discriminate|]. intros kv. apply Hab.
  - rewrite !V_all_group by assumption. apply andl_cong. apply F2_vals. exact HR.
Qed.

(* ---- the or-merge is exact ---- *)
Lemma nested_or_T : forall f es d, es <> [] -> (forall b, In b es -> gb b = true /\ is_allor b = false) ->
  (V (ENested f (EGroup BOr es)) d = T <-> exists b, In b es /\ V (ENested f b) d = T).
Proof.
  intros f es d Hne Hes.
  assert (Hg : gb (EGroup BOr es) = true) by (apply gb_group_intro; [reflexivity|intros x Hx; apply Hes; exact Hx]).
  rewrite V_nested by exact Hg.
  assert (Hm : forall b, In b es -> V (ENested f b) d =
            match d f with
            | Some (VObj kv) => V b (obj_find kv)
            | Some (VArr a) => anyt (fun kv => V b (obj_find kv)) (objects_of a)
            | Some _ => F
            | None => M
            end).
  { intros b Hb. destruct (Hes b Hb) as [G A]. rewrite V_nested by exact G.
    destruct (d f) as [v|]; [|reflexivity]. destruct v; try reflexivity. apply varr_generic. exact A. }
  destruct (d f) as [v|].
  2:{ split; [discriminate|]. intros [b [Hb E]]. rewrite (Hm b Hb) in E. discriminate. }
  destruct v as [|b1|f1|z1|z1|s1|l|l]; try (split; [discriminate|]; intros [bb [Hb E]]; rewrite (Hm bb Hb) in E; discriminate).
  - rewrite varr_generic by reflexivity. rewrite anyt_T. split.
    + intros [kv [Hkv E]]. rewrite V_or in E by (intros x Hx; apply Hes; exact Hx).
      apply orl_T in E; [|discriminate]. apply in_map_iff in E. destruct E as [b [E Hb]].
      exists b. split; [exact Hb|]. rewrite (Hm b Hb). apply anyt_T. exists kv. auto.
    + intros [b [Hb E]]. rewrite (Hm b Hb) in E. apply anyt_T in E. destruct E as [kv [Hkv E]].
      exists kv. split; [exact Hkv|]. rewrite V_or by (intros x Hx; apply Hes; exact Hx).
      apply orl_T; [discriminate|]. apply in_map_iff. exists b. auto.
  - rewrite V_or by (intros x Hx; apply Hes; exact Hx). rewrite orl_T by discriminate. split.
    + intros E. apply in_map_iff in E. destruct E as [b [E Hb]]. exists b. split; [exact Hb|].
      rewrite (Hm b Hb). exact E.
    + intros [b [Hb E]]. rewrite (Hm b Hb) in E. apply in_map_iff. exists b. auto.
Qed.

Lemma nested_or_M : forall f es d, es <> [] -> (forall b, In b es -> gb b = true /\ is_allor b = false) ->
  (V (ENested f (EGroup BOr es)) d = M <-> forall b, In b es -> V (ENested f b) d = M).
Proof.
  intros f es d Hne Hes.
  assert (Hg : gb (EGroup BOr es) = true) by (apply gb_group_intro; [reflexivity|intros x Hx; apply Hes; exact Hx]).
  rewrite V_nested by exact Hg.
  assert (Hm : forall b, In b es -> V (ENested f b) d =
            match d f with
            | Some (VObj kv) => V b (obj_find kv)
            | Some (VArr a) => anyt (fun kv => V b (obj_find kv)) (objects_of a)
            | Some _ => F
            | None => M
            end).
  { intros b Hb. destruct (Hes b Hb) as [G A]. rewrite V_nested by exact G.
    destruct (d f) as [v|]; [|reflexivity]. destruct v; try reflexivity. apply varr_generic. exact A. }
  destruct es as [|b0 es0]; [congruence|].
  destruct (d f) as [v|].
  2:{ split; [|reflexivity]. intros _ b Hb. apply (Hm b Hb). }
  destruct v as [|b1|f1|z1|z1|s1|l|l];
    try (split; [discriminate|]; intros H; specialize (H b0 (or_introl eq_refl));
         rewrite (Hm b0 (or_introl eq_refl)) in H; discriminate H).
  - rewrite varr_generic by reflexivity. split.
    + intros E. destruct (anyt_TF (fun kv => V (EGroup BOr (b0 :: es0)) (obj_find kv)) (objects_of l)); congruence.
    + intros H. specialize (H b0 (or_introl eq_refl)). rewrite (Hm b0 (or_introl eq_refl)) in H.
      destruct (anyt_TF (fun kv => V b0 (obj_find kv)) (objects_of l)); congruence.
  - rewrite V_or by (intros x Hx; apply Hes; exact Hx). rewrite orl_M. split.
    + intros H b Hb. rewrite (Hm b Hb). apply H. apply in_map_iff. exists b. auto.
    + intros H x Hx. apply in_map_iff in Hx. destruct Hx as [b [<- Hb]]. rewrite <- (Hm b Hb). apply H. exact Hb.
Qed.

(* ---- the and-merge keeps truth ---- *)
Lemma nested_allor_T : forall f es d, es <> [] -> (forall b, In b es -> gb b = true /\ is_allor b = false) ->
  (V (ENested f (EMatch MAll (EGroup BOr es))) d = T <-> forall b, In b es -> V (ENested f b) d = T).
Proof.
  intros f es d Hne Hes.
  assert (Hg : gb (EMatch MAll (EGroup BOr es)) = true).
  { unfold gb. cbn [gk]. apply (gb_group_intro BOr es eq_refl). intros x Hx. apply Hes. exact Hx. }
  rewrite V_nested by exact Hg.
  assert (Hm : forall b, In b es -> V (ENested f b) d =
            match d f with
            | Some (VObj kv) => V b (obj_find kv)
            | Some (VArr a) => anyt (fun kv => V b (obj_find kv)) (objects_of a)
            | Some _ => F
            | None => M
            end).
  { intros b Hb. destruct (Hes b Hb) as [G A]. rewrite V_nested by exact G.
    destruct (d f) as [v|]; [|reflexivity]. destruct v; try reflexivity. apply varr_generic. exact A. }
  destruct es as [|b0 es0]; [congruence|].
  destruct (d f) as [v|].
  2:{ split; [discriminate|]. intros H. specialize (H b0 (or_introl eq_refl)).
      rewrite (Hm b0 (or_introl eq_refl)) in H. discriminate H. }
  destruct v as [|b1|f1|z1|z1|s1|l|l];
    try (split; [discriminate|]; intros H; specialize (H b0 (or_introl eq_refl));
         rewrite (Hm b0 (or_introl eq_refl)) in H; discriminate H).
  - unfold varr. rewrite andl_T. split.
    + intros H b Hb. rewrite (Hm b Hb). apply anyt_T. apply (someo_T _ _ M); [discriminate|].
      apply H. apply in_map_iff. exists b. auto.
    + intros H x Hx. apply in_map_iff in Hx. destruct Hx as [b [<- Hb]].
      apply someo_T; [discriminate|]. apply anyt_T. rewrite <- (Hm b Hb). apply H. exact Hb.
  - rewrite V_all_group by (intros x Hx; apply Hes; exact Hx). rewrite andl_T. split.
    + intros H b Hb. rewrite (Hm b Hb). apply H. apply in_map_iff. exists b. auto.
    + intros H x Hx. apply in_map_iff in Hx. destruct Hx as [b [<- Hb]]. rewrite <- (Hm b Hb). apply H. exact Hb.
Qed.

End Cong.

(* ====================================================================== *)
(*  Part A: the regrouped lists of the two arms                            *)
(* ====================================================================== *)
Module S1 := C01_shake1.

Definition cls_e (x : expr) : list (key * list expr) :=
  match x with ENested f b => if is_all_match b then [] else [(f, [b])] | _ => [] end.

Lemma nested_of_push : forall L m0,
  fold_left (fun m x => match x with
                        | ENested f inner => if is_all_match inner then m else amap_push f [inner] m
                        | _ => m
                        end) L m0 =
  fold_left S1.push (flat_map cls_e L) m0.
Proof.
  induction L as [|x L IH]; intros m0; [reflexivity|]. cbn [fold_left flat_map].
  rewrite fold_left_app, IH. destruct x; try reflexivity.
  cbn [cls_e]. destruct (is_all_match x); reflexivity.
Qed.
Lemma nested_of_eq : forall L, nested_of L = fold_left S1.push (flat_map cls_e L) [].
Proof. intros L. apply nested_of_push. Qed.

Lemma classify_nested : forall L a0,
  oa_nested (fold_left or_classify L a0) = fold_left S1.push (flat_map cls_e L) (oa_nested a0).
Proof.
  induction L as [|x L IH]; intros a0; [reflexivity|]. cbn [fold_left flat_map].
  rewrite IH, fold_left_app. f_equal.
  destruct x as [s l|l s r|b|f m|f|z|i|z|k e|cols rows|e|f e| |s f c]; try reflexivity.
  - cbn [or_classify cls_e]. destruct (is_all_match e); reflexivity.
  - destruct s; reflexivity.
Qed.
Lemma or_nested_eq : forall L, oa_nested (fold_left or_classify L oracc0) = nested_of L.
Proof. intros L. rewrite classify_nested, nested_of_eq. reflexivity. Qed.

Lemma cls_e_In : forall L f vs, In (f, vs) (flat_map cls_e L) <->
  exists b, vs = [b] /\ In (ENested f b) L /\ is_all_match b = false.
Proof.
  intros L f vs. rewrite in_flat_map. split.
  - intros [x [Hx H]]. destruct x; try (destruct H; fail). cbn [cls_e] in H.
    destruct (is_all_match x) eqn:Ea; [destruct H|]. destruct H as [H|[]].
    injection H as <- <-. eexists. split; [reflexivity|]. split; [exact Hx|exact Ea].
  - intros [b [-> [Hb Ea]]]. exists (ENested f b). split; [exact Hb|]. cbn [cls_e]. rewrite Ea. left. reflexivity.
Qed.

Lemma nest_fwd : forall ord L f b, S1.ord_keeps ord -> In (ENested f b) L -> is_all_match b = false ->
  exists es, In (f, es) (amap_iter ord (nested_of L)) /\ In b es.
Proof.
  intros ord L f b Hord Hin Ea. rewrite nested_of_eq.
  destruct (S1.amap_fwd (flat_map cls_e L) [] f [b]) as [es [Hl Hincl]].
  { apply cls_e_In. exists b. auto. }
  exists es. split; [apply S1.amap_iter_keeps; assumption|apply Hincl; left; reflexivity].
Qed.

Lemma nest_bwd : forall ord L f es, In (f, es) (amap_iter ord (nested_of L)) ->
  es <> [] /\ forall b, In b es -> In (ENested f b) L /\ is_all_match b = false.
Proof.
  intros ord L f es Hin. rewrite nested_of_eq in Hin. apply S1.amap_iter_In in Hin.
  destruct (S1.amap_bwd (flat_map cls_e L) [] f es Hin) as [H1 H2]. split.
  - destruct H1 as [[vs0 H1]|[vs H1]]; [discriminate H1|].
    apply cls_e_In in H1. destruct H1 as [b [-> [Hb Ea]]].
    destruct (S1.amap_fwd (flat_map cls_e L) [] f [b]) as [es' [Hl Hincl]].
    { apply cls_e_In. exists b. auto. }
    rewrite Hin in Hl. injection Hl as <-. intros ->. destruct (Hincl b (or_introl eq_refl)).
  - intros b Hb. destruct (H2 b Hb) as [[vs0 [H3 _]]|[vs [H3 H4]]]; [discriminate H3|].
    apply cls_e_In in H3. destruct H3 as [b' [-> Hb']]. destruct H4 as [<-|[]]. exact Hb'.
Qed.

Definition merged_part (ord : hord) (sh : expr -> expr) (q : bool) (L : list expr) : list expr :=
  map (fun kv : key * list expr => ENested (fst kv) (sh (merge_body q (snd kv)))) (amap_iter ord (nested_of L)).

Lemma merged_fun_eq : forall (sh : expr -> expr) (q : bool) (kv : key * list expr),
  (let '(f, es) := kv in
   ENested f (match es with
              | [x] => sh x
              | _ => sh (if q then EMatch MAll (EGroup BOr es) else EGroup BOr es)
              end)) = ENested (fst kv) (sh (merge_body q (snd kv))).
Proof. intros sh q [f es]. cbn [fst snd]. destruct es as [|x [|y es]]; reflexivity. Qed.

Lemma and_scratch_eq : forall ord sh L,
  and_scratch ord sh L = filter (fun x => negb (S1.is_nest x)) L ++ merged_part ord sh true L.
Proof.
  intros ord sh L. unfold and_scratch, merged_part. cbv zeta. f_equal.
  - apply filter_ext. intros x. destruct x; try reflexivity. cbn [S1.is_nest]. rewrite negb_involutive. reflexivity.
  - fold (nested_of L). apply map_ext. intros kv. apply (merged_fun_eq sh true kv).
Qed.

Lemma or_scratch_eq : forall ord sh L,
  or_scratch ord sh L = S1.or_scratch ord L ++ merged_part ord sh false L.
Proof.
  intros ord sh L. unfold or_scratch, S1.or_scratch, merged_part. cbv zeta.
  rewrite or_nested_eq. rewrite <- !app_assoc. do 9 f_equal.
  apply map_ext. intros kv. apply (merged_fun_eq sh false kv).
Qed.

(* the flat part does not see the nested members *)
Definition plain_of (L : list expr) : list expr := filter (fun x => negb (S1.is_nest x)) L.

Lemma flat_map_plain : forall {B} (c : expr -> list B) L, (forall x, S1.is_nest x = true -> c x = []) ->
  flat_map c (plain_of L) = flat_map c L.
Proof.
  intros B c L H. induction L as [|x L IH]; [reflexivity|]. cbn [plain_of filter flat_map].
  destruct (S1.is_nest x) eqn:E; cbn [negb].
  - rewrite (H x E). cbn [app]. exact IH.
  - cbn [flat_map]. f_equal. exact IH.
Qed.
Lemma filter_plain : forall (p : expr -> bool) L, (forall x, S1.is_nest x = true -> p x = false) ->
  filter p (plain_of L) = filter p L.
Proof.
  intros p L H. induction L as [|x L IH]; [reflexivity|]. cbn [plain_of filter].
  destruct (S1.is_nest x) eqn:E; cbn [negb].
  - rewrite (H x E). exact IH.
  - cbn [filter]. destruct (p x); [f_equal|]; exact IH.
Qed.

Lemma or_scratch_plain : forall ord L, S1.or_scratch ord L = S1.or_scratch ord (plain_of L).
Proof.
  intros ord L. unfold S1.or_scratch.
  destruct (S1.classify_spec L oracc0) as [H1 [H2 [H3 [H4 _]]]].
  destruct (S1.classify_spec (plain_of L) oracc0) as [P1 [P2 [P3 [P4 _]]]].
  cbn [oracc0 oa_needles oa_patterns oa_any oa_rest app] in *.
  rewrite H1, H2, H3, H4, P1, P2, P3, P4.
  rewrite !flat_map_plain, !filter_plain; try reflexivity;
    intros x Hx; destruct x; try discriminate Hx; try reflexivity;
    cbn [S1.is_nest] in Hx; apply negb_true_iff in Hx; cbn [S1.is_rest]; exact Hx.
Qed.

Lemma plain_of_In : forall L x, In x (plain_of L) <-> In x L /\ S1.is_nest x = false.
Proof.
  intros L x. unfold plain_of. rewrite filter_In. rewrite negb_true_iff. tauto.
Qed.

(* ====================================================================== *)
(*  Part M: the two regroupings, then the pass                             *)
(* ====================================================================== *)
Lemma orl_eq_char : forall l' l, (In T l' <-> In T l) ->
  ((forall x, In x l' -> x = M) <-> (forall x, In x l -> x = M)) -> orl M l' = orl M l.
Proof.
  intros l' l HT HM.
  pose proof (orl_T l' M ltac:(discriminate)) as T1. pose proof (orl_T l M ltac:(discriminate)) as T2.
  pose proof (orl_M l') as M1. pose proof (orl_M l) as M2.
  destruct (orl M l') eqn:E1; destruct (orl M l) eqn:E2; try reflexivity; exfalso.
  - assert (X : F = T) by (apply T2, HT, T1; reflexivity). discriminate X.
  - assert (X : M = T) by (apply T2, HT, T1; reflexivity). discriminate X.
  - assert (X : F = T) by (apply T1, HT, T2; reflexivity). discriminate X.
  - assert (X : F = M) by (apply M1, HM, M2; reflexivity). discriminate X.
  - assert (X : M = T) by (apply T1, HT, T2; reflexivity). discriminate X.
  - assert (X : F = M) by (apply M2, HM, M1; reflexivity). discriminate X.
Qed.

Lemma srch_gb : forall y, S1.srch y = true -> gb y = true.
Proof. intros y H. destruct y; try discriminate. reflexivity. Qed.

Lemma merges_nest : forall x, merges x = S1.is_nest x.
Proof. intros x. destruct x; reflexivity. Qed.
Lemma all_match_not_allor : forall b, is_all_match b = false -> is_allor b = false.
Proof. intros b H. destruct b; try reflexivity. destruct k; [discriminate H|reflexivity]. Qed.

Section Pass.
Variable o : oracles.
Variable ord : hord.
Hypothesis Hperm : forall l, Permutation (ord l) l.
Local Notation V := (V o).
Local Notation R := (R o).
Local Notation Rg := (Rg o).

Lemma Hkeeps : S1.ord_keeps ord.
Proof. apply S1.perm_ord_keeps. exact Hperm. Qed.

Lemma tb_V : forall x d, S1.tb o [] (pure_doc d) x = true <-> V x d = T.
Proof.
  intros x d. unfold S1.tb. change (S1.rv o [] (pure_doc d) x) with (V x d).
  destruct (V x d); cbn [res3_eqb]; split; intros; try reflexivity; discriminate.
Qed.
Lemma db_V : forall x d, S1.db o [] (pure_doc d) x = true <-> V x d <> M.
Proof.
  intros x d. unfold S1.db. change (S1.rv o [] (pure_doc d) x) with (V x d).
  destruct (V x d); cbn [res3_eqb negb]; split; intros; try reflexivity; try discriminate; congruence.
Qed.

(* the flat part of the or-arm *)
Lemma flat_iff : forall (p : expr -> bool) L,
  (forall x kv, In x (plain_of L) -> In kv (S1.cls_n x) -> p x = true ->
     exists y, In y (map S1.needle_expr (amap_iter ord (S1.needles_of (plain_of L)))) /\ p y = true) ->
  (forall y, In y (map S1.needle_expr (amap_iter ord (S1.needles_of (plain_of L)))) -> p y = true ->
     exists x, In x (plain_of L) /\ p x = true) ->
  (forall x kv, In x (plain_of L) -> In kv (S1.cls_p x) -> p x = true ->
     exists y, In y (map S1.pat_expr (amap_iter ord (S1.patterns_of (plain_of L)))) /\ p y = true) ->
  (forall y, In y (map S1.pat_expr (amap_iter ord (S1.patterns_of (plain_of L)))) -> p y = true ->
     exists x, In x (plain_of L) /\ p x = true) ->
  ((exists x, In x L /\ S1.is_nest x = false /\ p x = true) <->
   (exists y, In y (S1.or_scratch ord L) /\ p y = true)).
Proof.
  intros p L Fn Bn Fp Bp. rewrite (or_scratch_plain ord L).
  rewrite <- (S1.scratch_iff p ord (plain_of L)); try assumption.
  - split.
    + intros [x [H1 [H2 H3]]]. exists x. split; [apply plain_of_In; auto|exact H3].
    + intros [x [H1 H3]]. apply plain_of_In in H1. exists x. tauto.
  - intros x Hx. apply plain_of_In in Hx. apply Hx.
Qed.

Lemma flat_T : forall L d,
  ((exists x, In x L /\ S1.is_nest x = false /\ V x d = T) <->
   (exists y, In y (S1.or_scratch ord L) /\ V y d = T)).
Proof.
  intros L d.
  pose proof (flat_iff (S1.tb o [] (pure_doc d)) L
    (S1.class_fwd_t o [] (pure_doc d) (C03.npd_pure d) (S1.holds_n) S1.cls_n S1.needle_expr (S1.cls_n_ok o) (S1.needle_expr_ok o) ord Hkeeps (plain_of L))
    (S1.class_bwd_t o [] (pure_doc d) (C03.npd_pure d) (S1.holds_n) S1.cls_n S1.needle_expr (S1.cls_n_ok o) (S1.needle_expr_ok o) ord (plain_of L))
    (S1.class_fwd_t o [] (pure_doc d) (C03.npd_pure d) (S1.holds_p o) S1.cls_p S1.pat_expr (S1.cls_p_ok o) (S1.pat_expr_ok o) ord Hkeeps (plain_of L))
    (S1.class_bwd_t o [] (pure_doc d) (C03.npd_pure d) (S1.holds_p o) S1.cls_p S1.pat_expr (S1.cls_p_ok o) (S1.pat_expr_ok o) ord (plain_of L))) as H.
  split.
  - intros [x [H1 [H2 H3]]]. destruct (proj1 H) as [y [Hy Hp]].
    { exists x. split; [exact H1|]. split; [exact H2|]. apply tb_V. exact H3. }
    exists y. split; [exact Hy|]. apply tb_V. exact Hp.
  - intros [y [Hy Hp]]. destruct (proj2 H) as [x [H1 [H2 H3]]].
    { exists y. split; [exact Hy|]. apply tb_V. exact Hp. }
    exists x. split; [exact H1|]. split; [exact H2|]. apply tb_V. exact H3.
Qed.

Lemma flat_D : forall L d,
  ((exists x, In x L /\ S1.is_nest x = false /\ V x d <> M) <->
   (exists y, In y (S1.or_scratch ord L) /\ V y d <> M)).
Proof.
  intros L d.
  pose proof (flat_iff (S1.db o [] (pure_doc d)) L
    (S1.class_fwd_d o [] (pure_doc d) (C03.npd_pure d) (S1.holds_n) S1.cls_n S1.needle_expr (S1.cls_n_ok o) (S1.needle_expr_ok o) ord Hkeeps (plain_of L))
    (S1.class_bwd_d o [] (pure_doc d) (C03.npd_pure d) (S1.holds_n) S1.cls_n S1.needle_expr (S1.cls_n_ok o) (S1.needle_expr_ok o) ord (plain_of L))
    (S1.class_fwd_d o [] (pure_doc d) (C03.npd_pure d) (S1.holds_p o) S1.cls_p S1.pat_expr (S1.cls_p_ok o) (S1.pat_expr_ok o) ord Hkeeps (plain_of L))
    (S1.class_bwd_d o [] (pure_doc d) (C03.npd_pure d) (S1.holds_p o) S1.cls_p S1.pat_expr (S1.cls_p_ok o) (S1.pat_expr_ok o) ord (plain_of L))) as H.
  split.
  - intros [x [H1 [H2 H3]]]. destruct (proj1 H) as [y [Hy Hp]].
    { exists x. split; [exact H1|]. split; [exact H2|]. apply db_V. exact H3. }
    exists y. split; [exact Hy|]. apply db_V. exact Hp.
  - intros [y [Hy Hp]]. destruct (proj2 H) as [x [H1 [H2 H3]]].
    { exists y. split; [exact Hy|]. apply db_V. exact Hp. }
    exists x. split; [exact H1|]. split; [exact H2|]. apply db_V. exact H3.
Qed.

(* one entry of the nested map *)
Lemma gb_merge_body : forall q es, (forall b, In b es -> gb b = true) -> es <> [] -> gb (merge_body q es) = true.
Proof.
  intros q es H Hne. destruct es as [|b [|b2 es']]; [congruence|apply H; left; reflexivity|].
  cbn [merge_body]. destruct q.
  - unfold gb. cbn [gk]. apply (gb_group_intro BOr _ eq_refl H).
  - apply (gb_group_intro BOr _ eq_refl H).
Qed.

Lemma entry_or_T : forall f es d, es <> [] -> (forall b, In b es -> is_allor b = false) -> (forall b, In b es -> gb b = true) ->
  (V (ENested f (merge_body false es)) d = T <-> exists b, In b es /\ V (ENested f b) d = T).
Proof.
  intros f es d Hne Hok Hg. destruct es as [|b [|b2 es']]; [congruence| |].
  - cbn [merge_body]. split; [intros H; exists b; split; [left; reflexivity|exact H]|].
    intros [b' [[<-|[]] H]]. exact H.
  - cbn [merge_body]. apply nested_or_T; [discriminate|]. intros x Hx. split; [apply Hg; exact Hx|].
    apply Hok. exact Hx.
Qed.
Lemma entry_or_M : forall f es d, es <> [] -> (forall b, In b es -> is_allor b = false) -> (forall b, In b es -> gb b = true) ->
  (V (ENested f (merge_body false es)) d = M <-> forall b, In b es -> V (ENested f b) d = M).
Proof.
  intros f es d Hne Hok Hg. destruct es as [|b [|b2 es']]; [congruence| |].
  - cbn [merge_body]. split; [intros H b' [<-|[]]; exact H|]. intros H. apply H. left. reflexivity.
  - cbn [merge_body]. apply nested_or_M; [discriminate|]. intros x Hx. split; [apply Hg; exact Hx|].
    apply Hok. exact Hx.
Qed.
Lemma entry_and_T : forall f es d, es <> [] -> (forall b, In b es -> is_allor b = false) -> (forall b, In b es -> gb b = true) ->
  (V (ENested f (merge_body true es)) d = T <-> forall b, In b es -> V (ENested f b) d = T).
Proof.
  intros f es d Hne Hok Hg. destruct es as [|b [|b2 es']]; [congruence| |].
  - cbn [merge_body]. split; [intros H b' [<-|[]]; exact H|]. intros H. apply H. left. reflexivity.
  - cbn [merge_body]. apply nested_allor_T; [discriminate|]. intros x Hx. split; [apply Hg; exact Hx|].
    apply Hok. exact Hx.
Qed.

Lemma not_allM_ex : forall {A} (v : A -> res3) l, ~ (forall b, In b l -> v b = M) -> exists b, In b l /\ v b <> M.
Proof.
  intros A v. induction l as [|a l IH]; intros H.
  - exfalso. apply H. intros b [].
  - destruct (v a) eqn:E.
    + exists a. split; [left; reflexivity|congruence].
    + exists a. split; [left; reflexivity|congruence].
    + destruct IH as [b [Hb Hn]].
      { intros Hall. apply H. intros b [<-|Hb]; [exact E|apply Hall; exact Hb]. }
      exists b. split; [right; exact Hb|exact Hn].
Qed.
Lemma allM_iff_exD : forall (l' l : list res3),
  ((exists x, In x l' /\ x <> M) <-> (exists x, In x l /\ x <> M)) ->
  ((forall x, In x l' -> x = M) <-> (forall x, In x l -> x = M)).
Proof.
  intros l' l H. split; intros Hall x Hx.
  - destruct x; try reflexivity; exfalso.
    + destruct (proj2 H) as [y [Hy Hn]]; [exists T; split; [exact Hx|discriminate]|]. apply Hn. apply Hall. exact Hy.
    + destruct (proj2 H) as [y [Hy Hn]]; [exists F; split; [exact Hx|discriminate]|]. apply Hn. apply Hall. exact Hy.
  - destruct x; try reflexivity; exfalso.
    + destruct (proj1 H) as [y [Hy Hn]]; [exists T; split; [exact Hx|discriminate]|]. apply Hn. apply Hall. exact Hy.
    + destruct (proj1 H) as [y [Hy Hn]]; [exists F; split; [exact Hx|discriminate]|]. apply Hn. apply Hall. exact Hy.
Qed.
Lemma entry_or_D : forall f es d, es <> [] -> (forall b, In b es -> is_allor b = false) -> (forall b, In b es -> gb b = true) ->
  (V (ENested f (merge_body false es)) d <> M <-> exists b, In b es /\ V (ENested f b) d <> M).
Proof.
  intros f es d Hne Hok Hg. destruct (entry_or_M f es d Hne Hok Hg) as [A B]. split.
  - intros Hn. apply not_allM_ex. intros Hall. apply Hn. apply B. exact Hall.
  - intros [b [Hb Hn]] E. apply Hn. apply (A E). exact Hb.
Qed.

Definition entries_good (neg q : bool) (sh : expr -> expr) (L : list expr) : Prop :=
  forall f es, In (f, es) (amap_iter ord (nested_of L)) ->
    gb (sh (merge_body q es)) = true /\
    R neg (ENested f (sh (merge_body q es))) (ENested f (merge_body q es)).

Lemma nested_member_gb : forall L f es b, (forall x, In x L -> gb x = true) ->
  In (f, es) (amap_iter ord (nested_of L)) -> In b es -> gb b = true.
Proof.
  intros L f es b HL Hin Hb. destruct (nest_bwd ord L f es Hin) as [_ H].
  apply (HL (ENested f b)). apply (proj1 (H b Hb)).
Qed.

(* the or-arm: exact where asked *)
Lemma or_merge : forall neg sh L, (forall x, In x L -> gb x = true) -> entries_good neg false sh L ->
  R neg (EGroup BOr (or_scratch ord sh L)) (EGroup BOr L).
Proof.
  intros neg sh L HL HE d. rewrite or_scratch_eq.
  assert (Hsc : forall y, In y (S1.or_scratch ord L ++ merged_part ord sh false L) -> gb y = true).
  { intros y Hy. apply in_app_or in Hy. destruct Hy as [Hy|Hy].
    - destruct (S1.or_scratch_members ord L y Hy) as [H|H]; [apply srch_gb; exact H|apply HL; exact H].
    - unfold merged_part in Hy. apply in_map_iff in Hy. destruct Hy as [[f es] [<- Hin]]. cbn [fst snd].
      destruct (HE f es Hin) as [G _]. exact G. }
  rewrite !V_or by assumption.
  assert (HT : In T (map (fun x => V x d) (S1.or_scratch ord L ++ merged_part ord sh false L)) <->
               In T (map (fun x => V x d) L)).
  { rewrite !in_map_iff. split.
    - intros [y [Hv Hy]]. apply in_app_or in Hy. destruct Hy as [Hy|Hy].
      + destruct (proj2 (flat_T L d)) as [x [H1 [_ H3]]]; [exists y; auto|]. exists x. auto.
      + unfold merged_part in Hy. apply in_map_iff in Hy. destruct Hy as [[f es] [<- Hin]]. cbn [fst snd] in Hv.
        destruct (HE f es Hin) as [_ HR]. destruct (nest_bwd ord L f es Hin) as [Hne Hb].
        assert (Hok : forall b0, In b0 es -> is_allor b0 = false) by (intros b0 Hb0; apply all_match_not_allor; apply (Hb b0 Hb0)).
        assert (Hv' : V (ENested f (merge_body false es)) d = T).
        { specialize (HR d). destruct neg; cbn in HR; [rewrite <- HR; exact Hv|apply HR; exact Hv]. }
        apply entry_or_T in Hv'; [|exact Hne|exact Hok|intros b Hbb; apply (nested_member_gb L f es b HL Hin Hbb)].
        destruct Hv' as [b [Hbb Hvb]]. exists (ENested f b). split; [exact Hvb|apply (proj1 (Hb _ Hbb))].
    - intros [x [Hv Hx]]. destruct (S1.is_nest x) eqn:En.
      + destruct x; try discriminate En. cbn [S1.is_nest] in En. apply negb_true_iff in En.
        destruct (nest_fwd ord L f x Hkeeps Hx En) as [es [Hin Hbb]].
        destruct (HE f es Hin) as [_ HR]. destruct (nest_bwd ord L f es Hin) as [Hne Hb].
        assert (Hok : forall b0, In b0 es -> is_allor b0 = false) by (intros b0 Hb0; apply all_match_not_allor; apply (Hb b0 Hb0)).
        exists (ENested f (sh (merge_body false es))). split.
        * assert (Hv' : V (ENested f (merge_body false es)) d = T).
          { apply entry_or_T; [exact Hne|exact Hok|intros b Hb'; apply (nested_member_gb L f es b HL Hin Hb')|].
            exists x. auto. }
          specialize (HR d). destruct neg; cbn in HR; [rewrite HR; exact Hv'|apply HR; exact Hv'].
        * apply in_or_app. right. unfold merged_part. apply in_map_iff. exists (f, es). auto.
      + destruct (proj1 (flat_T L d)) as [y [Hy Hvy]]; [exists x; auto|].
        exists y. split; [exact Hvy|apply in_or_app; left; exact Hy]. }
  destruct neg; cbn; [|rewrite !orl_T by discriminate; exact HT].
  apply orl_eq_char; [exact HT|]. apply allM_iff_exD.
  split.
  - intros [v [Hv Hn]]. apply in_map_iff in Hv. destruct Hv as [y [<- Hy]].
    apply in_app_or in Hy. destruct Hy as [Hy|Hy].
    + destruct (proj2 (flat_D L d)) as [x [H1 [_ H3]]]; [exists y; auto|].
      exists (V x d). split; [apply in_map_iff; exists x; auto|exact H3].
    + unfold merged_part in Hy. apply in_map_iff in Hy. destruct Hy as [[f es] [<- Hin]]. cbn [fst snd] in Hn.
      destruct (HE f es Hin) as [_ HR]. destruct (nest_bwd ord L f es Hin) as [Hne Hb].
        assert (Hok : forall b0, In b0 es -> is_allor b0 = false) by (intros b0 Hb0; apply all_match_not_allor; apply (Hb b0 Hb0)).
      pose proof (HR d) as HRd. cbn in HRd. rewrite HRd in Hn.
      apply entry_or_D in Hn; [|exact Hne|exact Hok|intros b Hbb; apply (nested_member_gb L f es b HL Hin Hbb)].
      destruct Hn as [b [Hbb Hvb]]. exists (V (ENested f b) d). split; [|exact Hvb].
      apply in_map_iff. exists (ENested f b). split; [reflexivity|apply (proj1 (Hb _ Hbb))].
  - intros [v [Hv Hn]]. apply in_map_iff in Hv. destruct Hv as [x [<- Hx]]. destruct (S1.is_nest x) eqn:En.
    + destruct x as [s l|l s r|b|f m|f|z|i|z|k e|cols rows|e|f b| |s f c]; try discriminate En.
      cbn [S1.is_nest] in En. apply negb_true_iff in En.
      destruct (nest_fwd ord L f b Hkeeps Hx En) as [es [Hin Hbb]].
      destruct (HE f es Hin) as [_ HR]. destruct (nest_bwd ord L f es Hin) as [Hne Hb].
        assert (Hok : forall b0, In b0 es -> is_allor b0 = false) by (intros b0 Hb0; apply all_match_not_allor; apply (Hb b0 Hb0)).
      exists (V (ENested f (sh (merge_body false es))) d). split.
      * apply in_map_iff. exists (ENested f (sh (merge_body false es))). split; [reflexivity|].
        apply in_or_app. right. unfold merged_part. apply in_map_iff. exists (f, es). auto.
      * pose proof (HR d) as HRd. cbn in HRd. rewrite HRd.
        apply entry_or_D; [exact Hne|exact Hok|intros b' Hb'; apply (nested_member_gb L f es b' HL Hin Hb')|].
        exists b. auto.
    + destruct (proj1 (flat_D L d)) as [y [Hy Hvy]]; [exists x; auto|].
      exists (V y d). split; [|exact Hvy]. apply in_map_iff. exists y. split; [reflexivity|apply in_or_app; left; exact Hy].
Qed.

(* the and-arm: truth *)
Lemma and_merge_pos : forall sh L, (forall x, In x L -> gb x = true) -> entries_good false true sh L ->
  R false (EGroup BAnd (and_scratch ord sh L)) (EGroup BAnd L).
Proof.
  intros sh L HL HE d. rewrite and_scratch_eq.
  assert (Hsc : forall y, In y (filter (fun x => negb (S1.is_nest x)) L ++ merged_part ord sh true L) -> gb y = true).
  { intros y Hy. apply in_app_or in Hy. destruct Hy as [Hy|Hy].
    - apply filter_In in Hy. apply HL. apply Hy.
    - unfold merged_part in Hy. apply in_map_iff in Hy. destruct Hy as [[f es] [<- Hin]]. cbn [fst snd].
      destruct (HE f es Hin) as [G _]. exact G. }
  rewrite !V_and by assumption. cbn. rewrite !andl_T. split.
  - intros Hall v Hv. apply in_map_iff in Hv. destruct Hv as [x [<- Hx]].
    destruct (S1.is_nest x) eqn:En.
    + destruct x; try discriminate En. cbn [S1.is_nest] in En. apply negb_true_iff in En.
      destruct (nest_fwd ord L f x Hkeeps Hx En) as [es [Hin Hbb]].
      destruct (HE f es Hin) as [_ HR]. destruct (nest_bwd ord L f es Hin) as [Hne Hb].
        assert (Hok : forall b0, In b0 es -> is_allor b0 = false) by (intros b0 Hb0; apply all_match_not_allor; apply (Hb b0 Hb0)).
      assert (Hm : V (ENested f (sh (merge_body true es))) d = T).
      { apply Hall. apply in_map_iff. exists (ENested f (sh (merge_body true es))). split; [reflexivity|].
        apply in_or_app. right. unfold merged_part. apply in_map_iff. exists (f, es). auto. }
      apply (HR d) in Hm.
      assert (Hgb : forall b, In b es -> gb b = true) by (intros b Hb'; apply (nested_member_gb L f es b HL Hin Hb')).
      apply (proj1 (entry_and_T f es d Hne Hok Hgb) Hm). exact Hbb.
    + apply Hall. apply in_map_iff. exists x. split; [reflexivity|]. apply in_or_app. left.
      apply filter_In. rewrite En. auto.
  - intros Hall v Hv. apply in_map_iff in Hv. destruct Hv as [y [<- Hy]].
    apply in_app_or in Hy. destruct Hy as [Hy|Hy].
    + apply filter_In in Hy. apply Hall. apply in_map_iff. exists y. split; [reflexivity|apply Hy].
    + unfold merged_part in Hy. apply in_map_iff in Hy. destruct Hy as [[f es] [<- Hin]]. cbn [fst snd].
      destruct (HE f es Hin) as [_ HR]. destruct (nest_bwd ord L f es Hin) as [Hne Hb].
        assert (Hok : forall b0, In b0 es -> is_allor b0 = false) by (intros b0 Hb0; apply all_match_not_allor; apply (Hb b0 Hb0)).
      apply (HR d). apply entry_and_T; [exact Hne|exact Hok|intros b Hb'; apply (nested_member_gb L f es b HL Hin Hb')|].
      intros b Hbb. apply Hall. apply in_map_iff. exists (ENested f b). split; [reflexivity|apply (proj1 (Hb _ Hbb))].
Qed.

End Pass.

(* ====================================================================== *)
(*  Part T: shake_1 along a safe run                                       *)
(* ====================================================================== *)
Lemma shake1_and' : forall ord fu l,
  shake1 ord (S fu) (EGroup BAnd l) =
  let scratch := and_scratch ord (shake1 ord fu) (map (shake1 ord fu) l) in
  if negb (length scratch =? length l)%nat then shake1 ord fu (EGroup BAnd scratch)
  else match scratch with [x] => x | _ => EGroup BAnd scratch end.
Proof. reflexivity. Qed.
Lemma shake1_or' : forall ord fu l,
  shake1 ord (S fu) (EGroup BOr l) =
  let scratch := or_scratch ord (shake1 ord fu) (map (shake1 ord fu) l) in
  if negb (length scratch =? length l)%nat then shake1 ord fu (EGroup BOr scratch)
  else match scratch with [x] => x | _ => EGroup BOr scratch end.
Proof. reflexivity. Qed.

Definition nest_okb (ord : hord) (neg : bool) (fu : nat) (x : expr) : bool :=
  Bool.eqb (is_allor (shake1 ord fu x)) (is_allor x) && shake1_safe ord neg fu x.
Definition entries_okb (ord : hord) (neg : bool) (fu : nat) (q : bool) (shaken : list expr) : bool :=
  forallb (fun kv : key * list expr => nest_okb ord neg fu (merge_body q (snd kv)))
          (amap_iter ord (nested_of shaken)).

Lemma safe_and : forall ord neg fu l,
  shake1_safe ord neg (S fu) (EGroup BAnd l) =
  forallb (shake1_safe ord neg fu) l &&
  negb (neg && (1 <? length l)%nat && existsb merges (map (shake1 ord fu) l)) &&
  entries_okb ord neg fu true (map (shake1 ord fu) l) &&
  (if negb (length (and_scratch ord (shake1 ord fu) (map (shake1 ord fu) l)) =? length l)%nat
   then shake1_safe ord neg fu (EGroup BAnd (and_scratch ord (shake1 ord fu) (map (shake1 ord fu) l))) else true).
Proof. reflexivity. Qed.
Lemma safe_or : forall ord neg fu l,
  shake1_safe ord neg (S fu) (EGroup BOr l) =
  forallb (shake1_safe ord neg fu) l &&
  entries_okb ord neg fu false (map (shake1 ord fu) l) &&
  (if negb (length (or_scratch ord (shake1 ord fu) (map (shake1 ord fu) l)) =? length l)%nat
   then shake1_safe ord neg fu (EGroup BOr (or_scratch ord (shake1 ord fu) (map (shake1 ord fu) l))) else true).
Proof. reflexivity. Qed.
Lemma safe_bexp : forall ord neg fu l s r,
  shake1_safe ord neg (S fu) (EBexp l s r) = shake1_safe ord neg fu l && shake1_safe ord neg fu r.
Proof. reflexivity. Qed.
Lemma safe_match_group : forall ord neg fu k s g,
  shake1_safe ord neg (S fu) (EMatch k (EGroup s g)) = forallb (shake1_safe ord (neg_of neg k) fu) g.
Proof. reflexivity. Qed.
Lemma safe_match_other : forall ord neg fu k e, C01.other_q e = true ->
  shake1_safe ord neg (S fu) (EMatch k e) = shake1_safe ord (neg_of neg k) fu e.
Proof. intros ord neg fu k e H. destruct e; try discriminate H; reflexivity. Qed.
Lemma safe_negate : forall ord neg fu e,
  shake1_safe ord neg (S fu) (ENegate e) = shake1_safe ord true fu e.
Proof. reflexivity. Qed.
Lemma safe_nested : forall ord neg fu f e,
  shake1_safe ord neg (S fu) (ENested f e) = nest_okb ord neg fu e.
Proof. reflexivity. Qed.

Lemma amap_iter_single : forall {V} ord (f : key) (v : list V), (forall l, Permutation (ord l) l) ->
  amap_iter ord [(f, v)] = [(f, v)].
Proof.
  intros V ord f v Hperm. unfold amap_iter. cbn [map fst].
  pose proof (Hperm [f]) as Hp. apply Permutation_sym in Hp. apply Permutation_length_1_inv in Hp.
  rewrite Hp. cbn [flat_map lookup]. rewrite S1.str_eqb_refl'. reflexivity.
Qed.

Section Main.
Variable o : oracles.
Variable ord : hord.
Hypothesis Hperm : forall l, Permutation (ord l) l.
Local Notation V := (V o).
Local Notation R := (R o).
Local Notation Rg := (Rg o).

Lemma R_single : forall neg s x, is_and_or s = true -> gb x = true -> R neg x (EGroup s [x]).
Proof.
  intros neg s x Hs Hg d. apply rel_eq. destruct s; try discriminate.
  - rewrite V_and by (intros y [<-|[]]; exact Hg). cbn [map andl]. destruct (V x d); reflexivity.
  - rewrite V_or by (intros y [<-|[]]; exact Hg). cbn [map orl]. destruct (V x d); reflexivity.
Qed.

Lemma R_collapse : forall neg s L, is_and_or s = true -> (forall x, In x L -> gb x = true) ->
  R neg (match L with [x] => x | _ => EGroup s L end) (EGroup s L).
Proof.
  intros neg s L Hs HL. destruct L as [|x [|y L']]; try apply R_refl.
  apply R_single; [exact Hs|apply HL; left; reflexivity].
Qed.

Lemma gb_shake1 : forall fuel e, gb e = true -> gb (shake1 ord fuel e) = true.
Proof. intros fuel e H. apply (shake1_good ord nokey fuel e H). Qed.

Lemma and_scratch_gb : forall fu L, (forall x, In x L -> gb x = true) ->
  forall y, In y (and_scratch ord (shake1 ord fu) L) -> gb y = true.
Proof.
  intros fu L HL.
  pose proof (C03_opt.and_scratch_good ord nokey (shake1 ord fu) (fun x Hx => shake1_good ord nokey fu x Hx) L) as H.
  assert (HF : Forall (Pg nokey) L) by (apply Forall_forall; exact HL).
  specialize (H HF). rewrite Forall_forall in H. exact H.
Qed.
Lemma or_scratch_gb : forall fu L, (forall x, In x L -> gb x = true) ->
  forall y, In y (or_scratch ord (shake1 ord fu) L) -> gb y = true.
Proof.
  intros fu L HL.
  pose proof (C03_opt.or_scratch_good ord nokey (shake1 ord fu) (fun x Hx => shake1_good ord nokey fu x Hx) L) as H.
  assert (HF : Forall (Pg nokey) L) by (apply Forall_forall; exact HL).
  specialize (H HF). rewrite Forall_forall in H. exact H.
Qed.

Definition P (fuel : nat) : Prop := forall neg e, gb e = true -> shake1_safe ord neg fuel e = true ->
  R neg (shake1 ord fuel e) e /\
  (is_allor (shake1 ord fuel e) = is_allor e -> forall f, R neg (ENested f (shake1 ord fuel e)) (ENested f e)).

Section Step.
Variable fu : nat.
Hypothesis IH : P fu.
Local Notation sh := (shake1 ord fu).

Lemma H_nest : forall neg x f, gb x = true -> nest_okb ord neg fu x = true ->
  Rg neg (ENested f (sh x)) (ENested f x).
Proof.
  intros neg x f Hg H. unfold nest_okb in H. apply andb_prop in H. destruct H as [Ha Hs].
  apply eqb_prop in Ha. destruct (IH neg x Hg Hs) as [_ P2].
  split; [|split].
  - unfold gb. cbn [gk]. apply gb_shake1. exact Hg.
  - exact Hg.
  - apply P2. exact Ha.
Qed.

Lemma H_mem : forall neg l, (forall x, In x l -> gb x = true) -> forallb (shake1_safe ord neg fu) l = true ->
  Forall2 (Rg neg) (map sh l) l.
Proof.
  intros neg. induction l as [|x l IHl]; intros Hg Hs; cbn [map]; constructor.
  - cbn [forallb] in Hs. apply andb_prop in Hs. destruct Hs as [Hs _].
    assert (Gx : gb x = true) by (apply Hg; left; reflexivity).
    split; [apply gb_shake1; exact Gx|]. split; [exact Gx|]. apply (IH neg x Gx Hs).
  - cbn [forallb] in Hs. apply andb_prop in Hs. destruct Hs as [_ Hs].
    apply IHl; [intros y Hy; apply Hg; right; exact Hy|exact Hs].
Qed.

Lemma H_entries : forall neg q L, (forall x, In x L -> gb x = true) -> entries_okb ord neg fu q L = true ->
  entries_good o ord neg q sh L.
Proof.
  intros neg q L HL H f es Hin. unfold entries_okb in H.
  pose proof (C01.forallb_In _ _ _ H Hin) as Hn. cbn [snd] in Hn.
  destruct (nest_bwd ord L f es Hin) as [Hne Hb].
  assert (Gm : gb (merge_body q es) = true).
  { apply gb_merge_body; [|exact Hne]. intros b Hbb. apply (nested_member_gb ord L f es b HL Hin Hbb). }
  destruct (H_nest neg (merge_body q es) f Gm Hn) as [G1 [_ HR]].
  split; [exact G1|exact HR].
Qed.

Lemma step_and : forall neg l, gb (EGroup BAnd l) = true -> shake1_safe ord neg (S fu) (EGroup BAnd l) = true ->
  R neg (shake1 ord (S fu) (EGroup BAnd l)) (EGroup BAnd l).
Proof.
  intros neg l Hg Hs. destruct (gb_group _ _ Hg) as [_ Hgl].
  rewrite safe_and in Hs. apply andb_prop in Hs. destruct Hs as [Hs Hs4].
  apply andb_prop in Hs. destruct Hs as [Hs Hs3]. apply andb_prop in Hs. destruct Hs as [Hs1 Hs2].
  rewrite shake1_and'. cbv zeta.
  set (L := map sh l) in *. set (Sc := and_scratch ord sh L) in *.
  assert (HLg : forall x, In x L -> gb x = true).
  { intros y Hy. apply in_map_iff in Hy. destruct Hy as [x [<- Hx]]. apply gb_shake1. apply Hgl. exact Hx. }
  assert (HScg : forall y, In y Sc -> gb y = true) by (apply and_scratch_gb; exact HLg).
  assert (HA : R neg (EGroup BAnd L) (EGroup BAnd l)).
  { apply R_group_cong; [reflexivity|]. apply H_mem; assumption. }
  assert (HB : R neg (EGroup BAnd Sc) (EGroup BAnd L)).
  { destruct neg.
    - (* negative position: no merge happens *)
      cbn [andb] in Hs2. apply negb_true_iff in Hs2.
      destruct (existsb merges L) eqn:En.
      + rewrite andb_true_r in Hs2. apply Nat.ltb_ge in Hs2.
        destruct l as [|x [|x2 l']]; [discriminate En| |cbn [length] in Hs2; lia].
        subst L. cbn [map existsb] in En. rewrite orb_false_r in En.
        cbn [map] in *. destruct (sh x) as [s0 l0|l0 s0 r0|b0|f0 m0|f0|z0|i0|z0|k0 e0|cols rows|e0|f b| |s0 f0 c0] eqn:Ex;
          try discriminate En.
        cbn [merges] in En. apply negb_true_iff in En.
        assert (ESc : Sc = [ENested f (sh b)]).
        { unfold Sc. rewrite and_scratch_eq. unfold merged_part, nested_of. cbn [filter S1.is_nest fold_left].
          rewrite En. cbn [negb amap_push app]. rewrite (amap_iter_single ord f [b] Hperm). reflexivity. }
        rewrite ESc. apply R_group_cong; [reflexivity|]. constructor; [|constructor].
        unfold entries_okb, nested_of in Hs3. cbn [fold_left] in Hs3. rewrite En in Hs3. cbn [amap_push] in Hs3.
        rewrite (amap_iter_single ord f [b] Hperm) in Hs3. cbn [forallb snd merge_body andb] in Hs3.
        rewrite andb_true_r in Hs3.
        apply H_nest; [|exact Hs3]. apply (HLg (ENested f b)). left. reflexivity.
      + assert (En' : existsb S1.is_nest L = false).
        { rewrite <- En. apply C01.existsb_ext_all. intros x. symmetry. apply merges_nest. }
        assert (ESc : Sc = L).
        { unfold Sc. rewrite and_scratch_eq. unfold merged_part, nested_of.
          rewrite (S1.fold_nested_none L [] En'), S1.amap_iter_nil. cbn [map]. rewrite app_nil_r.
          clear -En'. induction L as [|x L IHL]; [reflexivity|]. cbn [existsb] in En'. apply orb_false_iff in En'.
          destruct En' as [E1 E2]. cbn [filter]. rewrite E1. cbn [negb]. f_equal. apply IHL. exact E2. }
        rewrite ESc. apply R_refl.
    - apply and_merge_pos; [exact Hperm|exact HLg|]. apply H_entries; assumption. }
  pose proof (R_trans o neg _ _ _ HB HA) as HAB.
  assert (GSc : gb (EGroup BAnd Sc) = true) by (apply gb_group_intro; [reflexivity|exact HScg]).
  destruct (negb (length Sc =? length l)%nat).
  - eapply R_trans; [|exact HAB]. apply (IH neg _ GSc Hs4).
  - eapply R_trans; [|exact HAB]. apply R_collapse; [reflexivity|exact HScg].
Qed.

Lemma step_or : forall neg l, gb (EGroup BOr l) = true -> shake1_safe ord neg (S fu) (EGroup BOr l) = true ->
  R neg (shake1 ord (S fu) (EGroup BOr l)) (EGroup BOr l).
Proof.
  intros neg l Hg Hs. destruct (gb_group _ _ Hg) as [_ Hgl].
  rewrite safe_or in Hs. apply andb_prop in Hs. destruct Hs as [Hs Hs4].
  apply andb_prop in Hs. destruct Hs as [Hs1 Hs3].
  rewrite shake1_or'. cbv zeta.
  set (L := map sh l) in *. set (Sc := or_scratch ord sh L) in *.
  assert (HLg : forall x, In x L -> gb x = true).
  { intros y Hy. apply in_map_iff in Hy. destruct Hy as [x [<- Hx]]. apply gb_shake1. apply Hgl. exact Hx. }
  assert (HScg : forall y, In y Sc -> gb y = true) by (apply or_scratch_gb; exact HLg).
  assert (HA : R neg (EGroup BOr L) (EGroup BOr l)).
  { apply R_group_cong; [reflexivity|]. apply H_mem; assumption. }
  assert (HB : R neg (EGroup BOr Sc) (EGroup BOr L)).
  { apply or_merge; [exact Hperm|exact HLg|]. apply H_entries; assumption. }
  pose proof (R_trans o neg _ _ _ HB HA) as HAB.
  assert (GSc : gb (EGroup BOr Sc) = true) by (apply gb_group_intro; [reflexivity|exact HScg]).
  destruct (negb (length Sc =? length l)%nat).
  - eapply R_trans; [|exact HAB]. apply (IH neg _ GSc Hs4).
  - eapply R_trans; [|exact HAB]. apply R_collapse; [reflexivity|exact HScg].
Qed.

Lemma step_P1 : forall neg e, gb e = true -> shake1_safe ord neg (S fu) e = true ->
  R neg (shake1 ord (S fu) e) e.
Proof.
  intros neg e Hg Hs.
  destruct e as [s l|l s r|b|f m|f|z|i|z|k e|cols rows|e|f e| |s f c]; try discriminate Hg.
  - (* group *)
    destruct (gb_group _ _ Hg) as [Hso _]. destruct s; try discriminate Hso.
    + apply step_and; assumption.
    + apply step_or; assumption.
  - (* bexp *)
    unfold gb in Hg. cbn [gk] in Hg. cbn [shake1]. destruct (is_and_or s) eqn:Es.
    + apply andb_prop in Hg. destruct Hg as [G1 G2].
      rewrite safe_bexp in Hs. apply andb_prop in Hs. destruct Hs as [S1' S2'].
      apply R_bexp_cong; [exact Es| |].
      * split; [apply gb_shake1; exact G1|]. split; [exact G1|]. apply (IH neg l G1 S1').
      * split; [apply gb_shake1; exact G2|]. split; [exact G2|]. apply (IH neg r G2 S2').
    + apply andb_prop in Hg. destruct Hg as [G1 G2]. unfold leaf in G1, G2.
      apply negb_true_iff in G1. apply negb_true_iff in G2.
      rewrite (S1.shake1_leaf ord fu l G1), (S1.shake1_leaf ord fu r G2). apply R_refl.
  - (* match *)
    unfold gb in Hg. cbn [gk] in Hg.
    destruct e as [s l|l s r|b|f m|f|z|i|z|k0 e|cols rows|e|f e| |s f c]; try discriminate Hg.
    + cbn [shake1]. rewrite safe_match_group in Hs. apply R_match_group.
      apply H_mem; [|exact Hs]. apply (gb_group s l Hg).
    + cbn [shake1]. rewrite safe_match_other in Hs by reflexivity.
      apply R_match_other; [apply (S1.shake1_other_q ord fu (EBexp l s r) eq_refl)|reflexivity|].
      split; [apply gb_shake1; exact Hg|]. split; [exact Hg|]. apply (IH _ _ Hg Hs).
    + cbn [shake1]. rewrite safe_match_other in Hs by reflexivity.
      apply R_match_other; [apply (S1.shake1_other_q ord fu (EMatch k0 e) eq_refl)|reflexivity|].
      split; [apply gb_shake1; exact Hg|]. split; [exact Hg|]. apply (IH _ _ Hg Hs).
    + cbn [shake1]. rewrite safe_match_other in Hs by reflexivity.
      apply R_match_other; [apply (S1.shake1_other_q ord fu (ENegate e) eq_refl)|reflexivity|].
      split; [apply gb_shake1; exact Hg|]. split; [exact Hg|]. apply (IH _ _ Hg Hs).
    + cbn [shake1]. rewrite safe_match_other in Hs by reflexivity.
      apply R_match_other; [apply (S1.shake1_other_q ord fu (ENested f e) eq_refl)|reflexivity|].
      split; [apply gb_shake1; exact Hg|]. split; [exact Hg|]. apply (IH _ _ Hg Hs).
    + cbn [shake1]. rewrite S1.shake1_search. apply R_refl.
  - (* negate *)
    unfold gb in Hg. cbn [gk] in Hg. cbn [shake1]. rewrite safe_negate in Hs.
    apply R_negate. split; [apply gb_shake1; exact Hg|]. split; [exact Hg|]. apply (IH true e Hg Hs).
  - (* nested *)
    unfold gb in Hg. cbn [gk] in Hg. cbn [shake1]. rewrite safe_nested in Hs.
    apply (H_nest neg e f Hg Hs).
  - (* search *)
    apply R_refl.
Qed.

Lemma step_P : P (S fu).
Proof.
  intros neg e Hg Hs. pose proof (step_P1 neg e Hg Hs) as P1. split; [exact P1|].
  intros Ha f. destruct (is_allor e) eqn:Ae.
  - destruct e as [s l|l s r|b|f0 m|f0|z|i|z|k e|cols rows|e|f0 e| |s f0 c]; try discriminate Ae.
    destruct k as [|n]; try discriminate Ae.
    destruct e as [s l|l s r|b|f0 m|f0|z|i|z|k0 e|cols rows|e|f0 e| |s f0 c]; try discriminate Ae.
    + destruct s; try discriminate Ae. cbn [shake1].
      apply R_nested_allor. unfold gb in Hg. cbn [gk] in Hg. rewrite safe_match_group in Hs.
      apply H_mem; [|exact Hs]. apply (gb_group BOr l Hg).
    + discriminate Hg.
  - apply R_nested_plain; [|exact Ha|exact Ae].
    split; [apply gb_shake1; exact Hg|]. split; [exact Hg|exact P1].
Qed.
End Step.

Lemma shake1_P : forall fuel, P fuel.
Proof.
  induction fuel as [|fu IH]; [|apply step_P; exact IH].
  intros neg e Hg _. cbn [shake1]. split; [apply R_refl|]. intros _ f. apply R_refl.
Qed.

End Main.

(* ---- the statements about shake_1 alone ---- *)
Lemma solve_T_V : forall o e d, gb e = true -> (solve_body o e (pure_doc d) = Ok T <-> V o e d = T).
Proof.
  intros o e d H. rewrite (V_ok o e d H). split; [intros E; injection E as E; exact E|intros ->; reflexivity].
Qed.

(* along a safe run with positive polarity, truth is preserved (any fuel) *)
Lemma shake1_truth_run : forall o ord fuel e (d : doc),
  (forall l, Permutation (ord l) l) ->
  wf_body e = true -> C01.cmp_leaves e = true ->
  shake1_safe ord false fuel e = true ->
  (solve_body o (shake1 ord fuel e) (pure_doc d) = Ok T <-> solve_body o e (pure_doc d) = Ok T).
Proof.
  intros o ord fuel e d Hperm Hw Hc Hs.
  pose proof (gb_of_wf_body e Hw Hc) as Hg.
  destruct (shake1_P o ord Hperm fuel false e Hg Hs) as [P1 _].
  rewrite (solve_T_V o _ d (shake1_good ord nokey fuel e Hg)), (solve_T_V o e d Hg). apply (P1 d).
Qed.

(* along a safe run with negative polarity, the three-valued result is preserved *)
Lemma shake1_exact_run : forall o ord fuel e (d : doc),
  (forall l, Permutation (ord l) l) ->
  wf_body e = true -> C01.cmp_leaves e = true ->
  shake1_safe ord true fuel e = true ->
  solve_body o (shake1 ord fuel e) (pure_doc d) = solve_body o e (pure_doc d).
Proof.
  intros o ord fuel e d Hperm Hw Hc Hs.
  pose proof (gb_of_wf_body e Hw Hc) as Hg.
  destruct (shake1_P o ord Hperm fuel true e Hg Hs) as [P1 _].
  rewrite (V_ok o _ d (shake1_good ord nokey fuel e Hg)), (V_ok o e d Hg). f_equal. apply (P1 d).
Qed.

(* the closest true statement to shake1_truth_nested (without the D29 hypothesis, which the
   repair makes unnecessary): one more executable hypothesis, the run is safe *)
Lemma shake1_truth_nested_alt : forall o ord e (d : doc),
  (forall l, Permutation (ord l) l) ->
  wf_body e = true -> C01.cmp_leaves e = true ->
  exists_sub (d16_here ord) false e = false ->
  shake1_safe ord false (shake_fuel e) e = true ->
  (solve_body o (shake1 ord (shake_fuel e) e) (pure_doc d) = Ok T <-> solve_body o e (pure_doc d) = Ok T).
Proof.
  intros o ord e d Hperm Hw Hc _ Hs. apply shake1_truth_run; assumption.
Qed.

(* ====================================================================== *)
(*  Part W: whole rules                                                    *)
(* ====================================================================== *)

(* ---- the value of a condition (identifiers are leaves) ---- *)
Section CondVal.
Variable o : oracles.
Variable ids : list (str * expr).
Hypothesis Hids : forallb (fun kv => wf_body (snd kv)) ids = true.
Variable dq : docq.
Hypothesis Hdq : C03.npd dq.

Definition Vc (e : expr) : res3 := S1.rv o ids dq e.

Lemma Vc_ok : forall e, wf_cond ids e = true -> solve_cond o ids e dq = Ok (Vc e).
Proof. intros e H. apply (S1.rv_ok o ids Hids dq Hdq e H). Qed.
Lemma Vc_of_solve : forall e r, solve_cond o ids e dq = Ok r -> Vc e = r.
Proof. intros e r H. unfold Vc, S1.rv. rewrite H. reflexivity. Qed.

Lemma cmembers_F2 : forall g, (forall x, In x g -> wf_cond ids x = true) ->
  Forall2 (fun x y => (fun (x : expr) (_ : unit) => solve_cond o ids x dq) x tt =
                      (fun (y : expr) (_ : unit) => Ok (Vc y)) y tt) g g.
Proof.
  induction g as [|x g IH]; intros H; constructor.
  - cbn beta. apply Vc_ok. apply H. left. reflexivity.
  - apply IH. intros y Hy. apply H. right. exact Hy.
Qed.

Lemma Vc_and : forall g, (forall x, In x g -> wf_cond ids x = true) ->
  Vc (EGroup BAnd g) = andl (map Vc g).
Proof.
  intros g H. apply Vc_of_solve. rewrite S1.cs_group_and.
  etransitivity; [apply (C01.and_fold_F2 _ _ _ _ (cmembers_F2 g H))|apply and_fold_pure].
Qed.
Lemma Vc_or : forall g, (forall x, In x g -> wf_cond ids x = true) ->
  Vc (EGroup BOr g) = orl M (map Vc g).
Proof.
  intros g H. apply Vc_of_solve. rewrite S1.cs_group_or.
  etransitivity; [apply (C01.or_fold_F2 _ _ _ _ (cmembers_F2 g H))|apply or_fold_pure].
Qed.
Lemma Vc_all_group : forall s g, (forall x, In x g -> wf_cond ids x = true) ->
  Vc (EMatch MAll (EGroup s g)) = andl (map Vc g).
Proof.
  intros s g H. apply Vc_of_solve. rewrite S1.cs_all_group.
  etransitivity; [apply (C01.and_fold_F2 _ _ _ _ (cmembers_F2 g H))|apply and_fold_pure].
Qed.
Lemma Vc_of_group : forall n s g, (forall x, In x g -> wf_cond ids x = true) ->
  Vc (EMatch (MOf n) (EGroup s g)) = ofl n (map Vc g).
Proof.
  intros n s g H. apply Vc_of_solve. rewrite S1.cs_of_group.
  etransitivity; [apply (C01.of_fold_F2 _ _ _ _ (cmembers_F2 g H))|apply of_fold_pure].
Qed.
Lemma Vc_bexp_and : forall l r, wf_cond ids l = true -> wf_cond ids r = true ->
  Vc (EBexp l BAnd r) = andl [Vc l; Vc r].
Proof.
  intros l r Hl Hr. apply Vc_of_solve. rewrite S1.cs_bexp_and. unfold and2.
  rewrite (Vc_ok l Hl), (Vc_ok r Hr). cbn [bind andl]. destruct (Vc l); try reflexivity.
  destruct (Vc r); reflexivity.
Qed.
Lemma Vc_bexp_or : forall l r, wf_cond ids l = true -> wf_cond ids r = true ->
  Vc (EBexp l BOr r) = orl M [Vc l; Vc r].
Proof.
  intros l r Hl Hr. apply Vc_of_solve. rewrite S1.cs_bexp_or. unfold or2.
  rewrite (Vc_ok l Hl), (Vc_ok r Hr). cbn [bind orl].
  destruct (Vc l); destruct (Vc r); reflexivity.
Qed.
Lemma Vc_all_other : forall e, C01.other_q e = true -> Vc (EMatch MAll e) = Vc e.
Proof.
  intros e H. unfold Vc, S1.rv. rewrite S1.cs_all_other by exact H. reflexivity.
Qed.
Lemma Vc_of_other : forall n e, C01.other_q e = true -> wf_cond ids e = true ->
  Vc (EMatch (MOf n) e) =
  if (n =? 0)%Z then match Vc e with T => F | F => T | M => M end
  else match Vc e with T => if (1 <? n)%Z then F else T | x => x end.
Proof.
  intros n e H Hg. apply Vc_of_solve. rewrite S1.cs_of_other by exact H.
  rewrite (Vc_ok e Hg). cbn [bind]. destruct (n =? 0)%Z; destruct (Vc e); reflexivity.
Qed.
End CondVal.

Lemma has_negative_group : forall s l, has_negative (EGroup s l) = false ->
  forall x, In x l -> has_negative x = false.
Proof.
  intros s l H x Hx. unfold has_negative in *. cbn [exists_sub orb] in H.
  apply (C01.existsb_false_In _ _ _ H Hx).
Qed.

(* truth-equivalent bodies under a condition without negation *)
Lemma solve_ids_change_truth : forall o ids ids' (d : docq), C03.npd d ->
  forallb (fun kv => wf_body (snd kv)) ids = true ->
  forallb (fun kv => wf_body (snd kv)) ids' = true ->
  S1.ids_rel (fun b b' => solve_body o b' d = Ok T <-> solve_body o b d = Ok T) ids ids' ->
  forall e, wf_cond ids e = true -> wf_cond ids' e = true ->
    C01.no_nested e = true -> S1.no_quant_ident e = true -> has_negative e = false ->
    (solve_cond o ids' e d = Ok T <-> solve_cond o ids e d = Ok T).
Proof.
  intros o ids ids' d Hd Hi Hi' Hrel.
  enough (E : forall e, wf_cond ids e = true -> wf_cond ids' e = true ->
            C01.no_nested e = true -> S1.no_quant_ident e = true -> has_negative e = false ->
            rel false (Vc o ids' d e) (Vc o ids d e)).
  { intros e H1 H2 H3 H4 H5. specialize (E e H1 H2 H3 H4 H5). cbn in E.
    rewrite (Vc_ok o ids' Hi' d Hd e H2), (Vc_ok o ids Hi d Hd e H1).
    split; intros X; injection X as X; f_equal; apply E; exact X. }
  induction e as [e IH] using C01.size_ind. intros Hw Hw' Hn Hq Hneg.
  assert (Hmem : forall l, (forall x, In x l -> (expr_size x < expr_size e)%nat) ->
            forallb (wf_cond ids) l = true -> forallb (wf_cond ids') l = true ->
            forallb C01.no_nested l = true -> forallb S1.no_quant_ident l = true ->
            (forall x, In x l -> has_negative x = false) ->
            Forall2 (rel false) (map (Vc o ids' d) l) (map (Vc o ids d) l)).
  { intros l Hsz H1 H2 H3 H4 H5. induction l as [|x l IHl]; cbn [map]; constructor.
    - apply IH; [apply Hsz; left; reflexivity|apply (C01.forallb_In _ _ _ H1 (or_introl eq_refl))
                 |apply (C01.forallb_In _ _ _ H2 (or_introl eq_refl))|apply (C01.forallb_In _ _ _ H3 (or_introl eq_refl))
                 |apply (C01.forallb_In _ _ _ H4 (or_introl eq_refl))|apply H5; left; reflexivity].
    - cbn [forallb] in H1, H2, H3, H4.
      apply andb_prop in H1. apply andb_prop in H2. apply andb_prop in H3. apply andb_prop in H4.
      apply IHl; try tauto; intros y Hy; [apply Hsz|apply H5]; right; exact Hy. }
  destruct e as [s l|l s r|b|f m|f|z|i|z|k e|cols rows|e|f e| |s f c]; try discriminate Hw.
  - (* group *)
    cbn [wf_cond C01.no_nested S1.no_quant_ident] in Hw, Hw', Hn, Hq.
    apply andb_prop in Hw. destruct Hw as [Hs Hw]. apply andb_prop in Hw'. destruct Hw' as [_ Hw'].
    pose proof (Hmem l (fun x Hx => C01.size_member s l x Hx) Hw Hw' Hn Hq (has_negative_group s l Hneg)) as HF.
    destruct s; try discriminate Hs.
    + rewrite !Vc_and; try assumption; try (intros x Hx; eapply C01.forallb_In; eassumption).
      apply andl_cong. exact HF.
    + rewrite !Vc_or; try assumption; try (intros x Hx; eapply C01.forallb_In; eassumption).
      apply orl_cong; [discriminate|exact HF].
  - (* bexp *)
    assert (Sl : (expr_size l < expr_size (EBexp l s r))%nat) by (cbn [expr_size]; lia).
    assert (Sr : (expr_size r < expr_size (EBexp l s r))%nat) by (cbn [expr_size]; lia).
    pose proof (IH l Sl) as IHl. pose proof (IH r Sr) as IHr. clear IH Hmem.
    destruct s; try (apply rel_eq; unfold Vc, S1.rv; reflexivity);
      cbn [wf_cond is_and_or_op C01.no_nested S1.no_quant_ident] in Hw, Hw', Hn, Hq;
      apply andb_prop in Hw; destruct Hw as [Hw1 Hw2]; apply andb_prop in Hw'; destruct Hw' as [Hw1' Hw2'];
      apply andb_prop in Hn; destruct Hn as [Hn1 Hn2]; apply andb_prop in Hq; destruct Hq as [Hq1 Hq2];
      unfold has_negative in Hneg; cbn [exists_sub orb] in Hneg; apply orb_false_iff in Hneg; destruct Hneg as [Hg1 Hg2].
    + rewrite (Vc_bexp_and o ids' Hi' d Hd l r Hw1' Hw2'), (Vc_bexp_and o ids Hi d Hd l r Hw1 Hw2). apply andl_cong.
      apply Forall2_cons; [exact (IHl Hw1 Hw1' Hn1 Hq1 Hg1)|].
      apply Forall2_cons; [exact (IHr Hw2 Hw2' Hn2 Hq2 Hg2)|apply Forall2_nil].
    + rewrite (Vc_bexp_or o ids' Hi' d Hd l r Hw1' Hw2'), (Vc_bexp_or o ids Hi d Hd l r Hw1 Hw2). apply orl_cong; [discriminate|].
      apply Forall2_cons; [exact (IHl Hw1 Hw1' Hn1 Hq1 Hg1)|].
      apply Forall2_cons; [exact (IHr Hw2 Hw2' Hn2 Hq2 Hg2)|apply Forall2_nil].
  - (* ident *)
    unfold Vc, S1.rv, solve_cond. cbn [solve]. specialize (Hrel i).
    destruct (lookup i ids) as [b|] eqn:E1; destruct (lookup i ids') as [b'|] eqn:E2; try contradiction.
    + assert (Wb : wf_body b = true).
      { destruct (C01.lookup_In i ids b E1) as [k0 Hk]. apply (C01.forallb_In _ _ _ Hi Hk). }
      assert (Wb' : wf_body b' = true).
      { destruct (C01.lookup_In i ids' b' E2) as [k0 Hk]. apply (C01.forallb_In _ _ _ Hi' Hk). }
      destruct (C03.solve_body_ok o b d Wb Hd) as [r1 R1]. destruct (C03.solve_body_ok o b' d Wb' Hd) as [r2 R2].
      rewrite R1, R2 in *. cbn. split; intros ->.
      * assert (X : Ok r1 = Ok T) by (apply Hrel; reflexivity). injection X as X. exact X.
      * assert (X : Ok r2 = Ok T) by (apply Hrel; reflexivity). injection X as X. exact X.
    + apply rel_refl.
  - (* match *)
    destruct e as [s l|l s r|b|f m|f|z|i|z|k0 e|cols rows|e|f e| |s f c]; try discriminate Hw;
      try discriminate Hn; try discriminate Hq.
    + cbn [wf_cond C01.no_nested S1.no_quant_ident] in Hw, Hw', Hn, Hq.
      apply andb_prop in Hw. destruct Hw as [Hs Hw]. apply andb_prop in Hw'. destruct Hw' as [_ Hw'].
      assert (Hsz : forall x, In x l -> (expr_size x < expr_size (EMatch k (EGroup s l)))%nat).
      { intros x Hx. pose proof (C01.size_member s l x Hx). cbn [expr_size] in *. lia. }
      destruct k as [|n].
      * assert (Hg : forall x, In x l -> has_negative x = false).
        { unfold has_negative in Hneg. cbn [exists_sub orb] in Hneg.
          intros x Hx. apply (C01.existsb_false_In _ _ _ Hneg Hx). }
        pose proof (Hmem l Hsz Hw Hw' Hn Hq Hg) as HF.
        rewrite !Vc_all_group; try assumption; try (intros x Hx; eapply C01.forallb_In; eassumption).
        apply andl_cong. exact HF.
      * unfold has_negative in Hneg. cbn [exists_sub orb] in Hneg. apply orb_false_iff in Hneg.
        destruct Hneg as [Hn0 Hneg]. rewrite Hn0 in Hneg. cbn [orb] in Hneg.
        assert (Hg : forall x, In x l -> has_negative x = false).
        { intros x Hx. apply (C01.existsb_false_In _ _ _ Hneg Hx). }
        pose proof (Hmem l Hsz Hw Hw' Hn Hq Hg) as HF.
        rewrite !Vc_of_group; try assumption; try (intros x Hx; eapply C01.forallb_In; eassumption).
        apply (ofl_cong false). rewrite Hn0. exact HF.
    + (* bexp operand *)
      assert (HE : rel false (Vc o ids' d (EBexp l s r)) (Vc o ids d (EBexp l s r))).
      { apply IH; try assumption; [cbn [expr_size]; lia|].
        unfold has_negative in *. destruct k as [|n]; cbn [exists_sub orb] in Hneg; [exact Hneg|].
        apply orb_false_iff in Hneg. destruct Hneg as [Hn0 Hneg]. rewrite Hn0 in Hneg. exact Hneg. }
      destruct k as [|n].
      * rewrite !Vc_all_other by reflexivity. exact HE.
      * rewrite !Vc_of_other; try assumption; try reflexivity.
        unfold has_negative in Hneg. cbn [exists_sub orb] in Hneg. apply orb_false_iff in Hneg.
        destruct Hneg as [Hn0 _]. rewrite Hn0. cbn in HE |- *.
        destruct (Vc o ids' d (EBexp l s r)); destruct (Vc o ids d (EBexp l s r)); destruct (1 <? n)%Z; try tauto;
          destruct HE as [A B]; split; intros E; try discriminate E;
          try (discriminate (A eq_refl)); try (discriminate (B eq_refl)).
    + (* match operand *)
      assert (HE : rel false (Vc o ids' d (EMatch k0 e)) (Vc o ids d (EMatch k0 e))).
      { apply IH; try assumption; [cbn [expr_size]; lia|].
        unfold has_negative in *. destruct k as [|n]; cbn [exists_sub orb] in Hneg; [exact Hneg|].
        apply orb_false_iff in Hneg. destruct Hneg as [Hn0 Hneg]. rewrite Hn0 in Hneg. exact Hneg. }
      destruct k as [|n].
      * rewrite !Vc_all_other by reflexivity. exact HE.
      * rewrite !Vc_of_other; try assumption; try reflexivity.
        unfold has_negative in Hneg. cbn [exists_sub orb] in Hneg. apply orb_false_iff in Hneg.
        destruct Hneg as [Hn0 _]. rewrite Hn0. cbn in HE |- *.
        destruct (Vc o ids' d (EMatch k0 e)); destruct (Vc o ids d (EMatch k0 e)); destruct (1 <? n)%Z; try tauto;
          destruct HE as [A B]; split; intros E; try discriminate E;
          try (discriminate (A eq_refl)); try (discriminate (B eq_refl)).
    + (* negate operand: excluded *)
      exfalso. unfold has_negative in Hneg. destruct k as [|n]; cbn [exists_sub orb] in Hneg.
      * discriminate Hneg.
      * apply orb_false_iff in Hneg. destruct Hneg as [_ Hneg]. discriminate Hneg.
    + (* search operand *)
      apply rel_eq. unfold Vc, S1.rv. destruct k; destruct s; reflexivity.
  - (* negate *)
    discriminate Hneg.
  - (* nested *)
    discriminate Hn.
  - (* search *)
    apply rel_refl.
Qed.

(* ---- the scope of the whole-rule statement (restated from Properties/C01_nested.v) ---- *)
Definition shake_input_ok2 (ord : hord) (sw : switches) (dt : detection) : bool :=
  forallb (fun t => Scope.sh0 t && Scope.no_dneg t && Scope.shx t) (all_trees (staged sw dt)) &&
  negb (known_d16 ord sw dt).
Definition c01_scope2 (ord : hord) (sw : switches) (dt : detection) : bool :=
  negb (sw_matrix sw) &&
  (sw_coalesce sw || Scope.no_quant_ident (d_expr dt)) &&
  (negb (sw_shake sw) || shake_input_ok2 ord sw dt).

(* text proposed for Model/Scope.v: the run of shake_1 on every tree handed to it is safe; an
   identifier body optimised on its own starts with negative polarity as soon as the condition
   contains any negation (Known.body_neg) *)
Definition entry_trees (e : expr) : list expr := match e with EGroup _ l => l | _ => [e] end.
Definition run_safe (ord : hord) (sw : switches) (dt : detection) : bool :=
  let st := staged sw dt in
  shake1_safe ord false (shake_fuel (fst (shaken0 st))) (fst (shaken0 st)) &&
  forallb (fun b : str * expr =>
             forallb (fun x => let m := ok_or (shake0 (shake_fuel x) x) x in
                               shake1_safe ord (body_neg st) (shake_fuel m) m)
                     (entry_trees (snd b)))
          (snd st).

Lemma verdict_of_truth : forall (s' s : out res3),
  (exists a, s' = Ok a) -> (exists b, s = Ok b) -> (s' = Ok T <-> s = Ok T) ->
  (do x <- s'; Ok (match x with T => true | _ => false end)) =
  (do x <- s; Ok (match x with T => true | _ => false end)).
Proof.
  intros s' s [a ->] [b ->] H. cbn [bind]. destruct a; destruct b; try reflexivity; exfalso.
  - assert (X : Ok F = Ok T) by (apply H; reflexivity). discriminate X.
  - assert (X : Ok M = Ok T) by (apply H; reflexivity). discriminate X.
  - assert (X : Ok F = Ok T) by (apply H; reflexivity). discriminate X.
  - assert (X : Ok M = Ok T) by (apply H; reflexivity). discriminate X.
Qed.

Lemma input_ok_split3 : forall t,
  Scope.sh0 t && Scope.no_dneg t && Scope.shx t = true ->
  C01.sh0 t = true /\ C01.no_dneg t = true /\ C01.shx t = true.
Proof.
  intros t H. apply andb_prop in H. destruct H as [H H3]. apply andb_prop in H. destruct H as [H1 H2].
  repeat split; assumption.
Qed.

(* one identifier-free tree through the whole shake pass *)
Lemma shake_body_run : forall o ord neg b (d : doc),
  (forall l, Permutation (ord l) l) ->
  wf_body b = true -> C01.sh0 b = true -> C01.no_dneg b = true -> C01.shx b = true ->
  shake1_safe ord neg (shake_fuel (ok_or (shake0 (shake_fuel b) b) b)) (ok_or (shake0 (shake_fuel b) b) b) = true ->
  exists b2, shake ord b = Ok b2 /\ wf_body b2 = true /\
    (solve_body o b2 (pure_doc d) = Ok T <-> solve_body o b (pure_doc d) = Ok T) /\
    (neg = true -> solve_body o b2 (pure_doc d) = solve_body o b (pure_doc d)).
Proof.
  intros o ord neg b d Hperm Hw H1 H2 H3 Hs.
  assert (Hi : C01.inv b = true) by (apply (C01.inv_of b false); auto using C01.no_dneg_here).
  pose proof (S1.inv_cl b Hi) as Hc.
  destruct (shake0_good nokey (shake_fuel b) b (gb_of_wf_body b Hw Hc)) as [b0 [H0 G0]].
  rewrite H0 in Hs. cbn [ok_or] in Hs.
  pose proof (C01.shake0_keeps_inv _ _ _ Hw H1 H2 H3 H0) as Hi0.
  pose proof (S1.inv_wf b0 Hi0) as Hw0. pose proof (S1.inv_cl b0 Hi0) as Hc0.
  pose proof (C01.shake0_exact_alt o _ b b0 (pure_doc d) Hw H1 H2 H3 H0) as E0.
  exists (shake1 ord (shake_fuel b0) b0). split; [unfold shake; rewrite H0; reflexivity|].
  split; [apply gb_wf_body; apply (shake1_good ord nokey); exact G0|]. split.
  - rewrite <- E0. destruct neg.
    + rewrite (shake1_exact_run o ord _ b0 d Hperm Hw0 Hc0 Hs). tauto.
    + apply (shake1_truth_run o ord _ b0 d Hperm Hw0 Hc0 Hs).
  - intros ->. rewrite <- E0. apply (shake1_exact_run o ord _ b0 d Hperm Hw0 Hc0 Hs).
Qed.

(* ---- fix D15/D20: an identifier body is optimised entry by entry ---- *)
(* member-wise related entries give related groups (and: truth from truth, exact from exact;
   or: likewise) *)
Lemma rel_of_solve : forall o (dq : docq), C03.npd dq -> forall (neg : bool) b b',
  wf_body b = true -> wf_body b' = true ->
  (if neg return Prop then solve_body o b' dq = solve_body o b dq
   else (solve_body o b' dq = Ok T <-> solve_body o b dq = Ok T)) ->
  rel neg (Vc o [] dq b') (Vc o [] dq b).
Proof.
  intros o dq Hd neg b b' Hw Hw' H.
  pose proof (Vc_ok o [] eq_refl dq Hd b (C03.wf_body_cond_nil _ Hw)) as E.
  pose proof (Vc_ok o [] eq_refl dq Hd b' (C03.wf_body_cond_nil _ Hw')) as E'.
  change (solve_cond o [] b dq) with (solve_body o b dq) in E.
  change (solve_cond o [] b' dq) with (solve_body o b' dq) in E'.
  rewrite E, E' in H. destruct neg; cbn [rel].
  - injection H as H. exact H.
  - split; intros X.
    + assert (Y : Ok (Vc o [] dq b) = Ok T) by (apply H; rewrite X; reflexivity).
      injection Y as Y. exact Y.
    + assert (Y : Ok (Vc o [] dq b') = Ok T) by (apply H; rewrite X; reflexivity).
      injection Y as Y. exact Y.
Qed.

Lemma solve_of_rel : forall o (dq : docq), C03.npd dq -> forall neg b b',
  wf_body b = true -> wf_body b' = true ->
  rel neg (Vc o [] dq b') (Vc o [] dq b) ->
  (solve_body o b' dq = Ok T <-> solve_body o b dq = Ok T) /\
  (neg = true -> solve_body o b' dq = solve_body o b dq).
Proof.
  intros o dq Hd neg b b' Hw Hw' H.
  pose proof (Vc_ok o [] eq_refl dq Hd b (C03.wf_body_cond_nil _ Hw)) as E.
  pose proof (Vc_ok o [] eq_refl dq Hd b' (C03.wf_body_cond_nil _ Hw')) as E'.
  change (solve_cond o [] b dq) with (solve_body o b dq) in E.
  change (solve_cond o [] b' dq) with (solve_body o b' dq) in E'.
  rewrite E, E'. split.
  - destruct neg; cbn [rel] in H.
    + rewrite H. tauto.
    + split; intros X; injection X as X; f_equal; apply H; exact X.
  - intros ->. cbn [rel] in H. rewrite H. reflexivity.
Qed.

Lemma group_rel_of_members : forall o (dq : docq), C03.npd dq -> forall neg s l l',
  is_and_or s = true ->
  (forall x, In x l -> wf_body x = true) -> (forall y, In y l' -> wf_body y = true) ->
  Forall2 (fun x y => rel neg (Vc o [] dq y) (Vc o [] dq x)) l l' ->
  rel neg (Vc o [] dq (EGroup s l')) (Vc o [] dq (EGroup s l)).
Proof.
  intros o dq Hd neg s l l' Hs Hw Hw' HF.
  assert (HF2 : Forall2 (rel neg) (map (Vc o [] dq) l') (map (Vc o [] dq) l)).
  { clear Hw Hw'. induction HF; cbn [map]; constructor; assumption. }
  assert (W : forall x, In x l -> wf_cond [] x = true) by (intros x Hx; apply C03.wf_body_cond_nil; auto).
  assert (W' : forall x, In x l' -> wf_cond [] x = true) by (intros x Hx; apply C03.wf_body_cond_nil; auto).
  destruct s; try discriminate Hs.
  - rewrite (Vc_and o [] eq_refl dq Hd l' W'), (Vc_and o [] eq_refl dq Hd l W). apply andl_cong. exact HF2.
  - rewrite (Vc_or o [] eq_refl dq Hd l' W'), (Vc_or o [] eq_refl dq Hd l W). apply orl_cong; [discriminate|exact HF2].
Qed.

(* what `entries f` does to a body whose entries f maps to related trees *)
Lemma entries_body_rel : forall o (dq : docq) (f : expr -> out expr) (P : expr -> Prop) neg b,
  C03.npd dq -> wf_body b = true ->
  (forall x, P x -> wf_body x = true -> exists y, f x = Ok y /\ wf_body y = true /\
                                      rel neg (Vc o [] dq y) (Vc o [] dq x)) ->
  (forall x, In x (entry_trees b) -> P x) ->
  exists b2, entries f b = Ok b2 /\ wf_body b2 = true /\ rel neg (Vc o [] dq b2) (Vc o [] dq b).
Proof.
  intros o dq f P neg b Hd Hw Hf HP.
  destruct (C01.entries_rel f (fun x => P x /\ wf_body x = true)
              (fun x y => wf_body y = true /\ rel neg (Vc o [] dq y) (Vc o [] dq x)) b) as [b2 [Hb2 Hrel]].
  - intros x [Px Wx]. exact (Hf x Px Wx).
  - destruct b as [s l| | | | | | | | | | | | |]; cbn [entry_trees] in HP;
      try (split; [apply HP; left; reflexivity|exact Hw]).
    intros x Hx. split; [apply HP; exact Hx|exact (C01.wf_body_member _ _ _ Hw Hx)].
  - exists b2. split; [exact Hb2|].
    destruct b as [s l| | | | | | | | | | | | |]; try exact Hrel.
    destruct Hrel as [l' [-> HF]]. pose proof (C01.wf_body_group _ _ Hw) as Hs.
    assert (Hw' : forall y, In y l' -> wf_body y = true).
    { intros y Hy. clear - HF Hy. induction HF as [|x0 y0 l0 l0' [Hy0 _] _ IH]; [destruct Hy|].
      destruct Hy as [<-|Hy]; [exact Hy0|exact (IH Hy)]. }
    split.
    + cbn [wf_body]. change (is_and_or_op s) with (is_and_or s). rewrite Hs. cbn [andb].
      apply C01.forallb_intro. exact Hw'.
    + apply (group_rel_of_members o dq Hd neg s l l' Hs); [|exact Hw'|].
      * intros x Hx. exact (C01.wf_body_member _ _ _ Hw Hx).
      * eapply C01.Forall2_In_impl; [exact HF|]. intros x y _ _ [_ Hr]. exact Hr.
Qed.

(* the same on values, for passes whose result is not of the loader's shape (matrix): the
   entries f maps to trees with related values give a body with a related value *)
Lemma group_vals_rel : forall o (dq : docq) neg s l l', is_and_or s = true ->
  Forall2 (fun x x' => exists v v', solve_body o x dq = Ok v /\ solve_body o x' dq = Ok v' /\ rel neg v' v) l l' ->
  exists v v', solve_body o (EGroup s l) dq = Ok v /\ solve_body o (EGroup s l') dq = Ok v' /\ rel neg v' v.
Proof.
  intros o dq neg s l l' Hs HF.
  assert (E : exists vs vs',
            map (fun x (_ : unit) => solve_cond o [] x dq) l = map (fun v (_ : unit) => Ok ((fun r : res3 => r) v)) vs /\
            map (fun x (_ : unit) => solve_cond o [] x dq) l' = map (fun v (_ : unit) => Ok ((fun r : res3 => r) v)) vs' /\
            Forall2 (rel neg) vs' vs).
  { induction HF as [|x x' l0 l0' (v & v' & E1 & E2 & R) _ (vs & vs' & I1 & I2 & I3)].
    - exists [], []. repeat split; constructor.
    - exists (v :: vs), (v' :: vs'). cbn [map].
      change (solve_cond o [] x dq) with (solve_body o x dq).
      change (solve_cond o [] x' dq) with (solve_body o x' dq).
      rewrite E1, E2, I1, I2. repeat split. constructor; assumption. }
  destruct E as (vs & vs' & E1 & E2 & R).
  change (solve_body o (EGroup s l) dq) with (solve_cond o [] (EGroup s l) dq).
  change (solve_body o (EGroup s l') dq) with (solve_cond o [] (EGroup s l') dq).
  destruct s; try discriminate Hs.
  - rewrite !S1.cs_group_and, E1, E2, !and_fold_pure, !map_id.
    eexists. eexists. split; [reflexivity|]. split; [reflexivity|]. apply andl_cong. exact R.
  - rewrite !S1.cs_group_or, E1, E2, !or_fold_pure, !map_id.
    eexists. eexists. split; [reflexivity|]. split; [reflexivity|]. apply orl_cong; [discriminate|exact R].
Qed.

Lemma entries_vals_rel : forall o (dq : docq) neg (f : expr -> out expr) (P G : expr -> Prop) b b',
  (forall s l, is_and_or s = true -> (forall y, In y l -> G y) -> G (EGroup s l)) ->
  match b with EGroup s _ => is_and_or s = true | _ => True end ->
  (forall x, In x (entry_trees b) -> P x) ->
  (forall x x', P x -> f x = Ok x' ->
     G x' /\ exists v v', solve_body o x dq = Ok v /\ solve_body o x' dq = Ok v' /\ rel neg v' v) ->
  entries f b = Ok b' ->
  G b' /\ exists v v', solve_body o b dq = Ok v /\ solve_body o b' dq = Ok v' /\ rel neg v' v.
Proof.
  intros o dq neg f P G b b' HG Hs HP Hf H. apply C01.entries_inv in H.
  destruct b as [s l| | | | | | | | | | | | |]; cbn [entry_trees] in HP;
    try (apply Hf; [apply HP; left; reflexivity|exact H]).
  destruct H as [l' [-> HF]].
  assert (HF2 : Forall2 (fun x x' => G x' /\ exists v v', solve_body o x dq = Ok v /\
                                      solve_body o x' dq = Ok v' /\ rel neg v' v) l l').
  { eapply C01.Forall2_In_impl; [exact HF|]. intros x x' Hx _ Hxx'. apply Hf; [apply HP; exact Hx|exact Hxx']. }
  split.
  - apply HG; [exact Hs|]. intros y Hy. clear - HF2 Hy.
    induction HF2 as [|x0 y0 l0 l0' [Hy0 _] _ IH]; [destruct Hy|].
    destruct Hy as [<-|Hy]; [exact Hy0|exact (IH Hy)].
  - apply (group_vals_rel o dq neg s l l' Hs).
    eapply C01.Forall2_In_impl; [exact HF2|]. intros x x' _ _ [_ Hr]. exact Hr.
Qed.

(* one identifier body through the shake pass, entry by entry *)
Lemma shake_entries_run : forall o ord neg b (d : doc),
  (forall l, Permutation (ord l) l) ->
  wf_body b = true -> C01.sh0 b = true -> C01.no_dneg b = true -> C01.shx b = true ->
  forallb (fun x => let m := ok_or (shake0 (shake_fuel x) x) x in
                    shake1_safe ord neg (shake_fuel m) m) (entry_trees b) = true ->
  exists b2, entries (shake ord) b = Ok b2 /\ wf_body b2 = true /\
    (solve_body o b2 (pure_doc d) = Ok T <-> solve_body o b (pure_doc d) = Ok T) /\
    (neg = true -> solve_body o b2 (pure_doc d) = solve_body o b (pure_doc d)).
Proof.
  intros o ord neg b d Hperm Hw H1 H2 H3 Hs.
  pose proof (C03.npd_pure d) as Hd.
  destruct (entries_body_rel o (pure_doc d) (shake ord)
              (fun x => C01.sh0 x = true /\ C01.no_dneg x = true /\ C01.shx x = true /\
                        shake1_safe ord neg (shake_fuel (ok_or (shake0 (shake_fuel x) x) x))
                                    (ok_or (shake0 (shake_fuel x) x) x) = true)
              neg b Hd Hw) as [b2 [Hb2 [W2 R2]]].
  - intros x [X1 [X2 [X3 X4]]] Wx.
    destruct (shake_body_run o ord neg x d Hperm Wx X1 X2 X3 X4) as [y [Hy [Wy [Ty Ey]]]].
    exists y. split; [exact Hy|]. split; [exact Wy|].
    apply (rel_of_solve o (pure_doc d) Hd neg x y Wx Wy). destruct neg; [apply Ey; reflexivity|exact Ty].
  - intros x Hx. pose proof (C01.forallb_In _ _ _ Hs Hx) as Sx. cbn beta zeta in Sx.
    destruct b as [s l| | | | | | | | | | | | |]; cbn [entry_trees] in Hx;
      try (destruct Hx as [<-|[]]; auto).
    cbn [C01.sh0] in H1.
    split; [exact (C01.forallb_In _ _ _ H1 Hx)|]. split; [exact (C01.no_dneg_member _ _ _ H2 Hx)|].
    split; [exact (C01.shx_member _ _ _ H3 Hx)|exact Sx].
  - exists b2. split; [exact Hb2|]. split; [exact W2|].
    exact (solve_of_rel o (pure_doc d) Hd neg b b2 Hw W2 R2).
Qed.

Lemma optimise_no_matrix_nested : forall o ord sw r (d : doc),
  (forall l, Permutation (ord l) l) ->
  C01.H_strip o ->
  sw_matrix sw = false ->
  wf_det (r_det r) = true -> r_optimised r = false ->
  C01.no_nested (d_expr (r_det r)) = true -> C01.cmp_leaves (d_expr (r_det r)) = true ->
  (sw_coalesce sw = true \/ S1.no_quant_ident (d_expr (r_det r)) = true) ->
  (sw_shake sw = true ->
     forallb (fun t => Scope.sh0 t && Scope.no_dneg t && Scope.shx t) (all_trees (staged sw (r_det r))) = true /\
     run_safe ord sw (r_det r) = true) ->
  exists r', optimise o ord sw r = Ok r' /\ matches o r' d = matches o r d.
Proof.
  intros o ord sw r d Hperm Hst Hmx Hwf Hopt Hnn Hcl Hqi Hin.
  pose proof (S1.perm_ord_keeps ord Hperm) as Hord.
  destruct (sw_shake sw) eqn:Hsh.
  2:{ destruct (C01.optimise_coalesce_rewrite_exact_alt o ord sw r (pure_doc d) Hst Hsh Hmx Hwf Hopt Hnn Hcl)
        as [r' [E1 E2]].
      exists r'. split; [exact E1|]. unfold matches. rewrite E2. reflexivity. }
  destruct (Hin eq_refl) as [Hin1 Hin2]. clear Hin.
  pose proof (C03.npd_pure d) as Hd.
  pose proof (C01.wf_det_ids _ Hwf) as Hids.
  destruct r as [opt [e ids] tp tn]. cbn [r_det r_optimised d_expr d_ids] in *. subst opt.
  unfold wf_det in Hwf. cbn [d_expr d_ids] in Hwf.
  apply andb_prop in Hwf. destruct Hwf as [Hwc Hwb].
  unfold run_safe, staged in Hin2. unfold staged in Hin1. cbn [d_expr d_ids] in Hin1, Hin2.
  unfold optimise, matches. cbn [r_optimised r_det r_tp r_tn]. unfold optimise_detection.
  rewrite Hsh, Hmx. cbn [d_expr d_ids].
  destruct (sw_coalesce sw) eqn:Hco.
  - (* coalesce on: one identifier-free tree *)
    destruct (C01.coalesce_sem o ids Hids e Hwc Hnn Hcl) as [e1 [He1 [Hw1 Hsem1]]].
    rewrite He1 in Hin1, Hin2. cbn [ok_or all_trees fst snd map forallb shaken0] in Hin1, Hin2.
    apply andb_prop in Hin1. destruct Hin1 as [Hin1 _].
    destruct (input_ok_split3 e1 Hin1) as [I2 [I3 I4]].
    apply andb_prop in Hin2. destruct Hin2 as [Hin2 _].
    destruct (shake_body_run o ord false e1 d Hperm Hw1 I2 I3 I4 Hin2) as [e2 [He2 [Hw2 [Htr _]]]].
    rewrite He1. cbn [bind d_expr d_ids]. rewrite He2. cbn [bind map_ids mapM d_expr d_ids].
    destruct (sw_rewrite sw); (eexists; split; [reflexivity|]); cbn [r_det]; unfold solve_rule3;
      cbn [d_expr d_ids map].
    + change (solve_cond o [] (rewrite o e2) (pure_doc d)) with (solve_body o (rewrite o e2) (pure_doc d)).
      rewrite (C01.rw_body o Hst). apply verdict_of_truth.
      * apply (C03.solve_body_ok o e2 (pure_doc d) Hw2 Hd).
      * rewrite <- Hsem1. apply (C03.solve_body_ok o e1 (pure_doc d) Hw1 Hd).
      * rewrite <- Hsem1. exact Htr.
    + change (solve_cond o [] e2 (pure_doc d)) with (solve_body o e2 (pure_doc d)).
      apply verdict_of_truth.
      * apply (C03.solve_body_ok o e2 (pure_doc d) Hw2 Hd).
      * rewrite <- Hsem1. apply (C03.solve_body_ok o e1 (pure_doc d) Hw1 Hd).
      * rewrite <- Hsem1. exact Htr.
  - (* coalesce off: the condition and every identifier body *)
    destruct Hqi as [Hqi|Hqi]; [discriminate Hqi|].
    cbn [bind all_trees fst snd forallb shaken0] in *.
    apply andb_prop in Hin1. destruct Hin1 as [Hine Hinb].
    destruct (input_ok_split3 e Hine) as [I2 [I3 I4]].
    apply andb_prop in Hin2. destruct Hin2 as [_ Hsb].
    set (ng := body_neg (e, ids)) in *.
    assert (Hbody : forall kv, In kv ids ->
              exists b2, entries (shake ord) (snd kv) = Ok b2 /\ wf_body b2 = true /\
                (solve_body o b2 (pure_doc d) = Ok T <-> solve_body o (snd kv) (pure_doc d) = Ok T) /\
                (ng = true -> solve_body o b2 (pure_doc d) = solve_body o (snd kv) (pure_doc d))).
    { intros kv Hkv. pose proof (C01.forallb_In _ _ _ Hwb Hkv) as Hw. cbn beta in Hw.
      assert (Hin' : In (snd kv) (map snd ids)) by (apply in_map; exact Hkv).
      pose proof (C01.forallb_In _ _ _ Hinb Hin') as Hb. cbn beta in Hb.
      destruct (input_ok_split3 _ Hb) as [B2 [B3 B4]].
      apply (shake_entries_run o ord ng (snd kv) d Hperm Hw B2 B3 B4).
      apply (C01.forallb_In _ _ _ Hsb Hkv). }
    destruct (S1.map_ids_ok (entries (shake ord)) ids) as [ids2 Hids2].
    { intros kv Hkv. destruct (Hbody kv Hkv) as [b2 [Hb2 _]]. exists b2. exact Hb2. }
    pose proof (S1.map_ids_F2 _ _ _ Hids2) as HF.
    assert (HF' : Forall2 (fun kv kv' => fst kv' = fst kv /\
                     ((solve_body o (snd kv') (pure_doc d) = Ok T <-> solve_body o (snd kv) (pure_doc d) = Ok T) /\
                      (ng = true -> solve_body o (snd kv') (pure_doc d) = solve_body o (snd kv) (pure_doc d)) /\
                      wf_body (snd kv') = true)) ids ids2).
    { eapply C01.Forall2_In_impl; [exact HF|]. intros kv kv' Hkv _ [Hk Hs].
      split; [exact Hk|]. destruct (Hbody kv Hkv) as [b2 [Hb2 [W2 [T2 X2]]]].
      rewrite Hs in Hb2. injection Hb2 as <-. auto. }
    assert (Hwb2 : forallb (fun kv => wf_body (snd kv)) ids2 = true).
    { eapply C01.Forall2_forallb; [exact HF'|]. intros kv kv' _ [_ [_ [_ Hw]]]. exact Hw. }
    assert (HrelT : S1.ids_rel (fun b b' => solve_body o b' (pure_doc d) = Ok T <-> solve_body o b (pure_doc d) = Ok T) ids ids2).
    { apply S1.ids_rel_F2. eapply C01.Forall2_In_impl; [exact HF'|]. intros kv kv' _ _ [Hk [Hs _]].
      split; [exact Hk|exact Hs]. }
    pose proof (S1.wf_cond_rel _ _ _ HrelT e Hwc) as Hwc2.
    assert (Hie : S1.invc e = true) by (apply (S1.invc_of ids e false); auto using C01.no_dneg_here).
    destruct (S1.shake_total ord e Hie) as [e2 He2].
    pose proof (S1.shake_cond_exact o ord ids2 e e2 (pure_doc d) Hord Hd Hwb2 Hwc2 Hie He2) as Hsem.
    assert (Hfin : solve_cond o ids2 e2 (pure_doc d) = Ok T <-> solve_cond o ids e (pure_doc d) = Ok T).
    { rewrite Hsem. destruct ng eqn:Eng.
      - assert (Hrel : S1.ids_rel (fun b b' => solve_body o b' (pure_doc d) = solve_body o b (pure_doc d)) ids ids2).
        { apply S1.ids_rel_F2. eapply C01.Forall2_In_impl; [exact HF'|]. intros kv kv' _ _ [Hk [_ [Hs _]]].
          split; [exact Hk|apply Hs; reflexivity]. }
        rewrite (S1.solve_ids_change o ids ids2 (pure_doc d) Hrel e Hwc Hnn Hqi). tauto.
      - apply (solve_ids_change_truth o ids ids2 (pure_doc d) Hd Hwb Hwb2 HrelT e Hwc Hwc2 Hnn Hqi Eng). }
    assert (Htot : exists b, solve_cond o ids e (pure_doc d) = Ok b)
      by (apply (C03.solve_cond_ok o ids e (pure_doc d) Hwc Hwb Hd)).
    assert (Htot2 : exists a, solve_cond o ids2 e2 (pure_doc d) = Ok a).
    { rewrite Hsem. apply (C03.solve_cond_ok o ids2 e (pure_doc d) Hwc2 Hwb2 Hd). }
    cbn [d_expr d_ids]. rewrite He2. cbn [bind]. rewrite Hids2. cbn [bind d_expr d_ids].
    destruct (sw_rewrite sw); (eexists; split; [reflexivity|]); cbn [r_det]; unfold solve_rule3;
      cbn [d_expr d_ids].
    + rewrite (C01.rewrite_exact o ids2 e2 (pure_doc d) Hst). apply verdict_of_truth; assumption.
    + apply verdict_of_truth; assumption.
Qed.

(* ---- the loadable rule that refuted scope2_sound on the model BEFORE the D29 repair ----
   detection:
     A: {f: {g: {all(h): [{p: a}, {q: b}]}}}
     B: {f: {g: {z: c}}}
     C: {w: d}
     condition: A or B or C
   with coalesce + shake: the or-group [A; B; C] merges the f-blocks of A and B, the merged
   or-group is shaken again; before the repair it merged the g-blocks, one of whose bodies is the
   all()-list (D29 one level down, verdict true -> false); now that block is left alone *)
Definition y_deep : yaml :=
  YMap [(YStr key_detection,
         YMap [(YStr [65%N], YMap [(YStr [102%N], YMap [(YStr [103%N],
                   YMap [(YStr [97;108;108;40;104;41]%N,
                          YSeq [YMap [(YStr [112%N], YStr [97%N])]; YMap [(YStr [113%N], YStr [98%N])]])])])]);
               (YStr [66%N], YMap [(YStr [102%N], YMap [(YStr [103%N], YMap [(YStr [122%N], YStr [99%N])])])]);
               (YStr [67%N], YMap [(YStr [119%N], YStr [100%N])]);
               (YStr cond_key, YStr [65;32;111;114;32;66;32;111;114;32;67]%N)]);
        (YStr key_tp, YSeq []); (YStr key_tn, YSeq [])].
Definition d_rule : doc :=
  obj_find [([102%N], VObj [([103%N], VArr [VObj [([104%N], VObj [([112%N], VStr [97%N])])];
                                            VObj [([104%N], VObj [([113%N], VStr [98%N])])]])])].

Lemma deep_rule_preserved :
  exists r, load_rule C01.o0 false y_deep = Ok r /\ r_optimised r = false /\
    c01_scope2 idord C01.sw_coalesce_shake (r_det r) = true /\
    run_safe idord C01.sw_coalesce_shake (r_det r) = true /\
    matches C01.o0 r d_rule = Ok true /\
    exists r', optimise C01.o0 idord C01.sw_coalesce_shake r = Ok r' /\ matches C01.o0 r' d_rule = Ok true.
Proof.
  eexists. split; [vm_compute; reflexivity|]. split; [reflexivity|].
  split; [vm_compute; reflexivity|]. split; [vm_compute; reflexivity|]. split; [vm_compute; reflexivity|].
  eexists. split; [vm_compute; reflexivity|]. vm_compute. reflexivity.
Qed.

(* the closest true statement: inside c01_scope2 AND when the run of shake_1 is safe *)
Lemma scope2_sound_alt : forall o ic ord sw y r (d : doc),
  (forall l, Permutation (ord l) l) ->
  C01.H_strip o ->
  load_rule o ic y = Ok r -> r_optimised r = false ->
  c01_scope2 ord sw (r_det r) = true ->
  negb (sw_shake sw) || run_safe ord sw (r_det r) = true ->
  exists r', optimise o ord sw r = Ok r' /\ matches o r' d = matches o r d.
Proof.
  intros o ic ord sw y r d Hperm Hs Hl Hopt Hsc Hrun.
  pose proof (C03.load_wf _ _ _ _ Hl) as Hwf.
  destruct (C03.load_rule_det _ _ _ _ Hl) as [dy Hd].
  destruct (C01_loaded.load_detection_parse _ _ _ _ Hd) as [ts Hp].
  destruct (C01_loaded.loaded_condition_shapes _ _ Hp) as [Hnn Hcl].
  unfold c01_scope2 in Hsc.
  apply andb_prop in Hsc. destruct Hsc as [Hsc H3].
  apply andb_prop in Hsc. destruct Hsc as [H1 H2].
  apply (optimise_no_matrix_nested o ord sw r d Hperm Hs); try assumption.
  - destruct (sw_matrix sw); [discriminate H1|reflexivity].
  - apply orb_prop in H2. destruct H2 as [H2|H2]; [left; exact H2|right; exact H2].
  - intros Hsh. rewrite Hsh in H3, Hrun. cbn [negb orb] in H3, Hrun. split; [|exact Hrun].
    unfold shake_input_ok2 in H3. apply andb_prop in H3. destruct H3 as [H3 _]. exact H3.
Qed.
(* ====================================================================== *)
(*  nested_merge_example                                                   *)
(* ====================================================================== *)
Lemma nested_merge_example :
  let n := [110%N] in let f := [102%N] in let g := [103%N] in
  let e := EGroup BAnd [ENested n (ESearch (SExact [97%N]) f false); ENested n (ESearch (SExact [98%N]) g false);
                        ESearch (SExact [99%N]) f false] in
  wf_body e = true /\
  exists_sub (d16_here (fun k => k)) false e = false /\ exists_sub (d29_here (fun k => k)) false e = false /\
  shake1 (fun k => k) (shake_fuel e) e =
    EGroup BAnd [ESearch (SExact [99%N]) f false;
                 ENested n (EMatch MAll (EGroup BOr [ESearch (SExact [97%N]) f false; ESearch (SExact [98%N]) g false]))].
Proof. vm_compute. repeat split; reflexivity. Qed.

Print Assumptions shake1_truth_run.
Print Assumptions shake1_exact_run.
Print Assumptions scope2_sound_alt.
