(* C03  An accepted rule can always be evaluated (no panic after load): proofs. *)
From TauModel Require Import Base Num Oracles Syntax Generated Token Pratt Ident Value Yaml
     ParseMap Solver Rule Keys.
From Coq Require Import Lia ZArith ZifyBool List Bool.

(* ------------------------------------------------------------------------------------ *)
(* generic helpers                                                                       *)
(* ------------------------------------------------------------------------------------ *)

Lemma bind_ok_inv {A B} (x : out A) (f : A -> out B) b :
  bind x f = Ok b -> exists a, x = Ok a /\ f a = Ok b.
Proof. destruct x as [a|k|s]; cbn [bind]; intros H; try discriminate. exists a. split; [reflexivity | exact H]. Qed.

(* documents that never panic *)
Definition npd (d : docq) : Prop := forall k, exists v, d k = Ok v.
Definition okr (x : out res3) : Prop := exists r, x = Ok r.

Lemma npd_pure d : npd (pure_doc d).
Proof. intros k. eexists; reflexivity. Qed.

Lemma npd_obj kv : npd (obj_doc kv).
Proof. intros k. eexists; reflexivity. Qed.

Lemma okr_ok r : okr (Ok r).
Proof. eexists; reflexivity. Qed.

(* ------------------------------------------------------------------------------------ *)
(* (A) the folds and leaves of the solver                                                *)
(* ------------------------------------------------------------------------------------ *)

Definition lazies_ok (rs : list lazy3) : Prop := Forall (fun r : lazy3 => okr (r tt)) rs.

Lemma and_fold_ok rs : lazies_ok rs -> okr (and_fold rs).
Proof.
  induction 1 as [|r rs [x Hx] _ IH]; cbn [and_fold]; [apply okr_ok|].
  rewrite Hx; cbn [bind]. destruct x; [exact IH | apply okr_ok | apply okr_ok].
Qed.

Lemma or_fold_ok rs : lazies_ok rs -> forall acc, okr (or_fold acc rs).
Proof.
  induction 1 as [|r rs [x Hx] _ IH]; intros acc; cbn [or_fold]; [apply okr_ok|].
  rewrite Hx; cbn [bind]. destruct x; [apply okr_ok | apply IH | apply IH].
Qed.

Lemma of0_fold_ok rs : lazies_ok rs -> forall acc, okr (of0_fold acc rs).
Proof.
  induction 1 as [|r rs [x Hx] _ IH]; intros acc; cbn [of0_fold]; [apply okr_ok|].
  rewrite Hx; cbn [bind]. destruct x; [apply okr_ok | apply IH | apply IH].
Qed.

Lemma ofn_fold_ok rs : lazies_ok rs -> forall c count acc, okr (ofn_fold c count acc rs).
Proof.
  induction 1 as [|r rs [x Hx] _ IH]; intros c count acc; cbn [ofn_fold]; [apply okr_ok|].
  rewrite Hx; cbn [bind]. destruct x; [| apply IH | apply IH].
  destruct (c <=? count + 1)%Z; [apply okr_ok | apply IH].
Qed.

Lemma of_fold_ok rs c : lazies_ok rs -> okr (of_fold c rs).
Proof.
  intros H. unfold of_fold. destruct (c =? 0)%Z; [apply of0_fold_ok | apply ofn_fold_ok]; exact H.
Qed.

Lemma field_search_ok o d f cast p : npd d -> okr (field_search o d f cast p).
Proof. intros Hd. unfold field_search. destruct (Hd f) as [x ->]. cbn [bind]. apply okr_ok. Qed.

Lemma operand_of_ok o d e : npd d -> exists a, operand_of o d e = Ok a.
Proof.
  intros Hd.
  destruct e as [ g l | l op r | b | f m | f | x | s | z | k e | cols rows | e | f e | | s f cst ];
    try destruct m; cbn [operand_of]; try (eexists; reflexivity);
    destruct (Hd f) as [x ->]; cbn [bind]; eexists; reflexivity.
Qed.

Lemma generic_compare_ok o d l op r : npd d ->
  okr (do a <- operand_of o d l;
       match a with
       | OMissing => Ok M
       | OFalse => Ok F
       | OVal x =>
           do b <- operand_of o d r;
           match b with
           | OMissing => Ok M
           | OFalse => Ok F
           | OVal y => Ok (res_of_bool (compare_values x op y))
           end
       end).
Proof.
  intros Hd. destruct (operand_of_ok o d l Hd) as [a ->]. cbn [bind].
  destruct a; try apply okr_ok.
  destruct (operand_of_ok o d r Hd) as [b ->]. cbn [bind].
  destruct b; apply okr_ok.
Qed.

Lemma solve_compare_ok o d l op r : npd d -> okr (solve_compare o d l op r).
Proof.
  intros Hd.
  destruct l as [ g l' | l1 op' r1 | b | f m | f | x | s | z | k e | cols rows | e | f e | | s f cst ];
    try exact (generic_compare_ok o d _ op r Hd).
  - (* ECast *)
    destruct m; try exact (generic_compare_ok o d _ op r Hd).
    destruct op; try exact (generic_compare_ok o d _ _ r Hd).
    destruct r as [ g l' | l1 op' r1 | b | f' m' | f' | x | s | z | k e | cols rows | e | f' e | | s f' cst ];
      try exact (generic_compare_ok o d _ _ _ Hd).
    + destruct m'; try exact (generic_compare_ok o d _ _ _ Hd).
      cbn [solve_compare].
      destruct (Hd f) as [vx ->]; cbn [bind].
      destruct vx as [vx|]; [|apply okr_ok].
      destruct (value_to_string o vx) as [xs|]; [|apply okr_ok].
      destruct (Hd f') as [vy ->]; cbn [bind].
      destruct vy as [vy|]; [|apply okr_ok].
      destruct (value_to_string o vy) as [ys|]; apply okr_ok.
    + (* str(f) == null, fix D27 *)
      cbn [solve_compare]. destruct (Hd f) as [vx ->]; cbn [bind]. apply okr_ok.
  - (* EField *)
    destruct op; try exact (generic_compare_ok o d _ _ r Hd).
    destruct r as [ g l' | l1 op' r1 | b | f' m' | f' | x | s | z | k e | cols rows | e | f' e | | s f' cst ];
      try exact (generic_compare_ok o d _ _ _ Hd).
    + cbn [solve_compare]. destruct (Hd f) as [vx ->]; cbn [bind]. apply okr_ok.
    + cbn [solve_compare]. destruct (Hd f) as [vx ->]; cbn [bind]. apply okr_ok.
Qed.

Lemma and2_ok (l r : lazy3) : okr (l tt) -> okr (r tt) -> okr (and2 l r).
Proof.
  intros [x Hx] Hr. unfold and2. rewrite Hx; cbn [bind].
  destruct x; [exact Hr | apply okr_ok | apply okr_ok].
Qed.

Lemma or2_ok (l r : lazy3) : okr (l tt) -> okr (r tt) -> okr (or2 l r).
Proof.
  intros [x Hx] [y Hy]. unfold or2. rewrite Hx; cbn [bind].
  destruct x; try apply okr_ok; rewrite Hy; cbn [bind]; apply okr_ok.
Qed.

Lemma some_object_ok (e : cellfn) :
  (forall kv, okr (e (obj_doc kv))) -> forall objs acc, okr (some_object e objs acc).
Proof.
  intros He. induction objs as [|kv objs IH]; intros acc; cbn [some_object]; [apply okr_ok|].
  destruct (He kv) as [r ->]; cbn [bind]. destruct r; [apply okr_ok | apply IH | apply IH].
Qed.

Lemma any_true_ok (e : cellfn) :
  (forall kv, okr (e (obj_doc kv))) -> forall objs,
  okr ((fix any_true (objs : list (list (str * value))) : out res3 :=
          match objs with
          | [] => Ok F
          | kv :: rest =>
              do r <- e (obj_doc kv);
              match r with T => Ok T | _ => any_true rest end
          end) objs).
Proof.
  intros He. induction objs as [|kv objs IH]; [apply okr_ok|].
  destruct (He kv) as [r Hr]. rewrite Hr; cbn [bind]. destruct r; [apply okr_ok | exact IH | exact IH].
Qed.

(* size of an expression, for induction through the nested lists *)
Fixpoint esize (e : expr) : nat :=
  match e with
  | EGroup _ l => S (list_sum (map esize l))
  | EBexp l _ r => S (esize l + esize r)
  | EMatch _ e' | ENegate e' | ENested _ e' => S (esize e')
  | _ => 1
  end.

Lemma esize_in x l : In x l -> esize x <= list_sum (map esize l).
Proof.
  induction l as [|y l IH]; intros H; [contradiction|].
  cbn [map]. change (list_sum (esize y :: map esize l)) with (esize y + list_sum (map esize l)).
  destruct H as [->|H]; [lia|]. apply IH in H. lia.
Qed.

(* what the solver needs of an identifier body *)
Definition bodyQ (body : expr -> docq -> out res3) (b : expr) : Prop :=
  (forall d, npd d -> okr (body b d)) /\
  (forall s g, b = EGroup s g -> forall x, In x g -> forall d, npd d -> okr (body x d)) /\
  (forall cs rs, b <> EMatrix cs rs).

Lemma mof_default c (x : out res3) : okr x ->
  okr (if (c =? 0)%Z
       then do r <- x; Ok (match r with T => F | F => T | M => M end)
       else do r <- x; Ok (match r with T => if (1 <? c)%Z then F else T | y => y end)).
Proof. intros [r ->]. destruct (c =? 0)%Z; cbn [bind]; apply okr_ok. Qed.

Section SolveOk.
Variable o : oracles.
Variable ids : list (str * expr).
Variable body : expr -> docq -> out res3.
Hypothesis Hids : forall i b, lookup i ids = Some b -> bodyQ body b.

Lemma match_all_ok b d : bodyQ body b -> npd d -> okr (match_all o body b d).
Proof.
  intros (Q1 & Q2 & Q3) Hd.
  destruct b as [ s g | l1 op' r1 | b | f m | f | x | s | z | k e | cols rows | e | f e | | s f cst ];
    try exact (Q1 d Hd).
  - exfalso. exact (Q3 _ _ eq_refl).
  - destruct s; try exact (Q1 d Hd); cbn [match_all]; apply field_search_ok; exact Hd.
Qed.

Lemma match_of_ok b d c : bodyQ body b -> npd d -> okr (match_of o body b d c).
Proof.
  intros (Q1 & Q2 & Q3) Hd. unfold match_of.
  destruct (Q1 d Hd) as [r Hr].
  destruct (c =? 0)%Z; [rewrite Hr; cbn [bind]; apply okr_ok|].
  destruct b as [ s g | l1 op' r1 | b | f m | f | x | s | z | k e | cols rows | e | f e | | s f cst ];
    try (rewrite Hr; cbn [bind]; apply okr_ok).
  - exfalso. exact (Q3 _ _ eq_refl).
  - destruct s; try (rewrite Hr; cbn [bind]; apply okr_ok); apply field_search_ok; exact Hd.
Qed.

Lemma body_lazies g d :
  (forall x, In x g -> forall d, npd d -> okr (body x d)) -> npd d ->
  lazies_ok (map (fun x (_ : unit) => body x d) g).
Proof.
  intros H Hd. unfold lazies_ok. rewrite Forall_map. apply Forall_forall.
  intros x Hx. apply H; assumption.
Qed.

Lemma solve_ok_size : forall n e, esize e < n -> wf_cond ids e = true ->
  forall d, npd d -> okr (solve o ids body e d).
Proof.
  induction n as [|n IH]; intros e Hs Hwf d Hd; [lia|].
  assert (Hl : forall l d, list_sum (map esize l) < n -> forallb (wf_cond ids) l = true ->
                 npd d -> lazies_ok (map (fun x (_ : unit) => solve o ids body x d) l)).
  { intros l d0 Hsz Hall Hd0. unfold lazies_ok. rewrite Forall_map. apply Forall_forall.
    intros x Hx. apply IH; [| | exact Hd0].
    - apply esize_in in Hx. lia.
    - rewrite forallb_forall in Hall. apply Hall. exact Hx. }
  destruct e as [ s g | l1 op r1 | b | f m | f | x | i | z | k e | cols rows | e | f e | | s f cst ];
    cbn [wf_cond] in Hwf; try discriminate Hwf; cbn [esize] in Hs.
  - (* EGroup *)
    apply andb_prop in Hwf. destruct Hwf as [Hop Hall].
    assert (HF := Hl g d ltac:(lia) Hall Hd).
    destruct s; try discriminate Hop; cbn [solve].
    + apply and_fold_ok. exact HF.
    + apply or_fold_ok. exact HF.
  - (* EBexp *)
    destruct op; cbn [is_and_or_op] in Hwf; cbn [solve]; try (apply solve_compare_ok; exact Hd).
    + apply andb_prop in Hwf. destruct Hwf as [H1 H2].
      apply and2_ok; apply IH; try assumption; lia.
    + apply andb_prop in Hwf. destruct Hwf as [H1 H2].
      apply or2_ok; apply IH; try assumption; lia.
  - (* EIdent *)
    cbn [solve]. unfold has_key in Hwf. destruct (lookup i ids) as [b|] eqn:El; [|discriminate Hwf].
    destruct (Hids _ _ El) as (Q1 & _). apply Q1. exact Hd.
  - (* EMatch *)
    assert (He : forall d, npd d -> okr (solve o ids body e d)).
    { intros d0 Hd0. apply IH; [lia | exact Hwf | exact Hd0]. }
    destruct k as [|c].
    + destruct e as [ s g | l1 op r1 | b | f m | f | x | i | z | k e' | cols rows | e' | f e' | | s f cst ];
        cbn [wf_cond] in Hwf; try discriminate Hwf; try exact (He d Hd).
      * (* group *)
        apply andb_prop in Hwf. destruct Hwf as [Hop Hall]. cbn [esize] in Hs.
        cbn [solve]. apply and_fold_ok. apply Hl; [lia | exact Hall | exact Hd].
      * (* identifier *)
        cbn [solve]. unfold has_key in Hwf.
        destruct (lookup i ids) as [b|] eqn:El; [|discriminate Hwf].
        pose proof (Hids _ _ El) as HQ.
        destruct b as [ s g | l1 op' r1 | b | f m | f | x | s | z | k e | cols rows | e | f e | | s f cst ];
          try exact (match_all_ok _ d HQ Hd).
        destruct HQ as (_ & Q2 & _).
        apply and_fold_ok. apply body_lazies; [exact (Q2 _ _ eq_refl) | exact Hd].
      * (* search *)
        destruct s; try exact (He d Hd); cbn [solve]; apply field_search_ok; exact Hd.
    + destruct e as [ s g | l1 op r1 | b | f m | f | x | i | z | k e' | cols rows | e' | f e' | | s f cst ];
        cbn [wf_cond] in Hwf; try discriminate Hwf;
        try exact (mof_default c _ (He d Hd)).
      * (* group *)
        apply andb_prop in Hwf. destruct Hwf as [Hop Hall]. cbn [esize] in Hs.
        cbn [solve]. apply of_fold_ok. apply Hl; [lia | exact Hall | exact Hd].
      * (* identifier *)
        cbn [solve]. unfold has_key in Hwf.
        destruct (lookup i ids) as [b|] eqn:El; [|discriminate Hwf].
        pose proof (Hids _ _ El) as HQ.
        destruct b as [ s g | l1 op' r1 | b | f m | f | x | s | z | k e | cols rows | e | f e | | s f cst ];
          try exact (match_of_ok _ d c HQ Hd).
        destruct HQ as (_ & Q2 & _).
        apply of_fold_ok. apply body_lazies; [exact (Q2 _ _ eq_refl) | exact Hd].
      * (* search *)
        destruct s; try exact (mof_default c _ (He d Hd));
          cbn [solve]; (destruct (c =? 0)%Z;
            [ destruct (He d Hd) as [r Hr]; cbn [solve] in Hr; rewrite Hr; cbn [bind]; apply okr_ok
            | apply field_search_ok; exact Hd ]).
  - (* ENegate *)
    cbn [solve]. destruct (IH e ltac:(lia) Hwf d Hd) as [r ->]. cbn [bind]. apply okr_ok.
  - (* ENested *)
    assert (He : forall kv, okr (solve o ids body e (obj_doc kv))).
    { intros kv. apply IH; [lia | exact Hwf | apply npd_obj]. }
    cbn [solve]. destruct (Hd f) as [x ->]. cbn [bind].
    destruct x as [v|]; [|apply okr_ok].
    destruct v as [ | b | x | z | z | s | a | kv ]; try apply okr_ok; [|apply He].
    cbv zeta.
    destruct e as [ s g | l1 op r1 | b | f0 m | f0 | x | i | z | k e' | cols rows | e' | f0 e' | | s f0 cst ];
      try exact (any_true_ok _ He _).
    destruct k as [|c]; [|exact (any_true_ok _ He _)].
    destruct e' as [ s g | l1 op r1 | b | f0 m | f0 | x | i | z | k e'' | cols rows | e'' | f0 e'' | | s f0 cst ];
      try exact (any_true_ok _ He _).
    + destruct s; try exact (any_true_ok _ He _).
      cbn [wf_cond] in Hwf. apply andb_prop in Hwf. destruct Hwf as [_ Hall].
      cbn [esize] in Hs.
      apply and_fold_ok. unfold lazies_ok. rewrite Forall_map. apply Forall_forall.
      intros m Hm. apply some_object_ok. intros kv. apply IH.
      * apply esize_in in Hm. lia.
      * rewrite forallb_forall in Hall. apply Hall. exact Hm.
      * apply npd_obj.
    + cbn [wf_cond] in Hwf. discriminate Hwf.
  - (* ESearch *)
    cbn [solve]. apply field_search_ok. exact Hd.
Qed.

Lemma solve_ok e d : wf_cond ids e = true -> npd d -> okr (solve o ids body e d).
Proof. intros. apply (solve_ok_size (S (esize e))); auto. Qed.

End SolveOk.

(* identifier bodies are conditions over the empty table *)
Lemma wf_body_cond_nil_size : forall n e, esize e < n -> wf_body e = true -> wf_cond [] e = true.
Proof.
  induction n as [|n IH]; intros e Hs Hwf; [lia|].
  destruct e as [ s g | l1 op r1 | b | f m | f | x | i | z | k e | cols rows | e | f e | | s f cst ];
    cbn [wf_body] in Hwf; try discriminate Hwf; cbn [esize] in Hs; cbn [wf_cond].
  - apply andb_prop in Hwf. destruct Hwf as [Hop Hall]. rewrite Hop. cbn [andb].
    apply forallb_forall. intros x Hx. apply IH.
    + apply esize_in in Hx. lia.
    + rewrite forallb_forall in Hall. apply Hall. exact Hx.
  - destruct (is_and_or_op op); [|reflexivity].
    apply andb_prop in Hwf. destruct Hwf as [H1 H2].
    rewrite (IH l1), (IH r1); try assumption; try lia; try reflexivity.
  - apply IH; [lia | exact Hwf].
  - apply IH; [lia | exact Hwf].
  - apply IH; [lia | exact Hwf].
  - reflexivity.
Qed.

Lemma wf_body_cond_nil e : wf_body e = true -> wf_cond [] e = true.
Proof. apply (wf_body_cond_nil_size (S (esize e))). lia. Qed.

Lemma solve_body_ok o b d : wf_body b = true -> npd d -> okr (solve_body o b d).
Proof.
  intros Hwf Hd. unfold solve_body. apply solve_ok; [|apply wf_body_cond_nil; exact Hwf | exact Hd].
  intros i b0 H. discriminate H.
Qed.

Lemma bodyQ_solve_body o b : wf_body b = true -> bodyQ (solve_body o) b.
Proof.
  intros Hwf. split; [|split].
  - intros d Hd. apply solve_body_ok; assumption.
  - intros s g -> x Hx d Hd. apply solve_body_ok; [|exact Hd].
    cbn [wf_body] in Hwf. apply andb_prop in Hwf. destruct Hwf as [_ Hall].
    rewrite forallb_forall in Hall. apply Hall. exact Hx.
  - intros cs rs ->. discriminate Hwf.
Qed.

Lemma lookup_in {A} i (ids : list (str * A)) b : lookup i ids = Some b -> exists k, In (k, b) ids.
Proof.
  induction ids as [|[k v] ids IH]; cbn [lookup]; intros H; [discriminate|].
  destruct (str_eqb i k).
  - injection H as ->. exists k. left; reflexivity.
  - destruct (IH H) as [k' Hk]. exists k'. right; exact Hk.
Qed.

Lemma solve_cond_ok o ids e d :
  wf_cond ids e = true -> forallb (fun kv => wf_body (snd kv)) ids = true -> npd d ->
  okr (solve_cond o ids e d).
Proof.
  intros Hc Hb Hd. unfold solve_cond. apply solve_ok; [|exact Hc | exact Hd].
  intros i b Hl. apply bodyQ_solve_body. apply lookup_in in Hl. destruct Hl as [k Hk].
  rewrite forallb_forall in Hb. exact (Hb _ Hk).
Qed.

Lemma solve_wf_no_panic : forall o dt (d : doc),
  wf_det dt = true -> exists r, solve_rule3 o dt (pure_doc d) = Ok r.
Proof.
  intros o dt d H. unfold wf_det in H. apply andb_prop in H. destruct H as [Hc Hb].
  unfold solve_rule3. apply solve_cond_ok; [exact Hc | exact Hb | apply npd_pure].
Qed.

(* ------------------------------------------------------------------------------------ *)
(* (B) identifier blocks have the evaluable shape                                        *)
(* ------------------------------------------------------------------------------------ *)

Definition wfb (e : expr) : Prop := wf_body e = true.

Lemma numeric_expr_wf e p x : numeric_expr e p = Some x -> wfb x.
Proof. destruct p; cbn [numeric_expr]; intros H; inversion H; subst; reflexivity. Qed.

Lemma scalar_string_expr_wf o ic ki s e : scalar_string_expr o ic ki s = Ok e -> wfb e.
Proof.
  unfold scalar_string_expr. intros H.
  apply bind_ok_inv in H. destruct H as (id & _ & H).
  apply bind_ok_inv in H. destruct H as (u & _ & H). cbv zeta in H.
  destruct (id_pat id); cbn [numeric_expr] in H; inversion H; subst; reflexivity.
Qed.

(* what the supplied sub-results must satisfy *)
Definition sub_wf (sub : option (out expr)) : Prop := forall r e, sub = Some r -> r = Ok e -> wfb e.

Lemma sub_wf_none : sub_wf None.
Proof. intros r e H; discriminate. Qed.

Lemma Forall_snoc {A} (P : A -> Prop) l x : Forall P l -> P x -> Forall P (l ++ [x]).
Proof. intros Hl Hx. apply Forall_app. split; [exact Hl | constructor; [exact Hx | constructor]]. Qed.

Lemma seq_member_wf o ic ki ue a v sub a' :
  sub_wf sub -> Forall wfb (a_rest a) -> seq_member o ic ki ue a v sub = Ok a' ->
  Forall wfb (a_rest a').
Proof.
  intros Hs Ha. unfold seq_member. cbv zeta.
  destruct v as [| b | z | x | s | l | kv | tag w].
  - intros H; inversion H; subst. apply Forall_snoc; [exact Ha | reflexivity].
  - destruct (misc_is MInt (k_misc ki)); [|destruct (misc_is MStr (k_misc ki))];
      intros H; inversion H; subst; first [exact Ha | apply Forall_snoc; [exact Ha | reflexivity]].
  - destruct (number_of z);
      [ destruct (misc_is MStr (k_misc ki))
      | destruct (misc_is MInt (k_misc ki)); [|destruct (misc_is MStr (k_misc ki))] ];
      intros H; inversion H; subst; first [exact Ha | apply Forall_snoc; [exact Ha | reflexivity]].
  - destruct (misc_is MInt (k_misc ki)); [|destruct (misc_is MStr (k_misc ki))];
      intros H; inversion H; subst; first [exact Ha | apply Forall_snoc; [exact Ha | reflexivity]].
  - intros H.
    apply bind_ok_inv in H. destruct H as (id & _ & H).
    apply bind_ok_inv in H. destruct H as (u & _ & H).
    assert (Ha2 : Forall wfb (a_rest (if misc_is MStr (k_misc ki) then flag_cast a else a))).
    { destruct (misc_is MStr (k_misc ki)); exact Ha. }
    revert H Ha2. generalize (if misc_is MStr (k_misc ki) then flag_cast a else a). intros a2 H Ha2.
    destruct (id_pat id) eqn:Ep; cbn [numeric_expr] in H; inversion H; subst;
      first [exact Ha2 | apply Forall_snoc; [exact Ha2 | reflexivity]].
  - intros H; discriminate H.
  - destruct (k_misc ki); [intros H; discriminate H|].
    destruct sub as [r|]; [|intros H; discriminate H].
    intros H. apply bind_ok_inv in H. destruct H as (e & Hr & H). inversion H; subst.
    apply Forall_snoc; [exact Ha|]. unfold wfb. cbn [wf_body]. exact (Hs _ e eq_refl eq_refl).
  - intros H; discriminate H.
Qed.

Lemma seq_members_wf o ic ki ue : forall vs a subs a',
  Forall sub_wf subs -> Forall wfb (a_rest a) -> seq_members o ic ki ue a vs subs = Ok a' ->
  Forall wfb (a_rest a').
Proof.
  induction vs as [|v vs IH]; intros a subs a' HF Ha H; cbn [seq_members] in H.
  - inversion H; subst. exact Ha.
  - apply bind_ok_inv in H. destruct H as (a1 & H1 & H).
    apply (IH a1 (tl subs) a'); [| |exact H].
    + destruct subs as [|s subs']; cbn [tl]; [constructor|]. inversion HF; assumption.
    + refine (seq_member_wf _ _ _ _ _ _ _ _ _ Ha H1).
      destruct subs as [|s subs']; [apply sub_wf_none|]. inversion HF; assumption.
Qed.

Lemma finish_tail_wf (ke : expr) (multiple : bool) (group : list expr) e :
  Forall wfb group ->
  match group with
  | [] => Err EInvalidIdent
  | [x] =>
      let keep_of := match ke with
                     | EMatch (MOf c) _ => negb (c =? 1)%Z
                     | _ => false
                     end in
      if negb multiple && negb keep_of then Ok x
      else match ke with
           | EMatch m _ => Ok (EMatch m x)
           | _ => Ok (EGroup BOr group)
           end
  | _ =>
      match ke with
      | EMatch m _ => Ok (EMatch m (EGroup BOr group))
      | _ => Ok (EGroup BOr group)
      end
  end = Ok e -> wfb e.
Proof.
  intros HF.
  assert (HG : wf_body (EGroup BOr group) = true).
  { cbn [wf_body is_and_or_op andb]. apply forallb_forall. rewrite Forall_forall in HF. exact HF. }
  destruct group as [|x [|y rest]].
  - intros H; discriminate H.
  - cbv zeta. inversion HF as [|x' l' Hx _]; subst.
    destruct (negb multiple && negb _).
    + intros H; inversion H; subst. exact Hx.
    + destruct ke; intros H; inversion H; subst; first [exact HG | exact Hx].
  - destruct ke; intros H; inversion H; subst; exact HG.
Qed.

Ltac destruct_let_pair :=
  match goal with
  | |- context [match ?X with pair _ _ => _ end] => destruct X as [? ?] eqn:?
  end.

Lemma Forall_search_map {A} (l : list A) s f c :
  Forall wfb (map (fun _ => ESearch s f c) l).
Proof. induction l; cbn [map]; constructor; [reflexivity | assumption]. Qed.

Lemma finish_seq_wf ki a e : Forall wfb (a_rest a) -> finish_seq ki a = Ok e -> wfb e.
Proof.
  intros Ha. unfold finish_seq. cbv zeta.
  destruct_let_pair.
  destruct_let_pair.
  destruct_let_pair.
  destruct_let_pair.
  destruct_let_pair.
  match goal with |- (if ?b then _ else _) = _ -> _ => destruct b end; [intros H; discriminate H|].
  match goal with |- (if ?b then _ else _) = _ -> _ => destruct b end; [intros H; discriminate H|].
  match goal with |- (if ?b then _ else _) = _ -> _ => destruct b end; [intros H; discriminate H|].
  apply finish_tail_wf.
  repeat (apply Forall_app; split); try exact Ha; try apply Forall_search_map;
    match goal with
    | H : match ?X with _ => _ end = (?g, _) |- Forall wfb ?g =>
        destruct X as [|? [|? ?]]; inversion H; subst; unfold wfb;
        repeat first [reflexivity | constructor]
    end.
Qed.

Lemma parse_entry_wf o ic k v sub subs e :
  sub_wf sub -> Forall sub_wf subs -> parse_entry o ic k v sub subs = Ok e -> wfb e.
Proof.
  intros Hs HF H. unfold parse_entry in H.
  apply bind_ok_inv in H. destruct H as (ki & _ & H). cbv zeta in H.
  apply bind_ok_inv in H. destruct H as (ex & Hex & H).
  assert (Hw : wfb ex).
  { clear H. destruct v as [| b | z | x | s | l | kv | tag w].
    - inversion Hex; subst; reflexivity.
    - destruct (misc_is MInt (k_misc ki)); [|destruct (misc_is MStr (k_misc ki))];
        inversion Hex; subst; reflexivity.
    - destruct (number_of z);
        [ destruct (misc_is MStr (k_misc ki))
        | destruct (misc_is MInt (k_misc ki)); [|destruct (misc_is MStr (k_misc ki))] ];
        inversion Hex; subst; reflexivity.
    - destruct (misc_is MInt (k_misc ki)); [|destruct (misc_is MStr (k_misc ki))];
        inversion Hex; subst; reflexivity.
    - exact (scalar_string_expr_wf _ _ _ _ _ Hex).
    - apply bind_ok_inv in Hex. destruct Hex as (a & Hm & Hf).
      apply (finish_seq_wf ki a); [|exact Hf].
      refine (seq_members_wf _ _ _ _ _ _ _ _ HF _ Hm).
      destruct (misc_is MStr (k_misc ki)); apply Forall_nil.
    - destruct (k_misc ki); [discriminate Hex|].
      destruct sub as [r|]; [|discriminate Hex].
      apply bind_ok_inv in Hex. destruct Hex as (x & Hr & Hx). inversion Hx; subst.
      unfold wfb. cbn [wf_body]. exact (Hs _ x eq_refl eq_refl).
    - discriminate Hex. }
  destruct (misc_is MNot (k_misc ki)); inversion H; subst; exact Hw.
Qed.

Lemma finish_mapping_wf es e : Forall wfb es -> finish_mapping es = Ok e -> wfb e.
Proof.
  intros HF. unfold finish_mapping.
  assert (HG : wf_body (EGroup BAnd es) = true).
  { cbn [wf_body is_and_or_op andb]. apply forallb_forall. rewrite Forall_forall in HF. exact HF. }
  destruct es as [|x [|y rest]]; intros H; inversion H; subst.
  - inversion HF; assumption.
  - exact HG.
Qed.

Fixpoint parse_mapping_wf (o : oracles) (ic : bool) (y : yaml) {struct y} :
  forall e, parse_mapping o ic y = Ok e -> wfb e.
Proof.
  destruct y as [| | | | |l|kv|tag w]; try (intros e H; discriminate H).
  cbn [parse_mapping]. intros e H.
  apply bind_ok_inv in H. destruct H as (es & Hes & Hfin).
  apply (finish_mapping_wf es); [|exact Hfin]. clear Hfin e.
  revert es Hes.
  induction kv as [|[k v] kv' IH]; intros es Hes.
  - inversion Hes; subst. constructor.
  - assert (H1 : sub_wf (match v with YMap _ => Some (parse_mapping o ic v) | _ => None end)).
    { clear Hes IH. intros r x Hr Hx. pose proof (parse_mapping_wf o ic v) as Hv.
      destruct v as [| | | | |l|kv0|tag w]; try discriminate Hr.
      injection Hr as <-. exact (Hv _ Hx). }
    assert (H2 : Forall sub_wf
                   (match v with
                    | YSeq l => map (fun m => match m with
                                              | YMap _ => Some (parse_mapping o ic m)
                                              | _ => None
                                              end) l
                    | _ => []
                    end)).
    { clear Hes IH H1. destruct v as [| | | | |l|kv0|tag w]; try constructor.
      induction l as [|m l IHl]; cbn [map]; constructor; [|exact IHl].
      intros r x Hr Hx. pose proof (parse_mapping_wf o ic m) as Hm.
      destruct m as [| | | | |l0|kv0|tag w]; try discriminate Hr.
      injection Hr as <-. exact (Hm _ Hx). }
    apply bind_ok_inv in Hes. destruct Hes as (e & He & Hes).
    apply bind_ok_inv in Hes. destruct Hes as (es' & Hes' & Hes).
    inversion Hes; subst. constructor; [|exact (IH _ Hes')].
    exact (parse_entry_wf _ _ _ _ _ _ _ H1 H2 He).
Qed.

Lemma mapM_Forall {A B} (f : A -> out B) (P : B -> Prop) :
  (forall a b, f a = Ok b -> P b) -> forall l bs, mapM f l = Ok bs -> Forall P bs.
Proof.
  intros Hf. induction l as [|a l IH]; intros bs H; cbn [mapM] in H.
  - inversion H; subst. constructor.
  - destruct (f a) as [b| |] eqn:Ea; try discriminate H.
    destruct (mapM f l) as [bs'| |] eqn:El; try discriminate H.
    inversion H; subst. constructor; [exact (Hf _ _ Ea) | exact (IH _ eq_refl)].
Qed.

Lemma parse_identifier_wf : forall o ic y e,
  parse_identifier o ic y = Ok e -> wf_body e = true.
Proof.
  intros o ic y e H. unfold parse_identifier in H.
  destruct y as [| | | | |l|kv|tag w]; try discriminate H.
  - destruct l as [|first others]; [discriminate H|].
    destruct (is_ymap first); [|discriminate H].
    apply bind_ok_inv in H. destruct H as (e0 & H0 & H).
    apply bind_ok_inv in H. destruct H as (es & Hes & H). inversion H; subst.
    apply parse_mapping_wf in H0.
    apply (mapM_Forall _ wfb) in Hes.
    + cbn [wf_body is_and_or_op andb forallb]. rewrite H0. cbn [andb].
      apply forallb_forall. rewrite Forall_forall in Hes. exact Hes.
    + intros a b Hab. destruct (is_ymap a); [|discriminate Hab].
      exact (parse_mapping_wf _ _ _ _ Hab).
  - exact (parse_mapping_wf _ _ _ _ H).
Qed.

(* ------------------------------------------------------------------------------------ *)
(* (C) conditions the loader accepts have the evaluable shape                            *)
(* ------------------------------------------------------------------------------------ *)

(* the two tokens preceding the current position, as idents_known threads them *)
Definition hist := (option token * option token)%type.

Definition nm (p : option token) : bool :=
  match p with Some t => negb (is_tmod t) | None => true end.
Definition nmh (h : hist) : Prop := nm (fst h) = true /\ nm (snd h) = true.

Fixpoint adv (h : hist) (l : list token) : hist :=
  match l with
  | [] => h
  | t :: l' => adv (snd h, Some t) l'
  end.

Definition ik (ids : list (str * expr)) (h : hist) (ts : list token) : bool :=
  idents_known ids (fst h) (snd h) ts.

Lemma ik_cons ids h t ts :
  ik ids h (t :: ts) =
  (if negb (nm (fst h)) then true else match t with TIdent id => has_key id ids | _ => true end)
  && ik ids (snd h, Some t) ts.
Proof.
  unfold ik. cbn [idents_known fst snd]. f_equal.
  destruct (fst h) as [t2|]; cbn [nm]; [rewrite negb_involutive|]; reflexivity.
Qed.

Lemma ik_app ids a : forall h b, ik ids h (a ++ b) = ik ids h a && ik ids (adv h a) b.
Proof.
  induction a as [|t a IH]; intros h b.
  - reflexivity.
  - cbn [app adv]. rewrite !ik_cons. rewrite IH. rewrite andb_assoc. reflexivity.
Qed.

Lemma adv_app a : forall h b, adv h (a ++ b) = adv (adv h a) b.
Proof. induction a as [|t a IH]; intros h b; [reflexivity|]. cbn [app adv]. apply IH. Qed.

(* what the Pratt parser can return *)
Definition pshape (ids : list (str * expr)) (e : expr) : bool :=
  match e with
  | EIdent s => has_key s ids
  | EInt _ | EFloat _ | ECast _ _ => true
  | EMatch _ (EIdent s) => has_key s ids
  | ENegate e' => wf_cond ids e'
  | EBexp l s r => if is_and_or_op s then wf_cond ids l && wf_cond ids r else true
  | _ => false
  end.

Lemma pshape_wf ids e : pshape ids e = true -> is_solvable e = true -> wf_cond ids e = true.
Proof.
  destruct e as [ s g | l1 op r1 | b | f m | f | x | i | z | k e | cols rows | e | f e | | s f cst ];
    cbn [pshape is_solvable wf_cond]; intros H1 H2; try discriminate; try exact H1.
  destruct e; try discriminate H1. exact H1.
Qed.

Lemma pshape_negatable ids e : pshape ids e = true -> negatable e = true -> wf_cond ids e = true.
Proof.
  destruct e as [ s g | l1 op r1 | b | f m | f | x | i | z | k e | cols rows | e | f e | | s f cst ];
    cbn [pshape negatable wf_cond]; intros H1 H2; try discriminate; try exact H1.
  destruct e; try discriminate H1. exact H1.
Qed.

Definition Pres ids (h : hist) (ts : list token) (e : expr) (rest : list token) : Prop :=
  exists c, ts = c ++ rest /\ nmh (adv h c) /\ pshape ids e = true.

Definition Prec ids (rec : parser) : Prop :=
  forall rbp ts h e rest, rec rbp ts = Ok (e, rest) -> nmh h -> ik ids h ts = true ->
    Pres ids h ts e rest.

Lemma token_is_rp_eq t : token_is_rp t = true -> t = TDel DRightParen.
Proof. destruct t as [d| | | | | | |]; try discriminate. destruct d; try discriminate. reflexivity. Qed.

Lemma collect_paren_split : forall ts d a b, collect_paren d ts = (a, b) ->
  ts = a ++ TDel DRightParen :: b \/ (ts = a /\ b = []).
Proof.
  induction ts as [|t ts IH]; intros d a b H; cbn [collect_paren] in H.
  - inversion H; subst. right. split; reflexivity.
  - destruct (token_is_lp t).
    + destruct (collect_paren (S d) ts) as [a' b'] eqn:E. inversion H; subst.
      destruct (IH _ _ _ E) as [->|[-> ->]]; [left | right; split]; reflexivity.
    + destruct (token_is_rp t) eqn:Erp.
      * apply token_is_rp_eq in Erp. subst t. destruct d as [|d].
        -- inversion H; subst. left. reflexivity.
        -- destruct (collect_paren d ts) as [a' b'] eqn:E. inversion H; subst.
           destruct (IH _ _ _ E) as [->|[-> ->]]; [left | right; split]; reflexivity.
      * destruct (collect_paren d ts) as [a' b'] eqn:E. inversion H; subst.
        destruct (IH _ _ _ E) as [->|[-> ->]]; [left | right; split]; reflexivity.
Qed.

Lemma parse_all_P ids rec ts h e :
  Prec ids rec -> parse_all rec ts = Ok e -> nmh h -> ik ids h ts = true ->
  nmh (adv h ts) /\ pshape ids e = true.
Proof.
  intros HP H Hh Hik. unfold parse_all in H.
  apply bind_ok_inv in H. destruct H as ([e' rest] & Hr & H).
  destruct rest; [|discriminate H]. inversion H; subst.
  destruct (HP _ _ _ _ _ Hr Hh Hik) as (c & Hc & Hn & Hp).
  rewrite app_nil_r in Hc. subst c. split; assumption.
Qed.

Lemma paren_ident_inv ts s r : paren_ident ts = Ok (s, r) ->
  ts = TDel DLeftParen :: TIdent s :: TDel DRightParen :: r.
Proof.
  unfold paren_ident. intros H.
  repeat match goal with
         | H : match ?x with _ => _ end = Ok _ |- _ => destruct x; try discriminate H
         end.
  inversion H; subst. reflexivity.
Qed.

Lemma nmh_step (h : hist) t : nm (snd h) = true -> is_tmod t = false -> nmh (snd h, Some t).
Proof. intros H1 H2. split; cbn [fst snd nm]; [exact H1 | rewrite H2; reflexivity]. Qed.

Lemma ik_ident ids h s ts : nmh h -> ik ids h (TIdent s :: ts) = true -> has_key s ids = true.
Proof.
  intros [H1 _] H. rewrite ik_cons in H. rewrite H1 in H. cbn [negb] in H.
  apply andb_prop in H. exact (proj1 H).
Qed.

Lemma parse_nud_P ids rec ts h e rest :
  Prec ids rec -> parse_nud rec ts = Ok (e, rest) -> nmh h -> ik ids h ts = true ->
  Pres ids h ts e rest.
Proof.
  intros HP H Hh Hik. pose proof Hh as [Hh1 Hh2].
  unfold parse_nud in H. destruct ts as [|t rest0]; [discriminate H|].
  destruct t as [d|f|s|z|b|m| |m]; try discriminate H.
  - (* parenthesis *)
    destruct d; try discriminate H.
    destruct (collect_paren 0 rest0) as [inner after] eqn:E.
    apply bind_ok_inv in H. destruct H as (e' & Hall & H). inversion H; subst.
    rewrite ik_cons in Hik. apply andb_prop in Hik. destruct Hik as [_ Hik].
    assert (Hh' : nmh (snd h, Some (TDel DLeftParen))) by (apply nmh_step; [exact Hh2 | reflexivity]).
    apply collect_paren_split in E. destruct E as [E|[E1 E2]].
    + subst rest0. rewrite ik_app in Hik. apply andb_prop in Hik. destruct Hik as [Hik1 Hik2].
      destruct (parse_all_P _ _ _ _ _ HP Hall Hh' Hik1) as [[_ Hn2] Hp].
      exists (TDel DLeftParen :: inner ++ [TDel DRightParen]). split; [|split].
      * cbn [app]. rewrite <- app_assoc. reflexivity.
      * cbn [adv]. rewrite adv_app. cbn [adv]. apply nmh_step; [exact Hn2 | reflexivity].
      * exact Hp.
    + subst rest0 rest.
      destruct (parse_all_P _ _ _ _ _ HP Hall Hh' Hik) as [Hn Hp].
      exists (TDel DLeftParen :: inner). split; [|split].
      * rewrite app_nil_r. reflexivity.
      * cbn [adv]. exact Hn.
      * exact Hp.
  - inversion H; subst. exists [TFloat f]. split; [reflexivity|]. split; [|reflexivity].
    cbn [adv]. apply nmh_step; [exact Hh2 | reflexivity].
  - inversion H; subst. exists [TIdent s]. split; [reflexivity|]. split.
    + cbn [adv]. apply nmh_step; [exact Hh2 | reflexivity].
    + cbn [pshape]. exact (ik_ident _ _ _ _ Hh Hik).
  - inversion H; subst. exists [TInt z]. split; [reflexivity|]. split; [|reflexivity].
    cbn [adv]. apply nmh_step; [exact Hh2 | reflexivity].
  - (* cast *)
    apply bind_ok_inv in H. destruct H as ([s r] & Hpi & H). inversion H; subst.
    apply paren_ident_inv in Hpi. subst rest0.
    exists [TMod m; TDel DLeftParen; TIdent s; TDel DRightParen].
    split; [reflexivity|]. split; [|reflexivity].
    cbn [adv snd]. split; reflexivity.
  - (* not *)
    apply bind_ok_inv in H. destruct H as ([rgt rest'] & Hr & H).
    destruct (negatable rgt) eqn:En; [|discriminate H]. inversion H; subst.
    rewrite ik_cons in Hik. apply andb_prop in Hik. destruct Hik as [_ Hik].
    assert (Hh' : nmh (snd h, Some TMiscNot)) by (apply nmh_step; [exact Hh2 | reflexivity]).
    destruct (HP _ _ _ _ _ Hr Hh' Hik) as (c & Hc & Hn & Hp).
    exists (TMiscNot :: c). split; [|split].
    + cbn [app]. rewrite Hc. reflexivity.
    + cbn [adv]. exact Hn.
    + cbn [pshape]. apply pshape_negatable; assumption.
  - (* all / of *)
    destruct m.
    + apply bind_ok_inv in H. destruct H as ([s r] & Hpi & H). inversion H; subst.
      apply paren_ident_inv in Hpi. subst rest0.
      exists [TMatch MSAll; TDel DLeftParen; TIdent s; TDel DRightParen].
      split; [reflexivity|]. split; [cbn [adv snd]; split; reflexivity|].
      cbn [pshape]. rewrite !ik_cons in Hik. cbn [fst snd nm is_tmod negb] in Hik.
      apply andb_prop in Hik. destruct Hik as [_ Hik].
      apply andb_prop in Hik. destruct Hik as [_ Hik].
      apply andb_prop in Hik. exact (proj1 Hik).
    + repeat match goal with
             | H : match ?x with _ => _ end = Ok _ |- _ => destruct x eqn:?; try discriminate H
             | H : (if ?x then _ else _) = Ok _ |- _ => destruct x eqn:?; try discriminate H
             end.
      inversion H; subst.
      match goal with
      | |- Pres _ _ (_ :: _ :: ?t :: _ :: ?c :: _ :: _) _ _ =>
          exists [TMatch MSOf; TDel DLeftParen; t; TDel DComma; c; TDel DRightParen]
      end.
      split; [reflexivity|]. split; [cbn [adv snd]; split; reflexivity|].
      cbn [pshape]. rewrite !ik_cons in Hik. cbn [fst snd nm is_tmod negb] in Hik.
      apply andb_prop in Hik. destruct Hik as [_ Hik].
      apply andb_prop in Hik. destruct Hik as [_ Hik].
      apply andb_prop in Hik. exact (proj1 Hik).
Qed.

Lemma led_check_pshape ids l s r e :
  pshape ids l = true -> pshape ids r = true -> led_check l s r = Ok e -> pshape ids e = true.
Proof.
  intros Hl Hr. unfold led_check.
  destruct s;
    repeat match goal with
           | |- (if ?x then _ else _) = Ok _ -> _ => destruct x eqn:?; try (intros H; discriminate H)
           end;
    intros H; inversion H; subst; cbn [pshape is_and_or_op]; try reflexivity.
  - rewrite !pshape_wf; try assumption; try reflexivity.
    + apply negb_false_iff; assumption.
    + apply negb_false_iff; assumption.
  - rewrite !pshape_wf; try assumption; try reflexivity.
    + apply negb_false_iff; assumption.
    + apply negb_false_iff; assumption.
Qed.

Lemma parse_led_P ids rec lft ts h e rest :
  Prec ids rec -> pshape ids lft = true -> parse_led rec lft ts = Ok (e, rest) -> nmh h ->
  ik ids h ts = true -> Pres ids h ts e rest.
Proof.
  intros HP Hl H Hh Hik. pose proof Hh as [Hh1 Hh2].
  unfold parse_led in H. destruct ts as [|t rest0]; [discriminate H|].
  destruct t as [d|f|s|z|b|m| |m]; try discriminate H.
  apply bind_ok_inv in H. destruct H as ([rgt rest'] & Hr & H).
  apply bind_ok_inv in H. destruct H as (e' & Hc & H). inversion H; subst.
  rewrite ik_cons in Hik. apply andb_prop in Hik. destruct Hik as [_ Hik].
  assert (Hh' : nmh (snd h, Some (TOp b))) by (apply nmh_step; [exact Hh2 | reflexivity]).
  destruct (HP _ _ _ _ _ Hr Hh' Hik) as (c & Hcc & Hn & Hp).
  exists (TOp b :: c). split; [|split].
  - cbn [app]. rewrite Hcc. reflexivity.
  - cbn [adv]. exact Hn.
  - exact (led_check_pshape _ _ _ _ _ Hl Hp Hc).
Qed.

Lemma parse_loop_P ids rec : Prec ids rec ->
  forall n rbp lft ts h e rest, pshape ids lft = true ->
    parse_loop rec n rbp lft ts = Ok (e, rest) -> nmh h -> ik ids h ts = true ->
    Pres ids h ts e rest.
Proof.
  intros HP. induction n as [|n IH]; intros rbp lft ts h e rest Hl H Hh Hik.
  - cbn [parse_loop] in H. destruct ts as [|next ts'].
    + inversion H; subst. exists []. split; [reflexivity|]. split; [exact Hh | exact Hl].
    + destruct (binding_power next <=? rbp)%N; [|discriminate H].
      inversion H; subst. exists []. split; [reflexivity|]. split; [exact Hh | exact Hl].
  - cbn [parse_loop] in H. destruct ts as [|next ts'].
    + inversion H; subst. exists []. split; [reflexivity|]. split; [exact Hh | exact Hl].
    + destruct (binding_power next <=? rbp)%N.
      { inversion H; subst. exists []. split; [reflexivity|]. split; [exact Hh | exact Hl]. }
      apply bind_ok_inv in H. destruct H as ([lft' rest1] & Hled & H).
      destruct (parse_led_P _ _ _ _ _ _ _ HP Hl Hled Hh Hik) as (c1 & Hc1 & Hn1 & Hp1).
      rewrite Hc1 in Hik. rewrite ik_app in Hik. apply andb_prop in Hik. destruct Hik as [_ Hik].
      destruct (IH _ _ _ _ _ _ Hp1 H Hn1 Hik) as (c2 & Hc2 & Hn2 & Hp2).
      exists (c1 ++ c2). split; [|split].
      * rewrite Hc1, Hc2. rewrite app_assoc. reflexivity.
      * rewrite adv_app. exact Hn2.
      * exact Hp2.
Qed.

Lemma parse_expr_P ids : forall n, Prec ids (parse_expr n).
Proof.
  induction n as [|n IH]; intros rbp ts h e rest H Hh Hik; [discriminate H|].
  cbn [parse_expr] in H.
  apply bind_ok_inv in H. destruct H as ([lft rest1] & Hnud & H).
  destruct (parse_nud_P _ _ _ _ _ _ IH Hnud Hh Hik) as (c1 & Hc1 & Hn1 & Hp1).
  rewrite Hc1 in Hik. rewrite ik_app in Hik. apply andb_prop in Hik. destruct Hik as [_ Hik].
  destruct (parse_loop_P _ _ IH _ _ _ _ _ _ _ Hp1 H Hn1 Hik) as (c2 & Hc2 & Hn2 & Hp2).
  exists (c1 ++ c2). split; [|split].
  - rewrite Hc1, Hc2. rewrite app_assoc. reflexivity.
  - rewrite adv_app. exact Hn2.
  - exact Hp2.
Qed.

Lemma parse_wf_cond ids ts e :
  parse ts = Ok e -> idents_known ids None None ts = true -> is_solvable e = true ->
  wf_cond ids e = true.
Proof.
  intros H Hik Hs. unfold parse in H.
  assert (Hh : nmh (None, None)) by (split; reflexivity).
  destruct (parse_all_P ids _ _ (None, None) _ (parse_expr_P ids _) H Hh Hik) as [_ Hp].
  apply pshape_wf; assumption.
Qed.

Lemma as_rule_err_ok {A} (x : out A) a : as_rule_err x = Ok a -> x = Ok a.
Proof. destruct x; cbn [as_rule_err]; intros H; try discriminate H. exact H. Qed.

Lemma load_entries_wf o ic : forall kv cond ids cond' ids',
  forallb (fun kv => wf_body (snd kv)) ids = true ->
  load_entries o ic kv cond ids = Ok (cond', ids') ->
  forallb (fun kv => wf_body (snd kv)) ids' = true.
Proof.
  induction kv as [|[k v] kv IH]; intros cond ids cond' ids' Hids H; cbn [load_entries] in H.
  - inversion H; subst. exact Hids.
  - destruct (untag k); try discriminate H.
    destruct (str_eqb s cond_key).
    + destruct (untag v); try discriminate H. exact (IH _ _ _ _ Hids H).
    + apply bind_ok_inv in H. destruct H as (e & He & H).
      apply as_rule_err_ok in He. apply parse_identifier_wf in He.
      refine (IH _ _ _ _ _ H).
      rewrite forallb_app. rewrite Hids. cbn [forallb snd]. rewrite He. reflexivity.
Qed.

Lemma load_detection_wf o ic y dt : load_detection o ic y = Ok dt -> wf_det dt = true.
Proof.
  unfold load_detection. intros H. destruct (untag y); try discriminate H.
  apply bind_ok_inv in H. destruct H as ([cond ids] & Hent & H).
  destruct cond as [raw|]; [|discriminate H].
  apply bind_ok_inv in H. destruct H as (ts & _ & H).
  destruct (idents_known ids None None ts) eqn:Eik; [|discriminate H]. cbn [negb] in H.
  apply bind_ok_inv in H. destruct H as (e & He & H). apply as_rule_err_ok in He.
  destruct (is_solvable e) eqn:Es; [|discriminate H]. inversion H; subst.
  unfold wf_det. cbn [d_expr d_ids].
  rewrite (parse_wf_cond _ _ _ He Eik Es). cbn [andb].
  exact (load_entries_wf _ _ _ _ [] _ _ eq_refl Hent).
Qed.

Lemma load_rule_det o ic y r : load_rule o ic y = Ok r ->
  exists d, load_detection o ic d = Ok (r_det r).
Proof.
  unfold load_rule. intros H. destruct (untag y); try discriminate H.
  apply bind_ok_inv in H. destruct H as (opt & _ & H).
  apply bind_ok_inv in H. destruct H as (det & Hdet & H).
  apply bind_ok_inv in H. destruct H as (tp & _ & H).
  apply bind_ok_inv in H. destruct H as (tn & _ & H).
  inversion H; subst. cbn [r_det].
  destruct (ylookup key_detection kv) as [d|]; [|discriminate Hdet].
  exists d. exact Hdet.
Qed.

Lemma load_wf : forall o ic y r, load_rule o ic y = Ok r -> wf_det (r_det r) = true.
Proof.
  intros o ic y r H. destruct (load_rule_det _ _ _ _ H) as [d Hd].
  exact (load_detection_wf _ _ _ _ Hd).
Qed.

Lemma validate_list_ok o r want :
  (forall d, exists b, matches o r d = Ok b) ->
  forall l i, exists res, validate_list o r want i l = Ok res.
Proof.
  intros Hm. induction l as [|y l IH]; intros i; cbn [validate_list].
  - eexists; reflexivity.
  - destruct (IH (i + 1)%Z) as [tl' ->].
    destruct (example_doc y) as [d|].
    + destruct (Hm d) as [b ->]. cbn [bind]. eexists; reflexivity.
    + cbn [bind]. eexists; reflexivity.
Qed.

Lemma loaded_rule_evaluates : forall o ic y r (d : doc),
  load_rule o ic y = Ok r ->
  (exists b, matches o r d = Ok b) /\ (exists l, validate o r = Ok l).
Proof.
  intros o ic y r d H. apply load_wf in H.
  assert (Hm : forall d, exists b, matches o r d = Ok b).
  { intros d0. unfold matches. destruct (solve_wf_no_panic o (r_det r) d0 H) as [x ->].
    cbn [bind]. eexists; reflexivity. }
  split; [apply Hm|].
  unfold validate.
  destruct (validate_list_ok o r true Hm (r_tp r) 0%Z) as [a ->].
  destruct (validate_list_ok o r false Hm (r_tn r) 1000%Z) as [b ->].
  cbn [bind]. eexists; reflexivity.
Qed.

Lemma d3_example :
  forall o, wf_cond [([65%N], ESearch SAny [102%N] false)] (EBexp (EIdent [65%N]) BAnd (EInt 1)) = false /\
  solve_cond o [([65%N], ESearch SAny [102%N] false)] (EBexp (EIdent [65%N]) BAnd (EInt 1))
             (pure_doc (fun _ => Some (VStr []))) = Panic 869.
Proof. intros o. split; reflexivity. Qed.
