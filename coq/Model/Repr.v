(* Representation independence (property C11): the same logical document can reach the
   solver with different signedness of its non-negative integers (YAML and JSON documents
   yield UInt for every non-negative integer, Rust signed types yield Int). *)
From TauModel Require Import Base Num Value Yaml.

(* same logical content *)
Inductive veq : value -> value -> Prop :=
| veq_null : veq VNull VNull
| veq_bool : forall b, veq (VBool b) (VBool b)
| veq_float : forall f, veq (VFloat f) (VFloat f)
| veq_str : forall s, veq (VStr s) (VStr s)
| veq_int : forall z, veq (VInt z) (VInt z)
| veq_uint : forall z, veq (VUInt z) (VUInt z)
| veq_int_uint : forall z, (0 <= z <= i64_max)%Z -> veq (VInt z) (VUInt z)
| veq_uint_int : forall z, (0 <= z <= i64_max)%Z -> veq (VUInt z) (VInt z)
| veq_arr : forall l l', Forall2 veq l l' -> veq (VArr l) (VArr l')
| veq_obj : forall kv kv',
    Forall2 (fun p q : str * value => fst p = fst q /\ veq (snd p) (snd q)) kv kv' ->
    veq (VObj kv) (VObj kv').

Definition opt_veq (a b : option value) : Prop :=
  match a, b with
  | None, None => True
  | Some x, Some y => veq x y
  | _, _ => False
  end.

(* two documents with the same logical content *)
Definition doc_veq (d d' : doc) : Prop := forall k, opt_veq (d k) (d' k).

(* what the Rust integer types give (value.rs:297-329): signed types Int, unsigned UInt *)
Definition prim_signed (z : Z) : value := VInt z.
Definition prim_unsigned (z : Z) : value := VUInt z.
