(* Interpreter for the comparison table that tools/gen_tables.py regenerates from the match
   `let res = match (x, *op, y) { .. }` of src/solver.rs (Model/GeneratedCmp.v holds the arms in
   source order).  Proofs/C09_table.v proves that the regenerated table, read with Rust's
   first-match semantics, IS Solver.compare_values -- so every C09 theorem about compare_values
   is re-checked against what the source says now.

   What the translator guarantees about an arm it accepts (else: "shape not recognised"):
   - the pattern is (Value::K(v) | _, BoolSym::Op, Value::K(v) | _) with K in Bool/Float/Int/UInt;
   - the guard is absent or `v <= i64::MAX as u64` for the variable v of a UInt side;
   - the body is `true`, `false`, or `l REL r` where l / r are the two bound variables, one of
     them cast `as i64` exactly when the kinds are UInt and Int, and then only under the guard on
     that variable (so the cast is the identity); same-kind arms carry no cast. *)
From TauModel Require Import Base Num Syntax Value.

Inductive vkind := KBool | KFloat | KInt | KUInt | KAny.
Inductive cguard := GNone | GLeft | GRight.
Inductive cbody := BTrue | BFalse | BRel (r : boolsym).
Definition cmp_arm : Type := (vkind * boolsym * vkind * cguard * cbody)%type.

Definition kind_matches (k : vkind) (v : value) : bool :=
  match k, v with
  | KAny, _ => true
  | KBool, VBool _ => true
  | KFloat, VFloat _ => true
  | KInt, VInt _ => true
  | KUInt, VUInt _ => true
  | _, _ => false
  end.
Definition guard_ok (g : cguard) (x y : value) : bool :=
  match g with
  | GNone => true
  | GLeft => match x with VUInt a => (a <=? i64_max)%Z | _ => false end
  | GRight => match y with VUInt b => (b <=? i64_max)%Z | _ => false end
  end.
Definition z_rel (r : boolsym) (a b : Z) : bool :=
  match r with
  | BEqual => (a =? b)%Z
  | BGreaterThan => (b <? a)%Z
  | BGreaterThanOrEqual => (b <=? a)%Z
  | BLessThan => (a <? b)%Z
  | BLessThanOrEqual => (a <=? b)%Z
  | _ => false
  end.
Definition f_rel (r : boolsym) (a b : fbits) : bool :=
  match r with
  | BEqual => f_eq a b
  | BGreaterThan => f_gt a b
  | BGreaterThanOrEqual => f_ge a b
  | BLessThan => f_lt a b
  | BLessThanOrEqual => f_le a b
  | _ => false
  end.
(* Rust's operator on the two bound values (casts are the identity under their guards) *)
Definition rel_eval (r : boolsym) (x y : value) : bool :=
  match x, y with
  | VBool a, VBool b => match r with BEqual => Bool.eqb a b | _ => false end
  | VFloat a, VFloat b => f_rel r a b
  | VInt a, VInt b | VInt a, VUInt b | VUInt a, VInt b | VUInt a, VUInt b => z_rel r a b
  | _, _ => false
  end.
Definition body_eval (b : cbody) (x y : value) : bool :=
  match b with BTrue => true | BFalse => false | BRel r => rel_eval r x y end.
Definition boolsym_eqb (a b : boolsym) : bool :=
  match a, b with
  | BAnd, BAnd | BEqual, BEqual | BGreaterThan, BGreaterThan
  | BGreaterThanOrEqual, BGreaterThanOrEqual | BLessThan, BLessThan
  | BLessThanOrEqual, BLessThanOrEqual | BOr, BOr => true
  | _, _ => false
  end.

(* first arm that matches, as Rust's `match`; None = the final `_ => unreachable!()` *)
Fixpoint eval_arms (arms : list cmp_arm) (x : value) (op : boolsym) (y : value) : option bool :=
  match arms with
  | [] => None
  | (kl, o, kr, g, b) :: rest =>
      if boolsym_eqb o op && kind_matches kl x && kind_matches kr y && guard_ok g x y
      then Some (body_eval b x y)
      else eval_arms rest x op y
  end.
