(* The iteration order of the optimiser's maps since fix D22 (BTreeMap): Rust's Ord on the keys.
   Needle / pattern maps are keyed by (field, cast, insensitive) -- encoded by the model as
   cast :: insensitive :: field (Optimiser.key3) --, nested / column maps by the field name.
   Strings compare by code point (= UTF-8 byte order).  The two key shapes are told apart by
   their first two elements (flags are 0 / 1); a field name that itself begins with two
   characters of code <= 1 would be ambiguous (the runner never sees one).
   Proofs/C12_order.v: rust_ord is a permutation, so every theorem that quantifies over
   permutation orders applies to the order the crate really uses. *)
From TauModel Require Import Base Num Syntax Optimiser.

Definition is_flag (x : N) : bool := (x <=? 1)%N.
Definition is_key3 (k : key) : bool :=
  match k with a :: b :: _ => is_flag a && is_flag b | _ => false end.

Definition key3_ltb (k1 k2 : key) : bool :=
  let f1 := key3_field k1 in let f2 := key3_field k2 in
  str_ltb f1 f2 ||
  (str_eqb f1 f2 &&
   (bool_ltb (key3_cast k1) (key3_cast k2) ||
    (Bool.eqb (key3_cast k1) (key3_cast k2) && bool_ltb (key3_ci k1) (key3_ci k2)))).

Definition rust_ord : hord := fun ks =>
  match ks with
  | [] => []
  | _ => if forallb is_key3 ks then sort_by key3_ltb ks else sort_by str_ltb ks
  end.
