(* Reference semantics of field paths (property C10): the three-line descent the
   documentation describes, independent of the string handling of Object::find. *)
From TauModel Require Import Base Num Value.

(* a path segment: a name and an optional array index *)
Definition seg := (str * option N)%type.

Definition name_char_ok (x : chr) : bool :=
  negb (N.eqb x ch_dot || N.eqb x ch_lb || N.eqb x ch_rb).
Definition name_ok (n : str) : bool := forallb name_char_ok n.

Definition seg_ok (s : seg) : Prop :=
  name_ok (fst s) = true /\
  match snd s with Some i => (Z.of_N i <= u64_max)%Z | None => True end.

Definition render_seg (s : seg) : str :=
  match snd s with
  | None => fst s
  | Some i => fst s ++ [ch_lb] ++ show_N i ++ [ch_rb]
  end.

Definition render_path (p : list seg) : str := join_with [ch_dot] (map render_seg p).

(* one step of the descent from a value *)
Definition resolve_step (cur : value) (s : seg) : option value :=
  match cur with
  | VObj kv =>
      match snd s with
      | None => lookup (fst s) kv
      | Some i => match lookup (fst s) kv with
                  | Some (VArr a) => nth_error a (N.to_nat i)
                  | _ => None
                  end
      end
  | _ => None
  end.

Fixpoint resolve_from (cur : value) (p : list seg) : option value :=
  match p with
  | [] => Some cur
  | s :: rest => match resolve_step cur s with
                 | Some v => resolve_from v rest
                 | None => None
                 end
  end.

Definition resolve (root : list (str * value)) (p : list seg) : option value :=
  resolve_from (VObj root) p.
