(* Reading of the value-kind dispatch of the string searches that tools/gen_tables.py regenerates
   from the five `match (value, c | cast) { .. }` blocks of src/solver.rs (the Search arm of
   solve_expression and the four copies in match_all / match_of): which value kinds a search looks
   at directly, which only under a str() cast, and which element kinds of an array are turned into
   text under the cast.  Model/GeneratedCast.v holds the five copies; Proofs/C02_cast.v proves each
   equal to the dispatch the model uses (Solver.cast_text / search_value / array_texts). *)
From TauModel Require Import Base Num Oracles Syntax Value Solver.

Inductive skind := SKString | SKArray | SKBool | SKFloat | SKInt | SKUInt.
(* (kind, the arm requires the cast flag) in source order, and the element kinds stringified *)
Definition str_dispatch : Type := (list (skind * bool) * list skind)%type.

Definition skind_of (v : value) : option skind :=
  match v with
  | VStr _ => Some SKString | VArr _ => Some SKArray | VBool _ => Some SKBool
  | VFloat _ => Some SKFloat | VInt _ => Some SKInt | VUInt _ => Some SKUInt
  | _ => None
  end.
Definition skind_eqb (a b : skind) : bool :=
  match a, b with
  | SKString, SKString | SKArray, SKArray | SKBool, SKBool | SKFloat, SKFloat | SKInt, SKInt | SKUInt, SKUInt => true
  | _, _ => false
  end.
(* a value reaches an arm (first match) under cast flag c *)
Definition reaches_arm (d : str_dispatch) (v : value) (c : bool) : bool :=
  match skind_of v with
  | Some k => existsb (fun a : skind * bool => skind_eqb (fst a) k && (negb (snd a) || c)) (fst d)
  | None => false
  end.
Definition element_stringified (d : str_dispatch) (v : value) : bool :=
  match skind_of v with Some k => existsb (skind_eqb k) (snd d) | None => false end.
