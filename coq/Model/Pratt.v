(* The Pratt parser of conditions and mapping keys (parser.rs:180-742, with fix D3). *)
From TauModel Require Import Base Num Syntax Generated Token.

Definition token_is_lp (t : token) : bool :=
  match t with TDel DLeftParen => true | _ => false end.
Definition token_is_rp (t : token) : bool :=
  match t with TDel DRightParen => true | _ => false end.

(* parser.rs:354-366: tokens up to the matching right parenthesis (not included), and what
   follows it; if there is no matching one everything is taken *)
Fixpoint collect_paren (depth : nat) (ts : list token) : list token * list token :=
  match ts with
  | [] => ([], [])
  | t :: rest =>
      if token_is_lp t then
        let (a, b) := collect_paren (S depth) rest in (t :: a, b)
      else if token_is_rp t then
        match depth with
        | O => ([], rest)
        | S d => let (a, b) := collect_paren d rest in (t :: a, b)
        end
      else let (a, b) := collect_paren depth rest in (t :: a, b)
  end.

Definition negatable (e : expr) : bool :=
  match e with
  | EGroup _ _ | EBexp _ _ _ | EBool _ | EIdent _ | EMatch _ _ | ENegate _ | ENested _ _
  | ESearch _ _ _ => true
  | _ => false
  end.

Definition eq_operand (e : expr) : bool :=
  match e with EBool _ | ECast _ _ | EFloat _ | EInt _ => true | _ => false end.
Definition ord_operand (e : expr) : bool :=
  match e with ECast _ _ | EFloat _ | EInt _ => true | _ => false end.

Definition types_ok (eq : bool) (l r : expr) : bool :=
  match l, r with
  | ECast _ MFlt, ECast _ MFlt => true
  | ECast _ MInt, ECast _ MInt => true
  | ECast _ MStr, ECast _ MStr => eq
  | ECast _ MFlt, EFloat _ => true
  | EFloat _, ECast _ MFlt => true
  | ECast _ MInt, EInt _ => true
  | EInt _, ECast _ MInt => true
  | _, _ => false
  end.

(* the checks of parse_led once both operands are known (parser.rs:220-333) *)
Definition led_check (l : expr) (s : boolsym) (r : expr) : out expr :=
  match s with
  | BEqual =>
      if negb (eq_operand l) then Err ELedPreceding
      else if negb (eq_operand r) then Err ELedFollowing
      else if negb (types_ok true l r) then Err EInvalidExpr
      else Ok (EBexp l s r)
  | BGreaterThan | BGreaterThanOrEqual | BLessThan | BLessThanOrEqual =>
      if negb (ord_operand l) then Err ELedPreceding
      else if negb (ord_operand r) then Err ELedFollowing
      else if negb (types_ok false l r) then Err EInvalidExpr
      else Ok (EBexp l s r)
  | BAnd | BOr =>
      if negb (is_solvable l) then Err ELedPreceding
      else if negb (is_solvable r) then Err ELedFollowing
      else Ok (EBexp l s r)
  end.

Definition parser := N -> list token -> out (expr * list token).

(* parser.rs:180 `parse`: everything must be consumed *)
Definition parse_all (rec : parser) (ts : list token) : out expr :=
  do r <- rec 0%N ts;
  let '(e, rest) := r in
  match rest with [] => Ok e | _ => Err EInvalidExpr end.

(* `kw ( ident )` *)
Definition paren_ident (ts : list token) : out (str * list token) :=
  match ts with
  | TDel DLeftParen :: tok :: TDel DRightParen :: rest =>
      match tok with TIdent s => Ok (s, rest) | _ => Err EInvalidToken end
  | _ => Err EInvalidToken
  end.

Definition parse_nud (rec : parser) (ts : list token) : out (expr * list token) :=
  match ts with
  | [] => Err EInvalidToken
  | t :: rest =>
      match t with
      | TDel DLeftParen =>
          let (inner, after) := collect_paren 0 rest in
          do e <- parse_all rec inner; Ok (e, after)
      | TDel _ => Err EInvalidToken
      | TFloat f => Ok (EFloat f, rest)
      | TIdent s => Ok (EIdent s, rest)
      | TInt z => Ok (EInt z, rest)
      | TMiscNot =>
          do r <- rec bp_not rest;
          let '(rgt, rest') := r in
          if negatable rgt then Ok (ENegate rgt, rest') else Err EInvalidToken
      | TMod m =>
          do r <- paren_ident rest;
          let '(s, rest') := r in Ok (ECast s m, rest')
      | TMatch MSAll =>
          do r <- paren_ident rest;
          let '(s, rest') := r in Ok (EMatch MAll (EIdent s), rest')
      | TMatch MSOf =>
          match rest with
          | TDel DLeftParen :: tok :: TDel DComma :: TInt c :: TDel DRightParen :: rest' =>
              if (c <? 0)%Z then Err EInvalidToken
              else match tok with
                   | TIdent s => Ok (EMatch (MOf c) (EIdent s), rest')
                   | _ => Err EInvalidToken
                   end
          | _ => Err EInvalidToken
          end
      | TOp _ => Err EInvalidToken
      end
  end.

Definition parse_led (rec : parser) (lft : expr) (ts : list token)
  : out (expr * list token) :=
  match ts with
  | [] => Err EInvalidToken
  | t :: rest =>
      match t with
      | TOp s =>
          do r <- rec (binding_power t) rest;
          let '(rgt, rest') := r in
          do e <- led_check lft s rgt;
          Ok (e, rest')
      | _ => Err EInvalidToken
      end
  end.

(* the `while let Some(&next) = it.peek()` loop of parse_expr *)
Fixpoint parse_loop (rec : parser) (n : nat) (rbp : N) (lft : expr) (ts : list token)
  : out (expr * list token) :=
  match ts with
  | [] => Ok (lft, [])
  | next :: _ =>
      if (binding_power next <=? rbp)%N then Ok (lft, ts)
      else match n with
           | O => Panic 0
           | S n' =>
               do r <- parse_led rec lft ts;
               let '(lft', rest) := r in
               parse_loop rec n' rbp lft' rest
           end
  end.

(* parse_expr with fuel; Proofs/PrattTotal.v shows S (length ts) suffices *)
Fixpoint parse_expr (fuel : nat) (rbp : N) (ts : list token) : out (expr * list token) :=
  match fuel with
  | O => Panic 0
  | S f =>
      do r <- parse_nud (parse_expr f) ts;
      let '(lft, rest) := r in
      parse_loop (parse_expr f) (length rest) rbp lft rest
  end.

Definition parse (ts : list token) : out expr :=
  parse_all (parse_expr (S (length ts))) ts.
