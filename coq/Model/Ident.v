(* Identifier patterns: String::into_identifier (identifier.rs:53-173, with fixes D5 and
   D12).  `ic` is the `ignore_case` cargo feature. *)
From TauModel Require Import Base Num Oracles Syntax.

Inductive pattern :=
| PAny
| PContains (s : str)
| PEndsWith (s : str)
| PExact (s : str)
| PStartsWith (s : str)
| PRegex (pat : str)
| PEqual (z : Z) | PGreaterThan (z : Z) | PGreaterThanOrEqual (z : Z)
| PLessThan (z : Z) | PLessThanOrEqual (z : Z)
| PFEqual (f : fbits) | PFGreaterThan (f : fbits) | PFGreaterThanOrEqual (f : fbits)
| PFLessThan (f : fbits) | PFLessThanOrEqual (f : fbits).

Record identifier := { id_ci : bool; id_pat : pattern }.

Section Ident.
Variable o : oracles.
Variable ic : bool.

Definition first_is (x : chr) (s : str) : bool :=
  match s with y :: _ => N.eqb x y | [] => false end.
Definition last_is (x : chr) (s : str) : bool :=
  match last_opt s with Some y => N.eqb x y | None => false end.

(* &string[1..string.len() - 1] (identifier.rs:133,156): the slice panics unless the string
   has at least two characters (its first and last characters are ASCII here, so byte and
   character positions agree) *)
Definition slice_inner (s : str) : out str :=
  if (length s <? 2)%nat then Panic 133 else Ok (removelast (tl s)).

Definition fold_case (ci : bool) (s : str) : str := if ci then str_ascii_lower s else s.

(* the numeric arms: `s.contains('.')` selects the float parser *)
Definition num_pattern (mk_i : Z -> pattern) (mk_f : fbits -> pattern) (s : str) : out pattern :=
  if str_contains_char ch_dot s then
    match f64_parse o s with Some f => Ok (mk_f f) | None => Err EInvalidIdent end
  else
    match parse_i64 s with Some z => Ok (mk_i z) | None => Err EInvalidIdent end.

Definition into_identifier (s0 : str) : out identifier :=
  let '(ci, s) :=
    if ic then (true, s0)
    else match s0 with
         | x :: s' => if N.eqb x ch_i then (true, s') else (false, s0)
         | [] => (false, s0)
         end in
  do p <-
    match strip_prefix [ch_qmark] s with
    | Some re => if re_valid o re ci then Ok (PRegex re) else Err EInvalidIdent
    | None =>
    match strip_prefix [ch_gt; ch_eq] s with
    | Some r => num_pattern PGreaterThanOrEqual PFGreaterThanOrEqual r
    | None =>
    match strip_prefix [ch_gt] s with
    | Some r => num_pattern PGreaterThan PFGreaterThan r
    | None =>
    match strip_prefix [ch_lt; ch_eq] s with
    | Some r => num_pattern PLessThanOrEqual PFLessThanOrEqual r
    | None =>
    match strip_prefix [ch_lt] s with
    | Some r => num_pattern PLessThan PFLessThan r
    | None =>
    match strip_prefix [ch_eq] s with
    | Some r => num_pattern PEqual PFEqual r
    | None =>
      if str_eqb s [ch_star] then Ok PAny
      else if first_is ch_star s && last_is ch_star s then
        (do x <- slice_inner s; Ok (PContains (fold_case ci x)))
      else match strip_prefix [ch_star] s with
      | Some r => Ok (PEndsWith (fold_case ci r))
      | None =>
      match strip_suffix [ch_star] s with
      | Some r => Ok (PStartsWith (fold_case ci r))
      | None =>
        if (1 <? length s)%nat
           && ((first_is ch_quote s && last_is ch_quote s)
               || (first_is ch_squote s && last_is ch_squote s))
        then (do x <- slice_inner s; Ok (PExact (fold_case ci x)))
        else Ok (PExact (fold_case ci s))
      end end
    end end end end end end;
  Ok {| id_ci := ci; id_pat := p |}.

End Ident.
