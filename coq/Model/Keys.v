(* The document keys a rule names (property C16) and the shape of an evaluable rule
   (property C03).  Specification-level definitions, no proofs. *)
From TauModel Require Import Base Num Oracles Syntax Value Solver Rule.

(* the keys the solver may present to the document it is given: the fields of searches and
   comparisons, the field of a nested block (its inner keys go to the nested object, not to
   this document), and the real column names of a matrix (never its synthetic cell keys) *)
Fixpoint expr_keys (e : expr) : list str :=
  match e with
  | EGroup _ l => flat_map expr_keys l
  | EBexp l _ r => expr_keys l ++ expr_keys r
  | ECast f _ | EField f => [f]
  | EMatch _ e' => expr_keys e'
  | EMatrix cols _ => cols
  | ENegate e' => expr_keys e'
  | ENested f _ => [f]
  | ESearch _ f _ => [f]
  | _ => []
  end.

Definition rule_keys (dt : detection) : list str :=
  expr_keys (d_expr dt) ++ flat_map (fun kv => expr_keys (snd kv)) (d_ids dt).

Definition key_in (k : str) (ks : list str) : bool := existsb (str_eqb k) ks.

(* a document that refuses (panics) on every key outside ks: if solving with it gives the
   same result as solving with the plain document, the solver never asked for another key *)
Definition guard_doc (ks : list str) (d : doc) : docq :=
  fun k => if key_in k ks then Ok (d k) else Panic 999.

(* ---- evaluable shapes (C03) ---- *)
Definition is_and_or_op (s : boolsym) : bool := match s with BAnd | BOr => true | _ => false end.

(* identifier bodies: identifier-free predicates *)
Fixpoint wf_body (e : expr) : bool :=
  match e with
  | EGroup s l => is_and_or_op s && forallb wf_body l
  | EBexp l s r => if is_and_or_op s then wf_body l && wf_body r else true
  | EMatch _ e' => wf_body e'
  | ENegate e' => wf_body e'
  | ENested _ e' => wf_body e'
  | ESearch _ _ _ => true
  | _ => false
  end.

(* conditions: predicates over known identifiers *)
Fixpoint wf_cond (ids : list (str * expr)) (e : expr) : bool :=
  match e with
  | EGroup s l => is_and_or_op s && forallb (wf_cond ids) l
  | EBexp l s r => if is_and_or_op s then wf_cond ids l && wf_cond ids r else true
  | EIdent i => has_key i ids
  | EMatch _ e' => wf_cond ids e'
  | ENegate e' => wf_cond ids e'
  | ENested _ e' => wf_cond ids e'
  | ESearch _ _ _ => true
  | _ => false
  end.

Definition wf_det (dt : detection) : bool :=
  wf_cond (d_ids dt) (d_expr dt) && forallb (fun kv => wf_body (snd kv)) (d_ids dt).
