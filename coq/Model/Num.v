(* Numbers: 64-bit integer ranges, decimal text of integers, Rust's integer parsers,
   and binary64 floats (Flocq) addressed by their bit pattern.  No proofs here. *)
From Coq Require Import DecimalN DecimalString.
From Flocq Require IEEE754.BinarySingleNaN.
From Flocq Require Import IEEE754.Binary IEEE754.Bits Core.Zaux.
From TauModel Require Import Base.

Local Open Scope Z_scope.

Definition i64_min : Z := - 9223372036854775808.
Definition i64_max : Z := 9223372036854775807.
Definition u64_max : Z := 18446744073709551615.
Definition in_i64 (z : Z) : bool := (i64_min <=? z) && (z <=? i64_max).
Definition in_u64 (z : Z) : bool := (0 <=? z) && (z <=? u64_max).

(* ---- decimal text (i64::to_string, u64::to_string) ---- *)
Fixpoint uint_digits (u : Decimal.uint) : str :=
  match u with
  | Decimal.Nil => []
  | Decimal.D0 u => 48%N :: uint_digits u
  | Decimal.D1 u => 49%N :: uint_digits u
  | Decimal.D2 u => 50%N :: uint_digits u
  | Decimal.D3 u => 51%N :: uint_digits u
  | Decimal.D4 u => 52%N :: uint_digits u
  | Decimal.D5 u => 53%N :: uint_digits u
  | Decimal.D6 u => 54%N :: uint_digits u
  | Decimal.D7 u => 55%N :: uint_digits u
  | Decimal.D8 u => 56%N :: uint_digits u
  | Decimal.D9 u => 57%N :: uint_digits u
  end.

Definition show_N (n : N) : str := uint_digits (N.to_uint n).
Definition show_Z (z : Z) : str :=
  if z <? 0 then ch_minus :: show_N (Z.abs_N z) else show_N (Z.abs_N z).

Definition show_bool (b : bool) : str :=
  if b then [116; 114; 117; 101]%N else [102; 97; 108; 115; 101]%N.

(* ---- Rust integer parsers (core::num  from_str_radix, radix 10) ---- *)
Fixpoint digits_val (acc : Z) (s : str) : option Z :=
  match s with
  | [] => Some acc
  | x :: s' => if is_ascii_digit x
               then digits_val (acc * 10 + (Z.of_N x - 48)) s'
               else None
  end.

Definition parse_digits (s : str) : option Z :=
  match s with [] => None | _ => digits_val 0 s end.

(* "<i64 as FromStr>::from_str": optional '+' or '-', at least one digit, range check *)
Definition parse_i64 (s : str) : option Z :=
  match s with
  | [] => None
  | x :: s' =>
      let r := if N.eqb x ch_minus then option_map Z.opp (parse_digits s')
               else if N.eqb x ch_plus then parse_digits s'
               else parse_digits s in
      match r with
      | Some z => if in_i64 z then Some z else None
      | None => None
      end
  end.

(* "<usize as FromStr>::from_str" on a 64-bit target: optional '+', no '-' *)
Definition parse_usize (s : str) : option Z :=
  match s with
  | [] => None
  | x :: s' =>
      let r := if N.eqb x ch_plus then parse_digits s' else parse_digits s in
      match r with
      | Some z => if in_u64 z then Some z else None
      | None => None
      end
  end.

(* ---- binary64 ---- *)
Definition fbits := Z.          (* a float is carried as its 64-bit pattern *)

Definition prec64_gt_0 : (0 < 53) := eq_refl.
Definition prec64_lt_emax : (53 < 1024) := eq_refl.

Definition fcmp (a b : fbits) : option comparison :=
  b64_compare (b64_of_bits a) (b64_of_bits b).

Definition f_eq (a b : fbits) : bool :=
  match fcmp a b with Some Eq => true | _ => false end.
Definition f_lt (a b : fbits) : bool :=
  match fcmp a b with Some Lt => true | _ => false end.
Definition f_gt (a b : fbits) : bool :=
  match fcmp a b with Some Gt => true | _ => false end.
Definition f_le (a b : fbits) : bool :=
  match fcmp a b with Some Lt | Some Eq => true | _ => false end.
Definition f_ge (a b : fbits) : bool :=
  match fcmp a b with Some Gt | Some Eq => true | _ => false end.

(* `x as f64` for an integer: round to nearest, ties to even *)
Definition f64_of_Z (z : Z) : fbits :=
  bits_of_b64 (binary_normalize 53 1024 prec64_gt_0 prec64_lt_emax BinarySingleNaN.mode_NE z 0 false).

(* f64::round() : nearest integer, ties away from zero, as an exact integer;
   None for NaN and the infinities *)
Definition f64_round_Z (a : fbits) : option Z :=
  match b64_of_bits a with
  | B754_zero _ _ _ => Some 0
  | B754_infinity _ _ _ => None
  | B754_nan _ _ _ _ _ => None
  | B754_finite _ _ s m e _ =>
      let mag :=
        if 0 <=? e then Zpos m * 2 ^ e
        else let d := 2 ^ (- e) in
             let q := Zpos m / d in
             let r := Zpos m mod d in
             if d <=? 2 * r then q + 1 else q in
      Some (if s then - mag else mag)
  end.

(* int() of a float after fix D7 (solver.rs): r = x.round(); convertible iff
   -2^63 <= r < 2^63 ; NaN and the infinities are not convertible *)
Definition f64_to_i64 (a : fbits) : option Z :=
  match f64_round_Z a with
  | Some z => if in_i64 z then Some z else None
  | None => None
  end.

Definition f64_one : fbits := 4607182418800017408.   (* 1.0 *)
Definition f64_zero : fbits := 0.                    (* +0.0 *)
