(* Reference grammar of conditions (property C05), written from the documentation:

     andx ::= orx  { "and" orx }          left-associative, loosest
     orx  ::= cmp  { "or"  cmp }          left-associative, tighter than and
     cmp  ::= un [ ("=="|">"|">="|"<"|"<=") un ]     tighter than or, not chained
     un   ::= atom | "not" un             not applies to the single operand that follows
     atom ::= identifier | integer | float
            | ("int"|"flt"|"str"|"not") "(" identifier ")"
            | "all" "(" identifier ")" | "of" "(" identifier "," integer ")"
            | "(" andx ")"

   with the operand-kind side conditions of the language (and/or/not take predicates,
   comparisons take casts and constants of matching kind).  It is a relation between token
   lists and expression trees, independent of the Pratt parser. *)
From TauModel Require Import Base Num Syntax Pratt.

Notation LP := (TDel DLeftParen).
Notation RP := (TDel DRightParen).

Definition is_cmp_op (o : boolsym) : bool :=
  match o with BAnd | BOr => false | _ => true end.

Inductive g_atom : list token -> expr -> Prop :=
| GA_id : forall s, g_atom [TIdent s] (EIdent s)
| GA_int : forall z, g_atom [TInt z] (EInt z)
| GA_float : forall f, g_atom [TFloat f] (EFloat f)
| GA_cast : forall m s, g_atom [TMod m; LP; TIdent s; RP] (ECast s m)
| GA_all : forall s, g_atom [TMatch MSAll; LP; TIdent s; RP] (EMatch MAll (EIdent s))
| GA_of : forall s c, (0 <= c)%Z ->
    g_atom [TMatch MSOf; LP; TIdent s; TDel DComma; TInt c; RP] (EMatch (MOf c) (EIdent s))
| GA_paren : forall ts e, g_and ts e -> g_atom (LP :: ts ++ [RP]) e

with g_un : list token -> expr -> Prop :=
| GU_atom : forall ts e, g_atom ts e -> g_un ts e
| GU_not : forall ts e, g_un ts e -> negatable e = true -> g_un (TMiscNot :: ts) (ENegate e)

with g_cmp : list token -> expr -> Prop :=
| GC_un : forall ts e, g_un ts e -> g_cmp ts e
| GC_cmp : forall ts1 e1 o ts2 e2 e,
    g_un ts1 e1 -> g_un ts2 e2 -> is_cmp_op o = true ->
    led_check e1 o e2 = Ok e ->
    g_cmp (ts1 ++ TOp o :: ts2) e

with g_or : list token -> expr -> Prop :=
| GO_cmp : forall ts e, g_cmp ts e -> g_or ts e
| GO_or : forall ts1 e1 ts2 e2,
    g_or ts1 e1 -> g_cmp ts2 e2 -> is_solvable e1 = true -> is_solvable e2 = true ->
    g_or (ts1 ++ TOp BOr :: ts2) (EBexp e1 BOr e2)

with g_and : list token -> expr -> Prop :=
| GN_or : forall ts e, g_or ts e -> g_and ts e
| GN_and : forall ts1 e1 ts2 e2,
    g_and ts1 e1 -> g_or ts2 e2 -> is_solvable e1 = true -> is_solvable e2 = true ->
    g_and (ts1 ++ TOp BAnd :: ts2) (EBexp e1 BAnd e2).

(* words over the identifier alphabet that start with a letter *)
Definition word_char (x : chr) : bool :=
  is_ascii_alpha x || is_ascii_digit x || N.eqb x ch_us.
Definition is_word (w : str) : bool :=
  match w with
  | x :: _ => is_ascii_alpha x && forallb word_char w
  | [] => false
  end.

Definition kw_and : str := [97; 110; 100]%N.
Definition kw_or : str := [111; 114]%N.
Definition kw_not : str := [110; 111; 116]%N.
