(* Interpreter for the pattern dispatch chain that tools/gen_tables.py regenerates from
   `String::into_identifier` of src/identifier.rs (Model/GeneratedIdent.v holds the arms of the
   `let pattern = if .. else if .. else ..` chain in source order and the case prefix).
   Proofs/C07_table.v proves that the regenerated chain, read as Rust's if/else-if, IS
   Ident.into_identifier -- so the pattern theorems of C07 / C02 / C15 are re-checked against what
   the source says now.

   What the translator guarantees about an arm it accepts (else: "shape not recognised"):
   - the test is `let Some(s) = string.strip_prefix(LIT)`, `.. strip_suffix(LIT)`, `string == LIT`,
     `string.starts_with(A) && string.ends_with(B)`, the quoted test `string.len() > 1 &&
     ((starts_with(q) && ends_with(q)) || ..)`, or the final `else`;
   - the body is the regex arm (`RegexBuilder::new(s).case_insensitive(insensitive)`), a numeric
     arm (`if s.contains('.') { Pattern::F<K>(s.parse::<f64>()?) } else { Pattern::<K>(s.parse::<i64>()?) }`,
     both with the SAME K), `Pattern::Any`, or a string arm `Pattern::<K>(x)` where x is the
     ASCII-lower-cased (when insensitive) copy of the stripped rest `s`, of the whole `string`, or
     of the inner slice `string[1..string.len() - 1]`. *)
From TauModel Require Import Base Num Oracles Syntax Ident.

Inductive itest :=
| TPrefix (p : str) | TSuffix (p : str) | TEq (p : str)
| TStartsEnds (a b : chr) | TQuoted (qs : list chr) | TElse.
Inductive isrc := SInner | SStripped | SWhole.
Inductive cmpk := KEq | KGt | KGe | KLt | KLe.
Inductive strk := KContains | KEndsWith | KStartsWith | KExact.
Inductive ibody := BRegex | BNum (k : cmpk) | BAny | BStr (k : strk) (src : isrc).
Definition ident_arm : Type := (itest * ibody)%type.

Section IdentTable.
Variable o : oracles.

(* Some r: the test holds, r is what the arm binds as `s` (the stripped rest, or the string) *)
Definition run_test (t : itest) (s : str) : option str :=
  match t with
  | TPrefix p => strip_prefix p s
  | TSuffix p => strip_suffix p s
  | TEq p => if str_eqb s p then Some s else None
  | TStartsEnds a b => if first_is a s && last_is b s then Some s else None
  | TQuoted qs =>
      if (1 <? length s)%nat && existsb (fun q => first_is q s && last_is q s) qs then Some s else None
  | TElse => Some s
  end.
Definition mk_int (k : cmpk) : Z -> pattern :=
  match k with KEq => PEqual | KGt => PGreaterThan | KGe => PGreaterThanOrEqual
             | KLt => PLessThan | KLe => PLessThanOrEqual end.
Definition mk_flt (k : cmpk) : fbits -> pattern :=
  match k with KEq => PFEqual | KGt => PFGreaterThan | KGe => PFGreaterThanOrEqual
             | KLt => PFLessThan | KLe => PFLessThanOrEqual end.
Definition mk_str (k : strk) : str -> pattern :=
  match k with KContains => PContains | KEndsWith => PEndsWith | KStartsWith => PStartsWith | KExact => PExact end.
Definition run_body (b : ibody) (ci : bool) (whole r : str) : out pattern :=
  match b with
  | BRegex => if re_valid o r ci then Ok (PRegex r) else Err EInvalidIdent
  | BNum k => num_pattern o (mk_int k) (mk_flt k) r
  | BAny => Ok PAny
  | BStr k SInner => do x <- slice_inner whole; Ok (mk_str k (fold_case ci x))
  | BStr k SStripped => Ok (mk_str k (fold_case ci r))
  | BStr k SWhole => Ok (mk_str k (fold_case ci whole))
  end.
(* first arm whose test holds, as Rust's if / else if; the chain the translator accepts ends in
   TElse, so the empty rest is never reached *)
Fixpoint eval_chain (arms : list ident_arm) (ci : bool) (s : str) : out pattern :=
  match arms with
  | [] => Err EInvalidIdent
  | (t, b) :: rest =>
      match run_test t s with
      | Some r => run_body b ci s r
      | None => eval_chain rest ci s
      end
  end.

(* the whole function: case prefix (or the ignore_case feature), then the chain *)
Definition into_identifier_gen (ic : bool) (prefix : str) (arms : list ident_arm) (s0 : str) : out identifier :=
  let '(ci, s) :=
    if ic then (true, s0)
    else match strip_prefix prefix s0 with Some s' => (true, s') | None => (false, s0) end in
  do p <- eval_chain arms ci s;
  Ok {| id_ci := ci; id_pat := p |}.
End IdentTable.
