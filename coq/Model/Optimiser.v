(* The optimiser (optimiser.rs with fix D4; Rule::optimise, rule.rs:487).
   HashMap iteration order is an input: every loop over a std HashMap asks the oracle
   `ord` in which order the keys come out.  Re-entrant passes (shake_0, shake_1) run on
   fuel and return their input unchanged when it runs out. *)
From TauModel Require Import Base Num Oracles Syntax Solver Rule.

Definition key := list N.
Definition hord := list key -> list key.

Definition key3 (f : str) (cast ci : bool) : key :=
  (if cast then 1%N else 0%N) :: (if ci then 1%N else 0%N) :: f.
Definition key3_field (k : key) : str := match k with _ :: _ :: f => f | _ => [] end.
Definition key3_cast (k : key) : bool := match k with x :: _ => N.eqb x 1 | _ => false end.
Definition key3_ci (k : key) : bool := match k with _ :: y :: _ => N.eqb y 1 | _ => false end.

(* insertion-ordered multimap: HashMap<K, Vec<V>> with entry(k).or_insert(vec![]).push(v) *)
Fixpoint amap_push {V} (k : key) (v : list V) (m : list (key * list V)) : list (key * list V) :=
  match m with
  | [] => [(k, v)]
  | (k', vs) :: rest => if str_eqb k k' then (k', vs ++ v) :: rest
                        else (k', vs) :: amap_push k v rest
  end.

(* `for (k, v) in map` : the keys in the order the hash map yields them *)
Definition amap_iter {V} (ord : hord) (m : list (key * list V)) : list (key * list V) :=
  flat_map (fun k => match lookup k m with Some vs => [(k, vs)] | None => [] end)
           (ord (map fst m)).

(* HashMap<String, u32> counters *)
Fixpoint count_incr (k : key) (m : list (key * nat)) : list (key * nat) :=
  match m with
  | [] => [(k, 1%nat)]
  | (k', n) :: rest => if str_eqb k k' then (k', S n) :: rest else (k', n) :: count_incr k rest
  end.

(* slice::sort_by is a stable sort: insertion after the last element that is not greater *)
Fixpoint insert_by {A} (lt : A -> A -> bool) (x : A) (l : list A) : list A :=
  match l with
  | [] => [x]
  | y :: rest => if lt x y then x :: l else y :: insert_by lt x rest
  end.
Definition sort_by {A} (lt : A -> A -> bool) (l : list A) : list A :=
  fold_left (fun acc x => insert_by lt x acc) l [].

Definition utf8_len_chr (x : chr) : nat :=
  if (x <? 128)%N then 1 else if (x <? 2048)%N then 2 else if (x <? 65536)%N then 3 else 4.
Definition utf8_len (s : str) : nat := fold_right (fun x n => (utf8_len_chr x + n)%nat) 0%nat s.

Fixpoint str_ltb (a b : str) : bool :=
  match a, b with
  | [], [] => false
  | [], _ :: _ => true
  | _ :: _, [] => false
  | x :: a', y :: b' => if (x <? y)%N then true else if (y <? x)%N then false else str_ltb a' b'
  end.
Fixpoint strs_ltb (a b : list str) : bool :=
  match a, b with
  | [], [] => false
  | [], _ :: _ => true
  | _ :: _, [] => false
  | x :: a', y :: b' => if str_ltb x y then true else if str_ltb y x then false else strs_ltb a' b'
  end.
Definition bool_ltb (a b : bool) : bool := negb a && b.

Fixpoint expr_size (e : expr) : nat :=
  match e with
  | EGroup _ l => S (fold_right (fun x n => (expr_size x + n)%nat) 0%nat l)
  | EBexp l _ r => S (expr_size l + expr_size r)
  | EMatch _ e' | ENegate e' | ENested _ e' => S (expr_size e')
  | EMatrix _ rows =>
      S (fold_right (fun row n =>
                       (fold_right (fun c m => (match c with Some x => expr_size x | None => 1%nat end + m)%nat)
                                   0%nat row + n)%nat) 0%nat rows)
  | _ => 1%nat
  end.

Section Optimiser.
Variable o : oracles.
Variable ord : hord.

(* ---- coalesce (optimiser.rs:32) ---- *)
Fixpoint coalesce (ids : list (str * expr)) (e : expr) : out expr :=
  match e with
  | EGroup s l => do l' <- mapM (fun x => coalesce ids x) l; Ok (EGroup s l')
  | EBexp l s r => do l' <- coalesce ids l; do r' <- coalesce ids r; Ok (EBexp l' s r')
  | EIdent i => match lookup i ids with Some b => Ok b | None => Panic 48 end
  | EMatch k e' => do x <- coalesce ids e'; Ok (EMatch k x)
  | ENegate e' => do x <- coalesce ids e'; Ok (ENegate x)
  | ENested f e' => do x <- coalesce ids e'; Ok (ENested f x)
  | _ => Ok e
  end.

(* ---- rewrite (optimiser.rs:411-485, with fix D4) ---- *)
Definition dotstar : str := [ch_dot; ch_star].
Definition strip_dotstar (p : str) : str :=
  let p1 := match strip_prefix dotstar p with Some t => t | None => p end in
  match strip_suffix dotstar p1 with Some h => h | None => p1 end.

Definition rewrite_search (s : Syntax.search) : Syntax.search :=
  match s with
  | SRegex p ci =>
      let p' := strip_dotstar p in
      if re_valid o p' ci then SRegex p' ci else SRegex p ci
  | SRegexSet ps ci =>
      let ps' := map strip_dotstar ps in
      if forallb (fun p => re_valid o p ci) ps' then SRegexSet ps' ci else SRegexSet ps ci
  | _ => s
  end.

Fixpoint rewrite (e : expr) : expr :=
  match e with
  | EGroup s l => EGroup s (map rewrite l)
  | EBexp l s r => EBexp (rewrite l) s (rewrite r)
  | EMatch k e' => EMatch k (rewrite e')
  | ENegate e' => ENegate (rewrite e')
  | ENested f e' => ENested f (rewrite e')
  | ESearch s f c => ESearch (rewrite_search s) f c
  | _ => e
  end.

(* ---- shake_0 (optimiser.rs:495) ---- *)
Definition is_and_or (s : boolsym) : bool := match s with BAnd | BOr => true | _ => false end.

Fixpoint shake0 (fuel : nat) (e : expr) : out expr :=
  match fuel with
  | O => Ok e
  | S fu =>
      match e with
      | EGroup s l =>
          if negb (is_and_or s) then Panic 518
          else
            do l' <- mapM (fun x => shake0 fu x) l;
            match l' with
            | [x] => Ok x
            | _ => Ok (EGroup s l')
            end
      | EBexp l s r =>
          do l' <- shake0 fu l;
          do r' <- shake0 fu r;
          match l', s, r' with
          | EGroup BAnd a, BAnd, EGroup BAnd b => shake0 fu (EGroup BAnd (a ++ b))
          | EGroup BAnd a, BAnd, x => shake0 fu (EGroup BAnd (a ++ [x]))
          | x, BAnd, EGroup BAnd b => shake0 fu (EGroup BAnd (x :: b))
          | EGroup BOr a, BOr, EGroup BOr b => shake0 fu (EGroup BOr (a ++ b))
          | EGroup BOr a, BOr, x => shake0 fu (EGroup BOr (a ++ [x]))
          | x, BOr, EGroup BOr b => shake0 fu (EGroup BOr (x :: b))
          | EBexp x BAnd y, BAnd, z => shake0 fu (EGroup BAnd [x; y; z])
          | x, BAnd, EBexp y BAnd z => shake0 fu (EGroup BAnd [x; y; z])
          | EBexp x BOr y, BOr, z => shake0 fu (EGroup BOr [x; y; z])
          | x, BOr, EBexp y BOr z => shake0 fu (EGroup BOr [x; y; z])
          | _, _, _ => Ok (EBexp l' s r')
          end
      | EMatch k (EGroup s l) =>
          (* fix D14: all() / of() count the members of the group they hold: the group stays, its
             members are shaken *)
          do l' <- mapM (fun x => shake0 fu x) l;
          Ok (EMatch k (EGroup s l'))
      | EMatch k e' => do x <- shake0 fu e'; Ok (EMatch k x)
      | ENegate e' =>
          do x <- shake0 fu e';
          match x with
          | ENegate inner => shake0 fu inner
          | _ => Ok (ENegate x)
          end
      | ENested f e' => do x <- shake0 fu e'; Ok (ENested f x)
      | _ => Ok e
      end
  end.

(* ---- shake_1 (optimiser.rs:620) ---- *)
Definition mt_of_search (s : Syntax.search) : option mtype :=
  match s with
  | SContains v => Some (MTContains v)
  | SEndsWith v => Some (MTEndsWith v)
  | SExact v => Some (MTExact v)
  | SStartsWith v => Some (MTStartsWith v)
  | _ => None
  end.

(* what the first loop of the or-arm collects *)
Record oracc := {
  oa_needles : list (key * list mtype);
  oa_nested : list (key * list expr);
  oa_patterns : list (key * list str);
  oa_any : list expr;
  oa_rest : list expr
}.
Definition oracc0 : oracc :=
  {| oa_needles := []; oa_nested := []; oa_patterns := []; oa_any := []; oa_rest := [] |}.

(* fix D29: a nested block whose body is an all() list is not merged with other blocks on the
   same field (it asks each member to be satisfied by some element of an array; merged it would be
   evaluated per element) *)
Definition is_all_match (e : expr) : bool := match e with EMatch MAll _ => true | _ => false end.

Definition or_classify (a : oracc) (shaken : expr) : oracc :=
  match shaken with
  | ENested f inner =>
      if is_all_match inner then
        {| oa_needles := oa_needles a; oa_nested := oa_nested a; oa_patterns := oa_patterns a;
           oa_any := oa_any a; oa_rest := oa_rest a ++ [shaken] |}
      else
      {| oa_needles := oa_needles a; oa_nested := amap_push f [inner] (oa_nested a);
         oa_patterns := oa_patterns a; oa_any := oa_any a; oa_rest := oa_rest a |}
  | ESearch (SAho ctx ci) f cast =>
      {| oa_needles := amap_push (key3 f cast ci) ctx (oa_needles a); oa_nested := oa_nested a;
         oa_patterns := oa_patterns a; oa_any := oa_any a; oa_rest := oa_rest a |}
  | ESearch SAny _ _ =>
      {| oa_needles := oa_needles a; oa_nested := oa_nested a; oa_patterns := oa_patterns a;
         oa_any := oa_any a ++ [shaken]; oa_rest := oa_rest a |}
  | ESearch (SRegex r ci) f cast =>
      {| oa_needles := oa_needles a; oa_nested := oa_nested a;
         oa_patterns := amap_push (key3 f cast ci) [r] (oa_patterns a);
         oa_any := oa_any a; oa_rest := oa_rest a |}
  | ESearch (SRegexSet rs ci) f cast =>
      {| oa_needles := oa_needles a; oa_nested := oa_nested a;
         oa_patterns := amap_push (key3 f cast ci) rs (oa_patterns a);
         oa_any := oa_any a; oa_rest := oa_rest a |}
  | ESearch s f cast =>
      match mt_of_search s with
      | Some m =>
          {| oa_needles := amap_push (key3 f cast false) [m] (oa_needles a);
             oa_nested := oa_nested a; oa_patterns := oa_patterns a; oa_any := oa_any a;
             oa_rest := oa_rest a |}
      | None =>
          {| oa_needles := oa_needles a; oa_nested := oa_nested a; oa_patterns := oa_patterns a;
             oa_any := oa_any a; oa_rest := oa_rest a ++ [shaken] |}
      end
  | _ =>
      {| oa_needles := oa_needles a; oa_nested := oa_nested a; oa_patterns := oa_patterns a;
         oa_any := oa_any a; oa_rest := oa_rest a ++ [shaken] |}
  end.

(* buckets filled from the needles map (optimiser.rs:743-787) *)
Record buckets := {
  b_exact : list expr; b_starts : list expr; b_ends : list expr; b_contains : list expr;
  b_aho : list expr
}.
Definition buckets0 : buckets :=
  {| b_exact := []; b_starts := []; b_ends := []; b_contains := []; b_aho := [] |}.

Definition needle_bucket (b : buckets) (kv : key * list mtype) : buckets :=
  let '(k, ms) := kv in
  let f := key3_field k in let cast := key3_cast k in let ci := key3_ci k in
  match ci, ms with
  | false, [m] =>
      match m with
      | MTContains v =>
          {| b_exact := b_exact b; b_starts := b_starts b; b_ends := b_ends b;
             b_contains := b_contains b ++ [ESearch (SContains v) f cast]; b_aho := b_aho b |}
      | MTEndsWith v =>
          {| b_exact := b_exact b; b_starts := b_starts b;
             b_ends := b_ends b ++ [ESearch (SEndsWith v) f cast];
             b_contains := b_contains b; b_aho := b_aho b |}
      | MTExact v =>
          {| b_exact := b_exact b ++ [ESearch (SExact v) f cast]; b_starts := b_starts b;
             b_ends := b_ends b; b_contains := b_contains b; b_aho := b_aho b |}
      | MTStartsWith v =>
          {| b_exact := b_exact b; b_starts := b_starts b ++ [ESearch (SStartsWith v) f cast];
             b_ends := b_ends b; b_contains := b_contains b; b_aho := b_aho b |}
      end
  | _, _ =>
      {| b_exact := b_exact b; b_starts := b_starts b; b_ends := b_ends b;
         b_contains := b_contains b; b_aho := b_aho b ++ [ESearch (SAho ms ci) f cast] |}
  end.

Definition search_len (e : expr) : nat :=
  match e with
  | ESearch (SExact v) _ _ | ESearch (SStartsWith v) _ _ | ESearch (SEndsWith v) _ _
  | ESearch (SContains v) _ _ => utf8_len v
  | _ => 0%nat
  end.
Definition len_lt (x y : expr) : bool := (search_len x <? search_len y)%nat.

(* aho.sort_by(|x, y| (b.len(), case1).cmp(&(a.len(), case0))) : descending *)
Definition aho_key (e : expr) : nat * bool :=
  match e with ESearch (SAho ctx ci) _ _ => (length ctx, ci) | _ => (0%nat, false) end.
Definition aho_lt (x y : expr) : bool :=
  let '(lx, cx) := aho_key x in let '(ly, cy) := aho_key y in
  (ly <? lx)%nat || ((ly =? lx)%nat && bool_ltb cy cx).

Definition regex_lt (x y : expr) : bool :=
  match x, y with
  | ESearch (SRegex r0 c0) _ _, ESearch (SRegex r1 c1) _ _ =>
      str_ltb r0 r1 || (str_eqb r0 r1 && bool_ltb c0 c1)
  | _, _ => false
  end.
Definition regexset_lt (x y : expr) : bool :=
  match x, y with
  | ESearch (SRegexSet s0 c0) _ _, ESearch (SRegexSet s1 c1) _ _ =>
      strs_ltb s0 s1 || (negb (strs_ltb s0 s1) && negb (strs_ltb s1 s0) && bool_ltb c0 c1)
  | _, _ => false
  end.

Definition pattern_exprs (kv : key * list str) : list expr * list expr :=
  let '(k, ps) := kv in
  let f := key3_field k in let cast := key3_cast k in let ci := key3_ci k in
  match ps with
  | [p] => ([ESearch (SRegex p ci) f cast], [])
  | _ => ([], [ESearch (SRegexSet ps ci) f cast])
  end.

Fixpoint shake1 (fuel : nat) (e : expr) : expr :=
  match fuel with
  | O => e
  | S fu =>
      match e with
      | EGroup BAnd l =>
          let shaken := map (shake1 fu) l in
          let nested :=
            fold_left (fun m x => match x with
                                  | ENested f inner => if is_all_match inner then m else amap_push f [inner] m
                                  | _ => m
                                  end) shaken [] in
          let plain := filter (fun x => match x with ENested _ inner => is_all_match inner | _ => true end) shaken in
          let merged :=
            map (fun kv : key * list expr =>
                   let '(f, es) := kv in
                   ENested f (match es with
                              | [x] => shake1 fu x
                              | _ => shake1 fu (EMatch MAll (EGroup BOr es))
                              end)) (amap_iter ord nested) in
          let scratch := plain ++ merged in
          if negb (length scratch =? length l)%nat then shake1 fu (EGroup BAnd scratch)
          else match scratch with
               | [x] => x
               | _ => EGroup BAnd scratch
               end
      | EGroup BOr l =>
          let shaken := map (shake1 fu) l in
          let a := fold_left or_classify shaken oracc0 in
          let b := fold_left needle_bucket (amap_iter ord (oa_needles a)) buckets0 in
          let nested :=
            map (fun kv : key * list expr =>
                   let '(f, es) := kv in
                   ENested f (match es with
                              | [x] => shake1 fu x
                              | _ => shake1 fu (EGroup BOr es)
                              end)) (amap_iter ord (oa_nested a)) in
          let pats := map pattern_exprs (amap_iter ord (oa_patterns a)) in
          let regex := flat_map fst pats in
          let regex_set := flat_map snd pats in
          let scratch :=
            oa_any a ++ sort_by len_lt (b_exact b) ++ sort_by len_lt (b_starts b)
                 ++ sort_by len_lt (b_ends b) ++ sort_by len_lt (b_contains b)
                 ++ sort_by aho_lt (b_aho b) ++ sort_by regex_lt regex
                 ++ sort_by regexset_lt regex_set ++ oa_rest a ++ nested in
          if negb (length scratch =? length l)%nat then shake1 fu (EGroup BOr scratch)
          else match scratch with
               | [x] => x
               | _ => EGroup BOr scratch
               end
      | EGroup s l => EGroup s (map (shake1 fu) l)
      | EBexp l s r => EBexp (shake1 fu l) s (shake1 fu r)
      | EMatch k (EGroup s l) => EMatch k (EGroup s (map (shake1 fu) l))
      | EMatch k e' => EMatch k (shake1 fu e')
      | ENegate e' => ENegate (shake1 fu e')
      | ENested f e' => ENested f (shake1 fu e')
      | _ => e
      end
  end.

Definition shake_fuel (e : expr) : nat := (2 * expr_size e + 2)%nat.

(* optimiser.rs:487 *)
Definition shake (e : expr) : out expr :=
  do e0 <- shake0 (shake_fuel e) e;
  Ok (shake1 (shake_fuel e0) e0).

(* ---- matrix (optimiser.rs:70) ---- *)
Definition is_const (e : expr) : bool :=
  match e with EBool _ | EFloat _ | EInt _ | ENull => true | _ => false end.
Definition left_field (e : expr) : option str :=
  match e with ECast f _ | EField f => Some f | _ => None end.

(* first scan: is every conjunct of the and-group of a countable shape? (:90-115) *)
Definition conj_valid1 (x : expr) : bool :=
  match x with
  | EBexp l _ r => match left_field l with Some _ => is_const r | None => false end
  | ENested _ _ | ESearch _ _ _ => true
  | _ => false
  end.
Definition conj_field1 (x : expr) : option str :=
  match x with
  | EBexp l _ r => if is_const r then left_field l else None
  | ENested f _ | ESearch _ f _ => Some f
  | _ => None
  end.

Definition count_fields (scratch : list expr) : list (key * nat) :=
  fold_left
    (fun m e =>
       match e with
       | EGroup BAnd es =>
           if forallb conj_valid1 es then
             fold_left (fun m x => match conj_field1 x with Some f => count_incr f m | None => m end) es m
           else m
       | EBexp l _ _ => match left_field l with Some f => count_incr f m | None => m end
       | ENested f _ | ESearch _ f _ => count_incr f m
       | _ => m
       end) scratch [].

Definition count_lt (x y : key * nat) : bool := (snd x <? snd y)%nat.

(* std::char::from_u32(i).expect(..) *)
Definition column_key (i : nat) : out str :=
  let n := N.of_nat i in
  if ((55296 <=? n)%N && (n <=? 57343)%N) || (1114111 <? n)%N then Panic 216 else Ok [n].

(* second scan of an and-group (:183-211): Some lookup when the group becomes a row *)
Fixpoint conj_lookup (es : list expr) (m : list (str * expr)) : option (list (str * expr)) :=
  match es with
  | [] => Some m
  | x :: rest =>
      match x with
      | EBexp l _ r =>
          (* fix D18/D19: only what the first scan counts (conj_valid1) can become a cell *)
          match left_field l with
          | Some f => if is_const r
                      then (if has_key f m then None else conj_lookup rest (m ++ [(f, x)]))
                      else None
          | None => None
          end
      | ENested f _ | ESearch _ f _ =>
          if has_key f m then None else conj_lookup rest (m ++ [(f, x)])
      | _ => None
      end
  end.

(* a cell: the member re-keyed to the synthetic column key (:218-261) *)
Definition cell_of (k : str) (x : expr) : option (option expr) :=
  match x with
  | EBexp l s r =>
      match l with
      | ECast _ kind => Some (Some (EBexp (ECast k kind) s r))
      | EField _ => Some (Some (EBexp (EField k) s r))
      | _ => None
      end
  | ENested _ inner => Some (Some (ENested k inner))
  | ESearch s _ c => Some (Some (ESearch s k c))
  | _ => None
  end.

Fixpoint row_of_lookup (cols : list str) (i : nat) (m : list (str * expr))
  : out (list (option expr)) :=
  match cols with
  | [] => Ok []
  | col :: rest =>
      match lookup col m with
      | Some x =>
          do k <- column_key i;
          do tl' <- row_of_lookup rest (S i) m;
          Ok (match cell_of k x with
              | Some c => c :: tl'
              | None => tl'            (* `_ => {}` : nothing pushed *)
              end)
      | None => do tl' <- row_of_lookup rest (S i) m; Ok (None :: tl')
      end
  end.

(* a single member placed in its column (:277-357) *)
Fixpoint row_single (cols : list str) (i : nat) (field : str) (mk : str -> expr)
  : out (list (option expr)) :=
  match cols with
  | [] => Ok []
  | col :: rest =>
      if str_eqb col field then
        do k <- column_key i;
        do tl' <- row_single rest (S i) field mk;
        Ok (Some (mk k) :: tl')
      else do tl' <- row_single rest (S i) field mk; Ok (None :: tl')
  end.

Definition place_member (cols : list str) (e : expr)
  : out (option (list (option expr)) * option expr) :=
  match e with
  | EGroup BAnd es =>
      match conj_lookup es [] with
      | Some m => do row <- row_of_lookup cols 0 m; Ok (Some row, None)
      | None => Ok (None, Some e)
      end
  | EBexp l s r =>
      match l with
      | ECast f kind =>
          if is_const r then
            do row <- row_single cols 0 f (fun k => EBexp (ECast k kind) s r); Ok (Some row, None)
          else Ok (None, Some e)
      | EField f =>
          if is_const r then
            do row <- row_single cols 0 f (fun k => EBexp (EField k) s r); Ok (Some row, None)
          else Ok (None, Some e)
      | _ => Ok (None, Some e)
      end
  | ENested f inner =>
      do row <- row_single cols 0 f (fun k => ENested k inner); Ok (Some row, None)
  | ESearch s f c =>
      do row <- row_single cols 0 f (fun k => ESearch s k c); Ok (Some row, None)
  | _ => Ok (None, Some e)
  end.

Fixpoint place_all (cols : list str) (es : list expr)
  : out (list (list (option expr)) * list expr) :=
  match es with
  | [] => Ok ([], [])
  | e :: rest =>
      do p <- place_member cols e;
      do q <- place_all cols rest;
      let '(rows, others) := q in
      Ok (match fst p with Some r => r :: rows | None => rows end,
          match snd p with Some x => x :: others | None => others end)
  end.

Fixpoint matrix (fuel : nat) (e : expr) : out expr :=
  match e with
  | EGroup BAnd l => do l' <- mapM (fun x => matrix fuel x) l; Ok (EGroup BAnd l')
  | EGroup BOr l =>
      do scratch <- mapM (fun x => matrix fuel x) l;
      let fields := count_fields scratch in
      (* fix D21: no table when the columns could not all get a key (char::from_u32 stops at the
         surrogate range) *)
      if existsb (fun kv => (1 <? snd kv)%nat && (snd kv <? 256)%nat) fields
         && (N.of_nat (length fields) <=? 55296)%N then
        let ordered :=
          flat_map (fun k => match lookup k fields with Some n => [(k, n)] | None => [] end)
                   (ord (map fst fields)) in
        let cols := map fst (sort_by count_lt ordered) in
        do pr <- place_all cols scratch;
        let '(rows, others) := pr in
        let exprs := (match rows with [] => [] | _ => [EMatrix cols rows] end) ++ others in
        match exprs with
        | [x] => Ok x
        | _ => Ok (EGroup BOr exprs)
        end
      else Ok (EGroup BOr scratch)
  | EBexp l s r => do l' <- matrix fuel l; do r' <- matrix fuel r; Ok (EBexp l' s r')
  | EMatch k (EGroup s l) => Ok (EMatch k (EGroup s (map (shake1 fuel) l)))
  | EMatch k e' => Ok (EMatch k (shake1 fuel e'))
  | ENegate e' => do x <- matrix fuel e'; Ok (ENegate x)
  | ENested f e' => do x <- matrix fuel e'; Ok (ENested f x)
  | _ => Ok e
  end.

(* ---- Rule::optimise (rule.rs:487) ---- *)
Record switches := { sw_coalesce : bool; sw_shake : bool; sw_rewrite : bool; sw_matrix : bool }.

Definition map_ids (f : expr -> out expr) (ids : list (str * expr)) : out (list (str * expr)) :=
  mapM (fun kv : str * expr => do e <- f (snd kv); Ok (fst kv, e)) ids.

(* fix D15/D20: an identifier that was not inlined is optimised entry by entry, the group that
   holds its entries (what all(X) / of(X, n) count) stays as it is *)
Definition entries (f : expr -> out expr) (e : expr) : out expr :=
  match e with
  | EGroup s l => do l' <- mapM f l; Ok (EGroup s l')
  | _ => f e
  end.

Definition optimise_detection (sw : switches) (dt : detection) : out detection :=
  do s1 <- (if sw_coalesce sw then
              do e <- coalesce (d_ids dt) (d_expr dt); Ok {| d_expr := e; d_ids := [] |}
            else Ok dt);
  do s2 <- (if sw_shake sw then
              do e <- shake (d_expr s1);
              do ids <- map_ids (entries shake) (d_ids s1);
              Ok {| d_expr := e; d_ids := ids |}
            else Ok s1);
  let s3 := if sw_rewrite sw then
              {| d_expr := rewrite (d_expr s2);
                 d_ids := map (fun kv => (fst kv, rewrite (snd kv))) (d_ids s2) |}
            else s2 in
  if sw_matrix sw then
    do e <- matrix (shake_fuel (d_expr s3)) (d_expr s3);
    do ids <- map_ids (entries (fun x => matrix (shake_fuel x) x)) (d_ids s3);
    Ok {| d_expr := e; d_ids := ids |}
  else Ok s3.

Definition optimise (sw : switches) (r : rule) : out rule :=
  if r_optimised r then Ok r
  else
    do dt <- optimise_detection sw (r_det r);
    Ok {| r_optimised := true; r_det := dt; r_tp := r_tp r; r_tn := r_tn r |}.

End Optimiser.
