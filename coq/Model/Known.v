(* Executable classifiers of the known-finding classes of property C01 / C12 / C03
   (DESIGN.md section 5 and 7-C01).  Each is a structural predicate over (rule, switches)
   tied to one call site of optimiser.rs.  The checks use these very functions (extracted)
   to tell a listed finding from a new violation. *)
From TauModel Require Import Base Num Oracles Syntax Solver Rule Optimiser.

(* does some sub-expression satisfy p?  `neg` is the polarity of the position: true below a
   Negate or a none-of quantifier *)
Fixpoint exists_sub (p : bool -> expr -> bool) (neg : bool) (e : expr) : bool :=
  p neg e ||
  match e with
  | EGroup _ l => existsb (exists_sub p neg) l
  | EBexp l _ r => exists_sub p neg l || exists_sub p neg r
  | EMatch (MOf c) e' => exists_sub p (neg || (c =? 0)%Z) e'
  | EMatch MAll e' => exists_sub p neg e'
  | ENegate e' => exists_sub p true e'
  | ENested _ e' => exists_sub p neg e'
  | EMatrix _ rows =>
      existsb (fun row => existsb (fun c => match c with Some x => exists_sub p neg x | None => false end) row) rows
  | _ => false
  end.

Definition has_negative (e : expr) : bool :=
  exists_sub (fun _ x => match x with
                         | ENegate _ => true
                         | EMatch (MOf c) _ => (c =? 0)%Z
                         | _ => false
                         end) false e.

Section Known.
Variable o : oracles.
Variable ord : hord.

Definition ok_or {A} (x : out A) (d : A) : A := match x with Ok a => a | _ => d end.

(* the trees the passes are applied to: (condition, identifier bodies) after coalesce *)
Definition staged (sw : switches) (dt : detection) : expr * list (str * expr) :=
  if sw_coalesce sw then (ok_or (coalesce (d_ids dt) (d_expr dt)) (d_expr dt), [])
  else (d_expr dt, d_ids dt).

Definition all_trees (st : expr * list (str * expr)) : list expr := fst st :: map snd (snd st).

(* polarity to start with for an identifier body when it is optimised on its own: negative
   as soon as the condition contains any negation *)
Definition body_neg (st : expr * list (str * expr)) : bool := has_negative (fst st).

Definition any_tree (p : bool -> expr -> bool) (st : expr * list (str * expr)) : bool :=
  exists_sub p false (fst st) || existsb (fun b => exists_sub p (body_neg st) (snd b)) (snd st).

(* D13 (optimiser.rs:601): a Negate whose operand shakes to a Negate is collapsed *)
Definition d13_here (_ : bool) (x : expr) : bool :=
  match x with
  | ENegate y => match shake0 (shake_fuel y) y with Ok (ENegate _) => true | _ => false end
  | _ => false
  end.
Definition known_d13 (sw : switches) (dt : detection) : bool :=
  sw_shake sw && any_tree d13_here (staged sw dt).

(* D14r (optimiser.rs:522): a one-element group under a quantifier is unwrapped; harmless
   for a plain member, not when the member is itself a list (group, multi-needle automaton,
   regex set, matrix) *)
Definition is_listlike (e : expr) : bool :=
  match e with
  | EGroup _ _ | EMatrix _ _ => true
  | ESearch (SAho ctx _) _ _ => (1 <? length ctx)%nat
  | ESearch (SRegexSet ps _) _ _ => (1 <? length ps)%nat
  | _ => false
  end.
Definition single_listlike (e : expr) : bool :=
  match e with
  | EGroup _ [y] => is_listlike (ok_or (shake0 (shake_fuel y) y) y)
  | _ => false
  end.
Definition d14_here (ids : list (str * expr)) (_ : bool) (x : expr) : bool :=
  match x with
  | EMatch _ (EIdent i) => match lookup i ids with Some b => single_listlike b | None => false end
  | EMatch _ g => single_listlike g
  | _ => false
  end.
Definition known_d14 (sw : switches) (dt : detection) : bool :=
  sw_shake sw && any_tree (d14_here (snd (staged sw dt))) (staged sw dt).

(* D15 / D20 (optimiser.rs:743-786, :362-374): without coalesce an identifier body that a
   quantifier counts is rebuilt by shake_1 / matrix with another member list *)
Definition members_of (e : expr) : option (list expr) :=
  match e with EGroup _ g => Some g | _ => None end.
(* what the passes do to one expression / to the members of a group that a quantifier holds
   directly (the Match arms of shake_1 and matrix treat the members one by one) *)
Definition pipeline (sw : switches) (b : expr) : expr :=
  let b1 := if sw_shake sw then ok_or (shake ord b) b else b in
  let b2 := if sw_rewrite sw then rewrite o b1 else b1 in
  if sw_matrix sw then ok_or (matrix ord (shake_fuel b2) b2) b2 else b2.
Definition member_pipeline (sw : switches) (x : expr) : expr :=
  let x0 := if sw_shake sw then ok_or (shake0 (shake_fuel x) x) x else x in
  let x1 := if sw_shake sw || sw_matrix sw then shake1 ord (shake_fuel x0) x0 else x0 in
  if sw_rewrite sw then rewrite o x1 else x1.
Definition body_changed (sw : switches) (b : expr) : bool :=
  match members_of b, members_of (pipeline sw b) with
  | Some g, Some g' => negb (list_eqb expr_eqb g' (map (member_pipeline sw) g))
  | Some _, None => true
  | None, Some _ => true
  | None, None => false
  end.
Definition d15_here (sw : switches) (ids : list (str * expr)) (_ : bool) (x : expr) : bool :=
  match x with
  | EMatch _ (EIdent i) => match lookup i ids with Some b => body_changed sw b | None => false end
  | _ => false
  end.
Definition known_d15 (sw : switches) (dt : detection) : bool :=
  negb (sw_coalesce sw) && (sw_shake sw || sw_matrix sw) &&
  exists_sub (d15_here sw (d_ids dt)) false (d_expr dt).

(* D16 (optimiser.rs:625-667): in an and-group nested blocks are merged per key and moved
   behind the other members, in hash order; under a negation false and missing are told
   apart, so the verdict can change (and differ from run to run) *)
Definition is_nested (e : expr) : bool := match e with ENested _ _ => true | _ => false end.
Definition d16_here (neg : bool) (x : expr) : bool :=
  neg && match x with
         | EGroup BAnd l =>
             (1 <? length l)%nat &&
             existsb (fun m => is_nested (shake1 ord (shake_fuel m) m)) l
         | _ => false
         end.
(* since fix D15/D20 an identifier body is optimised entry by entry: the group that holds the
   entries stays, each entry is handed to the passes on its own (Optimiser.entries) *)
Definition on_entries (f : expr -> expr) (e : expr) : expr :=
  match e with EGroup s l => EGroup s (map f l) | _ => f e end.
Definition shaken0 (st : expr * list (str * expr)) : expr * list (str * expr) :=
  (ok_or (shake0 (shake_fuel (fst st)) (fst st)) (fst st),
   map (fun kv => (fst kv, on_entries (fun x => ok_or (shake0 (shake_fuel x) x) x) (snd kv))) (snd st)).
Definition has_match (e : expr) : bool :=
  exists_sub (fun _ x => match x with EMatch _ _ => true | _ => false end) false e.
(* matrix applies shake_1 to the operand of every quantifier (optimiser.rs:384-393), so the
   same merge happens with the matrix switch alone *)
Definition known_d16 (sw : switches) (dt : detection) : bool :=
  (sw_shake sw && any_tree d16_here (shaken0 (staged sw dt))) ||
  (sw_matrix sw && existsb has_match (all_trees (staged sw dt)) && any_tree d16_here (staged sw dt)).

(* the trees handed to `matrix` *)
Definition pre_matrix (sw : switches) (dt : detection) : expr * list (str * expr) :=
  let st := staged sw dt in
  let f := fun e =>
    let e1 := if sw_shake sw then ok_or (shake ord e) e else e in
    if sw_rewrite sw then rewrite o e1 else e1 in
  (f (fst st), map (fun kv => (fst kv, on_entries f (snd kv))) (snd st)).

Definition matrix_fires (l : list expr) : bool :=
  existsb (fun kv => (1 <? snd kv)%nat && (snd kv <? 256)%nat) (count_fields l).

(* D17 (optimiser.rs:175-177, solver.rs:650): rows are evaluated cell by cell in the hash
   order of the columns; a row with two or more cells under a negation can turn from false
   to missing or back *)
Definition multi_cell (e : expr) : bool :=
  match e with
  | EGroup BAnd es => match conj_lookup es [] with Some m => (1 <? length m)%nat | None => false end
  | _ => false
  end.
Definition d17_here (neg : bool) (x : expr) : bool :=
  neg && match x with
         | EGroup BOr l =>
             let l' := map (fun e => ok_or (matrix ord (shake_fuel e) e) e) l in
             matrix_fires l' && existsb multi_cell l'
         | _ => false
         end.
Definition known_d17 (sw : switches) (dt : detection) : bool :=
  sw_matrix sw && any_tree d17_here (pre_matrix sw dt).

(* D18 / D19 (optimiser.rs:185-231): the second scan accepts an and-group that the first
   scan rejected; conjuncts without a column are dropped (D18); a cast = cast conjunct
   whose left field is a column looks its right field up in the private cache (D19) *)
Definition d18_member (e : expr) : bool :=
  match e with
  | EGroup BAnd es =>
      negb (forallb conj_valid1 es) &&
      match conj_lookup es [] with Some _ => true | None => false end
  | _ => false
  end.
Definition d18_here (_ : bool) (x : expr) : bool :=
  match x with
  | EGroup BOr l =>
      let l' := map (fun e => ok_or (matrix ord (shake_fuel e) e) e) l in
      matrix_fires l' && existsb d18_member l'
  | _ => false
  end.
Definition known_d18 (sw : switches) (dt : detection) : bool :=
  sw_matrix sw && any_tree d18_here (pre_matrix sw dt).

(* D21 (optimiser.rs:216): more columns than char::from_u32 has scalar values below the
   surrogate range *)
Definition d21_here (_ : bool) (x : expr) : bool :=
  match x with
  | EGroup BOr l =>
      let l' := map (fun e => ok_or (matrix ord (shake_fuel e) e) e) l in
      matrix_fires l' && (55296 <? length (count_fields l'))%nat
  | _ => false
  end.
Definition known_d21 (sw : switches) (dt : detection) : bool :=
  sw_matrix sw && any_tree d21_here (pre_matrix sw dt).

(* D29 (optimiser.rs:642-657, :789-801): in an or-group (and likewise in an and-group) nested
   blocks on the same field are merged into ONE nested block over the or (the all-of-or) of
   their bodies; over an ARRAY of objects a body that is an
   all()-list has per-member semantics ("each member is satisfied by some element") on its
   own, but inside the merged or it is evaluated per element ("some element satisfies every
   member"): a match is lost, with no negation involved *)
Definition is_allor (e : expr) : bool :=
  match e with
  | EMatch MAll (EGroup BOr _) | EMatch MAll (EMatrix _ _) => true
  | _ => false
  end.
Definition d29_here (_ : bool) (x : expr) : bool :=
  match x with
  | EGroup BOr l | EGroup BAnd l =>
      let sh := map (fun m => shake1 ord (shake_fuel m) m) l in
      let nested := flat_map (fun m => match m with ENested f b => [(f, b)] | _ => [] end) sh in
      existsb (fun p : str * expr =>
                 is_allor (snd p) &&
                 (1 <? length (filter (fun q : str * expr => str_eqb (fst q) (fst p)) nested))%nat) nested
  | _ => false
  end.
Definition known_d29 (sw : switches) (dt : detection) : bool :=
  (sw_shake sw && any_tree d29_here (shaken0 (staged sw dt))) ||
  (sw_matrix sw && existsb has_match (all_trees (staged sw dt)) && any_tree d29_here (staged sw dt)).

(* the names of the classes that accept (rule, switches) *)
Definition known_classes (sw : switches) (dt : detection) : list N :=
  (if known_d13 sw dt then [13%N] else []) ++
  (if known_d14 sw dt then [14%N] else []) ++
  (if known_d15 sw dt then [15%N] else []) ++
  (if known_d16 sw dt then [16%N] else []) ++
  (if known_d17 sw dt then [17%N] else []) ++
  (if known_d18 sw dt then [18%N] else []) ++
  (if known_d21 sw dt then [21%N] else []) ++
  (if known_d29 sw dt then [29%N] else []).

End Known.

(* ---- classes of properties C06 / C08 (quantifiers over lists) ---- *)
(* D10 / D11 (solver.rs:603, :626-646): a quantified key whose list, after batching, is a
   group of two or more elements one of which is a multi-needle automaton or a regex set:
   the quantifier counts batches, not members *)
Definition d10_here (_ : bool) (x : expr) : bool :=
  match x with
  | EMatch _ (EGroup _ g) => (1 <? length g)%nat && existsb is_listlike g
  | _ => false
  end.
Definition known_d10 (dt : detection) : bool :=
  exists_sub d10_here false (d_expr dt) || existsb (fun kv => exists_sub d10_here false (snd kv)) (d_ids dt).

(* D24 (parser.rs:1604 + solver.rs:596): all(X) / of(X, n) over an identifier that is a
   mapping with ONE entry whose value is a list: the body is the list's or-group, so the
   quantifier counts the list's batches instead of the single entry *)
From TauModel Require Import Yaml.
Definition single_entry_list (y : yaml) : bool :=
  match y with
  | YMap [(_, YSeq (_ :: _ :: _))] => true
  | _ => false
  end.
Definition d24_here (raw : list (str * yaml)) (_ : bool) (x : expr) : bool :=
  match x with
  | EMatch _ (EIdent i) => match lookup i raw with Some y => single_entry_list y | None => false end
  | _ => false
  end.
Definition known_d24 (raw : list (str * yaml)) (dt : detection) : bool :=
  exists_sub (d24_here raw) false (d_expr dt).
