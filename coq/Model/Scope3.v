(* The scope the runner marks with `(th ..)`: the union of the widest executable scopes of the
   end-to-end C01 theorem (Properties/C01_matrix.v scope_all_sound and Properties/C01_final.v
   scope_quant_all_sound_f, which contains the scopes of Properties/C01_sh0w.v, C01_nomatch.v
   and C01_d15.v).  Properties/C01_wide.v states the
   theorem for it. *)
From TauModel Require Import Base Num Oracles Syntax Value Solver Rule Keys Optimiser Known Scope Scope2 Scope4 Scope5 Scope6.

Definition c01_scope_wide (o : oracles) (ord : hord) (sw : switches) (dt : detection) : bool :=
  c01_scope_all o ord sw dt || c01_scope_quant_all_f o ord sw dt.
