(* Reading of the connective loops that tools/gen_tables.py regenerates from solve_expression
   (src/solver.rs): the and-group loop, the or-group loop and the Negate arm, as tables of what
   happens on each three-valued operand result.  Model/GeneratedLoops.v holds the tables;
   Proofs/C06_table.v proves that they are Solver.and_fold / or_fold / neg3 -- the folds the truth
   table theorems of C06 and the permutation theorems of C17 are about.

   What the translator guarantees about a loop it accepts (else: "shape not recognised"): the body
   is `for expression in group { match solve_expression(expression, identifiers, document) { .. } }`
   with exactly the three arms True / False / Missing, each of which is `{}` (next operand),
   `return SolverResult::R` or `res = SolverResult::R`; an accumulator `let mut res = SolverResult::R`
   may precede the loop; what follows the loop is `SolverResult::R` or `res`. *)
From TauModel Require Import Base Syntax Value Solver.

Inductive lact := LNext | LReturn (r : res3) | LSet (r : res3).
Inductive lfin := FConst (r : res3) | FAcc.
Record loop_table := { l_init : res3; l_T : lact; l_F : lact; l_M : lact; l_fin : lfin }.

Definition act_of (t : loop_table) (x : res3) : lact :=
  match x with T => l_T t | F => l_F t | M => l_M t end.

(* operands are evaluated lazily, in order, as the `for` loop does; an operand that panics ends
   the evaluation *)
Fixpoint run_loop (t : loop_table) (acc : res3) (rs : list lazy3) : out res3 :=
  match rs with
  | [] => Ok (match l_fin t with FConst r => r | FAcc => acc end)
  | r :: rest =>
      do x <- r tt;
      match act_of t x with
      | LNext => run_loop t acc rest
      | LReturn v => Ok v
      | LSet v => run_loop t v rest
      end
  end.

Record neg_table := { n_T : res3; n_F : res3; n_M : res3 }.
Definition run_neg (t : neg_table) (x : res3) : res3 :=
  match x with T => n_T t | F => n_F t | M => n_M t end.
