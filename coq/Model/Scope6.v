(* Both relaxations together: Scope4 (sh0w for sh0, since fix D14) and Scope5 (no `no_match`
   conjunct for matrix without coalesce, since fix D15/D20).  Properties/C01_final.v. *)
From TauModel Require Import Base Num Oracles Syntax Value Solver Rule Keys Optimiser Known Scope Scope2 Scope4 Scope5.

Definition c01_scope_quant_all_f (o : oracles) (ord : hord) (sw : switches) (dt : detection) : bool :=
  c01_scope_nested_w ord (sw_without_matrix sw) dt &&
  (negb (sw_matrix sw) || matrix_input_ok4 o ord sw dt).
