(* Serialisation of rules (property C14): what `serde_yaml::to_string(&Rule)` contains, as
   a YAML value.  Rule serialises its `optimised` flag, the detection (the raw condition
   string first, then the raw identifier values, flattened, in the iteration order of the
   HashMap that holds them) and the two example lists (rule.rs:18-31, :456-464).  The YAML
   text layer (quoting, printing, parsing) is serde_yaml's and is not modelled. *)
From TauModel Require Import Base Num Yaml Rule.

Definition ser_detection (cond : str) (raw : list (str * yaml)) : yaml :=
  YMap ((YStr cond_key, YStr cond) :: map (fun kv : str * yaml => (YStr (fst kv), snd kv)) raw).

Definition ser_rule (opt : bool) (cond : str) (raw : list (str * yaml)) (tp tn : list yaml) : yaml :=
  YMap [(YStr key_optimised, YBool opt);
        (YStr key_detection, ser_detection cond raw);
        (YStr key_tp, YSeq tp);
        (YStr key_tn, YSeq tn)].

(* the raw parts the loader keeps of a detection mapping with plain string keys *)
Fixpoint raw_parts (kv : list (yaml * yaml)) : option (option str * list (str * yaml)) :=
  match kv with
  | [] => Some (None, [])
  | (YStr k, v) :: rest =>
      match raw_parts rest with
      | None => None
      | Some (c, ids) =>
          if str_eqb k cond_key then
            match v, c with
            | YStr s, None => Some (Some s, ids)
            | _, _ => None
            end
          else Some (c, (k, v) :: ids)
      end
  | _ => None
  end.
