(* The solver (solver.rs, with fixes D6, D7, D8, D25).  Panics are values: every
   unreachable!() / expect() / index of the modelled code is `Panic <line>`. *)
From TauModel Require Import Base Num Oracles Syntax Value.

(* ---- three-valued connectives as list folds ---- *)
Definition neg3 (r : res3) : res3 := match r with T => F | F => T | M => F end.

Section Solver.
Variable o : oracles.

(* ---- string search (solver.rs:1340 search, :1403 slow_aho) ---- *)
Definition fold_hay (ci : bool) (h : str) : str := if ci then str_ascii_lower h else h.

(* does the automaton report an occurrence of this needle that satisfies its match type?
   ASCII-case-insensitive automata compare needle and haystack modulo ASCII case. *)
Definition mtype_holds (ci : bool) (m : mtype) (h : str) : bool :=
  let h' := fold_hay ci h in
  match m with
  | MTContains n => is_infix (fold_hay ci n) h'
  | MTEndsWith n => is_suffix (fold_hay ci n) h'
  | MTExact n => str_eqb (fold_hay ci n) h'
  | MTStartsWith n => is_prefix (fold_hay ci n) h'
  end.

Definition count_true {A} (p : A -> bool) (l : list A) : Z :=
  Z.of_nat (length (filter p l)).

Definition slow_aho (ctx : list mtype) (ci : bool) (h : str) : Z :=
  count_true (fun m => mtype_holds ci m h) ctx.

Definition regexset_hits (pats : list str) (ci : bool) (h : str) : Z :=
  count_true (fun p => re_match o p ci h) pats.

Definition search (s : search) (h : str) : bool :=
  match s with
  | SAny => true
  | SExact n => str_eqb n h
  | SContains n => is_infix n h
  | SEndsWith n => is_suffix n h
  | SStartsWith n => is_prefix n h
  | SRegex p ci => re_match o p ci h
  | SRegexSet ps ci => existsb (fun p => re_match o p ci h) ps
  | SAho ctx ci => existsb (fun m => mtype_holds ci m h) ctx
  end.

(* the text a scalar takes under a str() cast (solver.rs:821-850) *)
Definition cast_text (v : value) : option str :=
  match v with
  | VBool b => Some (show_bool b)
  | VFloat f => Some (f64_show o f)
  | VInt z => Some (show_Z z)
  | VUInt z => Some (show_Z z)
  | _ => None
  end.

(* the strings of an array that a search looks at *)
Definition array_texts (cast : bool) (l : list value) : list str :=
  flat_map (fun v => match v with
                     | VStr s => [s]
                     | _ => if cast then match cast_text v with Some s => [s] | None => [] end
                            else []
                     end) l.

(* generic shape of Search / match_all / match_of on a field value: `p` is the test on one
   string; arrays ask for some element *)
Definition search_value (p : str -> bool) (cast : bool) (v : value) : option bool :=
  match v with
  | VStr s => Some (p s)
  | VArr l => Some (existsb p (array_texts cast l))
  | VBool _ | VFloat _ | VInt _ | VUInt _ =>
      if cast then match cast_text v with Some s => Some (p s) | None => None end else None
  | _ => None
  end.

Definition res_of_search (r : option bool) : res3 :=
  match r with Some true => T | Some false => F | None => M end.

(* Value::to_string (value.rs:169) *)
Definition value_to_string (v : value) : option str :=
  match v with
  | VStr s => Some s
  | _ => cast_text v
  end.


(* ---- documents as the solver sees them ----
   A user document answers `find` with a value or nothing.  The private documents of the
   matrix form (solver.rs:13-28 Cache, Passthrough) can additionally panic, so the solver
   works with outcomes. *)
Definition docq := str -> out (option value).
Definition pure_doc (d : doc) : docq := fun k => Ok (d k).
Definition obj_doc (kv : list (str * value)) : docq := pure_doc (obj_find kv).

(* solver.rs:15-20: the key's first character is the column index *)
Definition cache_doc (cache : list (option value)) : docq :=
  fun key =>
    match key with
    | [] => Panic 17
    | x :: _ => match nth_error cache (N.to_nat x) with
                | Some v => Ok v
                | None => Panic 18
                end
    end.

(* solver.rs:24-28 *)
Definition passthrough_doc (v : option value) : docq := fun _ => Ok v.

(* ---- numeric operands (solver.rs:176-461) ---- *)
Inductive operand := OVal (v : value) | OMissing | OFalse.

Definition cast_flt (v : value) : operand :=
  match v with
  | VBool b => OVal (VFloat (if b then f64_one else f64_zero))
  | VFloat x => OVal (VFloat x)
  | VInt x => OVal (VFloat (f64_of_Z x))
  | VUInt x => OVal (VFloat (f64_of_Z x))
  | VStr s => match f64_parse o s with Some f => OVal (VFloat f) | None => OFalse end
  | _ => OFalse
  end.

Definition cast_int (v : value) : operand :=
  match v with
  | VBool b => OVal (VInt (if b then 1 else 0))
  | VFloat x => match f64_to_i64 x with Some z => OVal (VInt z) | None => OFalse end
  | VInt x => OVal (VInt x)
  | VUInt x => if (x <=? i64_max)%Z then OVal (VInt x) else OFalse
  | VStr s => match parse_i64 s with Some z => OVal (VInt z) | None => OFalse end
  | _ => OFalse
  end.

Definition numeric_or_false (v : value) : operand :=
  match v with
  | VFloat _ | VInt _ | VUInt _ => OVal v
  | _ => OFalse
  end.

Definition operand_of (d : docq) (e : expr) : out operand :=
  match e with
  | EField f =>
      do x <- d f;
      Ok (match x with None => OMissing | Some v => numeric_or_false v end)
  | ECast f MFlt =>
      do x <- d f; Ok (match x with None => OMissing | Some v => cast_flt v end)
  | ECast f MInt =>
      do x <- d f; Ok (match x with None => OMissing | Some v => cast_int v end)
  | EBool b => Ok (OVal (VBool b))
  | EFloat x => Ok (OVal (VFloat x))
  | EInt z => Ok (OVal (VInt z))
  | _ => Ok OFalse
  end.

(* solver.rs:462-531 (after fix D6) *)
Definition compare_values (x : value) (op : boolsym) (y : value) : bool :=
  match op with
  | BEqual =>
      match x, y with
      | VBool a, VBool b => Bool.eqb a b
      | VFloat a, VFloat b => f_eq a b
      | VInt a, VInt b => (a =? b)%Z
      | VUInt a, VUInt b => (a =? b)%Z
      | VUInt a, VInt b => (a <=? i64_max)%Z && (a =? b)%Z
      | VInt a, VUInt b => (b <=? i64_max)%Z && (a =? b)%Z
      | _, _ => false
      end
  | BGreaterThan =>
      match x, y with
      | VFloat a, VFloat b => f_gt a b
      | VInt a, VInt b => (b <? a)%Z
      | VUInt a, VUInt b => (b <? a)%Z
      | VUInt a, VInt b => if (a <=? i64_max)%Z then (b <? a)%Z else true
      | VInt a, VUInt b => (b <=? i64_max)%Z && (b <? a)%Z
      | _, _ => false
      end
  | BGreaterThanOrEqual =>
      match x, y with
      | VFloat a, VFloat b => f_ge a b
      | VInt a, VInt b => (b <=? a)%Z
      | VUInt a, VUInt b => (b <=? a)%Z
      | VUInt a, VInt b => if (a <=? i64_max)%Z then (b <=? a)%Z else true
      | VInt a, VUInt b => (b <=? i64_max)%Z && (b <=? a)%Z
      | _, _ => false
      end
  | BLessThan =>
      match x, y with
      | VFloat a, VFloat b => f_lt a b
      | VInt a, VInt b => (a <? b)%Z
      | VUInt a, VUInt b => (a <? b)%Z
      | VUInt a, VInt b => (a <=? i64_max)%Z && (a <? b)%Z
      | VInt a, VUInt b => if (b <=? i64_max)%Z then (a <? b)%Z else true
      | _, _ => false
      end
  | BLessThanOrEqual =>
      match x, y with
      | VFloat a, VFloat b => f_le a b
      | VInt a, VInt b => (a <=? b)%Z
      | VUInt a, VUInt b => (a <=? b)%Z
      | VUInt a, VInt b => (a <=? i64_max)%Z && (a <=? b)%Z
      | VInt a, VUInt b => if (b <=? i64_max)%Z then (a <=? b)%Z else true
      | _, _ => false
      end
  | BAnd | BOr => false
  end.

Definition res_of_bool (b : bool) : res3 := if b then T else F.

(* the comparison arm of BooleanExpression with its three edge cases (solver.rs:83-536) *)
Definition solve_compare (d : docq) (l : expr) (op : boolsym) (r : expr) : out res3 :=
  match l, op, r with
  | ECast lf MStr, BEqual, ECast rf MStr =>
      do x <- d lf;
      match x with
      | None => Ok M
      | Some x =>
          match value_to_string x with
          | None => Ok F
          | Some xs =>
              do y <- d rf;
              match y with
              | None => Ok M
              | Some y =>
                  match value_to_string y with
                  | None => Ok F
                  | Some ys => Ok (res_of_bool (str_eqb xs ys))
                  end
              end
          end
      end
  | EField lf, BEqual, EBool b =>
      do x <- d lf;
      Ok (match x with
          | None => M
          | Some (VBool x) => res_of_bool (Bool.eqb x b)
          | Some _ => F
          end)
  | EField lf, BEqual, ENull =>
      do x <- d lf;
      Ok (match x with None => M | Some VNull => T | Some _ => F end)
  | ECast lf MStr, BEqual, ENull =>                      (* fix D27 *)
      do x <- d lf;
      Ok (match x with None => M | Some _ => F end)
  | _, _, _ =>
      do a <- operand_of d l;
      match a with
      | OMissing => Ok M
      | OFalse => Ok F
      | OVal x =>
          do b <- operand_of d r;
          match b with
          | OMissing => Ok M
          | OFalse => Ok F
          | OVal y => Ok (res_of_bool (compare_values x op y))
          end
      end
  end.

(* ---- folds used by groups and quantifiers; members are evaluated lazily, in order ---- *)
Definition lazy3 := unit -> out res3.

(* and-group (solver.rs:60): first non-true member *)
Fixpoint and_fold (rs : list lazy3) : out res3 :=
  match rs with
  | [] => Ok T
  | r :: rest =>
      do x <- r tt;
      match x with T => and_fold rest | F => Ok F | M => Ok M end
  end.

(* or-group (solver.rs:70) *)
Fixpoint or_fold (acc : res3) (rs : list lazy3) : out res3 :=
  match rs with
  | [] => Ok acc
  | r :: rest =>
      do x <- r tt;
      match x with T => Ok T | F => or_fold F rest | M => or_fold acc rest end
  end.

(* of(.., 0) over a group (solver.rs:627-634) *)
Fixpoint of0_fold (acc : res3) (rs : list lazy3) : out res3 :=
  match rs with
  | [] => Ok acc
  | r :: rest =>
      do x <- r tt;
      match x with T => Ok F | F => of0_fold T rest | M => of0_fold acc rest end
  end.

(* of(.., c), c >= 1, over a group (solver.rs:636-646, with fix D25) *)
Fixpoint ofn_fold (c : Z) (count : Z) (acc : res3) (rs : list lazy3) : out res3 :=
  match rs with
  | [] => Ok acc
  | r :: rest =>
      do x <- r tt;
      match x with
      | T => if (c <=? count + 1)%Z then Ok T else ofn_fold c (count + 1)%Z F rest
      | F => ofn_fold c count F rest
      | M => ofn_fold c count acc rest
      end
  end.

Definition of_fold (c : Z) (rs : list lazy3) : out res3 :=
  if (c =? 0)%Z then of0_fold M rs else ofn_fold c 0 M rs.

(* binary and / or (solver.rs:537-586) *)
Definition and2 (l r : lazy3) : out res3 :=
  do x <- l tt;
  match x with
  | T => r tt
  | F => Ok F
  | M => Ok M
  end.

Definition or2 (l r : lazy3) : out res3 :=
  do x <- l tt;
  match x with
  | T => Ok T
  | _ => do y <- r tt;
         Ok (match y with
             | T => T
             | F => F
             | M => match x with M => M | _ => F end
             end)
  end.

(* ---- string searches on a field ---- *)
Definition field_search (d : docq) (f : str) (cast : bool) (p : str -> bool) : out res3 :=
  do x <- d f;
  Ok (match x with
      | None => M
      | Some v => res_of_search (search_value p cast v)
      end).

Definition len_Z {A} (l : list A) : Z := Z.of_nat (length l).

(* ---- matrix rows ---- *)
(* evaluate the cells of one row from column index i on (solver.rs:664-692); returns the
   row's result and the updated cache *)
Definition cellfn := docq -> out res3.

Fixpoint row_cells (d : docq) (cols : list str)
         (i : nat) (cells : list (option cellfn)) (cache : list (option value))
  : out (res3 * list (option value)) :=
  match cells with
  | [] => Ok (T, cache)
  | None :: rest => row_cells d cols (S i) rest cache
  | Some cell :: rest =>
      match nth_error cache i with
      | None => Panic 666                      (* cache[i] out of bounds *)
      | Some slot =>
          do loaded <-
            match slot with
            | Some _ => Ok (Some cache)
            | None =>
                match nth_error cols i with
                | None => Panic 667            (* columns[i] out of bounds *)
                | Some col =>
                    do x <- d col;
                    Ok (match x with
                        | None => None
                        | Some v => Some (firstn i cache ++ [Some v] ++ skipn (S i) cache)
                        end)
                end
            end;
          match loaded with
          | None => Ok (M, cache)
          | Some cache' =>
              do r <- cell (cache_doc cache');
              match r with
              | T => row_cells d cols (S i) rest cache'
              | F => Ok (F, cache')
              | M => Ok (M, cache')
              end
          end
      end
  end.

Definition empty_cache (cols : list str) : list (option value) := map (fun _ => None) cols.

(* Matrix as an or over rows (solver.rs:661-699) *)
Fixpoint matrix_or (d : docq) (cols : list str)
         (rows : list (list (option cellfn))) (cache : list (option value)) (acc : res3)
  : out res3 :=
  match rows with
  | [] => Ok acc
  | row :: rest =>
      do r <- row_cells d cols 0 row cache;
      let '(hit, cache') := r in
      match hit with
      | T => Ok T
      | F => matrix_or d cols rest cache' F
      | M => matrix_or d cols rest cache' acc
      end
  end.

(* Matrix under all() (solver.rs:1051-1094) *)
Fixpoint matrix_all (d : docq) (cols : list str)
         (rows : list (list (option cellfn))) (cache : list (option value)) : out res3 :=
  match rows with
  | [] => Ok T
  | row :: rest =>
      do r <- row_cells d cols 0 row cache;
      let '(hit, cache') := r in
      match hit with
      | T => matrix_all d cols rest cache'
      | F => Ok F
      | M => Ok M
      end
  end.

(* Matrix under of(c), c >= 1 (solver.rs:1281-1332) *)
Fixpoint matrix_of (d : docq) (cols : list str)
         (rows : list (list (option cellfn))) (cache : list (option value))
         (c hits : Z) (acc : res3) : out res3 :=
  match rows with
  | [] => Ok acc
  | row :: rest =>
      do r <- row_cells d cols 0 row cache;
      let '(hit, cache') := r in
      match hit with
      | T => if (c <=? hits + 1)%Z then Ok T
             else matrix_of d cols rest cache' c (hits + 1)%Z acc
      | F => matrix_of d cols rest cache' c hits F
      | M => matrix_of d cols rest cache' c hits acc
      end
  end.

(* match_all (solver.rs:874), `slv` being solve_expression *)
Definition cells_of (slv : expr -> docq -> out res3) (rows : list (list (option expr)))
  : list (list (option cellfn)) :=
  map (map (option_map (fun cell d' => slv cell d'))) rows.

Definition match_all (slv : expr -> docq -> out res3) (e : expr) (d : docq) : out res3 :=
  match e with
  | ESearch (SAho ctx ci) f cast =>
      field_search d f cast (fun h => (slow_aho ctx ci h =? len_Z ctx)%Z)
  | ESearch (SRegexSet ps ci) f cast =>
      field_search d f cast (fun h => (regexset_hits ps ci h =? len_Z ps)%Z)
  | EMatrix cols rows => matrix_all d cols (cells_of slv rows) (empty_cache cols)
  | _ => slv e d
  end.

(* match_of (solver.rs:1102, with fix D8) *)
Definition match_of (slv : expr -> docq -> out res3) (e : expr) (d : docq) (c : Z)
  : out res3 :=
  if (c =? 0)%Z then
    do r <- slv e d;
    Ok (match r with T => F | F => T | M => M end)
  else
    match e with
    | ESearch (SAho ctx ci) f cast =>
        field_search d f cast (fun h => (c <=? slow_aho ctx ci h)%Z)
    | ESearch (SRegexSet ps ci) f cast =>
        field_search d f cast (fun h => (c <=? regexset_hits ps ci h)%Z)
    | EMatrix cols rows => matrix_of d cols (cells_of slv rows) (empty_cache cols) c 0 M
    | _ =>
        do r <- slv e d;
        Ok (match r with T => if (1 <? c)%Z then F else T | x => x end)
    end.

(* Nested over an array of objects under all() with an or-group / matrix body
   (solver.rs:721-783) *)
Definition objects_of (l : list value) : list (list (str * value)) :=
  flat_map (fun v => match v with VObj kv => [kv] | _ => [] end) l.

(* for one member expression: T if some object satisfies it, else F if some says F, else M *)
Fixpoint some_object (e : cellfn)
         (objs : list (list (str * value))) (acc : res3) : out res3 :=
  match objs with
  | [] => Ok acc
  | kv :: rest =>
      do r <- e (obj_doc kv);
      match r with
      | T => Ok T
      | F => some_object e rest F
      | M => some_object e rest acc
      end
  end.

(* solver.rs:746-781: for one row, T if for some array element all its cells hold *)
Fixpoint pass_cells (cols : list str)
         (v : value) (i : nat) (cells : list (option cellfn)) : out res3 :=
  match cells with
  | [] => Ok T
  | None :: rest => pass_cells cols v (S i) rest
  | Some cell :: rest =>
      match v with
      | VObj kv =>
          match nth_error cols i with
          | None => Panic 753
          | Some col =>
              do r <- cell (passthrough_doc (obj_find kv col));
              match r with
              | T => pass_cells cols v (S i) rest
              | F => Ok F
              | M => Ok M
              end
          end
      | _ => pass_cells cols v (S i) rest
      end
  end.

Fixpoint pass_row_any (cols : list str)
         (row : list (option cellfn)) (elems : list value) : out res3 :=
  match elems with
  | [] => Ok M
  | v :: rest =>
      do r <- pass_cells cols v 0 row;
      match r with
      | T => Ok T
      | _ => pass_row_any cols row rest
      end
  end.

Section Solve.
(* the identifier table, and how an identifier body (or one of its members) is solved *)
Variable ids : list (str * expr).
Variable body : expr -> docq -> out res3.

Fixpoint solve (e : expr) (d : docq) {struct e} : out res3 :=
  match e with
  | EGroup BAnd g => and_fold (map (fun x (_ : unit) => solve x d) g)
  | EGroup BOr g => or_fold M (map (fun x (_ : unit) => solve x d) g)
  | EGroup _ _ => Panic 869
  | EBexp l op r =>
      match op with
      | BAnd => and2 (fun _ => solve l d) (fun _ => solve r d)
      | BOr => or2 (fun _ => solve l d) (fun _ => solve r d)
      | _ => solve_compare d l op r
      end
  | EIdent i =>
      match lookup i ids with
      | Some b => body b d
      | None => Panic 591
      end
  | EMatch MAll e' =>
      match e' with
      | EIdent i =>
          match lookup i ids with
          | Some (EGroup _ g) => and_fold (map (fun x (_ : unit) => body x d) g)
          | Some b => match_all body b d
          | None => Panic 598
          end
      | EGroup _ g => and_fold (map (fun x (_ : unit) => solve x d) g)
      | ESearch (SAho ctx ci) f cast =>
          field_search d f cast (fun h => (slow_aho ctx ci h =? len_Z ctx)%Z)
      | ESearch (SRegexSet ps ci) f cast =>
          field_search d f cast (fun h => (regexset_hits ps ci h =? len_Z ps)%Z)
      | EMatrix cols rows =>
          matrix_all d cols (map (map (option_map (fun cell d' => solve cell d'))) rows)
                     (empty_cache cols)
      | _ => solve e' d
      end
  | EMatch (MOf c) e' =>
      match e' with
      | EIdent i =>
          match lookup i ids with
          | Some (EGroup _ g) => of_fold c (map (fun x (_ : unit) => body x d) g)
          | Some b => match_of body b d c
          | None => Panic 618
          end
      | EGroup _ g => of_fold c (map (fun x (_ : unit) => solve x d) g)
      | _ =>
          if (c =? 0)%Z then
            do r <- solve e' d;
            Ok (match r with T => F | F => T | M => M end)
          else
            match e' with
            | ESearch (SAho ctx ci) f cast =>
                field_search d f cast (fun h => (c <=? slow_aho ctx ci h)%Z)
            | ESearch (SRegexSet ps ci) f cast =>
                field_search d f cast (fun h => (c <=? regexset_hits ps ci h)%Z)
            | EMatrix cols rows =>
                matrix_of d cols (map (map (option_map (fun cell d' => solve cell d'))) rows)
                          (empty_cache cols) c 0 M
            | _ =>
                do r <- solve e' d;
                Ok (match r with T => if (1 <? c)%Z then F else T | x => x end)
            end
      end
  | EMatrix cols rows =>
      matrix_or d cols (map (map (option_map (fun cell d' => solve cell d'))) rows)
                (empty_cache cols) M
  | ENegate e' => do r <- solve e' d; Ok (neg3 r)
  | ENested f e' =>
      do x <- d f;
      match x with
      | None => Ok M
      | Some (VObj kv) => solve e' (obj_doc kv)
      | Some (VArr a) =>
          let generic :=
            (fix any_true (objs : list (list (str * value))) : out res3 :=
               match objs with
               | [] => Ok F
               | kv :: rest =>
                   do r <- solve e' (obj_doc kv);
                   match r with T => Ok T | _ => any_true rest end
               end) (objects_of a) in
          match e' with
          | EMatch MAll (EGroup BOr members) =>
              and_fold (map (fun m (_ : unit) => some_object (fun d' => solve m d') (objects_of a) M)
                            members)
          | EMatch MAll (EMatrix cols rows) =>
              and_fold (map (fun row (_ : unit) =>
                              pass_row_any cols (map (option_map (fun cell d' => solve cell d')) row) a)
                            rows)
          | _ => generic
          end
      | Some _ => Ok F
      end
  | ESearch s f cast => field_search d f cast (search s)
  | EBool _ | ECast _ _ | EField _ | EFloat _ | EInt _ | ENull => Panic 869
  end.

End Solve.

(* identifier bodies never contain identifiers (Proofs: parse_identifier_no_ident); a body
   that does is solved with a table that has no entries, which is the crate's
   unreachable!() at solver.rs:591 *)
Definition solve_body : expr -> docq -> out res3 :=
  solve [] (fun _ _ => Panic 591).

Definition solve_cond (ids : list (str * expr)) : expr -> docq -> out res3 :=
  solve ids solve_body.

End Solver.
