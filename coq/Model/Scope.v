(* Executable scope of the end-to-end C01 theorem (Properties/C01_shake1.v,
   loaded_rule_no_matrix_flat): for which (switch set, detection) the theorem's hypotheses hold.
   The definitions repeat, with identical bodies, the shape predicates of Proofs/C01.v and
   Proofs/C01_shake1.v so that they can be extracted with the model; Proofs/C01_flat.v proves
   (scope_sound) that c01_scope = true implies the theorem's conclusion.  The runner prints the
   switch sets in scope for every rule; the C01 check then requires that the crate shows no
   verdict change at all there (no known class may be invoked inside the scope). *)
From TauModel Require Import Base Num Oracles Syntax Value Solver Rule Keys Optimiser Known.

Fixpoint no_nested (e : expr) : bool :=
  match e with
  | EGroup _ l => forallb no_nested l
  | EBexp l _ r => no_nested l && no_nested r
  | EMatch _ e' | ENegate e' => no_nested e'
  | ENested _ _ => false
  | _ => true
  end.
Fixpoint head_neg (e : expr) : bool :=
  match e with
  | ENegate _ => true
  | EGroup _ [y] => head_neg y
  | _ => false
  end.
Definition quant_operand_ok (e : expr) : bool :=
  match e with
  | EGroup _ [_] => false
  | EBexp _ BAnd _ | EBexp _ BOr _ => false
  | _ => true
  end.
Fixpoint sh0 (e : expr) : bool :=
  match e with
  | EGroup _ l => forallb sh0 l
  | EBexp l _ r => sh0 l && sh0 r
  | EMatch _ e' => quant_operand_ok e' && sh0 e'
  | ENegate e' | ENested _ e' => sh0 e'
  | _ => true
  end.
Definition no_dneg (e : expr) : bool :=
  negb (exists_sub (fun _ x => match x with ENegate y => head_neg y | _ => false end) false e).
Fixpoint head_allor (e : expr) : bool :=
  match e with
  | EMatch MAll (EGroup BOr _) => true
  | EGroup _ [y] => head_allor y
  | _ => false
  end.
Definition nested_ok (e : expr) : bool :=
  match e with EGroup _ _ => negb (head_allor e) | _ => true end.
Fixpoint shx (e : expr) : bool :=
  match e with
  | EGroup _ l => match l with [] => false | _ => forallb shx l end
  | EBexp l s r => if is_and_or s then shx l && shx r
                   else negb (is_solvable l) && negb (is_solvable r)
  | EMatch _ e' | ENegate e' => shx e'
  | ENested _ e' => nested_ok e' && shx e'
  | _ => true
  end.
Fixpoint no_quant_ident (e : expr) : bool :=
  match e with
  | EGroup _ l => forallb no_quant_ident l
  | EBexp l _ r => no_quant_ident l && no_quant_ident r
  | EMatch _ (EIdent _) => false
  | EMatch _ e' | ENegate e' | ENested _ e' => no_quant_ident e'
  | _ => true
  end.

Definition shake_input_ok (sw : switches) (dt : detection) : bool :=
  forallb (fun t => no_nested t && sh0 t && no_dneg t && shx t) (all_trees (staged sw dt)).

Definition c01_scope (sw : switches) (dt : detection) : bool :=
  negb (sw_matrix sw) &&
  (sw_coalesce sw || no_quant_ident (d_expr dt)) &&
  (negb (sw_shake sw) || shake_input_ok sw dt).

(* ---- with the matrix switch: the trees handed to `matrix` are nested-free and outside the
        classes D17 (multi-cell row in a negative position), D18/D19, D21 ---- *)
(* every comparison with a constant on the right reads its left field: no str() / not() cast on
   the left, `str(f) == null` excepted (it reads the field since fix D27).  Always true of what
   the loader builds; needed because as a matrix cell a comparison reads its column first *)
Definition cr_cmp (l : expr) (op : boolsym) (r : expr) : bool :=
  match l with
  | ECast _ MStr => negb (is_const r) || match op, r with BEqual, ENull => true | _, _ => false end
  | ECast _ MNot => negb (is_const r)
  | _ => true
  end.
Fixpoint cmp_reads (e : expr) : bool :=
  match e with
  | EGroup _ l => forallb cmp_reads l
  | EBexp l s r => if is_and_or s then cmp_reads l && cmp_reads r else cr_cmp l s r
  | EMatch _ e' | ENegate e' | ENested _ e' => cmp_reads e'
  | _ => true
  end.
(* no quantifier at all (when identifiers are not inlined, the condition handed to matrix must
   hold none: matrix applies shake_1 to quantifier operands) *)
Fixpoint no_match (e : expr) : bool :=
  match e with
  | EGroup _ l => forallb no_match l
  | EBexp l _ r => no_match l && no_match r
  | EMatch _ _ => false
  | ENegate e' | ENested _ e' => no_match e'
  | _ => true
  end.

Definition matrix_input_ok (o : oracles) (ord : hord) (sw : switches) (dt : detection) : bool :=
  forallb no_nested (all_trees (pre_matrix o ord sw dt)) &&
  negb (known_d17 o ord sw dt) && negb (known_d18 o ord sw dt) && negb (known_d21 o ord sw dt) &&
  forallb cmp_reads (all_trees (pre_matrix o ord sw dt)) &&
  (sw_coalesce sw || no_match (fst (pre_matrix o ord sw dt))).

Definition sw_without_matrix (sw : switches) : switches :=
  {| sw_coalesce := sw_coalesce sw; sw_shake := sw_shake sw; sw_rewrite := sw_rewrite sw; sw_matrix := false |}.

Definition c01_scope_all (o : oracles) (ord : hord) (sw : switches) (dt : detection) : bool :=
  c01_scope (sw_without_matrix sw) dt &&
  (negb (sw_matrix sw) || (no_quant_ident (d_expr dt) && matrix_input_ok o ord sw dt)).
