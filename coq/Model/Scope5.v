(* Since fix D15/D20 (identifier bodies are optimised entry by entry) a quantifier over an
   identifier that is not inlined counts the entries the author wrote also after the matrix pass:
   the scope without the conjunct `sw_coalesce sw || no_match (fst pm)` of
   Scope2.matrix_input_ok3 (Properties/C01_nomatch.v). *)
From TauModel Require Import Base Num Oracles Syntax Value Solver Rule Keys Optimiser Known Scope Scope2.

Definition matrix_input_ok4 (o : oracles) (ord : hord) (sw : switches) (dt : detection) : bool :=
  let pm := pre_matrix o ord sw dt in
  negb (known_d17 o ord sw dt) && negb (known_d16 ord sw dt) &&
  forallb cmp_reads (all_trees pm) &&
  match_safe ord false (shake_fuel (fst pm)) (fst pm) &&
  forallb (fun b : str * expr =>
             forallb (fun m => match_safe ord (body_neg pm) (shake_fuel m) m) (entry_trees (snd b)))
          (snd pm).
Definition c01_scope_quant_all_nm (o : oracles) (ord : hord) (sw : switches) (dt : detection) : bool :=
  c01_scope_nested_noq ord (sw_without_matrix sw) dt &&
  (negb (sw_matrix sw) || matrix_input_ok4 o ord sw dt).
