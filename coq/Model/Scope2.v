(* Executable scope of the C01 theorem for rules WITH nested blocks (Properties/C01_nested.v,
   scope2_sound): matrix off; the run of shake_1 on every tree handed to it is "safe"
   (shake1_safe follows the run with the same recursion and fuel and checks, at every group the
   run meets, the D16 shape in negative positions and that no rebuilt nested body becomes or
   stops being an all()-over-or list).  Definitions as delivered with the proof; Proofs/C01_nested.v
   restates them identically. *)
From TauModel Require Import Base Num Oracles Syntax Value Solver Rule Keys Optimiser Known Scope.

(* the regrouped member lists of the two group arms of shake_1, `sh` being the recursive call *)
Definition and_scratch (ord : hord) (sh : expr -> expr) (shaken : list expr) : list expr :=
  let nested :=
    fold_left (fun m x => match x with
                          | ENested f inner => if is_all_match inner then m else amap_push f [inner] m
                          | _ => m
                          end) shaken [] in
  let plain := filter (fun x => match x with ENested _ inner => is_all_match inner | _ => true end) shaken in
  let merged :=
    map (fun kv : key * list expr =>
           let '(f, es) := kv in
           ENested f (match es with
                      | [x] => sh x
                      | _ => sh (EMatch MAll (EGroup BOr es))
                      end)) (amap_iter ord nested) in
  plain ++ merged.
Definition or_scratch (ord : hord) (sh : expr -> expr) (shaken : list expr) : list expr :=
  let a := fold_left or_classify shaken oracc0 in
  let b := fold_left needle_bucket (amap_iter ord (oa_needles a)) buckets0 in
  let nested :=
    map (fun kv : key * list expr =>
           let '(f, es) := kv in
           ENested f (match es with
                      | [x] => sh x
                      | _ => sh (EGroup BOr es)
                      end)) (amap_iter ord (oa_nested a)) in
  let pats := map pattern_exprs (amap_iter ord (oa_patterns a)) in
  let regex := flat_map fst pats in
  let regex_set := flat_map snd pats in
  oa_any a ++ sort_by len_lt (b_exact b) ++ sort_by len_lt (b_starts b)
       ++ sort_by len_lt (b_ends b) ++ sort_by len_lt (b_contains b)
       ++ sort_by aho_lt (b_aho b) ++ sort_by regex_lt regex
       ++ sort_by regexset_lt regex_set ++ oa_rest a ++ nested.
(* the nested blocks of a shaken member list that the pass merges, per field (both arms collect
   them alike; since the D29 repair a block whose body is an all() list is left alone) *)
Definition merges (x : expr) : bool :=
  match x with ENested _ inner => negb (is_all_match inner) | _ => false end.
Definition nested_of (shaken : list expr) : list (key * list expr) :=
  fold_left (fun m x => match x with
                        | ENested f inner => if is_all_match inner then m else amap_push f [inner] m
                        | _ => m
                        end) shaken [].
(* the body a merged nested block is built from (q: and-arm) *)
Definition merge_body (q : bool) (es : list expr) : expr :=
  match es with
  | [x] => x
  | _ => if q then EMatch MAll (EGroup BOr es) else EGroup BOr es
  end.
Definition neg_of (neg : bool) (k : matchk) : bool :=
  match k with MOf c => neg || (c =? 0)%Z | MAll => neg end.

(* follows the run of shake_1: same recursion, same fuel; `neg` is the polarity as in
   Known.exists_sub.  At every group the run meets -- those of the tree, the re-runs on a
   regrouped list, and the new groups made of merged bodies -- it checks D16 (negative
   position, and-group of two or more members one of which shakes to a nested block that is
   merged / moved), and that the body of a rebuilt nested block does not become (or stop being)
   an all()-over-or list (a one-member group around one is unwrapped) *)
Fixpoint shake1_safe (ord : hord) (neg : bool) (fuel : nat) (e : expr) : bool :=
  match fuel with
  | O => true
  | S fu =>
      let sh := shake1 ord fu in
      let nest_ok := fun x => Bool.eqb (is_allor (sh x)) (is_allor x) && shake1_safe ord neg fu x in
      let entries_ok := fun q shaken =>
        forallb (fun kv : key * list expr => nest_ok (merge_body q (snd kv)))
                (amap_iter ord (nested_of shaken)) in
      match e with
      | EGroup BAnd l =>
          let shaken := map sh l in
          let scratch := and_scratch ord sh shaken in
          forallb (shake1_safe ord neg fu) l &&
          negb (neg && (1 <? length l)%nat && existsb merges shaken) &&
          entries_ok true shaken &&
          (if negb (length scratch =? length l)%nat then shake1_safe ord neg fu (EGroup BAnd scratch) else true)
      | EGroup BOr l =>
          let shaken := map sh l in
          let scratch := or_scratch ord sh shaken in
          forallb (shake1_safe ord neg fu) l &&
          entries_ok false shaken &&
          (if negb (length scratch =? length l)%nat then shake1_safe ord neg fu (EGroup BOr scratch) else true)
      | EGroup _ l => forallb (shake1_safe ord neg fu) l
      | EBexp l _ r => shake1_safe ord neg fu l && shake1_safe ord neg fu r
      | EMatch k (EGroup _ l) => forallb (shake1_safe ord (neg_of neg k) fu) l
      | EMatch k e' => shake1_safe ord (neg_of neg k) fu e'
      | ENegate e' => shake1_safe ord true fu e'
      | ENested _ e' => nest_ok e'
      | _ => true
      end
  end.


(* whole rules: the run of shake_1 on every tree handed to it is safe; an identifier body
   optimised on its own starts with negative polarity as soon as the condition contains any
   negation (Known.body_neg of the staged trees) *)
(* since fix D15/D20 the passes run on every ENTRY of an identifier body (Optimiser.entries) *)
Definition entry_trees (e : expr) : list expr := match e with EGroup _ l => l | _ => [e] end.
Definition run_safe (ord : hord) (sw : switches) (dt : detection) : bool :=
  let st := staged sw dt in
  shake1_safe ord false (shake_fuel (fst (shaken0 st))) (fst (shaken0 st)) &&
  forallb (fun b : str * expr =>
             forallb (fun x => let m := ok_or (shake0 (shake_fuel x) x) x in
                               shake1_safe ord (body_neg st) (shake_fuel m) m)
                     (entry_trees (snd b)))
          (snd st).

Definition shake_input_ok2 (ord : hord) (sw : switches) (dt : detection) : bool :=
  forallb (fun t => sh0 t && no_dneg t && shx t) (all_trees (staged sw dt)) &&
  negb (known_d16 ord sw dt).
Definition c01_scope2 (ord : hord) (sw : switches) (dt : detection) : bool :=
  negb (sw_matrix sw) &&
  (sw_coalesce sw || no_quant_ident (d_expr dt)) &&
  (negb (sw_shake sw) || shake_input_ok2 ord sw dt).
(* the scope the runner evaluates *)
Definition c01_scope_nested (ord : hord) (sw : switches) (dt : detection) : bool :=
  c01_scope2 ord sw dt && (negb (sw_shake sw) || run_safe ord sw dt).


(* ---- all sixteen switch sets with nested blocks (Properties/C01_matrix_nested.v) ---- *)
Definition matrix_input_ok2 (o : oracles) (ord : hord) (sw : switches) (dt : detection) : bool :=
  negb (known_d17 o ord sw dt) && negb (known_d21 o ord sw dt) && negb (known_d16 ord sw dt) &&
  forallb cmp_reads (all_trees (pre_matrix o ord sw dt)) &&
  forallb no_match (all_trees (pre_matrix o ord sw dt)).
Definition c01_scope_nested_all (o : oracles) (ord : hord) (sw : switches) (dt : detection) : bool :=
  c01_scope_nested ord (sw_without_matrix sw) dt &&
  (negb (sw_matrix sw) || (no_quant_ident (d_expr dt) && matrix_input_ok2 o ord sw dt)).


(* ---- ... and with quantifiers in the trees handed to matrix (Properties/C01_matrix_quant.v):
        matrix applies shake_1 to quantifier operands; those runs must be safe ---- *)
Fixpoint match_safe (ord : hord) (neg : bool) (fuel : nat) (e : expr) : bool :=
  match e with
  | EGroup _ l => forallb (match_safe ord neg fuel) l
  | EBexp l _ r => match_safe ord neg fuel l && match_safe ord neg fuel r
  | EMatch k (EGroup _ l) => forallb (shake1_safe ord (neg_of neg k) fuel) l
  | EMatch k e' => shake1_safe ord (neg_of neg k) fuel e'
  | ENegate e' => match_safe ord true fuel e'
  | ENested _ e' => match_safe ord neg fuel e'
  | _ => true
  end.
Definition matrix_input_ok3 (o : oracles) (ord : hord) (sw : switches) (dt : detection) : bool :=
  let pm := pre_matrix o ord sw dt in
  negb (known_d17 o ord sw dt) && negb (known_d16 ord sw dt) &&
  forallb cmp_reads (all_trees pm) &&
  match_safe ord false (shake_fuel (fst pm)) (fst pm) &&
  forallb (fun b : str * expr =>
             forallb (fun m => match_safe ord (body_neg pm) (shake_fuel m) m) (entry_trees (snd b)))
          (snd pm) &&
  (sw_coalesce sw || no_match (fst pm)).
Definition c01_scope_quant_all (o : oracles) (ord : hord) (sw : switches) (dt : detection) : bool :=
  c01_scope_nested ord (sw_without_matrix sw) dt &&
  (negb (sw_matrix sw) || (no_quant_ident (d_expr dt) && matrix_input_ok3 o ord sw dt)).


(* ---- since fix D15/D20 (identifier bodies are optimised entry by entry) quantifiers over
        identifiers need no exclusion any more (Properties/C01_d15.v) ---- *)
Definition c01_scope2_noq (ord : hord) (sw : switches) (dt : detection) : bool :=
  negb (sw_matrix sw) &&
  (negb (sw_shake sw) || shake_input_ok2 ord sw dt).
Definition c01_scope_nested_noq (ord : hord) (sw : switches) (dt : detection) : bool :=
  c01_scope2_noq ord sw dt && (negb (sw_shake sw) || run_safe ord sw dt).
Definition c01_scope_quant_all_noq (o : oracles) (ord : hord) (sw : switches) (dt : detection) : bool :=
  c01_scope_nested_noq ord (sw_without_matrix sw) dt &&
  (negb (sw_matrix sw) || matrix_input_ok3 o ord sw dt).
