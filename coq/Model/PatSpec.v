(* Reference meaning of string patterns (property C07), read off the documentation:
   plain text is equality, `x*` prefix, `*x` suffix, `*x*` substring, `*` any string,
   `?re` unanchored regex search, surrounding quotes make the text literal, an initial `i`
   makes the comparison ASCII-case-insensitive (regex: case-insensitive).  Written without
   reference to into_identifier, Search or the automata. *)
From TauModel Require Import Base Num Oracles.

Inductive pkind :=
| KRegex (re : str)
| KNumeric
| KAny
| KContains (t : str)
| KEndsWith (t : str)
| KStartsWith (t : str)
| KExact (t : str).

Definition starts_with (x : chr) (s : str) : bool :=
  match s with y :: _ => N.eqb x y | [] => false end.
Definition ends_with (x : chr) (s : str) : bool :=
  match rev s with y :: _ => N.eqb x y | [] => false end.
Definition middle (s : str) : str := removelast (tl s).

(* the surface syntax of a pattern once the case prefix is gone *)
Definition classify (s : str) : pkind :=
  match s with
  | x :: rest =>
      if N.eqb x ch_qmark then KRegex rest
      else if N.eqb x ch_gt || N.eqb x ch_lt || N.eqb x ch_eq then KNumeric
      else if str_eqb s [ch_star] then KAny
      else if starts_with ch_star s && ends_with ch_star s then KContains (middle s)
      else if starts_with ch_star s then KEndsWith rest
      else if ends_with ch_star s then KStartsWith (removelast s)
      else if (2 <=? length s)%nat
              && ((starts_with ch_quote s && ends_with ch_quote s)
                  || (starts_with ch_squote s && ends_with ch_squote s))
           then KExact (middle s)
      else KExact s
  | [] => KExact []
  end.

(* the case prefix: in the default build an initial `i`; in the ignore_case build every
   pattern is case-insensitive and nothing is removed *)
Definition split_case (ic : bool) (s : str) : bool * str :=
  if ic then (true, s)
  else match s with
       | x :: rest => if N.eqb x ch_i then (true, rest) else (false, s)
       | [] => (false, s)
       end.

Definition lower_if (ci : bool) (s : str) : str := if ci then str_ascii_lower s else s.

Section PatSpec.
Variable o : oracles.

(* does the document string h satisfy the pattern text s? *)
Definition documented (ic : bool) (s : str) (h : str) : bool :=
  let '(ci, p) := split_case ic s in
  match classify p with
  | KRegex re => re_match o re ci h
  | KNumeric => false
  | KAny => true
  | KContains t => is_infix (lower_if ci t) (lower_if ci h)
  | KEndsWith t => is_suffix (lower_if ci t) (lower_if ci h)
  | KStartsWith t => is_prefix (lower_if ci t) (lower_if ci h)
  | KExact t => str_eqb (lower_if ci t) (lower_if ci h)
  end.

(* is s the text of a string predicate that loads (not numeric, regex compiles)? *)
Definition is_string_predicate (ic : bool) (s : str) : bool :=
  let '(ci, p) := split_case ic s in
  match classify p with
  | KRegex re => re_valid o re ci
  | KNumeric => false
  | _ => true
  end.

End PatSpec.
