(* Reading of the automaton acceptance tables that tools/gen_tables.py regenerates from the three
   `for i in a.find_overlapping_iter(value) { match m[..] { MatchType::K(_) => .. } }` loops of
   src/solver.rs (search, and the two branches of slow_aho): per match type, the condition on the
   reported occurrence (start, end) under which the needle counts.  Model/GeneratedAho.v holds the
   tables; Proofs/C07_aho.v proves that each table, applied to the occurrences of a needle, is
   Solver.mtype_holds -- the meaning the model gives the automaton forms.

   What the translator guarantees about a loop it accepts (else: "shape not recognised"): the
   iterator is `a.find_overlapping_iter(value)` (every occurrence of every needle is reported:
   the aho-corasick crate's contract, not verified); the match is on the reported pattern's match
   type with exactly the four arms; every arm performs the same action (return true / set the
   pattern's bit / insert the pattern), unconditionally or under one of the three conditions
   `i.end() == value.len()`, `i.start() == 0`, `i.start() == 0 && i.end() == value.len()`. *)
From TauModel Require Import Base Syntax.

Inductive mtk := KMContains | KMEndsWith | KMExact | KMStartsWith.
Inductive acond := CAlways | CEnd | CStart | CStartEnd.
Inductive aact := AReturnTrue | ASetBit | AInsert.
Definition aho_table : Type := (aact * list (mtk * acond))%type.

Definition kind_of (m : mtype) : mtk :=
  match m with MTContains _ => KMContains | MTEndsWith _ => KMEndsWith
             | MTExact _ => KMExact | MTStartsWith _ => KMStartsWith end.
Definition mtk_eqb (a b : mtk) : bool :=
  match a, b with
  | KMContains, KMContains | KMEndsWith, KMEndsWith | KMExact, KMExact | KMStartsWith, KMStartsWith => true
  | _, _ => false
  end.
(* the arm Rust's match selects: the first with that constructor (the translator accepts exactly
   four arms, one per constructor) *)
Fixpoint cond_of (t : list (mtk * acond)) (k : mtk) : option acond :=
  match t with
  | [] => None
  | (k', c) :: rest => if mtk_eqb k' k then Some c else cond_of rest k
  end.
(* the occurrence [s, e) of a needle in a haystack of length len counts *)
Definition accepts (c : acond) (s e len : nat) : bool :=
  match c with
  | CAlways => true
  | CEnd => Nat.eqb e len
  | CStart => Nat.eqb s 0
  | CStartEnd => Nat.eqb s 0 && Nat.eqb e len
  end.
