(* Tokens (tokeniser.rs:8-106) and expressions (parser.rs:14-105). *)
From TauModel Require Import Base Num.

Inductive boolsym := BAnd | BEqual | BGreaterThan | BGreaterThanOrEqual | BLessThan
                   | BLessThanOrEqual | BOr.
Inductive delsym := DComma | DLeftParen | DRightParen.
Inductive modsym := MFlt | MInt | MNot | MStr.
Inductive matchsym := MSAll | MSOf.

Inductive token :=
| TDel (d : delsym)
| TFloat (f : fbits)
| TIdent (s : str)
| TInt (z : Z)
| TOp (b : boolsym)
| TMod (m : modsym)
| TMiscNot
| TMatch (m : matchsym).

Definition boolsym_eqb (a b : boolsym) : bool :=
  match a, b with
  | BAnd, BAnd | BEqual, BEqual | BGreaterThan, BGreaterThan
  | BGreaterThanOrEqual, BGreaterThanOrEqual | BLessThan, BLessThan
  | BLessThanOrEqual, BLessThanOrEqual | BOr, BOr => true
  | _, _ => false
  end.

Definition modsym_eqb (a b : modsym) : bool :=
  match a, b with
  | MFlt, MFlt | MInt, MInt | MNot, MNot | MStr, MStr => true
  | _, _ => false
  end.

(* parser.rs:14 *)
Inductive mtype :=
| MTContains (s : str) | MTEndsWith (s : str) | MTExact (s : str) | MTStartsWith (s : str).

Definition mtype_value (m : mtype) : str :=
  match m with MTContains s | MTEndsWith s | MTExact s | MTStartsWith s => s end.

(* parser.rs:30 *)
Inductive matchk := MAll | MOf (n : Z).

(* parser.rs:36.  An AhoCorasick automaton is represented by its context vector and case
   flag: the parser and the optimiser always build it from `map value contexts`. *)
Inductive search :=
| SAho (ctx : list mtype) (ci : bool)
| SAny
| SContains (s : str)
| SEndsWith (s : str)
| SExact (s : str)
| SRegex (pat : str) (ci : bool)
| SRegexSet (pats : list str) (ci : bool)
| SStartsWith (s : str).

(* parser.rs:88 *)
Inductive expr :=
| EGroup (o : boolsym) (l : list expr)
| EBexp (l : expr) (o : boolsym) (r : expr)
| EBool (b : bool)
| ECast (f : str) (m : modsym)
| EField (f : str)
| EFloat (f : fbits)
| EIdent (s : str)
| EInt (z : Z)
| EMatch (k : matchk) (e : expr)
| EMatrix (cols : list str) (rows : list (list (option expr)))
| ENegate (e : expr)
| ENested (f : str) (e : expr)
| ENull
| ESearch (s : search) (f : str) (cast : bool).

(* parser.rs:155 *)
Definition is_solvable (e : expr) : bool :=
  match e with
  | EBool _ | ECast _ _ | EField _ | EFloat _ | EInt _ | ENull => false
  | _ => true
  end.
