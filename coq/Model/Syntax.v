(* Tokens (tokeniser.rs:8-106) and expressions (parser.rs:14-105). *)
From TauModel Require Import Base Num.

Inductive boolsym := BAnd | BEqual | BGreaterThan | BGreaterThanOrEqual | BLessThan
                   | BLessThanOrEqual | BOr.
Inductive delsym := DComma | DLeftParen | DRightParen.
Inductive modsym := MFlt | MInt | MNot | MStr.
Inductive matchsym := MSAll | MSOf.

Inductive token :=
| TDel (d : delsym)
| TFloat (f : fbits)
| TIdent (s : str)
| TInt (z : Z)
| TOp (b : boolsym)
| TMod (m : modsym)
| TMiscNot
| TMatch (m : matchsym).

Definition boolsym_eqb (a b : boolsym) : bool :=
  match a, b with
  | BAnd, BAnd | BEqual, BEqual | BGreaterThan, BGreaterThan
  | BGreaterThanOrEqual, BGreaterThanOrEqual | BLessThan, BLessThan
  | BLessThanOrEqual, BLessThanOrEqual | BOr, BOr => true
  | _, _ => false
  end.

Definition modsym_eqb (a b : modsym) : bool :=
  match a, b with
  | MFlt, MFlt | MInt, MInt | MNot, MNot | MStr, MStr => true
  | _, _ => false
  end.

(* parser.rs:14 *)
Inductive mtype :=
| MTContains (s : str) | MTEndsWith (s : str) | MTExact (s : str) | MTStartsWith (s : str).

Definition mtype_value (m : mtype) : str :=
  match m with MTContains s | MTEndsWith s | MTExact s | MTStartsWith s => s end.

(* parser.rs:30 *)
Inductive matchk := MAll | MOf (n : Z).

(* parser.rs:36.  An AhoCorasick automaton is represented by its context vector and case
   flag: the parser and the optimiser always build it from `map value contexts`. *)
Inductive search :=
| SAho (ctx : list mtype) (ci : bool)
| SAny
| SContains (s : str)
| SEndsWith (s : str)
| SExact (s : str)
| SRegex (pat : str) (ci : bool)
| SRegexSet (pats : list str) (ci : bool)
| SStartsWith (s : str).

(* parser.rs:88 *)
Inductive expr :=
| EGroup (o : boolsym) (l : list expr)
| EBexp (l : expr) (o : boolsym) (r : expr)
| EBool (b : bool)
| ECast (f : str) (m : modsym)
| EField (f : str)
| EFloat (f : fbits)
| EIdent (s : str)
| EInt (z : Z)
| EMatch (k : matchk) (e : expr)
| EMatrix (cols : list str) (rows : list (list (option expr)))
| ENegate (e : expr)
| ENested (f : str) (e : expr)
| ENull
| ESearch (s : search) (f : str) (cast : bool).

(* parser.rs:155 *)
Definition is_solvable (e : expr) : bool :=
  match e with
  | EBool _ | ECast _ _ | EField _ | EFloat _ | EInt _ | ENull => false
  | _ => true
  end.

(* ---- decidable equality on expressions (used by the classifiers of Model/Known.v) ---- *)
Fixpoint list_eqb {A} (eqb : A -> A -> bool) (a b : list A) : bool :=
  match a, b with
  | [], [] => true
  | x :: a', y :: b' => eqb x y && list_eqb eqb a' b'
  | _, _ => false
  end.

Definition mtype_eqb (a b : mtype) : bool :=
  match a, b with
  | MTContains x, MTContains y | MTEndsWith x, MTEndsWith y | MTExact x, MTExact y
  | MTStartsWith x, MTStartsWith y => str_eqb x y
  | _, _ => false
  end.

Definition search_eqb (a b : search) : bool :=
  match a, b with
  | SAho c1 i1, SAho c2 i2 => list_eqb mtype_eqb c1 c2 && Bool.eqb i1 i2
  | SAny, SAny => true
  | SContains x, SContains y | SEndsWith x, SEndsWith y | SExact x, SExact y
  | SStartsWith x, SStartsWith y => str_eqb x y
  | SRegex p1 i1, SRegex p2 i2 => str_eqb p1 p2 && Bool.eqb i1 i2
  | SRegexSet p1 i1, SRegexSet p2 i2 => list_eqb str_eqb p1 p2 && Bool.eqb i1 i2
  | _, _ => false
  end.

Definition matchk_eqb (a b : matchk) : bool :=
  match a, b with
  | MAll, MAll => true
  | MOf x, MOf y => (x =? y)%Z
  | _, _ => false
  end.

Fixpoint expr_eqb (a b : expr) {struct a} : bool :=
  match a, b with
  | EGroup o1 l1, EGroup o2 l2 =>
      boolsym_eqb o1 o2 &&
      (fix go (l1 l2 : list expr) {struct l1} : bool :=
         match l1, l2 with
         | [], [] => true
         | x :: l1', y :: l2' => expr_eqb x y && go l1' l2'
         | _, _ => false
         end) l1 l2
  | EBexp l1 o1 r1, EBexp l2 o2 r2 => expr_eqb l1 l2 && boolsym_eqb o1 o2 && expr_eqb r1 r2
  | EBool x, EBool y => Bool.eqb x y
  | ECast f1 m1, ECast f2 m2 => str_eqb f1 f2 && modsym_eqb m1 m2
  | EField x, EField y => str_eqb x y
  | EFloat x, EFloat y => (x =? y)%Z
  | EIdent x, EIdent y => str_eqb x y
  | EInt x, EInt y => (x =? y)%Z
  | EMatch k1 e1, EMatch k2 e2 => matchk_eqb k1 k2 && expr_eqb e1 e2
  | EMatrix c1 r1, EMatrix c2 r2 =>
      list_eqb str_eqb c1 c2 &&
      (fix rows (r1 r2 : list (list (option expr))) {struct r1} : bool :=
         match r1, r2 with
         | [], [] => true
         | x :: r1', y :: r2' =>
             (fix cells (x y : list (option expr)) {struct x} : bool :=
                match x, y with
                | [], [] => true
                | None :: x', None :: y' => cells x' y'
                | Some p :: x', Some q :: y' => expr_eqb p q && cells x' y'
                | _, _ => false
                end) x y && rows r1' r2'
         | _, _ => false
         end) r1 r2
  | ENegate x, ENegate y => expr_eqb x y
  | ENested f1 e1, ENested f2 e2 => str_eqb f1 f2 && expr_eqb e1 e2
  | ENull, ENull => true
  | ESearch s1 f1 c1, ESearch s2 f2 c2 => search_eqb s1 s2 && str_eqb f1 f2 && Bool.eqb c1 c2
  | _, _ => false
  end.
