(* Document values (value.rs:7 Value) and Object::find (value.rs:552, after fix D1). *)
From TauModel Require Import Base Num.

Inductive value :=
| VNull
| VBool (b : bool)
| VFloat (f : fbits)
| VInt (z : Z)          (* i64 *)
| VUInt (z : Z)         (* u64 *)
| VStr (s : str)
| VArr (l : list value)
| VObj (kv : list (str * value)).

(* a document is whatever answers `Document::find` *)
Definition doc := str -> option value.

(* Object::get on a map-like object: first entry with that key *)
Definition obj_get (kv : list (str * value)) (k : str) : option value := lookup k kv.

(* one path segment: `name` or `name[idx]` (value.rs:555-561).
   Some (name, None)      plain segment
   Some (name, Some i)    indexed segment with a parsable index
   None                   indexed syntax whose index does not parse: find returns None *)
Definition parse_segment (k : str) : option (str * option Z) :=
  if (match last_opt k with Some x => N.eqb x ch_rb | None => false end)
     && str_contains_char ch_lb k
  then
    (* k.split('[') : first part is the name, second part must be `digits]`; since fix D37 a
       third part (`a[0][1]`) makes the lookup fail instead of being ignored *)
    match split_on ch_lb k with
    | [name; second] =>
        match strip_suffix [ch_rb] second with
        | Some i => match parse_usize i with
                    | Some n => Some (name, Some n)
                    | None => None
                    end
        | None => None
        end
    | _ => None (* unreachable: k contains '[' *)
    end
  else Some (k, None).

Definition nth_value (l : list value) (i : Z) : option value :=
  if (i <? Z.of_nat (length l))%Z then nth_error l (Z.to_nat i) else None.

(* one step of the loop of Object::find; `cur = None` means "at the root object" *)
Definition find_step (root : list (str * value)) (cur : option value) (seg : str)
  : option value :=
  match parse_segment seg with
  | None => None
  | Some (name, Some i) =>
      let container :=
        match cur with
        | None => Some root
        | Some (VObj kv) => Some kv
        | Some _ => None
        end in
      match container with
      | None => None
      | Some kv => match obj_get kv name with
                   | Some (VArr a) => nth_value a i
                   | _ => None
                   end
      end
  | Some (name, None) =>
      match cur with
      | None => obj_get root name
      | Some (VObj kv) => obj_get kv name
      | Some _ => None
      end
  end.

(* after fix D1 a failed step ends the lookup (`?`), so the loop is a fold over
   Some-values only *)
Fixpoint find_segs (root : list (str * value)) (cur : option value) (segs : list str)
  : option value :=
  match segs with
  | [] => cur
  | s :: rest =>
      match find_step root cur s with
      | None => None
      | Some v => find_segs root (Some v) rest
      end
  end.

Definition obj_find (root : list (str * value)) (key : str) : option value :=
  find_segs root None (split_on ch_dot key).

Definition doc_of_obj (root : list (str * value)) : doc := obj_find root.
