(* The tokeniser (tokeniser.rs:158-317), keyword table and binding powers taken from the
   generated file. *)
From TauModel Require Import Base Num Oracles Syntax Generated.

Section Tokeniser.
Variable o : oracles.

(* consume_while (tokeniser.rs:291) *)
Fixpoint consume_while (p : chr -> bool) (s : str) : str * str :=
  match s with
  | [] => ([], [])
  | x :: s' => if p x then let (a, b) := consume_while p s' in (x :: a, b)
               else ([], s)
  end.

(* match_ahead (tokeniser.rs:307) *)
Definition match_ahead (kw s : str) : bool := is_prefix kw s.

Fixpoint match_keyword (kws : list (str * token * nat)) (s : str) : option (token * nat) :=
  match kws with
  | [] => None
  | (kw, t, n) :: rest => if match_ahead kw s then Some (t, n) else match_keyword rest s
  end.

Definition is_number_start (x : chr) : bool :=
  N.eqb x ch_dot || N.eqb x ch_minus || is_ascii_digit x.
Definition is_word_start (x : chr) : bool := is_ascii_alpha x || N.eqb x ch_hash.
Definition is_space (x : chr) : bool := N.eqb x ch_space || ((9 <=? x)%N && (x <=? 13)%N).
Definition is_number_char (x : chr) : bool := is_numeric o x || N.eqb x ch_dot.
Definition is_ident_char (x : chr) : bool :=
  is_alphanumeric o x || N.eqb x ch_us || N.eqb x ch_dot || N.eqb x ch_hash
  || N.eqb x ch_lb || N.eqb x ch_rb.

Definition second_is_eq (s : str) : bool :=
  match s with _ :: y :: _ => N.eqb y ch_eq | _ => false end.

(* one iteration of the `while let Some(&c) = it.peek()` loop on a non-empty input:
   a token (or none, for whitespace) and the remaining input, or an error *)
Definition lex_step (x : chr) (s : str) : out (option token * str) :=
  if is_number_start x then
    let (number, rest) := consume_while is_number_char s in
    if str_contains_char ch_dot number then
      match f64_parse o number with
      | Some f => Ok (Some (TFloat f), rest)
      | None => Err EInvalidNum
      end
    else
      match parse_i64 number with
      | Some z => Ok (Some (TInt z), rest)
      | None => Err EInvalidNum
      end
  else if is_word_start x then
    match match_keyword keywords s with
    | Some (t, n) => Ok (Some t, skipn n s)
    | None =>
        let (ident, rest) := consume_while is_ident_char s in
        Ok (Some (TIdent ident), rest)
    end
  else if is_space x then Ok (None, tl s)
  else if N.eqb x ch_eq then
    if second_is_eq s then Ok (Some (TOp BEqual), skipn 2 s) else Err EInvalidChar
  else if N.eqb x ch_lt then
    if second_is_eq s then Ok (Some (TOp BLessThanOrEqual), skipn 2 s)
    else Ok (Some (TOp BLessThan), tl s)
  else if N.eqb x ch_gt then
    if second_is_eq s then Ok (Some (TOp BGreaterThanOrEqual), skipn 2 s)
    else Ok (Some (TOp BGreaterThan), tl s)
  else if N.eqb x ch_comma then Ok (Some (TDel DComma), tl s)
  else if N.eqb x ch_lp then Ok (Some (TDel DLeftParen), tl s)
  else if N.eqb x ch_rp then Ok (Some (TDel DRightParen), tl s)
  else Err EInvalidChar.

(* fuel = S (length s) always suffices (Proofs/TokenTotal.v); running out of fuel is
   reported as Panic 0 so that it can never be confused with a result of the crate *)
Fixpoint lex (fuel : nat) (s : str) : out (list token) :=
  match s with
  | [] => Ok []
  | x :: _ =>
      match fuel with
      | O => Panic 0
      | S fuel' =>
          do r <- lex_step x s;
          let '(t, rest) := r in
          do ts <- lex fuel' rest;
          Ok (match t with Some t => t :: ts | None => ts end)
      end
  end.

Definition tokenise (s : str) : out (list token) := lex (S (length s)) s.

End Tokeniser.

(* tokeniser.rs:108 *)
Definition binding_power (t : token) : N :=
  match t with
  | TOp BAnd => bp_and
  | TOp BOr => bp_or
  | TOp _ => bp_cmp
  | TMiscNot => bp_not
  | TMod _ => bp_mod
  | TMatch _ => bp_match
  | TDel _ | TFloat _ | TIdent _ | TInt _ => bp_atom
  end.
