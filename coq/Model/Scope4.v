(* Since fix D14 (shake_0 keeps the group a quantifier holds) the hypothesis sh0 (a quantifier
   never holds a one-member group) is replaced by sh0w: no quantifier operand is an and/or chain
   (Properties/C01_d14.v).  The whole-rule scope with sh0w instead of sh0
   (Properties/C01_sh0w.v). *)
From TauModel Require Import Base Num Oracles Syntax Value Solver Rule Keys Optimiser Known Scope Scope2.

Definition qop_ok (e : expr) : bool :=
  match e with EBexp _ BAnd _ | EBexp _ BOr _ => false | _ => true end.
Fixpoint sh0w (e : expr) : bool :=
  match e with
  | EGroup _ l => forallb sh0w l
  | EBexp l _ r => sh0w l && sh0w r
  | EMatch _ e' => qop_ok e' && sh0w e'
  | ENegate e' | ENested _ e' => sh0w e'
  | _ => true
  end.

Definition shake_input_ok2w (ord : hord) (sw : switches) (dt : detection) : bool :=
  forallb (fun t => sh0w t && no_dneg t && shx t) (all_trees (staged sw dt)) &&
  negb (known_d16 ord sw dt).
Definition c01_scope2_w (ord : hord) (sw : switches) (dt : detection) : bool :=
  negb (sw_matrix sw) &&
  (negb (sw_shake sw) || shake_input_ok2w ord sw dt).
Definition c01_scope_nested_w (ord : hord) (sw : switches) (dt : detection) : bool :=
  c01_scope2_w ord sw dt && (negb (sw_shake sw) || run_safe ord sw dt).
Definition c01_scope_quant_all_w (o : oracles) (ord : hord) (sw : switches) (dt : detection) : bool :=
  c01_scope_nested_w ord (sw_without_matrix sw) dt &&
  (negb (sw_matrix sw) || matrix_input_ok3 o ord sw dt).
