(* Base definitions shared by the whole model: strings as lists of Unicode scalar
   values, three-valued results, outcomes with errors and panics.  No proofs here. *)
From Coq Require Export List NArith ZArith Bool Lia.
Export ListNotations.

Definition chr := N.
Definition str := list N.

(* ---- three-valued solver result (solver.rs:31 SolverResult) ---- *)
Inductive res3 := T | F | M.

Definition res3_eqb (a b : res3) : bool :=
  match a, b with T, T | F, F | M, M => true | _, _ => false end.

(* ---- error kinds (error.rs Kind) ---- *)
Inductive errkind :=
| EInvalidExpr | EInvalidIdent | EInvalidToken | ELedFollowing | ELedPreceding
| ERule | EInvalidChar | EInvalidNum | EValidation.

(* ---- outcome of a computation of the crate: a value, an error value or a panic ---- *)
Inductive out (A : Type) :=
| Ok (a : A)
| Err (k : errkind)
| Panic (site : N).
Arguments Ok {A} a.
Arguments Err {A} k.
Arguments Panic {A} site.

Definition bind {A B} (x : out A) (f : A -> out B) : out B :=
  match x with Ok a => f a | Err k => Err k | Panic s => Panic s end.
Notation "'do' x <- e1 ; e2" := (bind e1 (fun x => e2))
  (at level 200, x pattern, e1 at level 100, e2 at level 200, right associativity).

Definition is_panic {A} (x : out A) : bool :=
  match x with Panic _ => true | _ => false end.
Definition is_ok {A} (x : out A) : bool :=
  match x with Ok _ => true | _ => false end.

(* f is kept outside the fix so that nested recursive calls through mapM pass the guard check *)
Definition mapM {A B} (f : A -> out B) : list A -> out (list B) :=
  fix go (l : list A) : out (list B) :=
    match l with
    | [] => Ok []
    | x :: xs => match f x with
                 | Ok y => match go xs with
                           | Ok ys => Ok (y :: ys)
                           | Err k => Err k
                           | Panic s => Panic s
                           end
                 | Err k => Err k
                 | Panic s => Panic s
                 end
    end.

(* ---- characters ---- *)
Definition c (n : N) : chr := n.
Definition ch_eqb : chr -> chr -> bool := N.eqb.

Definition is_ascii_digit (x : chr) : bool := (48 <=? x)%N && (x <=? 57)%N.
Definition is_ascii_upper (x : chr) : bool := (65 <=? x)%N && (x <=? 90)%N.
Definition is_ascii_lower (x : chr) : bool := (97 <=? x)%N && (x <=? 122)%N.
Definition is_ascii_alpha (x : chr) : bool := is_ascii_upper x || is_ascii_lower x.
Definition is_ascii (x : chr) : bool := (x <? 128)%N.

(* u8::to_ascii_lowercase / char::to_ascii_lowercase *)
Definition ascii_lower (x : chr) : chr := if is_ascii_upper x then (x + 32)%N else x.
Definition str_ascii_lower (s : str) : str := map ascii_lower s.

Fixpoint str_eqb (a b : str) : bool :=
  match a, b with
  | [], [] => true
  | x :: a', y :: b' => N.eqb x y && str_eqb a' b'
  | _, _ => false
  end.

(* ---- list/string helpers ---- *)
Fixpoint is_prefix (p s : str) : bool :=
  match p, s with
  | [], _ => true
  | x :: p', y :: s' => N.eqb x y && is_prefix p' s'
  | _ :: _, [] => false
  end.

Definition is_suffix (p s : str) : bool := is_prefix (rev p) (rev s).

Fixpoint is_infix (p s : str) : bool :=
  is_prefix p s || match s with [] => false | _ :: s' => is_infix p s' end.

Fixpoint strip_prefix (p s : str) : option str :=
  match p, s with
  | [], _ => Some s
  | x :: p', y :: s' => if N.eqb x y then strip_prefix p' s' else None
  | _ :: _, [] => None
  end.

Definition strip_suffix (p s : str) : option str :=
  match strip_prefix (rev p) (rev s) with
  | Some r => Some (rev r)
  | None => None
  end.

Definition str_contains_char (x : chr) (s : str) : bool := existsb (N.eqb x) s.

Definition last_opt {A} (l : list A) : option A :=
  match rev l with [] => None | x :: _ => Some x end.

(* assoc-list lookup with string keys *)
Fixpoint lookup {A} (k : str) (l : list (str * A)) : option A :=
  match l with
  | [] => None
  | (k', v) :: l' => if str_eqb k k' then Some v else lookup k l'
  end.

Definition has_key {A} (k : str) (l : list (str * A)) : bool :=
  match lookup k l with Some _ => true | None => false end.

(* split a string on a separator character (str::split) : always at least one piece *)
Fixpoint split_on (sep : chr) (s : str) : list str :=
  match s with
  | [] => [[]]
  | x :: s' =>
      if N.eqb x sep then [] :: split_on sep s'
      else match split_on sep s' with
           | [] => [[x]]  (* unreachable *)
           | p :: ps => (x :: p) :: ps
           end
  end.

(* Vec<String>::join(" ") *)
Fixpoint join_with (sep : str) (l : list str) : str :=
  match l with
  | [] => []
  | [x] => x
  | x :: xs => x ++ sep ++ join_with sep xs
  end.

(* ASCII literals used by the model *)
Definition ch_space := 32%N.   Definition ch_quote := 34%N.   Definition ch_hash := 35%N.
Definition ch_squote := 39%N.  Definition ch_lp := 40%N.      Definition ch_rp := 41%N.
Definition ch_star := 42%N.    Definition ch_plus := 43%N.    Definition ch_comma := 44%N.
Definition ch_minus := 45%N.   Definition ch_dot := 46%N.     Definition ch_0 := 48%N.
Definition ch_lt := 60%N.      Definition ch_eq := 61%N.      Definition ch_gt := 62%N.
Definition ch_qmark := 63%N.   Definition ch_lb := 91%N.      Definition ch_rb := 93%N.
Definition ch_us := 95%N.      Definition ch_i := 105%N.
