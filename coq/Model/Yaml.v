(* serde_yaml::Value as the loader sees it. *)
From TauModel Require Import Base Num Value.

Inductive yaml :=
| YNull
| YBool (b : bool)
| YInt (z : Z)            (* serde_yaml Number holding an i64 or a u64 *)
| YFloat (f : fbits)
| YStr (s : str)
| YSeq (l : list yaml)
| YMap (kv : list (yaml * yaml))   (* in written order *)
| YTagged (tag : str) (v : yaml).

(* Number::as_i64 : Some iff the integer fits an i64 *)
Definition yint_as_i64 (z : Z) : option Z := if in_i64 z then Some z else None.

(* yaml.rs:9 AsValue for serde_yaml::Value, and Object for Mapping: only string keys can
   be found by Object::get; `is_u64` is tested first, so every non-negative integer is a
   UInt *)
Fixpoint yaml_as_value (y : yaml) : value :=
  match y with
  | YNull => VNull
  | YBool b => VBool b
  | YInt z => if (0 <=? z)%Z then VUInt z else VInt z
  | YFloat f => VFloat f
  | YStr s => VStr s
  | YSeq l => VArr (map yaml_as_value l)
  | YMap kv =>
      VObj (flat_map (fun p => match fst p with
                               | YStr k => [(k, yaml_as_value (snd p))]
                               | _ => []
                               end) kv)
  | YTagged _ v => yaml_as_value v
  end.
