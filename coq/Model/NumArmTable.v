(* Reading of the numeric pattern arms that tools/gen_tables.py regenerates from the two copies in
   src/parser.rs (scalar values, list members): which comparison operator and which constant kind
   each `Pattern::<K>(i)` / `Pattern::F<K>(i)` becomes.  Model/GeneratedNumArms.v holds the two
   tables; Proofs/C09_arms.v proves both equal to ParseMap.numeric_expr. *)
From TauModel Require Import Base Num Syntax Ident IdentTable.

(* (the pattern is a float pattern, its comparison kind, the operator built, the constant is a float) *)
Definition num_arm : Type := (bool * cmpk * boolsym * bool)%type.

Definition arm_lookup (t : list num_arm) (flt : bool) (k : cmpk) : option (boolsym * bool) :=
  match find (fun a : num_arm => let '(f, k', _, _) := a in Bool.eqb f flt &&
                match k, k' with KEq, KEq | KGt, KGt | KGe, KGe | KLt, KLt | KLe, KLe => true | _, _ => false end) t with
  | Some (_, _, op, cf) => Some (op, cf)
  | None => None
  end.

(* the expression a numeric pattern becomes according to a table *)
Definition numeric_expr_gen (t : list num_arm) (e : expr) (p : pattern) : option expr :=
  let int_arm k i := match arm_lookup t false k with
                     | Some (op, false) => Some (EBexp e op (EInt i))
                     | _ => None end in
  let flt_arm k x := match arm_lookup t true k with
                     | Some (op, true) => Some (EBexp e op (EFloat x))
                     | _ => None end in
  match p with
  | PEqual i => int_arm KEq i | PGreaterThan i => int_arm KGt i | PGreaterThanOrEqual i => int_arm KGe i
  | PLessThan i => int_arm KLt i | PLessThanOrEqual i => int_arm KLe i
  | PFEqual x => flt_arm KEq x | PFGreaterThan x => flt_arm KGt x | PFGreaterThanOrEqual x => flt_arm KGe x
  | PFLessThan x => flt_arm KLt x | PFLessThanOrEqual x => flt_arm KLe x
  | _ => None
  end.
