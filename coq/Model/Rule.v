(* Rules: the Detection loader (rule.rs:42-153), Rule (rule.rs:456), matches and validate
   (rule.rs:528-556 with fix D2).  Modelled from the serde_yaml::Value down, as
   Rule::from_value sees it; every loader error is ErrorKind::Rule. *)
From TauModel Require Import Base Num Oracles Syntax Generated Token Pratt Ident Value Yaml
     ParseMap Solver.

Record detection := { d_expr : expr; d_ids : list (str * expr) }.

Record rule := {
  r_optimised : bool;
  r_det : detection;
  r_tp : list yaml;
  r_tn : list yaml
}.

Section Rule.
Variable o : oracles.
Variable ic : bool.

Definition as_rule_err {A} (x : out A) : out A :=
  match x with Err _ => Err ERule | y => y end.

Definition is_tmod (t : token) : bool := match t with TMod _ => true | _ => false end.

(* rule.rs:101-120: every Identifier token must name an identifier, except the token two
   places after a modifier (the column of a cast).  `p2`, `p1` are the two preceding
   tokens. *)
Fixpoint idents_known (ids : list (str * expr)) (p2 p1 : option token) (ts : list token)
  : bool :=
  match ts with
  | [] => true
  | t :: rest =>
      let skip := match p2 with Some t2 => is_tmod t2 | None => false end in
      let ok := if skip then true
                else match t with TIdent id => has_key id ids | _ => true end in
      ok && idents_known ids p1 (Some t) rest
  end.

(* serde_yaml looks through !tags wherever a typed value (struct, sequence, string, bool) is
   expected; Value::as_mapping does the same *)
Fixpoint untag (y : yaml) : yaml :=
  match y with YTagged _ v => untag v | _ => y end.

Definition cond_key : str := [99; 111; 110; 100; 105; 116; 105; 111; 110]%N. (* "condition" *)

(* the entries of the detection mapping, in order *)
Fixpoint load_entries (kv : list (yaml * yaml)) (cond : option str)
         (ids : list (str * expr)) : out (option str * list (str * expr)) :=
  match kv with
  | [] => Ok (cond, ids)
  | (k, v) :: rest =>
      match untag k with
      | YStr key =>
          if str_eqb key cond_key then
            match untag v with
            | YStr s => load_entries rest (Some s) ids
            | _ => Err ERule
            end
          else
            do e <- as_rule_err (parse_identifier o ic v);
            load_entries rest cond (ids ++ [(key, e)])
      | _ => Err ERule
      end
  end.

Definition load_detection (y : yaml) : out detection :=
  match untag y with
  | YMap kv =>
      do r <- load_entries kv None [];
      let '(cond, ids) := r in
      match cond with
      | None => Err ERule
      | Some raw =>
          do ts <- as_rule_err (tokenise o raw);
          if negb (idents_known ids None None ts) then Err ERule
          else
            do e <- as_rule_err (parse ts);
            if is_solvable e then Ok {| d_expr := e; d_ids := ids |} else Err ERule
      end
  | _ => Err ERule
  end.

Definition key_detection : str := [100; 101; 116; 101; 99; 116; 105; 111; 110]%N.
Definition key_tp : str :=
  [116; 114; 117; 101; 95; 112; 111; 115; 105; 116; 105; 118; 101; 115]%N.
Definition key_tn : str :=
  [116; 114; 117; 101; 95; 110; 101; 103; 97; 116; 105; 118; 101; 115]%N.
Definition key_optimised : str := [111; 112; 116; 105; 109; 105; 115; 101; 100]%N.

Fixpoint ylookup (k : str) (kv : list (yaml * yaml)) : option yaml :=
  match kv with
  | [] => None
  | (YStr k', v) :: rest => if str_eqb k k' then Some v else ylookup k rest
  | _ :: rest => ylookup k rest
  end.

Definition all_string_keys (kv : list (yaml * yaml)) : bool :=
  forallb (fun p => match fst p with YStr _ => true | _ => false end) kv.

(* Rule::from_value on a mapping with string keys (other top-level shapes are outside
   the model, see DESIGN.md section 8) *)
Definition load_rule (y : yaml) : out rule :=
  match untag y with
  | YMap kv =>
      do opt <- match option_map untag (ylookup key_optimised kv) with
                | None => Ok false
                | Some (YBool b) => Ok b
                | Some _ => Err ERule
                end;
      do det <- match ylookup key_detection kv with
                | Some d => load_detection d
                | None => Err ERule
                end;
      (* a null example list is read as an empty one by Rule::from_value (serde_yaml's unit -> empty
         sequence); found by the thorough tier of C04 *)
      do tp <- match option_map untag (ylookup key_tp kv) with Some (YSeq l) => Ok l | Some YNull => Ok [] | _ => Err ERule end;
      do tn <- match option_map untag (ylookup key_tn kv) with Some (YSeq l) => Ok l | Some YNull => Ok [] | _ => Err ERule end;
      Ok {| r_optimised := opt; r_det := det; r_tp := tp; r_tn := tn |}
  | _ => Err ERule
  end.

(* solver.rs:47 *)
Definition solve_rule3 (dt : detection) (d : docq) : out res3 :=
  solve_cond o (d_ids dt) (d_expr dt) d.

Definition matches (r : rule) (d : doc) : out bool :=
  do x <- solve_rule3 (r_det r) (pure_doc d);
  Ok (match x with T => true | _ => false end).

Definition example_doc (y : yaml) : option doc :=
  match untag y with
  | YMap kv => match yaml_as_value (YMap kv) with
               | VObj o' => Some (obj_find o')
               | _ => None
               end
  | _ => None
  end.

(* indices of failing examples: true positives count from 0, true negatives from 1000 *)
Fixpoint validate_list (r : rule) (want : bool) (i : Z) (l : list yaml) : out (list Z) :=
  match l with
  | [] => Ok []
  | y :: rest =>
      do bad <- match example_doc y with
                | None => Ok true
                | Some d => do m <- matches r d; Ok (negb (Bool.eqb m want))
                end;
      do tl' <- validate_list r want (i + 1)%Z rest;
      Ok (if bad then i :: tl' else tl')
  end.

Definition validate (r : rule) : out (list Z) :=
  do a <- validate_list r true 0%Z (r_tp r);
  do b <- validate_list r false 1000%Z (r_tn r);
  Ok (a ++ b).

End Rule.
