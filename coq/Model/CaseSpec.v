(* The rule transformation of property C15: prepend `i` to every string pattern. *)
From TauModel Require Import Base Num Yaml Rule.

(* every string in a value position of an identifier block (scalars, list members, values
   inside nested mappings); keys are left alone *)
Fixpoint prefix_vals (y : yaml) : yaml :=
  match y with
  | YStr s => YStr (ch_i :: s)
  | YSeq l => YSeq (map prefix_vals l)
  | YMap kv => YMap (map (fun p : yaml * yaml => (fst p, prefix_vals (snd p))) kv)
  | YTagged t v => YTagged t (prefix_vals v)
  | _ => y
  end.

Definition is_condition_key (k : yaml) : bool :=
  match untag k with YStr s => str_eqb s cond_key | _ => false end.

(* the detection block: identifiers are transformed, the condition is not *)
Definition prefix_detection (y : yaml) : yaml :=
  match y with
  | YMap kv =>
      YMap (map (fun p : yaml * yaml =>
                   if is_condition_key (fst p) then p else (fst p, prefix_vals (snd p))) kv)
  | _ => y
  end.

Definition is_detection_key (k : yaml) : bool :=
  match k with YStr s => str_eqb s key_detection | _ => false end.

Definition prefix_rule (y : yaml) : yaml :=
  match y with
  | YMap kv =>
      YMap (map (fun p : yaml * yaml =>
                   if is_detection_key (fst p) then (fst p, prefix_detection (snd p)) else p) kv)
  | _ => y
  end.
