(* Identifier blocks: parse_identifier / parse_mapping (parser.rs:744-1608, with fixes D8
   and D9). *)
From TauModel Require Import Base Num Oracles Syntax Generated Token Pratt Ident Value Yaml.

Section ParseMap.
Variable o : oracles.
Variable ic : bool.

(* parser.rs:794-811: consecutive Identifier tokens of a key are merged with a space *)
Fixpoint merge_idents (acc : list str) (ts : list token) : list token :=
  match ts with
  | [] => match acc with [] => [] | _ => [TIdent (join_with [ch_space] (rev acc))] end
  | TIdent s :: rest => merge_idents (s :: acc) rest
  | t :: rest =>
      match acc with
      | [] => t :: merge_idents [] rest
      | _ => TIdent (join_with [ch_space] (rev acc)) :: t :: merge_idents [] rest
      end
  end.

(* what a mapping key denotes: the left operand `e`, the field name, the modifier *)
Record keyinfo := { k_e : expr; k_f : str; k_misc : option modsym }.

Definition is_yseq (v : yaml) : bool := match v with YSeq _ => true | _ => false end.

Definition parse_key (k : yaml) (v : yaml) : out keyinfo :=
  match k with
  | YStr s =>
      do ts <- tokenise o s;
      do ex <- parse (merge_idents [] ts);
      match ex with
      | ECast f m =>
          Ok {| k_e := match m with MNot => EField f | _ => ECast f m end;
                k_f := f; k_misc := Some m |}
      | EIdent s => Ok {| k_e := EField s; k_f := s; k_misc := None |}
      | EMatch m i =>
          if is_yseq v then
            match i with
            | EIdent s => Ok {| k_e := EMatch m (EField s); k_f := s; k_misc := None |}
            | _ => Err EInvalidIdent
            end
          else Err EInvalidIdent
      | _ => Err EInvalidIdent
      end
  | _ => Err EInvalidIdent
  end.

Definition misc_is (m : modsym) (misc : option modsym) : bool :=
  match misc with Some m' => modsym_eqb m m' | None => false end.

Definition is_string_pattern (p : pattern) : bool :=
  match p with
  | PAny | PRegex _ | PContains _ | PEndsWith _ | PExact _ | PStartsWith _ => true
  | _ => false
  end.

(* parser.rs:920-956 / 1238-1274 *)
Definition misc_pattern_check (misc : option modsym) (p : pattern) : out unit :=
  match misc with
  | Some MInt => if is_string_pattern p then Err EInvalidIdent else Ok tt
  | Some MStr => if is_string_pattern p then Ok tt else Err EInvalidIdent
  | _ => Ok tt
  end.

Definition cmp_expr (e : expr) (op : boolsym) (r : expr) : expr := EBexp e op r.

(* numeric patterns become comparisons of `e` *)
Definition numeric_expr (e : expr) (p : pattern) : option expr :=
  match p with
  | PEqual i => Some (cmp_expr e BEqual (EInt i))
  | PGreaterThan i => Some (cmp_expr e BGreaterThan (EInt i))
  | PGreaterThanOrEqual i => Some (cmp_expr e BGreaterThanOrEqual (EInt i))
  | PLessThan i => Some (cmp_expr e BLessThan (EInt i))
  | PLessThanOrEqual i => Some (cmp_expr e BLessThanOrEqual (EInt i))
  | PFEqual i => Some (cmp_expr e BEqual (EFloat i))
  | PFGreaterThan i => Some (cmp_expr e BGreaterThan (EFloat i))
  | PFGreaterThanOrEqual i => Some (cmp_expr e BGreaterThanOrEqual (EFloat i))
  | PFLessThan i => Some (cmp_expr e BLessThan (EFloat i))
  | PFLessThanOrEqual i => Some (cmp_expr e BLessThanOrEqual (EFloat i))
  | _ => None
  end.

(* a single string value (parser.rs:917-1091) *)
Definition scalar_string_expr (ki : keyinfo) (s : str) : out expr :=
  do id <- into_identifier o ic s;
  do _ <- misc_pattern_check (k_misc ki) (id_pat id);
  let cast := misc_is MStr (k_misc ki) in
  let f := k_f ki in
  let ci := id_ci id in
  match numeric_expr (k_e ki) (id_pat id) with
  | Some e => Ok e
  | None =>
      Ok (match id_pat id with
          | PAny => ESearch SAny f cast
          | PRegex r => ESearch (SRegex r ci) f cast
          | PContains x => ESearch (if ci then SAho [MTContains x] true else SContains x) f cast
          | PEndsWith x => ESearch (if ci then SAho [MTEndsWith x] true else SEndsWith x) f cast
          | PStartsWith x =>
              ESearch (if ci then SAho [MTStartsWith x] true else SStartsWith x) f cast
          | PExact x =>
              ESearch (if (match x with [] => false | _ => true end) && ci
                       then SAho [MTExact x] true else SExact x) f cast
          | _ => ENull (* unreachable: numeric patterns handled above *)
          end)
  end.

(* a YAML number (parser.rs:879-911, 1169-1212): Some (inl i) integer, Some (inr f) float *)
Definition number_of (z : Z) : Z + fbits :=
  match yint_as_i64 z with Some i => inl i | None => inr (f64_of_Z z) end.

(* the text a str() cast compares an integer constant outside the i64 range with: its own
   decimal text when it is a u64 (`n.as_u64()`, fix D30), else the text of the double *)
Definition big_int_text (z : Z) (x : fbits) : str :=
  if (0 <=? z)%Z && (z <=? u64_max)%Z then show_Z z else f64_show o x.

(* ---- sequences (parser.rs:1101-1589) ---- *)
Record seqacc := {
  a_exact : list identifier; a_starts : list identifier; a_ends : list identifier;
  a_contains : list identifier; a_regex : list identifier; a_rest : list expr;
  a_boolean : bool; a_mapping : bool; a_number : bool; a_string : bool; a_cast : bool
}.
Definition acc0 : seqacc :=
  {| a_exact := []; a_starts := []; a_ends := []; a_contains := []; a_regex := [];
     a_rest := []; a_boolean := false; a_mapping := false; a_number := false;
     a_string := false; a_cast := false |}.

Definition push_rest (a : seqacc) (e : expr) : seqacc :=
  {| a_exact := a_exact a; a_starts := a_starts a; a_ends := a_ends a;
     a_contains := a_contains a; a_regex := a_regex a; a_rest := a_rest a ++ [e];
     a_boolean := a_boolean a; a_mapping := a_mapping a; a_number := a_number a;
     a_string := a_string a; a_cast := a_cast a |}.
Definition push_exact (a : seqacc) (i : identifier) : seqacc :=
  {| a_exact := a_exact a ++ [i]; a_starts := a_starts a; a_ends := a_ends a;
     a_contains := a_contains a; a_regex := a_regex a; a_rest := a_rest a;
     a_boolean := a_boolean a; a_mapping := a_mapping a; a_number := a_number a;
     a_string := a_string a; a_cast := a_cast a |}.
Definition push_starts (a : seqacc) (i : identifier) : seqacc :=
  {| a_exact := a_exact a; a_starts := a_starts a ++ [i]; a_ends := a_ends a;
     a_contains := a_contains a; a_regex := a_regex a; a_rest := a_rest a;
     a_boolean := a_boolean a; a_mapping := a_mapping a; a_number := a_number a;
     a_string := a_string a; a_cast := a_cast a |}.
Definition push_ends (a : seqacc) (i : identifier) : seqacc :=
  {| a_exact := a_exact a; a_starts := a_starts a; a_ends := a_ends a ++ [i];
     a_contains := a_contains a; a_regex := a_regex a; a_rest := a_rest a;
     a_boolean := a_boolean a; a_mapping := a_mapping a; a_number := a_number a;
     a_string := a_string a; a_cast := a_cast a |}.
Definition push_contains (a : seqacc) (i : identifier) : seqacc :=
  {| a_exact := a_exact a; a_starts := a_starts a; a_ends := a_ends a;
     a_contains := a_contains a ++ [i]; a_regex := a_regex a; a_rest := a_rest a;
     a_boolean := a_boolean a; a_mapping := a_mapping a; a_number := a_number a;
     a_string := a_string a; a_cast := a_cast a |}.
Definition push_regex (a : seqacc) (i : identifier) : seqacc :=
  {| a_exact := a_exact a; a_starts := a_starts a; a_ends := a_ends a;
     a_contains := a_contains a; a_regex := a_regex a ++ [i]; a_rest := a_rest a;
     a_boolean := a_boolean a; a_mapping := a_mapping a; a_number := a_number a;
     a_string := a_string a; a_cast := a_cast a |}.
Definition set_flags (a : seqacc) (b m n s cst : bool) : seqacc :=
  {| a_exact := a_exact a; a_starts := a_starts a; a_ends := a_ends a;
     a_contains := a_contains a; a_regex := a_regex a; a_rest := a_rest a;
     a_boolean := a_boolean a || b; a_mapping := a_mapping a || m;
     a_number := a_number a || n; a_string := a_string a || s; a_cast := a_cast a || cst |}.
Definition flag_boolean a := set_flags a true false false false false.
Definition flag_mapping a := set_flags a false true false false false.
Definition flag_number a := set_flags a false false true false false.
Definition flag_string a := set_flags a false false false true false.
Definition flag_cast a := set_flags a false false false false true.

Definition exact_id (s : str) : identifier := {| id_ci := false; id_pat := PExact s |}.

(* one member of the sequence; `sub` is the result of parse_mapping on the member when it
   is a mapping *)
Definition seq_member (ki : keyinfo) (ue : expr) (a : seqacc) (v : yaml)
           (sub : option (out expr)) : out seqacc :=
  let misc := k_misc ki in
  match v with
  | YBool b =>
      if misc_is MInt misc then
        Ok (push_rest (flag_number a) (cmp_expr ue BEqual (EInt (if b then 1 else 0)%Z)))
      else if misc_is MStr misc then
        Ok (push_exact (flag_string a) (exact_id (show_bool b)))
      else Ok (push_rest (flag_boolean a) (cmp_expr ue BEqual (EBool b)))
  | YNull => Ok (push_rest a (cmp_expr ue BEqual ENull))
  | YInt z =>
      match number_of z with
      | inl i =>
          if misc_is MStr misc then Ok (push_exact (flag_string a) (exact_id (show_Z i)))
          else Ok (push_rest (flag_number a) (cmp_expr ue BEqual (EInt i)))
      | inr x =>
          if misc_is MInt misc then Err EInvalidIdent
          else if misc_is MStr misc then
            Ok (push_exact (flag_string a) (exact_id (big_int_text z x)))                  (* fix D30 *)
          else Ok (push_rest (flag_number a) (cmp_expr ue BEqual (EFloat x)))
      end
  | YFloat x =>
      if misc_is MInt misc then Err EInvalidIdent
      else if misc_is MStr misc then
        Ok (push_exact (flag_string a) (exact_id (f64_show o x)))
      else Ok (push_rest (flag_number a) (cmp_expr ue BEqual (EFloat x)))
  | YMap _ =>
      match misc with
      | Some _ => Err EInvalidIdent
      | None =>
          match sub with
          | Some r => do e <- r; Ok (push_rest (flag_mapping a) (ENested (k_f ki) e))
          | None => Err EInvalidIdent (* unreachable *)
          end
      end
  | YStr s =>
      do id <- into_identifier o ic s;
      let a := if misc_is MStr misc then flag_cast a else a in
      do _ <- misc_pattern_check misc (id_pat id);
      match id_pat id with
      | PExact _ => Ok (push_exact (flag_string a) id)
      | PStartsWith _ => Ok (push_starts (flag_string a) id)
      | PEndsWith _ => Ok (push_ends (flag_string a) id)
      | PContains _ => Ok (push_contains (flag_string a) id)
      | PRegex _ => Ok (push_regex (flag_string a) id)
      | PAny => Ok (push_rest (flag_string a) (ESearch SAny (k_f ki) (a_cast a)))
      | p => match numeric_expr ue p with
             | Some e => Ok (push_rest (flag_number a) e)
             | None => Err EInvalidIdent (* unreachable *)
             end
      end
  | YSeq _ | YTagged _ _ => Err EInvalidIdent
  end.

Fixpoint seq_members (ki : keyinfo) (ue : expr) (a : seqacc) (vs : list yaml)
         (subs : list (option (out expr))) : out seqacc :=
  match vs with
  | [] => Ok a
  | v :: vs' =>
      do a' <- seq_member ki ue a v (match subs with s :: _ => s | [] => None end);
      seq_members ki ue a' vs' (tl subs)
  end.

(* split identifiers of one pattern kind into (context, icontext) *)
Definition needle_of (mk : str -> mtype) (i : identifier) : option (bool * mtype) :=
  match id_pat i with
  | PStartsWith s | PContains s | PEndsWith s | PExact s => Some (id_ci i, mk s)
  | _ => None
  end.

Definition add_needles (mk : str -> mtype) (ids : list identifier)
           (acc : list mtype * list mtype) : list mtype * list mtype :=
  fold_left (fun acc i =>
               match needle_of mk i with
               | Some (true, m) => (fst acc, snd acc ++ [m])
               | Some (false, m) => (fst acc ++ [m], snd acc)
               | None => acc
               end) ids acc.

Definition pat_str (i : identifier) : str :=
  match id_pat i with
  | PExact s | PStartsWith s | PEndsWith s | PContains s | PRegex s => s
  | _ => []
  end.

Definition search_of_mtype (m : mtype) : search :=
  match m with
  | MTContains x => SContains x | MTEndsWith x => SEndsWith x
  | MTExact x => SExact x | MTStartsWith x => SStartsWith x
  end.

Definition is_nil {A} (l : list A) : bool := match l with [] => true | _ => false end.

Definition is_match_key (e : expr) : bool := match e with EMatch _ _ => true | _ => false end.

Definition b2n (b : bool) : nat := if b then 1 else 0.

(* parser.rs:1382-1588: the group built from the accumulators *)
Definition finish_seq (ki : keyinfo) (a : seqacc) : out expr :=
  let f := k_f ki in
  let cast := a_cast a in
  let exact_nonempty := filter (fun i => negb (is_nil (pat_str i))) (a_exact a) in
  let exact_empty := filter (fun i => is_nil (pat_str i)) (a_exact a) in
  let '(context, icontext) :=
    add_needles MTExact exact_nonempty
      (add_needles MTEndsWith (a_ends a)
         (add_needles MTContains (a_contains a)
            (add_needles MTStartsWith (a_starts a) ([], [])))) in
  let regex_set := map pat_str (filter (fun i => negb (id_ci i)) (a_regex a)) in
  let iregex_set := map pat_str (filter (fun i => id_ci i) (a_regex a)) in
  let g0 := map (fun _ => ESearch (SExact []) f cast) exact_empty in
  let '(g1, m1) :=
    match context with
    | [] => ([], false)
    | [m] => ([ESearch (search_of_mtype m) f cast], false)
    | _ => ([ESearch (SAho context false) f cast], true)
    end in
  let '(g2, m2) :=
    match icontext with
    | [] => ([], false)
    | _ => ([ESearch (SAho icontext true) f cast], true)
    end in
  let '(g3, m3) :=
    match regex_set with
    | [] => ([], false)
    | [r] => ([ESearch (SRegex r false) f cast], false)
    | _ => ([ESearch (SRegexSet regex_set false) f cast], true)
    end in
  let '(g4, m4) :=
    match iregex_set with
    | [] => ([], false)
    | [r] => ([ESearch (SRegex r true) f cast], false)
    | _ => ([ESearch (SRegexSet iregex_set true) f cast], true)
    end in
  let group := g0 ++ g1 ++ g2 ++ g3 ++ g4 ++ a_rest a in
  let multiple := m1 || m2 || m3 || m4 in
  let kinds := (b2n (a_boolean a) + b2n (a_mapping a) + b2n (a_number a) + b2n (a_string a))%nat in
  if is_match_key (k_e ki) && (1 <? kinds)%nat then Err EInvalidIdent
  else if misc_is MInt (k_misc ki) && (a_boolean a || a_mapping a || a_string a)
  then Err EInvalidIdent
  else if misc_is MStr (k_misc ki) && (a_boolean a || a_mapping a || a_number a)
  then Err EInvalidIdent
  else
    match group with
    | [] => Err EInvalidIdent
    | [x] =>
        let keep_of := match k_e ki with
                       | EMatch (MOf c) _ => negb (c =? 1)%Z
                       | _ => false
                       end in
        if negb multiple && negb keep_of then Ok x
        else match k_e ki with
             | EMatch m _ => Ok (EMatch m x)
             | _ => Ok (EGroup BOr group)
             end
    | _ =>
        match k_e ki with
        | EMatch m _ => Ok (EMatch m (EGroup BOr group))
        | _ => Ok (EGroup BOr group)
        end
    end.

(* one entry `k: v` of a mapping.  `sub` / `subs` carry the results of parse_mapping on a
   nested mapping value / on the mapping members of a sequence value *)
Definition parse_entry (k v : yaml) (sub : option (out expr))
           (subs : list (option (out expr))) : out expr :=
  do ki <- parse_key k v;
  let e := k_e ki in
  let f := k_f ki in
  let misc := k_misc ki in
  do ex <-
    match v with
    | YBool b =>
        if misc_is MInt misc then Ok (cmp_expr e BEqual (EInt (if b then 1 else 0)%Z))
        else if misc_is MStr misc then Ok (ESearch (SExact (show_bool b)) f true)
        else Ok (cmp_expr e BEqual (EBool b))
    | YInt z =>
        match number_of z with
        | inl i =>
            if misc_is MStr misc then Ok (ESearch (SExact (show_Z i)) f true)
            else Ok (cmp_expr e BEqual (EInt i))
        | inr x =>
            if misc_is MInt misc then Err EInvalidIdent
            else if misc_is MStr misc then Ok (ESearch (SExact (big_int_text z x)) f true)   (* fix D30 *)
            else Ok (cmp_expr e BEqual (EFloat x))
        end
    | YFloat x =>
        if misc_is MInt misc then Err EInvalidIdent
        else if misc_is MStr misc then Ok (ESearch (SExact (f64_show o x)) f true)
        else Ok (cmp_expr e BEqual (EFloat x))
    | YNull => Ok (cmp_expr e BEqual ENull)
    | YStr s => scalar_string_expr ki s
    | YMap _ =>
        match misc with
        | Some _ => Err EInvalidIdent
        | None => match sub with
                  | Some r => do x <- r; Ok (ENested f x)
                  | None => Err EInvalidIdent (* unreachable *)
                  end
        end
    | YSeq vs =>
        let ue := match e with EMatch _ inner => inner | _ => e end in
        (* fix D31: the cast flag of a str() list is set from the key, not by the first
           string member *)
        do a <- seq_members ki ue (if misc_is MStr misc then flag_cast acc0 else acc0) vs subs;
        finish_seq ki a
    | YTagged _ _ => Err EInvalidIdent
    end;
  Ok (if misc_is MNot misc then ENegate ex else ex).

Definition finish_mapping (es : list expr) : out expr :=
  match es with
  | [] => Err EInvalidIdent
  | [x] => Ok x
  | _ => Ok (EGroup BAnd es)
  end.

(* parse_mapping applied to a YAML value that is a mapping *)
Fixpoint parse_mapping (y : yaml) : out expr :=
  match y with
  | YMap kv =>
      let fix entries (kv : list (yaml * yaml)) : out (list expr) :=
        match kv with
        | [] => Ok []
        | (k, v) :: kv' =>
            let sub := match v with YMap _ => Some (parse_mapping v) | _ => None end in
            let subs :=
              match v with
              | YSeq l => map (fun m => match m with
                                        | YMap _ => Some (parse_mapping m)
                                        | _ => None
                                        end) l
              | _ => []
              end in
            do e <- parse_entry k v sub subs;
            do es <- entries kv';
            Ok (e :: es)
        end in
      do es <- entries kv;
      finish_mapping es
  | _ => Err EInvalidIdent
  end.

Definition is_ymap (y : yaml) : bool := match y with YMap _ => true | _ => false end.

(* parser.rs:744 *)
Definition parse_identifier (y : yaml) : out expr :=
  match y with
  | YMap _ => parse_mapping y
  | YSeq [] => Err EInvalidIdent
  | YSeq (first :: others) =>
      if is_ymap first then
        do e0 <- parse_mapping first;
        do es <- mapM (fun v => if is_ymap v then parse_mapping v else Err EInvalidIdent) others;
        Ok (EGroup BOr (e0 :: es))
      else Err EInvalidIdent
  | _ => Err EInvalidIdent
  end.

End ParseMap.
