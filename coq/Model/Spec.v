(* L0: reference semantics of the rule language (property C02), written from the
   documentation (README, lib.rs, the Rule doc comment; DESIGN.md appendix A) on the YAML
   value of the rule and the document value -- NOT on the engine's expression tree.  It
   shares with the engine model only: the condition grammar (a condition is read by the
   parser proved equal to the grammar in C05), the documented pattern meaning of
   PatSpec.v (C07), integer/float primitives of Num.v, and path lookup (C10).

   Results are three-valued.  Where the documentation is silent the clause is marked
   [code]: a decision read off the implementation, listed so that it can be challenged. *)
From TauModel Require Import Base Num Oracles Syntax Value Yaml Token Pratt ParseMap PatSpec Rule.

Section Spec.
Variable o : oracles.
Variable ic : bool.

(* ---- three-valued tables, on result lists in written order ---- *)
Definition or3 (a b : res3) : res3 :=
  match a, b with
  | T, _ | _, T => T
  | F, _ | _, F => F
  | M, M => M
  end.
Definition max3 (rs : list res3) : res3 := fold_right or3 M rs.
Fixpoint first_non_true (rs : list res3) : res3 :=
  match rs with [] => T | T :: rest => first_non_true rest | x :: _ => x end.
Definition not3 (r : res3) : res3 := match r with T => F | F => T | M => F end.
Definition count3 (x : res3) (rs : list res3) : Z :=
  Z.of_nat (length (filter (res3_eqb x) rs)).
Definition all_missing (rs : list res3) : bool := forallb (res3_eqb M) rs.
(* of(.., c), c >= 1: at least c true; otherwise missing iff everything is missing, else false.
   of(.., 0): false iff some member is true; else true iff some member is false; else missing *)
Definition of3 (c : Z) (rs : list res3) : res3 :=
  if (c =? 0)%Z then
    if (0 <? count3 T rs)%Z then F else if (0 <? count3 F rs)%Z then T else M
  else if (c <=? count3 T rs)%Z then T
  else if all_missing rs then M else F.

(* ---- key modifiers ---- *)
Inductive keymod := KPlain | KNot | KInt | KFlt | KStr | KAll | KOf (c : Z).

(* the surface syntax of a mapping key: `name`, `not(name)`, `int(name)`, `flt(name)`,
   `str(name)` / `string(name)`, `all(name)`, `of(name, c)`; read with the condition
   tokeniser and grammar like every other expression of the language *)
Definition read_key (k : str) : option (keymod * str) :=
  match tokenise o k with
  | Ok ts =>
      match parse (ParseMap.merge_idents [] ts) with
      | Ok (EIdent f) => Some (KPlain, f)
      | Ok (ECast f MNot) => Some (KNot, f)
      | Ok (ECast f MInt) => Some (KInt, f)
      | Ok (ECast f MFlt) => Some (KFlt, f)
      | Ok (ECast f MStr) => Some (KStr, f)
      | Ok (EMatch MAll (EIdent f)) => Some (KAll, f)
      | Ok (EMatch (MOf c) (EIdent f)) => Some (KOf c, f)
      | _ => None
      end
  | _ => None
  end.

(* ---- scalar predicates on a PRESENT document value ---- *)
Definition scalar_text (x : value) : option str :=
  match x with
  | VBool b => Some (show_bool b)
  | VFloat f => Some (f64_show o f)
  | VInt z | VUInt z => Some (show_Z z)
  | _ => None
  end.

(* the strings a string predicate looks at: the value itself, or for an array its string
   elements; under str() scalars count by their canonical text.  None: not applicable *)
Definition texts_of (cast : bool) (x : value) : option (list str) :=
  match x with
  | VStr h => Some [h]
  | VArr l =>
      Some (flat_map (fun v => match v with
                               | VStr h => [h]
                               | _ => if cast then match scalar_text v with Some t => [t] | None => [] end
                                      else []
                               end) l)
  | _ => if cast then match scalar_text x with Some t => Some [t] | None => None end else None
  end.

(* string pattern: missing when the value is of a kind a string predicate does not apply
   to [code], else true iff some text satisfies the documented relation *)
Definition sem_string (cast : bool) (s : str) (x : value) : res3 :=
  match texts_of cast x with
  | None => M
  | Some ts => if existsb (documented o ic s) ts then T else F
  end.

(* a literal text under str(): numbers and booleans written as YAML scalars are compared as
   exact text, never re-read as patterns *)
Definition sem_literal (t : str) (x : value) : res3 :=
  match texts_of true x with
  | None => M
  | Some ts => if existsb (str_eqb t) ts then T else F
  end.

(* numbers *)
Inductive num := NInt (z : Z) | NFlt (f : fbits).

Definition rel_int (op : boolsym) (a b : Z) : bool :=
  match op with
  | BEqual => (a =? b)%Z | BGreaterThan => (b <? a)%Z | BGreaterThanOrEqual => (b <=? a)%Z
  | BLessThan => (a <? b)%Z | BLessThanOrEqual => (a <=? b)%Z | _ => false
  end.
Definition rel_flt (op : boolsym) (a b : fbits) : bool :=
  match op with
  | BEqual => f_eq a b | BGreaterThan => f_gt a b | BGreaterThanOrEqual => f_ge a b
  | BLessThan => f_lt a b | BLessThanOrEqual => f_le a b | _ => false
  end.

(* the number a document value denotes: directly, or after int() / flt() conversion
   (booleans 0/1, numbers, numeric strings); None: not a number / not convertible *)
Definition num_of_value (m : keymod) (x : value) : option num :=
  match m with
  | KInt =>
      match x with
      | VBool b => Some (NInt (if b then 1 else 0))
      | VInt z => Some (NInt z)
      | VUInt z => if (z <=? i64_max)%Z then Some (NInt z) else None
      | VFloat f => option_map NInt (f64_to_i64 f)
      | VStr s => option_map NInt (parse_i64 s)
      | _ => None
      end
  | KFlt =>
      match x with
      | VBool b => Some (NFlt (if b then f64_one else f64_zero))
      | VInt z | VUInt z => Some (NFlt (f64_of_Z z))
      | VFloat f => Some (NFlt f)
      | VStr s => option_map NFlt (f64_parse o s)
      | _ => None
      end
  | _ =>
      match x with
      | VInt z | VUInt z => Some (NInt z)
      | VFloat f => Some (NFlt f)
      | _ => None
      end
  end.

(* a numeric predicate is true exactly when the value denotes a number of the constant's
   family in the stated relation; a present value that does not is false *)
Definition sem_number (m : keymod) (op : boolsym) (c : num) (x : value) : res3 :=
  match num_of_value m x, c with
  | Some (NInt a), NInt b => if rel_int op a b then T else F
  | Some (NFlt a), NFlt b => if rel_flt op a b then T else F
  | _, _ => F
  end.

(* a pattern text that is numeric: operator and constant *)
Definition read_numeric (s : str) : option (boolsym * num) :=
  let '(_, p) := split_case ic s in
  let try (op : boolsym) (rest : str) : option (boolsym * num) :=
    if str_contains_char ch_dot rest
    then option_map (fun f => (op, NFlt f)) (f64_parse o rest)
    else option_map (fun z => (op, NInt z)) (parse_i64 rest) in
  match strip_prefix [ch_gt; ch_eq] p with Some r => try BGreaterThanOrEqual r | None =>
  match strip_prefix [ch_gt] p with Some r => try BGreaterThan r | None =>
  match strip_prefix [ch_lt; ch_eq] p with Some r => try BLessThanOrEqual r | None =>
  match strip_prefix [ch_lt] p with Some r => try BLessThan r | None =>
  match strip_prefix [ch_eq] p with Some r => try BEqual r | None => None
  end end end end end.

Definition yaml_num (z : Z) : num :=
  if in_i64 z then NInt z else NFlt (f64_of_Z z).     (* an integer above i64::MAX is read as a double [code] *)

(* one scalar member `v` of an entry on a present value x, under modifier m (m is never
   KNot / KAll / KOf here: those are handled around it) *)
Definition sem_scalar (m : keymod) (v : yaml) (x : value) : res3 :=
  let cast := match m with KStr => true | _ => false end in
  match v with
  | YStr s =>
      match read_numeric s with
      | Some (op, c) => sem_number m op c x
      | None => sem_string cast s x
      end
  | YInt z =>
      match m with
      | KStr => sem_literal (show_Z z) x              (* canonical decimal text, literally *)
      | _ => sem_number m BEqual (yaml_num z) x
      end
  | YFloat f =>
      match m with
      | KStr => sem_literal (f64_show o f) x
      | _ => sem_number m BEqual (NFlt f) x
      end
  | YBool b =>
      match m with
      | KInt => sem_number KInt BEqual (NInt (if b then 1 else 0)) x
      | KStr => sem_literal (show_bool b) x
      | KFlt => F                                      (* [code] *)
      | _ => match x with VBool y => if Bool.eqb y b then T else F | _ => F end
      end
  | YNull =>
      match m with
      | KInt | KFlt | KStr => F                        (* [code] *)
      | _ => match x with VNull => T | _ => F end
      end
  | _ => F
  end.

(* literal texts under str(): numbers and booleans written as YAML scalars are compared as
   exact text, not re-read as patterns *)
Definition literal_under_str (m : keymod) (v : yaml) : bool :=
  match m, v with
  | KStr, YInt _ | KStr, YFloat _ | KStr, YBool _ => true
  | _, _ => false
  end.

(* ---- entries, mappings ---- *)
Fixpoint sem_mapping (fuel : nat) (y : yaml) (d : doc) : res3 :=
  match fuel with
  | O => M
  | S fu =>
      match y with
      | YMap kv =>
          first_non_true
            (map (fun p : yaml * yaml =>
                    match fst p with
                    | YStr k =>
                        match read_key k with
                        | None => M
                        | Some (m, f) =>
                            let base : res3 :=
                              match d f with
                              | None => M                            (* absent field: missing *)
                              | Some x =>
                                  let member (m' : keymod) (v : yaml) : res3 :=
                                    match v with
                                    | YMap _ =>
                                        match x with
                                        | VObj kv' => sem_mapping fu v (obj_find kv')
                                        | VArr l =>
                                            if existsb (fun e => match e with
                                                                 | VObj kv' => res3_eqb (sem_mapping fu v (obj_find kv')) T
                                                                 | _ => false
                                                                 end) l
                                            then T else F
                                        | _ => F
                                        end
                                    | _ => sem_scalar m' v x
                                    end in
                                  match snd p with
                                  | YSeq vs =>
                                      match m with
                                      | KAll => first_non_true (map (member KPlain) vs)
                                      | KOf c => of3 c (map (member KPlain) vs)
                                      | KNot => max3 (map (member KPlain) vs)
                                      | _ => max3 (map (member m) vs)
                                      end
                                  | v =>
                                      match m with
                                      | KNot => member KPlain v
                                      | KAll | KOf _ => M                (* rejected by the loader *)
                                      | _ => member m v
                                      end
                                  end
                              end in
                            (* not(k): true and false exchanged, missing becomes false *)
                            match m with KNot => not3 base | _ => base end
                        end
                    | _ => M
                    end) kv)
      | _ => M
      end
  end.

Fixpoint yaml_depth (y : yaml) : nat :=
  match y with
  | YSeq l => S (fold_right (fun v n => Nat.max (yaml_depth v) n) 0%nat l)
  | YMap kv => S (fold_right (fun p n => Nat.max (Nat.max (yaml_depth (fst p)) (yaml_depth (snd p))) n) 0%nat kv)
  | YTagged _ v => S (yaml_depth v)
  | _ => 1%nat
  end.

(* an identifier: a mapping, or a non-empty sequence of mappings (max over M < F < T) *)
Definition sem_identifier_members (y : yaml) (d : doc) : list res3 :=
  match y with
  | YMap _ => [sem_mapping (S (yaml_depth y)) y d]
  | YSeq l => map (fun m => sem_mapping (S (yaml_depth m)) m d) l
  | _ => []
  end.
Definition sem_identifier (y : yaml) (d : doc) : res3 := max3 (sem_identifier_members y d).

(* the entries all(X) / of(X, n) count: the items of a sequence, the entries of a mapping *)
Definition sem_entries (y : yaml) (d : doc) : list res3 :=
  match y with
  | YMap kv => map (fun p => sem_mapping (S (yaml_depth y)) (YMap [p]) d) kv
  | _ => sem_identifier_members y d
  end.

(* ---- conditions: the grammar's tree, evaluated over the identifiers' YAML ---- *)
Definition field_num (m : keymod) (d : doc) (f : str) : option (option num) :=
  match d f with None => None | Some x => Some (num_of_value m x) end.

Fixpoint sem_cond (ids : list (str * yaml)) (e : expr) (d : doc) : res3 :=
  match e with
  | EIdent i => match lookup i ids with Some y => sem_identifier y d | None => M end
  | ENegate e' => not3 (sem_cond ids e' d)
  | EBexp l BAnd r => first_non_true [sem_cond ids l d; sem_cond ids r d]
  | EBexp l BOr r => or3 (sem_cond ids l d) (sem_cond ids r d)
  | EMatch MAll (EIdent i) =>
      match lookup i ids with Some y => first_non_true (sem_entries y d) | None => M end
  | EMatch (MOf c) (EIdent i) =>
      match lookup i ids with Some y => of3 c (sem_entries y d) | None => M end
  | EBexp (ECast lf MStr) BEqual (ECast rf MStr) =>
      match d lf with
      | None => M
      | Some x =>
          match (match x with VStr s => Some s | _ => scalar_text x end) with
          | None => F
          | Some xs =>
              match d rf with
              | None => M
              | Some y =>
                  match (match y with VStr s => Some s | _ => scalar_text y end) with
                  | None => F
                  | Some ys => if str_eqb xs ys then T else F
                  end
              end
          end
      end
  | EBexp l op r =>
      (* comparison of casts and constants: missing if a cast field is absent, false if a
         value is not convertible, else the relation *)
      let side (x : expr) : option (option num) :=
        match x with
        | ECast f MInt => field_num KInt d f
        | ECast f MFlt => field_num KFlt d f
        | EInt z => Some (Some (NInt z))
        | EFloat f => Some (Some (NFlt f))
        | _ => Some None
        end in
      match side l with
      | None => M
      | Some None => F
      | Some (Some a) =>
          match side r with
          | None => M
          | Some None => F
          | Some (Some b) =>
              match a, b with
              | NInt x, NInt y => if rel_int op x y then T else F
              | NFlt x, NFlt y => if rel_flt op x y then T else F
              | _, _ => F
              end
          end
      end
  | _ => M
  end.

(* a rule matches iff its condition is true *)
Definition raw_identifiers (dkv : list (yaml * yaml)) : list (str * yaml) :=
  flat_map (fun p : yaml * yaml =>
              match untag (fst p) with
              | YStr k => if str_eqb k cond_key then [] else [(k, snd p)]
              | _ => []
              end) dkv.

Definition sem_rule (y : yaml) (d : doc) : option res3 :=
  match untag y with
  | YMap kv =>
      match option_map untag (ylookup key_detection kv) with
      | Some (YMap dkv) =>
          match load_detection o ic (YMap dkv) with
          | Ok dt => Some (sem_cond (raw_identifiers dkv) (d_expr dt) d)
          | _ => None
          end
      | _ => None
      end
  | _ => None
  end.

End Spec.

(* ---- fragments used by the refinement theorems ---- *)
Definition scalar_yaml (v : yaml) : bool :=
  match v with YStr _ | YInt _ | YFloat _ | YBool _ | YNull => true | _ => false end.

(* a mapping whose values are scalars or, recursively, such mappings (no lists) *)
Fixpoint simple_mapping (fuel : nat) (y : yaml) : bool :=
  match fuel with
  | O => false
  | S fu =>
      match y with
      | YMap kv => forallb (fun p : yaml * yaml =>
                              match fst p with YStr _ => true | _ => false end &&
                              (scalar_yaml (snd p) || simple_mapping fu (snd p))) kv
      | _ => false
      end
  end.

Definition simple_identifier (y : yaml) : bool :=
  match y with
  | YMap _ => simple_mapping (S (yaml_depth y)) y
  | YSeq l => forallb (fun m => simple_mapping (S (yaml_depth m)) m) l
  | _ => false
  end.

(* ---- the classes in which the crate is known to deviate from this reference (C02);
        executable, over the YAML of the rule ---- *)
Section SpecKnown.
Variable o : oracles.

(* some entry `k: v` at any depth of an identifier block satisfies p *)
Fixpoint entry_exists (fuel : nat) (p : yaml -> yaml -> bool) (y : yaml) : bool :=
  match fuel with
  | O => false
  | S fu =>
      match y with
      | YMap kv => existsb (fun e : yaml * yaml => p (fst e) (snd e) || entry_exists fu p (snd e)) kv
      | YSeq l => existsb (entry_exists fu p) l
      | _ => false
      end
  end.

Definition key_mod (k : yaml) : option keymod :=
  match k with YStr s => option_map fst (read_key o s) | _ => None end.

Definition is_ynull (v : yaml) : bool := match v with YNull => true | _ => false end.
Definition is_ystr (v : yaml) : bool := match v with YStr _ => true | _ => false end.

(* D27: `str(k): null` (also as a list member) is false, not missing, on an absent field *)
Definition d27_entry (k v : yaml) : bool :=
  match key_mod k with
  | Some KStr => is_ynull v || match v with YSeq l => existsb is_ynull l | _ => false end
  | _ => false
  end.

(* D28: a nested block that consists of one all(k) list, over an ARRAY of objects, asks each
   member to be satisfied by some element (and is missing when none has the field) instead of
   some element to satisfy the block *)
Definition d28_entry (_ v : yaml) : bool :=
  match v with
  | YMap [(k2, YSeq _)] => match key_mod k2 with Some KAll => true | _ => false end
  | _ => false
  end.

(* ... and the same block as a MEMBER of a list: `f: [{all(k): [..]}, ..]` *)
Definition d28_member_entry (k v : yaml) : bool :=
  match v with YSeq vs => existsb (d28_entry k) vs | _ => false end.

(* D26: all(k) / of(k, n) over a list with two or more string members on an ARRAY field: the
   batched form asks one element to satisfy all / n members *)
Definition d26_entry (k v : yaml) : bool :=
  match key_mod k, v with
  | Some KAll, YSeq l | Some (KOf _), YSeq l => (1 <? length (filter is_ystr l))%nat
  | _, _ => false
  end.

Definition spec_known (y : yaml) : list N :=
  let ids := match untag y with
             | YMap kv => match option_map untag (ylookup key_detection kv) with
                          | Some (YMap dkv) => map snd (raw_identifiers dkv)
                          | _ => []
                          end
             | _ => []
             end in
  let any p := existsb (fun v => entry_exists (S (yaml_depth v)) p v) ids in
  (if any d26_entry then [26%N] else []) ++ (if any d27_entry then [27%N] else []) ++
  (if any d28_entry || any d28_member_entry then [28%N] else []).

End SpecKnown.

(* ---- statements shared by the proof files of C02 (Proofs/C02_entry.v, C02_lift.v,
        C02_cond.v); Prop-valued definitions only ---- *)
From TauModel Require Import Solver.

Definition sem_entry_scalar (o : oracles) (ic : bool) (m : keymod) (f : str) (v : yaml) (d : doc) : res3 :=
  let base := match d f with
              | None => M
              | Some x => sem_scalar o ic (match m with KNot => KPlain | _ => m end) v x
              end in
  match m with KNot => not3 base | _ => base end.

Definition d27_free (o : oracles) (y : yaml) : Prop :=
  entry_exists (S (yaml_depth y)) (d27_entry o) y = false.

(* one scalar entry `k: v` of a mapping: the predicate the loader builds is the documented one *)
Definition entry_refines_stmt : Prop :=
  forall o ic k v e,
    scalar_yaml v = true -> d27_entry o (YStr k) v = false ->
    parse_entry o ic (YStr k) v None [] = Ok e ->
    exists m f, read_key o k = Some (m, f) /\
                match m with KAll | KOf _ => False | _ => True end /\
                forall d : doc, solve_body o e (pure_doc d) = Ok (sem_entry_scalar o ic m f v d).

(* an identifier block and the expression the loader built from it agree, as a whole and
   entry by entry (what all(X) / of(X, n) count) *)
Definition ident_ok (o : oracles) (ic : bool) (y : yaml) (b : expr) : Prop :=
  (forall d : doc, solve_body o b (pure_doc d) = Ok (sem_identifier o ic y d)) /\
  match b with
  | EGroup op g =>
      (op = BAnd \/ op = BOr) /\
      forall d : doc, Forall2 (fun x r => solve_body o x (pure_doc d) = Ok r) g (sem_entries o ic y d)
  | EMatrix _ _ => False
  | ESearch (SAho ctx _) _ _ => length ctx = 1%nat /\ forall d : doc, sem_entries o ic y d = [sem_identifier o ic y d]
  | ESearch (SRegexSet ps _) _ _ => length ps = 1%nat /\ forall d : doc, sem_entries o ic y d = [sem_identifier o ic y d]
  | _ => forall d : doc, sem_entries o ic y d = [sem_identifier o ic y d]
  end.

(* the shape of a condition the loader accepts (what the Pratt parser and led_check build) *)
Fixpoint cond_shape (e : expr) : bool :=
  match e with
  | EIdent _ => true
  | ENegate e' => cond_shape e'
  | EMatch _ (EIdent _) => true
  | EBexp l op r =>
      match op with
      | BAnd | BOr => cond_shape l && cond_shape r
      | BEqual => types_ok true l r
      | _ => types_ok false l r
      end
  | _ => false
  end.

(* D30: `str(k): N` with an integer N outside the i64 range: the loader reads the number as a
   double, so the text compared is the double's (e.g. 18446744073709552000), not the decimal
   text that was written *)
Definition bigint_str_entry (o : oracles) (k v : yaml) : bool :=
  match key_mod o k, v with
  | Some KStr, YInt z => negb (in_i64 z)
  | Some KStr, YSeq l => existsb (fun m => match m with YInt z => negb (in_i64 z) | _ => false end) l
  | _, _ => false
  end.

(* the entries excluded from the refinement theorems of C02: D27 and D30 *)
Definition excluded_entry (o : oracles) (k v : yaml) : bool :=
  d27_entry o k v || bigint_str_entry o k v.

Definition excl_free (o : oracles) (y : yaml) : Prop :=
  entry_exists (S (yaml_depth y)) (excluded_entry o) y = false.

Definition entry_refines_excl_stmt : Prop :=
  forall o ic k v e,
    scalar_yaml v = true -> excluded_entry o (YStr k) v = false ->
    parse_entry o ic (YStr k) v None [] = Ok e ->
    exists m f, read_key o k = Some (m, f) /\
                match m with KAll | KOf _ => False | _ => True end /\
                forall d : doc, solve_body o e (pure_doc d) = Ok (sem_entry_scalar o ic m f v d).

(* D32: all(k) over a list that holds null AND string members: the loader evaluates the string
   members first, so a false `== null` written before a missing string predicate gives missing,
   not false (first non-true in WRITTEN order) *)
Definition d32_entry (o : oracles) (k v : yaml) : bool :=
  match key_mod o k, v with
  | Some KAll, YSeq l => existsb is_ynull l && existsb is_ystr l
  | _, _ => false
  end.

Definition spec_known_all (o : oracles) (y : yaml) : list N :=
  let ids := match untag y with
             | YMap kv => match option_map untag (ylookup key_detection kv) with
                          | Some (YMap dkv) => map snd (raw_identifiers dkv)
                          | _ => []
                          end
             | _ => []
             end in
  spec_known o y ++
  (if existsb (fun v => entry_exists (S (yaml_depth v)) (bigint_str_entry o) v) ids then [30%N] else []) ++
  (if existsb (fun v => entry_exists (S (yaml_depth v)) (d32_entry o) v) ids then [32%N] else []).
