(* External libraries as a record of functions (never axioms).  Theorems quantify over
   all oracle records; for execution the runner fills the fields from finite tables that
   the harness computed with the real libraries. *)
From TauModel Require Import Base.

Record oracles := {
  (* regex::RegexBuilder::new(p).case_insensitive(ci).build().is_ok() *)
  re_valid : str -> bool -> bool;
  (* Regex::is_match (unanchored search) of a compiling pattern *)
  re_match : str -> bool -> str -> bool;
  (* str::parse::<f64>() ; the result is the IEEE-754 bit pattern *)
  f64_parse : str -> option Z;
  (* f64::to_string() on a bit pattern *)
  f64_show : Z -> str;
  (* char::is_alphanumeric / char::is_numeric for non-ASCII scalar values *)
  uni_alnum : chr -> bool;
  uni_num : chr -> bool
}.

Definition is_numeric (o : oracles) (x : chr) : bool :=
  if is_ascii x then is_ascii_digit x else uni_num o x.

Definition is_alphanumeric (o : oracles) (x : chr) : bool :=
  if is_ascii x then is_ascii_digit x || is_ascii_alpha x else uni_alnum o x.
