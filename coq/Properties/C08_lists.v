(* C08 (second statement file): "the count is over the members as written, whatever ... the kinds
   of the members (strings, numbers, booleans ...) or the way members are batched internally".
   For a list of scalars of EVERY kind under all(k), of(k, n), a plain key, not() or a cast key,
   on a field holding ANY value, the loader's batches evaluate to the quantifier's table over the
   members as written (sem_scalar = the documented meaning of one member on one value).
   Corollaries of C02_lists.list_entry_refines; only statements here; proofs in Proofs/C08_lists.v.
   Exclusions: D10/D11 (d10_here), D26 (array_ok: all()/of() with two or more string members on an
   array value), D32; D27/D30 are repaired but still in `excluded_entry`. *)
From TauModel Require Import Base Num Oracles Syntax Value Yaml Pratt ParseMap Solver Rule Keys Known Spec.
From TauProofs Require C08_lists.

Definition is_ystr' (v : yaml) : bool := match v with YStr _ => true | _ => false end.
Definition array_ok (m : keymod) (vs : list yaml) (x : option value) : Prop :=
  match m with
  | KAll | KOf _ =>
      (2 <= length (filter is_ystr' vs))%nat -> match x with Some (VArr _) => False | _ => True end
  | _ => True
  end.

Theorem quantified_list_all_kinds : forall o ic k f m vs e,
  read_key o k = Some (m, f) ->
  forallb scalar_yaml vs = true ->
  excluded_entry o (YStr k) (YSeq vs) = false -> d32_entry o (YStr k) (YSeq vs) = false ->
  parse_entry o ic (YStr k) (YSeq vs) None (map (fun _ => None) vs) = Ok e ->
  exists_sub d10_here false e = false ->
  forall (d : doc) x, d f = Some x -> array_ok m vs (Some x) ->
    solve_body o e (pure_doc d) =
    Ok (match m with
        | KAll => first_non_true (map (fun v => sem_scalar o ic KPlain v x) vs)
        | KOf c => of3 c (map (fun v => sem_scalar o ic KPlain v x) vs)
        | KNot => not3 (max3 (map (fun v => sem_scalar o ic KPlain v x) vs))
        | _ => max3 (map (fun v => sem_scalar o ic m v x) vs)
        end).
Proof. exact C08_lists.quantified_list_all_kinds. Qed.
Check quantified_list_all_kinds.
Print Assumptions quantified_list_all_kinds.

(* on a document without the field every form is missing (not(): false) *)
Theorem quantified_list_missing_all_kinds : forall o ic k f m vs e,
  read_key o k = Some (m, f) ->
  forallb scalar_yaml vs = true ->
  excluded_entry o (YStr k) (YSeq vs) = false -> d32_entry o (YStr k) (YSeq vs) = false ->
  parse_entry o ic (YStr k) (YSeq vs) None (map (fun _ => None) vs) = Ok e ->
  exists_sub d10_here false e = false ->
  forall (d : doc), d f = None ->
    solve_body o e (pure_doc d) = Ok (match m with KNot => F | _ => M end).
Proof. exact C08_lists.quantified_list_missing_all_kinds. Qed.
Check quantified_list_missing_all_kinds.
Print Assumptions quantified_list_missing_all_kinds.
