(* C09 / listed finding D43, on the model: `f: 18446744073709551615` -- the loader builds a comparison
   with the DOUBLE 2^64, so the rule is false on the integer it names and true on the neighbouring
   double 18446744073709551616.0.  The witness is replayed on the crate on every run (corpus/kf/D43.json
   and the rows `bare_int_above_i64` of C09's grid).  Only statements here; proofs live in
   Proofs/C09_d43.v. *)
From Coq Require Import ZArith List.
From TauModel Require Import Base Num Oracles Syntax Value Yaml Ident ParseMap Solver.
From TauProofs Require C09_d43.

Theorem refuted_D43 :
  exists e, parse_entry C09_d43.o43 false (YStr C09_d43.k43) (YInt C09_d43.z43) None [] = Ok e /\
            solve_body C09_d43.o43 e (pure_doc C09_d43.d_same) = Ok F /\
            solve_body C09_d43.o43 e (pure_doc C09_d43.d_next) = Ok T.
Proof. exact C09_d43.refuted_D43. Qed.
Check refuted_D43.
Print Assumptions refuted_D43.
