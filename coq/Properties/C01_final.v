(* C01 (twelfth statement file): the two relaxations of Properties/C01_sh0w.v and
   Properties/C01_nomatch.v together -- Model/Scope6.v c01_scope_quant_all_f contains both scopes.
   Only statements here; proofs live in Proofs/C01_final.v. *)
From Coq Require Import Permutation.
From TauModel Require Import Base Num Oracles Syntax Value Yaml Pratt ParseMap Solver Rule Keys Optimiser Known.
From TauModel Require Scope Scope2 Scope4 Scope5 Scope6 Order.
From TauProofs Require C01 C01_final.

Theorem scope_quant_all_sound_f : forall o ic ord sw y r (d : doc),
  (forall l, Permutation (ord l) l) ->
  C01.H_strip o ->
  load_rule o ic y = Ok r -> r_optimised r = false ->
  Scope6.c01_scope_quant_all_f o ord sw (r_det r) = true ->
  exists r', optimise o ord sw r = Ok r' /\ matches o r' d = matches o r d.
Proof. exact C01_final.scope_quant_all_sound_f. Qed.
Check scope_quant_all_sound_f.
Print Assumptions scope_quant_all_sound_f.

(* it contains both earlier scopes *)
Theorem scope_w_in_f : forall o ord sw dt,
  Scope4.c01_scope_quant_all_w o ord sw dt = true -> Scope6.c01_scope_quant_all_f o ord sw dt = true.
Proof. exact C01_final.scope_w_in_f. Qed.
Check scope_w_in_f.
Print Assumptions scope_w_in_f.

Theorem scope_nm_in_f : forall o ord sw dt,
  Scope5.c01_scope_quant_all_nm o ord sw dt = true -> Scope6.c01_scope_quant_all_f o ord sw dt = true.
Proof. exact C01_final.scope_nm_in_f. Qed.
Check scope_nm_in_f.
Print Assumptions scope_nm_in_f.

(* at the crate's own map order *)
Theorem crate_order_scope_quant_all_f_sound : forall o ic sw y r (d : doc),
  C01.H_strip o ->
  load_rule o ic y = Ok r -> r_optimised r = false ->
  Scope6.c01_scope_quant_all_f o Order.rust_ord sw (r_det r) = true ->
  exists r', optimise o Order.rust_ord sw r = Ok r' /\ matches o r' d = matches o r d.
Proof. exact C01_final.crate_order_scope_quant_all_f_sound. Qed.
Check crate_order_scope_quant_all_f_sound.
Print Assumptions crate_order_scope_quant_all_f_sound.
