(* C12 (fifth statement file): for EVERY loadable rule that is outside the three listed classes of
   C01 (D13, D16, D17) under two map orders, the optimiser's iteration order is irrelevant: the two
   optimised rules give the same verdict on every document and the same validate() result.
   Only statements here; proofs live in Proofs/C13_outside.v. *)
From Coq Require Import Permutation.
From TauModel Require Import Base Num Oracles Syntax Value Yaml Pratt ParseMap Solver Rule Keys Optimiser Known.
From TauProofs Require C01 C13_outside.

Theorem optimise_order_irrelevant_outside_classes : forall o ic ord1 ord2 sw y r (d : doc),
  (forall l, Permutation (ord1 l) l) -> (forall l, Permutation (ord2 l) l) ->
  C01.H_strip o ->
  load_rule o ic y = Ok r -> r_optimised r = false ->
  known_d13 sw (r_det r) = false ->
  known_d16 ord1 sw (r_det r) = false -> known_d17 o ord1 sw (r_det r) = false ->
  known_d16 ord2 sw (r_det r) = false -> known_d17 o ord2 sw (r_det r) = false ->
  exists r1 r2, optimise o ord1 sw r = Ok r1 /\ optimise o ord2 sw r = Ok r2 /\
                matches o r1 d = matches o r2 d /\ validate o r1 = validate o r2.
Proof. exact C13_outside.optimise_order_irrelevant_outside_classes. Qed.
Check optimise_order_irrelevant_outside_classes.
Print Assumptions optimise_order_irrelevant_outside_classes.
