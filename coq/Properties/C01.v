(* C01  Optimisation never changes a verdict.
   Only statements here; proofs live in Proofs/C01.v.

   What is proved: coalesce, rewrite and the flattening pass shake_0 preserve the
   three-valued result exactly (outside the two known classes of shake_0), for every rule of
   evaluable shape and every document; the known classes are refuted on the faithful model
   by explicit witnesses.  The merging pass shake_1 and the matrix pass are modelled and tied
   to the crate by the correspondence check but their preservation theorems are not proved
   yet (PARTIAL, see DESIGN.md 7-C01). *)
From TauModel Require Import Base Num Oracles Syntax Value Solver Rule Keys Optimiser Known.
From TauProofs Require C01.

(* the one assumption about the regex library: a pattern that still compiles after a leading
   / trailing `.*` was removed matches (unanchored) the same haystacks *)
Definition H_strip (o : oracles) : Prop :=
  forall p ci h, re_valid o (strip_dotstar p) ci = true ->
                 re_match o (strip_dotstar p) ci h = re_match o p ci h.

Definition ids_wf (ids : list (str * expr)) : Prop :=
  forall i b, lookup i ids = Some b -> wf_body b = true.

(* coalesce: inlining the identifiers is exact *)
Theorem coalesce_exact : forall o ids e d,
  ids_wf ids -> wf_cond ids e = true ->
  exists e', coalesce ids e = Ok e' /\ wf_body e' = true /\
             solve_body o e' d = solve_cond o ids e d.
Proof. exact C01.coalesce_exact. Qed.
Check coalesce_exact.
Print Assumptions coalesce_exact.

(* rewrite: stripping `.*` is exact under H_strip, and never panics (fix D4) *)
Theorem rewrite_exact : forall o ids e d,
  H_strip o ->
  solve_cond o (map (fun kv => (fst kv, rewrite o (snd kv))) ids) (rewrite o e) d =
  solve_cond o ids e d.
Proof. exact C01.rewrite_exact. Qed.
Check rewrite_exact.
Print Assumptions rewrite_exact.

(* shake_0: flattening and/or chains and unwrapping one-member groups is exact, for every
   fuel, on trees of the shape the loader produces, outside the double-negation class D13
   and the singleton-under-quantifier class D14.
   sh0: the operand of a quantifier is a group that does not have exactly one member, or a
        non-group that is not an and/or chain (the parser and coalesce only ever put
        identifier bodies and key lists there);
   no_dneg: no Negate whose operand will shake to a Negate (D13). *)
Fixpoint head_neg (e : expr) : bool :=
  match e with
  | ENegate _ => true
  | EGroup _ [y] => head_neg y
  | _ => false
  end.

Definition quant_operand_ok (e : expr) : bool :=
  match e with
  | EGroup _ [_] => false
  | EBexp _ BAnd _ | EBexp _ BOr _ => false
  | _ => true
  end.

Fixpoint sh0 (e : expr) : bool :=
  match e with
  | EGroup _ l => forallb sh0 l
  | EBexp l _ r => sh0 l && sh0 r
  | EMatch _ e' => quant_operand_ok e' && sh0 e'
  | ENegate e' | ENested _ e' => sh0 e'
  | _ => true
  end.

Definition no_dneg (e : expr) : bool :=
  negb (exists_sub (fun _ x => match x with ENegate y => head_neg y | _ => false end) false e).

Theorem shake0_exact : forall o fuel e e' d,
  wf_body e = true -> sh0 e = true -> no_dneg e = true ->
  shake0 fuel e = Ok e' ->
  solve_body o e' d = solve_body o e d.
Proof. exact C01.shake0_exact. Qed.
Check shake0_exact.
Print Assumptions shake0_exact.

(* whole rules, switch sets that use coalesce and rewrite only: the optimised rule returns
   exactly the result of the unoptimised rule, and optimise does not panic *)
Theorem optimise_coalesce_rewrite_exact : forall o ord sw r d,
  H_strip o ->
  sw_shake sw = false -> sw_matrix sw = false ->
  wf_det (r_det r) = true -> r_optimised r = false ->
  exists r', optimise o ord sw r = Ok r' /\
             solve_rule3 o (r_det r') d = solve_rule3 o (r_det r) d.
Proof. exact C01.optimise_coalesce_rewrite_exact. Qed.
Check optimise_coalesce_rewrite_exact.
Print Assumptions optimise_coalesce_rewrite_exact.

(* exact preservation implies verdict preservation in every context (polarity argument:
   an exact equality survives negation and none-of) *)
Theorem exact_implies_verdict : forall o dt dt' (d : doc),
  solve_rule3 o dt' (pure_doc d) = solve_rule3 o dt (pure_doc d) ->
  forall r r', r_det r = dt -> r_det r' = dt' -> matches o r' d = matches o r d.
Proof. exact C01.exact_implies_verdict. Qed.
Check exact_implies_verdict.
Print Assumptions exact_implies_verdict.

(* ---- the known classes are real: refutations on the model ---- *)
Definition o0 : oracles :=
  {| re_valid := fun _ _ => true; re_match := fun _ _ _ => false; f64_parse := fun _ => None;
     f64_show := fun _ => []; uni_alnum := fun _ => false; uni_num := fun _ => false |}.
Definition sw_only_shake : switches :=
  {| sw_coalesce := false; sw_shake := true; sw_rewrite := false; sw_matrix := false |}.
Definition sw_coalesce_shake : switches :=
  {| sw_coalesce := true; sw_shake := true; sw_rewrite := false; sw_matrix := false |}.
Definition mk_rule (e : expr) (ids : list (str * expr)) : rule :=
  {| r_optimised := false; r_det := {| d_expr := e; d_ids := ids |}; r_tp := []; r_tn := [] |}.

(* D13: `not not A` on a document without the field *)
Example refuted_D13 :
  let r := mk_rule (ENegate (ENegate (EIdent [65%N]))) [([65%N], ESearch (SExact [120%N]) [102%N] false)] in
  let d : doc := fun _ => None in
  matches o0 r d = Ok true /\
  exists r', optimise o0 (fun k => k) sw_only_shake r = Ok r' /\ matches o0 r' d = Ok false.
Proof. exact C01.refuted_D13. Qed.
Check refuted_D13.

(* D14: of(X, 2) over a one-entry identifier whose entry is a two-needle list *)
Example refuted_D14 :
  let body := EGroup BOr [ESearch (SAho [MTContains [97%N]; MTContains [98%N]] false) [102%N] false] in
  let r := mk_rule (EMatch (MOf 2) (EIdent [88%N])) [([88%N], body)] in
  let d : doc := fun k => if str_eqb k [102%N] then Some (VStr [97%N; 98%N]) else None in
  matches o0 r d = Ok false /\
  exists r', optimise o0 (fun k => k) sw_coalesce_shake r = Ok r' /\ matches o0 r' d = Ok true.
Proof. exact C01.refuted_D14. Qed.
Check refuted_D14.

(* D16: two nested blocks of an and-group under `not`; the outcome depends on the order the
   hash map yields the keys *)
Example refuted_D16 :
  let body := EGroup BAnd [ENested [120%N] (EBexp (EField [97%N]) BEqual (EInt 1));
                           ENested [121%N] (EBexp (EField [98%N]) BEqual (EInt 2))] in
  let r := mk_rule (ENegate (EIdent [65%N])) [([65%N], body)] in
  let d : doc := fun k => if str_eqb k [120%N] then Some (VObj [([97%N], VInt 5)]) else None in
  matches o0 r d = Ok true /\
  (exists r', optimise o0 (fun k => k) sw_only_shake r = Ok r' /\ matches o0 r' d = Ok true) /\
  (exists r', optimise o0 (@rev key) sw_only_shake r = Ok r' /\ matches o0 r' d = Ok false).
Proof. exact C01.refuted_D16. Qed.
Check refuted_D16.
