(* C01  Optimisation never changes a verdict.
   Only statements here; proofs live in Proofs/C01.v.

   What is proved: coalesce, rewrite and the flattening pass shake_0 preserve the
   three-valued result exactly, for every document, on trees of the shape the loader
   produces and outside the known class of shake_0 (D13 double negation); the known classes
   are refuted on the faithful model by explicit witnesses.  Class D14 (a one-member group
   under a quantifier) is fixed in the crate: its former witness keeps its verdict now
   (fixed_D14), and Properties/C01_d14.v drops the hypothesis sh0 for groups.  The first versions of three statements were FALSE for hand-built
   trees the loader cannot produce (a nested block around all(identifier); empty groups;
   comparisons whose operands are groups); the counterexamples are kept in Proofs/C01.v as
   `*_refuted` lemmas and the statements below carry the shape hypotheses the proofs
   needed:
     no_nested   the condition has no nested block (the Pratt parser cannot build one);
     cmp_leaves  comparison operands are leaves (all led_check ever builds);
     sh0         the operand of a quantifier is a group without exactly one member, or a
                 non-group that is not an and/or chain (since fix D14 stronger than needed:
                 see Properties/C01_d14.v);
     shx         no empty group; comparison operands are leaves; the body of a nested block
                 is not a chain of one-member groups ending in all(or-group);
     no_dneg     no Negate whose operand will shake to a Negate (class D13).
   The merging pass shake_1 and the matrix pass are modelled and tied to the crate by the
   correspondence check (all 16 switch sets, all hash orders) but their preservation
   theorems are not proved (PARTIAL, see DESIGN.md 7-C01). *)
From TauModel Require Import Base Num Oracles Syntax Value Solver Rule Keys Optimiser Known.
From TauProofs Require C01.

Definition H_strip (o : oracles) : Prop :=
  forall p ci h, re_valid o (strip_dotstar p) ci = true ->
                 re_match o (strip_dotstar p) ci h = re_match o p ci h.
Definition ids_wf (ids : list (str * expr)) : Prop :=
  forall i b, lookup i ids = Some b -> wf_body b = true.

Fixpoint no_nested (e : expr) : bool :=
  match e with
  | EGroup _ l => forallb no_nested l
  | EBexp l _ r => no_nested l && no_nested r
  | EMatch _ e' | ENegate e' => no_nested e'
  | ENested _ _ => false
  | _ => true
  end.
Fixpoint cmp_leaves (e : expr) : bool :=
  match e with
  | EGroup _ l => forallb cmp_leaves l
  | EBexp l s r => if is_and_or s then cmp_leaves l && cmp_leaves r
                   else negb (is_solvable l) && negb (is_solvable r)
  | EMatch _ e' | ENegate e' | ENested _ e' => cmp_leaves e'
  | _ => true
  end.

Theorem coalesce_exact_alt : forall o ids e d,
  ids_wf ids -> wf_cond ids e = true -> no_nested e = true -> cmp_leaves e = true ->
  exists e', coalesce ids e = Ok e' /\ wf_body e' = true /\
             solve_body o e' d = solve_cond o ids e d.
Proof. exact C01.coalesce_exact_alt. Qed.
Check coalesce_exact_alt.
Print Assumptions coalesce_exact_alt.

Theorem rewrite_exact : forall o ids e d,
  H_strip o ->
  solve_cond o (map (fun kv => (fst kv, rewrite o (snd kv))) ids) (rewrite o e) d =
  solve_cond o ids e d.
Proof. exact C01.rewrite_exact. Qed.
Check rewrite_exact.
Print Assumptions rewrite_exact.

Fixpoint head_neg (e : expr) : bool :=
  match e with
  | ENegate _ => true
  | EGroup _ [y] => head_neg y
  | _ => false
  end.
Definition quant_operand_ok (e : expr) : bool :=
  match e with
  | EGroup _ [_] => false
  | EBexp _ BAnd _ | EBexp _ BOr _ => false
  | _ => true
  end.
Fixpoint sh0 (e : expr) : bool :=
  match e with
  | EGroup _ l => forallb sh0 l
  | EBexp l _ r => sh0 l && sh0 r
  | EMatch _ e' => quant_operand_ok e' && sh0 e'
  | ENegate e' | ENested _ e' => sh0 e'
  | _ => true
  end.
Definition no_dneg (e : expr) : bool :=
  negb (exists_sub (fun _ x => match x with ENegate y => head_neg y | _ => false end) false e).
Fixpoint head_allor (e : expr) : bool :=
  match e with
  | EMatch MAll (EGroup BOr _) => true
  | EGroup _ [y] => head_allor y
  | _ => false
  end.
Definition nested_ok (e : expr) : bool :=
  match e with EGroup _ _ => negb (head_allor e) | _ => true end.
Fixpoint shx (e : expr) : bool :=
  match e with
  | EGroup _ l => match l with [] => false | _ => forallb shx l end
  | EBexp l s r => if is_and_or s then shx l && shx r
                   else negb (is_solvable l) && negb (is_solvable r)
  | EMatch _ e' | ENegate e' => shx e'
  | ENested _ e' => nested_ok e' && shx e'
  | _ => true
  end.

Theorem shake0_exact_alt : forall o fuel e e' d,
  wf_body e = true -> sh0 e = true -> no_dneg e = true -> shx e = true ->
  shake0 fuel e = Ok e' ->
  solve_body o e' d = solve_body o e d.
Proof. exact C01.shake0_exact_alt. Qed.
Check shake0_exact_alt.
Print Assumptions shake0_exact_alt.

Theorem optimise_coalesce_rewrite_exact_alt : forall o ord sw r d,
  H_strip o ->
  sw_shake sw = false -> sw_matrix sw = false ->
  wf_det (r_det r) = true -> r_optimised r = false ->
  no_nested (d_expr (r_det r)) = true -> cmp_leaves (d_expr (r_det r)) = true ->
  exists r', optimise o ord sw r = Ok r' /\
             solve_rule3 o (r_det r') d = solve_rule3 o (r_det r) d.
Proof. exact C01.optimise_coalesce_rewrite_exact_alt. Qed.
Check optimise_coalesce_rewrite_exact_alt.
Print Assumptions optimise_coalesce_rewrite_exact_alt.

Theorem exact_implies_verdict : forall o dt dt' (d : doc),
  solve_rule3 o dt' (pure_doc d) = solve_rule3 o dt (pure_doc d) ->
  forall r r', r_det r = dt -> r_det r' = dt' -> matches o r' d = matches o r d.
Proof. exact C01.exact_implies_verdict. Qed.
Check exact_implies_verdict.
Print Assumptions exact_implies_verdict.

Definition o0 : oracles :=
  {| re_valid := fun _ _ => true; re_match := fun _ _ _ => false; f64_parse := fun _ => None;
     f64_show := fun _ => []; uni_alnum := fun _ => false; uni_num := fun _ => false |}.
Definition sw_only_shake : switches :=
  {| sw_coalesce := false; sw_shake := true; sw_rewrite := false; sw_matrix := false |}.
Definition sw_coalesce_shake : switches :=
  {| sw_coalesce := true; sw_shake := true; sw_rewrite := false; sw_matrix := false |}.
Definition mk_rule (e : expr) (ids : list (str * expr)) : rule :=
  {| r_optimised := false; r_det := {| d_expr := e; d_ids := ids |}; r_tp := []; r_tn := [] |}.

Example refuted_D13 :
  let r := mk_rule (ENegate (ENegate (EIdent [65%N]))) [([65%N], ESearch (SExact [120%N]) [102%N] false)] in
  let d : doc := fun _ => None in
  matches o0 r d = Ok true /\
  exists r', optimise o0 (fun k => k) sw_only_shake r = Ok r' /\ matches o0 r' d = Ok false.
Proof. exact C01.refuted_D13. Qed.
Check refuted_D13.
(* class D14 is fixed in the crate: the former witness keeps its verdict and its one-member group *)
Example fixed_D14 :
  let body := EGroup BOr [ESearch (SAho [MTContains [97%N]; MTContains [98%N]] false) [102%N] false] in
  let r := mk_rule (EMatch (MOf 2) (EIdent [88%N])) [([88%N], body)] in
  let d : doc := fun k => if str_eqb k [102%N] then Some (VStr [97%N; 98%N]) else None in
  matches o0 r d = Ok false /\
  exists r', optimise o0 (fun k => k) sw_coalesce_shake r = Ok r' /\
             d_expr (r_det r') = EMatch (MOf 2) body /\ matches o0 r' d = Ok false.
Proof. exact C01.fixed_D14. Qed.
Check fixed_D14.
(* (since fix D15/D20 an identifier body that is not inlined keeps its top-level group, so the
   witness needs the coalesce switch: the and-group is merged as part of the condition) *)
Example refuted_D16 :
  let body := EGroup BAnd [ENested [120%N] (EBexp (EField [97%N]) BEqual (EInt 1));
                           ENested [121%N] (EBexp (EField [98%N]) BEqual (EInt 2))] in
  let r := mk_rule (ENegate (EIdent [65%N])) [([65%N], body)] in
  let d : doc := fun k => if str_eqb k [120%N] then Some (VObj [([97%N], VInt 5)]) else None in
  matches o0 r d = Ok true /\
  (exists r', optimise o0 (fun k => k) sw_coalesce_shake r = Ok r' /\ matches o0 r' d = Ok true) /\
  (exists r', optimise o0 (@rev key) sw_coalesce_shake r = Ok r' /\ matches o0 r' d = Ok false).
Proof. exact C01.refuted_D16. Qed.
Check refuted_D16.

(* the counterexamples that forced the shape hypotheses (hand-built trees the loader cannot
   produce) *)
Definition coalesce_exact_counterexample := C01.coalesce_exact_refuted.
Definition shake0_exact_counterexample_nested := C01.shake0_exact_refuted_nested.
Definition shake0_exact_counterexample_empty_group := C01.shake0_exact_refuted_empty_group.
Definition shake0_exact_counterexample_cmp_operand := C01.shake0_exact_refuted_cmp_operand.
