(* C11  Verdict is independent of how the document is represented.
   Only statements here; proofs live in Proofs/C11.v. *)
From TauModel Require Import Base Num Oracles Syntax Value Yaml Solver Rule Repr.
From TauProofs Require C11.

(* the comparison table cannot tell Int n from UInt n (0 <= n <= i64::MAX) *)
Theorem compare_values_respects : forall x x' y y' op,
  veq x x' -> veq y y' -> compare_values x op y = compare_values x' op y'.
Proof. exact C11.compare_values_respects. Qed.
Check compare_values_respects.
Print Assumptions compare_values_respects.

(* nor can the casts or the canonical decimal text *)
Theorem casts_respect : forall o v v',
  veq v v' ->
  cast_text o v = cast_text o v' /\ value_to_string o v = value_to_string o v' /\
  (match cast_int v, cast_int v' with
   | OVal a, OVal b => veq a b | OMissing, OMissing => True | OFalse, OFalse => True | _, _ => False end) /\
  (match cast_flt o v, cast_flt o v' with
   | OVal a, OVal b => veq a b | OMissing, OMissing => True | OFalse, OFalse => True | _, _ => False end).
Proof. exact C11.casts_respect. Qed.
Check casts_respect.
Print Assumptions casts_respect.

(* path lookup commutes with the equivalence *)
Theorem find_respects : forall kv kv' k,
  veq (VObj kv) (VObj kv') -> opt_veq (obj_find kv k) (obj_find kv' k).
Proof. exact C11.find_respects. Qed.
Check find_respects.
Print Assumptions find_respects.

(* hence the whole solver: two documents with the same logical content get the same
   three-valued result from every expression (matrix forms included) *)
Theorem solve_respects_representation : forall o ids e (d d' : doc),
  doc_veq d d' ->
  solve_cond o ids e (pure_doc d) = solve_cond o ids e (pure_doc d').
Proof. exact C11.solve_respects_representation. Qed.
Check solve_respects_representation.
Print Assumptions solve_respects_representation.

Theorem verdict_respects_representation : forall o r kv kv',
  veq (VObj kv) (VObj kv') ->
  matches o r (obj_find kv) = matches o r (obj_find kv').
Proof. exact C11.verdict_respects_representation. Qed.
Check verdict_respects_representation.
Print Assumptions verdict_respects_representation.

(* the adapters: a YAML / JSON document holds UInt for every non-negative integer, a Rust
   signed integer holds Int: the same number, equivalent values *)
Theorem adapters_agree : forall z,
  in_i64 z = true ->
  veq (yaml_as_value (YInt z)) (prim_signed z) /\
  ((0 <= z)%Z -> veq (yaml_as_value (YInt z)) (prim_unsigned z)).
Proof. exact C11.adapters_agree. Qed.
Check adapters_agree.
Print Assumptions adapters_agree.

(* non-vacuity *)
Example veq_example :
  veq (VObj [([102%N], VArr [VInt 5; VUInt 18446744073709551615])])
      (VObj [([102%N], VArr [VUInt 5; VUInt 18446744073709551615])]) /\
  ~ veq (VInt (-1)) (VUInt 18446744073709551615).
Proof. exact C11.veq_example. Qed.
Check veq_example.
