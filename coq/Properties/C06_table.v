(* C06 (second statement file): the tie of the connectives to the SOURCE by translation.
   tools/gen_tables.py regenerates Model/GeneratedLoops.v from solve_expression (src/solver.rs) on
   every run: what the and-group loop and the or-group loop do on a true / false / missing operand
   (next operand, return a result, set the accumulator), the accumulator's start, what follows the
   loop, and the three results of the Negate arm.  Model/LoopTable.v runs such a table over the
   lazily evaluated operands.  The theorems say the regenerated tables ARE the folds of the model
   (and_fold, or_fold started at missing, neg3) -- the functions or_group_spec, and_group_spec,
   negate_spec and the permutation theorems of C17 are about.
   Only statements here; proofs live in Proofs/C06_table.v. *)
From TauModel Require Import Base Syntax Value Solver LoopTable GeneratedLoops.
From TauProofs Require C06_table.

Theorem and_loop_is_and_fold : forall acc rs, run_loop and_group_loop acc rs = and_fold rs.
Proof. exact C06_table.and_loop_is_and_fold. Qed.
Check and_loop_is_and_fold.
Print Assumptions and_loop_is_and_fold.

Theorem or_loop_is_or_fold : forall acc rs, run_loop or_group_loop acc rs = or_fold acc rs.
Proof. exact C06_table.or_loop_is_or_fold. Qed.
Check or_loop_is_or_fold.
Print Assumptions or_loop_is_or_fold.

Theorem or_loop_starts_missing : l_init or_group_loop = M.
Proof. exact C06_table.or_loop_starts_missing. Qed.
Check or_loop_starts_missing.
Print Assumptions or_loop_starts_missing.

Theorem negate_table_is_neg3 : forall x, run_neg negate_table x = neg3 x.
Proof. exact C06_table.negate_table_is_neg3. Qed.
Check negate_table_is_neg3.
Print Assumptions negate_table_is_neg3.
