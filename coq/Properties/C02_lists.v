(* C02 (second statement file): entries whose value is a LIST of scalars (string patterns,
   numeric patterns, numbers, booleans, null) under every key form -- plain, not(), int(),
   flt(), str(), all(), of(k, n) -- on EVERY document value (strings, numbers, booleans, null,
   arrays, objects, absent).  Only statements here; proofs live in Proofs/C02_lists.v.

   What the loader builds from the list (batches of needles compiled to automata, regex sets,
   comparisons) evaluates to the documented combination of the members AS WRITTEN:
     plain / cast keys  some member holds        (max over missing < false < true)
     all(k)             first non-true member in written order
     of(k, n)           the counting rule of3
     not(k)             the plain list, negated
   outside the executable classes of the known deviations:
     D27 / D30 (excluded_entry), D32 (d32_entry),
     D10 / D11: the batching leaves two or more elements one of which is a multi-needle
                automaton / regex set (d10_here on the expression built),
     D26: all()/of() with two or more string members on an ARRAY-valued field (array_ok). *)
From TauModel Require Import Base Num Oracles Syntax Value Yaml Pratt ParseMap Solver Rule Keys Known Spec.
From TauProofs Require C02_lists.

Definition sem_entry_list (o : oracles) (ic : bool) (m : keymod) (f : str) (vs : list yaml) (d : doc) : res3 :=
  let base :=
    match d f with
    | None => M
    | Some x =>
        match m with
        | KAll => first_non_true (map (fun v => sem_scalar o ic KPlain v x) vs)
        | KOf c => of3 c (map (fun v => sem_scalar o ic KPlain v x) vs)
        | KNot => max3 (map (fun v => sem_scalar o ic KPlain v x) vs)
        | _ => max3 (map (fun v => sem_scalar o ic m v x) vs)
        end
    end in
  match m with KNot => not3 base | _ => base end.

Definition is_ystr' (v : yaml) : bool := match v with YStr _ => true | _ => false end.
Definition array_ok (m : keymod) (vs : list yaml) (x : option value) : Prop :=
  match m with
  | KAll | KOf _ =>
      (2 <= length (filter is_ystr' vs))%nat -> match x with Some (VArr _) => False | _ => True end
  | _ => True
  end.

(* the definition above IS the reference semantics of a one-entry mapping *)
Theorem sem_entry_list_is_sem_mapping : forall o ic k vs m f (d : doc) n,
  forallb scalar_yaml vs = true -> read_key o k = Some (m, f) ->
  sem_mapping o ic (S n) (YMap [(YStr k, YSeq vs)]) d =
  first_non_true [sem_entry_list o ic m f vs d].
Proof. exact C02_lists.sem_entry_list_is_sem_mapping. Qed.
Check sem_entry_list_is_sem_mapping.
Print Assumptions sem_entry_list_is_sem_mapping.

Theorem list_entry_refines : forall o ic k vs e,
  forallb scalar_yaml vs = true ->
  excluded_entry o (YStr k) (YSeq vs) = false -> d32_entry o (YStr k) (YSeq vs) = false ->
  parse_entry o ic (YStr k) (YSeq vs) None (map (fun _ => None) vs) = Ok e ->
  exists_sub d10_here false e = false ->
  exists m f, read_key o k = Some (m, f) /\
    forall d : doc, array_ok m vs (d f) ->
      solve_body o e (pure_doc d) = Ok (sem_entry_list o ic m f vs d).
Proof. exact C02_lists.list_entry_refines. Qed.
Check list_entry_refines.
Print Assumptions list_entry_refines.

(* non-vacuity: a five-member list under all() that batches into ONE automaton, on a scalar *)
Example list_entry_example :
  let o0 := {| re_valid := fun _ _ => true; re_match := fun _ _ _ => false; f64_parse := fun _ => None;
               f64_show := fun _ => []; uni_alnum := fun _ => false; uni_num := fun _ => false |} in
  let k := [97; 108; 108; 40; 102; 41]%N in                          (* all(f) *)
  let vs := [YStr [42; 97; 42]; YStr [98; 42]; YStr [42; 99]]%N in    (* *a*  b*  *c *)
  exists e, parse_entry o0 false (YStr k) (YSeq vs) None [None; None; None] = Ok e /\
            exists_sub d10_here false e = false /\
            excluded_entry o0 (YStr k) (YSeq vs) = false /\ d32_entry o0 (YStr k) (YSeq vs) = false /\
            solve_body o0 e (pure_doc (fun _ => Some (VStr [98; 97; 99]%N))) = Ok T /\
            solve_body o0 e (pure_doc (fun _ => Some (VStr [98; 97]%N))) = Ok F.
Proof. exact C02_lists.list_entry_example. Qed.
Check list_entry_example.
