(* C03  An accepted rule can always be evaluated (no panic after load).
   Only statements here; proofs live in Proofs/C03.v.  Every unreachable!(), expect() and
   index of the modelled solver is a Panic value, so "never panics" is a statement. *)
From TauModel Require Import Base Num Oracles Syntax Value Yaml ParseMap Solver Rule Keys.
From TauProofs Require C03.

(* a rule of evaluable shape never panics in matches(), whatever the document returns *)
Theorem solve_wf_no_panic : forall o dt (d : doc),
  wf_det dt = true -> exists r, solve_rule3 o dt (pure_doc d) = Ok r.
Proof. exact C03.solve_wf_no_panic. Qed.
Check solve_wf_no_panic.
Print Assumptions solve_wf_no_panic.

(* every identifier block the loader accepts has that shape: identifier-free, only and/or
   groups, every operand of and/or/not a predicate *)
Theorem parse_identifier_wf : forall o ic y e,
  parse_identifier o ic y = Ok e -> wf_body e = true.
Proof. exact C03.parse_identifier_wf. Qed.
Check parse_identifier_wf.
Print Assumptions parse_identifier_wf.

(* every rule the loader accepts has it: each identifier the condition mentions exists and
   every operand of and/or/not is itself a predicate (fix D3) *)
Theorem load_wf : forall o ic y r, load_rule o ic y = Ok r -> wf_det (r_det r) = true.
Proof. exact C03.load_wf. Qed.
Check load_wf.
Print Assumptions load_wf.

(* hence: after a successful load, matching any document and validating never panic *)
Theorem loaded_rule_evaluates : forall o ic y r (d : doc),
  load_rule o ic y = Ok r ->
  (exists b, matches o r d = Ok b) /\ (exists l, validate o r = Ok l).
Proof. exact C03.loaded_rule_evaluates. Qed.
Check loaded_rule_evaluates.
Print Assumptions loaded_rule_evaluates.

(* non-vacuity: the shapes fix D3 rejects are not evaluable, and were the panic *)
Example d3_example :
  forall o, wf_cond [([65%N], ESearch SAny [102%N] false)] (EBexp (EIdent [65%N]) BAnd (EInt 1)) = false /\
  solve_cond o [([65%N], ESearch SAny [102%N] false)] (EBexp (EIdent [65%N]) BAnd (EInt 1))
             (pure_doc (fun _ => Some (VStr []))) = Panic 869.
Proof. exact C03.d3_example. Qed.
Check d3_example.
