(* C03 (fourth statement file): after the repairs D18/D19 and D21 the statements of
   Properties/C03_matrix.v need NO exclusion: for EVERY rule the loader accepts, EVERY one of the
   sixteen switch sets and every map order that does not invent keys, optimise() returns, and
   matching the optimised rule against any document never panics.  Only statements here; proofs
   live in Proofs/C03_total.v. *)
From TauModel Require Import Base Num Oracles Syntax Value Yaml ParseMap Solver Rule Keys Optimiser Known.
From TauProofs Require C03_total.

Theorem optimise_total_all : forall o ic ord sw y r,
  (forall ks, (length (ord ks) <= length ks)%nat) ->
  load_rule o ic y = Ok r ->
  exists r', optimise o ord sw r = Ok r'.
Proof. exact C03_total.optimise_total_all. Qed.
Check optimise_total_all.
Print Assumptions optimise_total_all.

Theorem optimised_evaluates_all : forall o ic ord sw y r r' (d : doc),
  (forall ks, (length (ord ks) <= length ks)%nat) ->
  load_rule o ic y = Ok r ->
  optimise o ord sw r = Ok r' ->
  (exists b, matches o r' d = Ok b) /\ (exists l, validate o r' = Ok l).
Proof. exact C03_total.optimised_evaluates_all. Qed.
Check optimised_evaluates_all.
Print Assumptions optimised_evaluates_all.

(* the class D18/D19 is impossible since the repair *)
Theorem known_d18_never : forall o ord sw dt, known_d18 o ord sw dt = false.
Proof. exact C03_total.known_d18_never. Qed.
Check known_d18_never.
Print Assumptions known_d18_never.
