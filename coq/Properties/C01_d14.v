(* C01 / class D14 (fixed in the crate): shake_0 keeps the group a quantifier holds.
   Only statements here; proofs live in Proofs/C01_d14.v.

   With the fix the hypothesis `sh0` of C01.shake0_exact_alt (a quantifier never holds a
   one-member group) is not needed any more for groups.  Dropping it altogether is still false:
   an and/or CHAIN directly under a quantifier (a tree the loader never builds) is flattened into
   a group that the quantifier then counts member by member (shake0_exact_no_sh0_refuted).  The
   theorem keeps the weaker hypothesis sh0w: no quantifier operand is an and/or chain. *)
From TauModel Require Import Base Num Oracles Syntax Value Solver Rule Keys Optimiser Known.
From TauProofs Require C01 C01_d14.

Definition qop_ok (e : expr) : bool :=
  match e with EBexp _ BAnd _ | EBexp _ BOr _ => false | _ => true end.
Fixpoint sh0w (e : expr) : bool :=
  match e with
  | EGroup _ l => forallb sh0w l
  | EBexp l _ r => sh0w l && sh0w r
  | EMatch _ e' => qop_ok e' && sh0w e'
  | ENegate e' | ENested _ e' => sh0w e'
  | _ => true
  end.

Theorem shake0_exact_no_sh0_alt : forall o fuel e e' d,
  wf_body e = true -> sh0w e = true -> C01.no_dneg e = true -> C01.shx e = true ->
  shake0 fuel e = Ok e' ->
  solve_body o e' d = solve_body o e d.
Proof. exact C01_d14.shake0_exact_no_sh0_alt. Qed.
Check shake0_exact_no_sh0_alt.
Print Assumptions shake0_exact_no_sh0_alt.

(* the old hypothesis implies the new one *)
Theorem sh0_sh0w : forall e, C01.sh0 e = true -> sh0w e = true.
Proof. exact C01_d14.sh0_sh0w. Qed.
Check sh0_sh0w.
Print Assumptions sh0_sh0w.

(* the former D14 shape is inside the proved scope now *)
Example d14_shape_in_scope :
  let e := EMatch (MOf 2) (EGroup BOr [ESearch (SAho [MTContains [97%N]; MTContains [98%N]] false) [102%N] false]) in
  wf_body e = true /\ C01.sh0 e = false /\ sh0w e = true /\ C01.no_dneg e = true /\ C01.shx e = true.
Proof. exact C01_d14.d14_shape_in_scope. Qed.
Check d14_shape_in_scope.

(* without any hypothesis on quantifier operands the statement is false *)
Definition shake0_exact_no_sh0_counterexample := C01_d14.shake0_exact_no_sh0_refuted.
