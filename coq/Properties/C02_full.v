(* C02 (third statement file): whole rules whose identifier blocks may contain LISTS of scalars
   (the common rule shape `A: {field: [p1, p2, ..]}`), lifting list_entry_refines
   (Properties/C02_lists.v) through mappings, nested blocks, sequences of mappings and
   conditions.  Only statements here; proofs live in Proofs/C02_full.v.

   Excluded, by executable predicates: D27 / D30 (excluded_entry), D32, D28 (a nested block that
   is one all()-list), D10 / D11 (d10_here on the expression built), D24 (all(X) / of(X, n) over
   a one-entry mapping whose value is a list), and -- per document -- D26: an all()/of() list
   with two or more string members addressed at an ARRAY value (arrays_ok). *)
From TauModel Require Import Base Num Oracles Syntax Value Yaml Pratt ParseMap Solver Rule Keys Known Spec.
From TauProofs Require C02_full.

(* since fix D27 the scalar entry theorem needs only the D30 exclusion *)
Theorem entry_refines_d27_fixed : forall o ic k v e,
  scalar_yaml v = true -> bigint_str_entry o (YStr k) v = false ->
  parse_entry o ic (YStr k) v None [] = Ok e ->
  exists m f, read_key o k = Some (m, f) /\
              match m with KAll | KOf _ => False | _ => True end /\
              forall d : doc, solve_body o e (pure_doc d) = Ok (sem_entry_scalar o ic m f v d).
Proof. exact C02_full.entry_refines_d27_fixed. Qed.
Check entry_refines_d27_fixed.
Print Assumptions entry_refines_d27_fixed.

(* since fixes D27 and D30: NO exclusion at all for scalar entries (the hypothesis on integers
   says what a YAML integer can be: serde_yaml holds i64 or u64) *)
Theorem entry_refines_unrestricted : forall o ic k v e,
  scalar_yaml v = true ->
  match v with YInt z => (i64_min <=? z)%Z && (z <=? u64_max)%Z | _ => true end = true ->
  parse_entry o ic (YStr k) v None [] = Ok e ->
  exists m f, read_key o k = Some (m, f) /\
              match m with KAll | KOf _ => False | _ => True end /\
              forall d : doc, solve_body o e (pure_doc d) = Ok (sem_entry_scalar o ic m f v d).
Proof. exact C02_full.entry_refines_unrestricted. Qed.
Check entry_refines_unrestricted.
Print Assumptions entry_refines_unrestricted.

(* mappings whose values are scalars, non-empty lists of scalars, or such mappings *)
Fixpoint list_mapping (fuel : nat) (y : yaml) : bool :=
  match fuel with
  | O => false
  | S fu =>
      match y with
      | YMap kv => forallb (fun p : yaml * yaml =>
                              match fst p with YStr _ => true | _ => false end &&
                              (scalar_yaml (snd p) ||
                               match snd p with YSeq vs => forallb scalar_yaml vs | _ => false end ||
                               list_mapping fu (snd p))) kv
      | _ => false
      end
  end.
Definition list_identifier (y : yaml) : bool :=
  match y with
  | YMap _ => list_mapping (S (yaml_depth y)) y
  | YSeq l => forallb (fun m => list_mapping (S (yaml_depth m)) m) l
  | _ => false
  end.

(* the YAML-level exclusions *)
Definition excluded_entry2 (o : oracles) (k v : yaml) : bool :=
  excluded_entry o k v || d32_entry o k v || d28_entry o k v.
Definition excl_free2 (o : oracles) (y : yaml) : Prop :=
  entry_exists (S (yaml_depth y)) (excluded_entry2 o) y = false.

(* D26, per document: where an all()/of() list with two or more string members is addressed,
   the value is not an array -- followed through nested blocks into objects and arrays of objects *)
Definition is_ystr' (v : yaml) : bool := match v with YStr _ => true | _ => false end.
Definition quant_strings (m : keymod) (vs : list yaml) : bool :=
  match m with KAll | KOf _ => (2 <=? length (filter is_ystr' vs))%nat | _ => false end.
Fixpoint arrays_ok (o : oracles) (fuel : nat) (y : yaml) (d : doc) : bool :=
  match fuel with
  | O => true
  | S fu =>
      match y with
      | YMap kv =>
          forallb (fun p : yaml * yaml =>
                     match fst p with
                     | YStr k =>
                         match read_key o k with
                         | Some (m, f) =>
                             match snd p with
                             | YSeq vs => negb (quant_strings m vs && match d f with Some (VArr _) => true | _ => false end)
                             | YMap _ =>
                                 match d f with
                                 | Some (VObj kv') => arrays_ok o fu (snd p) (obj_find kv')
                                 | Some (VArr l) => forallb (fun e => match e with VObj kv' => arrays_ok o fu (snd p) (obj_find kv') | _ => true end) l
                                 | _ => true
                                 end
                             | _ => true
                             end
                         | None => true
                         end
                     | _ => true
                     end) kv
      | YSeq l => forallb (fun m => arrays_ok o fu m d) l
      | _ => true
      end
  end.

Theorem mapping_refines_lists : forall o ic y e,
  list_mapping (S (yaml_depth y)) y = true -> excl_free2 o y ->
  parse_mapping o ic y = Ok e -> exists_sub d10_here false e = false ->
  forall d : doc, arrays_ok o (S (yaml_depth y)) y d = true ->
    solve_body o e (pure_doc d) = Ok (sem_mapping o ic (S (yaml_depth y)) y d).
Proof. exact C02_full.mapping_refines_lists. Qed.
Check mapping_refines_lists.
Print Assumptions mapping_refines_lists.

(* identifiers: the value as a whole *)
Theorem identifier_refines_lists : forall o ic y b,
  list_identifier y = true -> excl_free2 o y ->
  parse_identifier o ic y = Ok b -> exists_sub d10_here false b = false ->
  forall d : doc, arrays_ok o (S (S (yaml_depth y))) y d = true ->
    solve_body o b (pure_doc d) = Ok (sem_identifier o ic y d).
Proof. exact C02_full.identifier_refines_lists. Qed.
Check identifier_refines_lists.
Print Assumptions identifier_refines_lists.

(* whole rules.  An identifier that the condition counts (all(X) / of(X, n)) must not be a
   one-entry mapping whose value is a list (class D24). *)
Fixpoint counted (i : str) (e : expr) : bool :=
  match e with
  | EMatch _ (EIdent j) => str_eqb i j
  | EMatch _ e' | ENegate e' | ENested _ e' => counted i e'
  | EBexp l _ r => counted i l || counted i r
  | EGroup _ l => existsb (counted i) l
  | _ => false
  end.

Theorem rule_refines_lists : forall o ic kv dkv r (d : doc),
  ylookup key_detection kv = Some (YMap dkv) ->
  forallb (fun p : yaml * yaml => match fst p with YStr _ => true | _ => false end) dkv = true ->
  NoDup (map fst (raw_identifiers dkv)) ->
  (forall i y, In (i, y) (raw_identifiers dkv) ->
     list_identifier y = true /\ excl_free2 o y /\
     arrays_ok o (S (S (yaml_depth y))) y d = true /\
     (counted i (d_expr (r_det r)) = true -> single_entry_list y = false)) ->
  load_rule o ic (YMap kv) = Ok r ->
  known_d10 (r_det r) = false ->
  exists r3, solve_rule3 o (r_det r) (pure_doc d) = Ok r3 /\
             sem_rule o ic (YMap kv) d = Some r3 /\
             (matches o r d = Ok true <-> r3 = T).
Proof. exact C02_full.rule_refines_lists. Qed.
Check rule_refines_lists.
Print Assumptions rule_refines_lists.
