(* C07 (third statement file): the tie of the automaton forms to the SOURCE by translation.
   tools/gen_tables.py regenerates Model/GeneratedAho.v from the three loops
   `for i in a.find_overlapping_iter(value) { match m[..] { MatchType::K(_) => .. } }` of
   src/solver.rs on every run: per match type, the condition on the reported occurrence under
   which the needle counts.  The theorem says that each regenerated table, applied to the
   occurrences of a needle in the haystack, is Solver.mtype_holds -- the meaning the model gives
   the automaton forms and the one batched_list_exact / aho_search_spec / slow_aho_spec and the
   quantifier theorems of C08 are stated over: contains = some occurrence, ends-with = an
   occurrence that ends at the end, exact = one that starts at 0 and ends at the end, starts-with
   = one that starts at 0.  (That the iterator reports every occurrence of every needle is the
   aho-corasick crate's contract; the translator checks that it is `find_overlapping_iter`.)
   Only statements here; proofs live in Proofs/C07_aho.v. *)
From Coq Require Import List.
From TauModel Require Import Base Num Oracles Syntax Value Solver AhoTable GeneratedAho.
From TauProofs Require C07_aho.

Definition occ (n h : str) (s e : nat) : Prop :=
  exists pre post, h = pre ++ n ++ post /\ s = length pre /\ e = length pre + length n.
Definition table_sound (t : list (mtk * acond)) : Prop :=
  forall m h,
    (exists c, cond_of t (kind_of m) = Some c /\
               exists s e, occ (mtype_value m) h s e /\ accepts c s e (length h) = true)
    <-> mtype_holds false m h = true.

Theorem aho_tables_are_mtype_holds : Forall (fun t : aho_table => table_sound (snd t)) aho_tables.
Proof. exact C07_aho.aho_tables_are_mtype_holds. Qed.
Check aho_tables_are_mtype_holds.
Print Assumptions aho_tables_are_mtype_holds.

Theorem aho_actions : map fst aho_tables = [AReturnTrue; ASetBit; AInsert].
Proof. exact C07_aho.aho_actions. Qed.
Check aho_actions.
Print Assumptions aho_actions.
