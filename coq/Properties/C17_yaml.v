(* C17 (second statement file): reordering AT THE LEVEL OF THE RULE TEXT -- the members of a list,
   the entries of a sequence of mappings, the entries of a mapping -- never changes whether the
   engine's result is true.  Obtained through the reference semantics (Model/Spec.v): the engine
   refines it (Properties/C02_all.v) and the reference combines members by max3 / of3 (invariant
   under permutation, three-valued) and first_non_true (truth-invariant).  Only statements here;
   proofs live in Proofs/C17_yaml.v. *)
From Coq Require Import Permutation.
From TauModel Require Import Base Num Oracles Syntax Value Yaml Pratt ParseMap Solver Rule Keys Known Spec.
From TauProofs Require C17_yaml.

(* ---- the reference itself ---- *)
Theorem max3_perm : forall rs rs', Permutation rs rs' -> max3 rs = max3 rs'.
Proof. exact C17_yaml.max3_perm. Qed.
Check max3_perm.
Print Assumptions max3_perm.

Theorem of3_perm : forall c rs rs', Permutation rs rs' -> of3 c rs = of3 c rs'.
Proof. exact C17_yaml.of3_perm. Qed.
Check of3_perm.
Print Assumptions of3_perm.

Theorem first_non_true_perm_truth : forall rs rs', Permutation rs rs' ->
  (first_non_true rs = T <-> first_non_true rs' = T).
Proof. exact C17_yaml.first_non_true_perm_truth. Qed.
Check first_non_true_perm_truth.
Print Assumptions first_non_true_perm_truth.

(* entries of a mapping: truth of the reference is invariant under reordering the entries *)
Theorem sem_mapping_perm_truth : forall o ic n kv kv' (d : doc),
  Permutation kv kv' ->
  (sem_mapping o ic (S n) (YMap kv) d = T <-> sem_mapping o ic (S n) (YMap kv') d = T).
Proof. exact C17_yaml.sem_mapping_perm_truth. Qed.
Check sem_mapping_perm_truth.
Print Assumptions sem_mapping_perm_truth.

(* entries of a sequence of mappings: the reference result is invariant, three-valued *)
Theorem sem_identifier_seq_perm : forall o ic l l' (d : doc),
  Permutation l l' -> sem_identifier o ic (YSeq l) d = sem_identifier o ic (YSeq l') d.
Proof. exact C17_yaml.sem_identifier_seq_perm. Qed.
Check sem_identifier_seq_perm.
Print Assumptions sem_identifier_seq_perm.

(* ---- the engine, through the refinement ---- *)
(* two identifiers that the engine refines (the conclusion of identifier_refines_all) and whose
   YAML differs by a permutation of the sequence entries give the same engine result *)
Theorem engine_seq_perm : forall o b b' l l' (ic : bool) (d : doc),
  Permutation l l' ->
  solve_body o b (pure_doc d) = Ok (sem_identifier o ic (YSeq l) d) ->
  solve_body o b' (pure_doc d) = Ok (sem_identifier o ic (YSeq l') d) ->
  solve_body o b (pure_doc d) = solve_body o b' (pure_doc d).
Proof. exact C17_yaml.engine_seq_perm. Qed.
Check engine_seq_perm.
Print Assumptions engine_seq_perm.

(* mappings: reordering the entries of a mapping (at the top of an identifier block) never changes
   whether the engine's result is true, for every loadable mapping of the class of
   Properties/C02_all.v on both sides *)
Theorem engine_mapping_perm_truth : forall o ic kv kv' e e' (d : doc),
  Permutation kv kv' ->
  solve_body o e (pure_doc d) = Ok (sem_mapping o ic (S (yaml_depth (YMap kv))) (YMap kv) d) ->
  solve_body o e' (pure_doc d) = Ok (sem_mapping o ic (S (yaml_depth (YMap kv'))) (YMap kv') d) ->
  (solve_body o e (pure_doc d) = Ok T <-> solve_body o e' (pure_doc d) = Ok T).
Proof. exact C17_yaml.engine_mapping_perm_truth. Qed.
Check engine_mapping_perm_truth.
Print Assumptions engine_mapping_perm_truth.

(* list members: the reference's combination of a permuted list *)
Theorem sem_list_perm : forall o ic (m : keymod) vs vs' (x : value),
  Permutation vs vs' ->
  let rs := map (fun v => sem_scalar o ic m v x) vs in
  let rs' := map (fun v => sem_scalar o ic m v x) vs' in
  max3 rs = max3 rs' /\ (forall c, of3 c rs = of3 c rs') /\ (first_non_true rs = T <-> first_non_true rs' = T).
Proof. exact C17_yaml.sem_list_perm. Qed.
Check sem_list_perm.
Print Assumptions sem_list_perm.
