(* C13 (fourth statement file): "all of this holds equally for optimised rules" -- for EVERY
   loadable rule outside the three listed classes of C01 (D13, D16, D17; Properties/C01_outside.v),
   all sixteen switch sets: validate() of the optimised rule returns exactly what validate() of the
   rule as loaded returns.  Only statements here; proofs live in Proofs/C13_outside.v. *)
From Coq Require Import Permutation.
From TauModel Require Import Base Num Oracles Syntax Value Yaml Pratt ParseMap Solver Rule Keys Optimiser Known.
From TauModel Require Order.
From TauProofs Require C01 C13_outside.

Theorem validate_optimised_outside_classes : forall o ic ord sw y r,
  (forall l, Permutation (ord l) l) ->
  C01.H_strip o ->
  load_rule o ic y = Ok r -> r_optimised r = false ->
  known_d13 sw (r_det r) = false ->
  known_d16 ord sw (r_det r) = false ->
  known_d17 o ord sw (r_det r) = false ->
  exists r', optimise o ord sw r = Ok r' /\ validate o r' = validate o r.
Proof. exact C13_outside.validate_optimised_outside_classes. Qed.
Check validate_optimised_outside_classes.
Print Assumptions validate_optimised_outside_classes.

Theorem crate_order_validate_optimised_outside_classes : forall o ic sw y r,
  C01.H_strip o ->
  load_rule o ic y = Ok r -> r_optimised r = false ->
  known_d13 sw (r_det r) = false ->
  known_d16 Order.rust_ord sw (r_det r) = false ->
  known_d17 o Order.rust_ord sw (r_det r) = false ->
  exists r', optimise o Order.rust_ord sw r = Ok r' /\ validate o r' = validate o r.
Proof. exact C13_outside.crate_order_validate_optimised_outside_classes. Qed.
Check crate_order_validate_optimised_outside_classes.
Print Assumptions crate_order_validate_optimised_outside_classes.
