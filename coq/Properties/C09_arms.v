(* C09 (third statement file): the loader turns a numeric pattern (`>=5`, `<1.5`, ...) into a
   comparison in two places of src/parser.rs -- once for a scalar value, once for a list member.
   tools/gen_tables.py regenerates both copies of the ten arms on every run
   (Model/GeneratedNumArms.v: pattern kind, operator built, kind of the constant) and the theorems
   say that each copy IS ParseMap.numeric_expr, the one function the model uses for both -- so the
   scalar and the list spelling of a numeric predicate build the same comparison, with the
   operator the pattern names.  Only statements here; proofs live in Proofs/C09_arms.v. *)
From TauModel Require Import Base Num Oracles Syntax Ident IdentTable NumArmTable GeneratedNumArms ParseMap.
From TauProofs Require C09_arms.

Theorem scalar_arms_are_numeric_expr : forall e p, numeric_expr_gen scalar_num_arms e p = numeric_expr e p.
Proof. exact C09_arms.scalar_arms_are_numeric_expr. Qed.
Check scalar_arms_are_numeric_expr.
Print Assumptions scalar_arms_are_numeric_expr.

Theorem list_arms_are_numeric_expr : forall e p, numeric_expr_gen list_num_arms e p = numeric_expr e p.
Proof. exact C09_arms.list_arms_are_numeric_expr. Qed.
Check list_arms_are_numeric_expr.
Print Assumptions list_arms_are_numeric_expr.
