(* C02 (fifth statement file): the statements of Properties/C02_all.v WITHOUT the exclusions D27 and
   D30, which are repaired in the crate: the only classes left outside are D10/D11, D24, D26 (per
   document), D28 and D32.  The hypothesis ints_ok says what a YAML integer can be.  Only statements
   here; proofs live in Proofs/C02_final.v. *)
From TauModel Require Import Base Num Oracles Syntax Value Yaml Pratt ParseMap Solver Rule Keys Known Spec.
From TauProofs Require C02_final.

Definition is_ymap (v : yaml) : bool := match v with YMap _ => true | _ => false end.

(* mappings whose values are scalars, non-empty lists of scalars, non-empty lists of such
   mappings, or such mappings *)
Fixpoint any_mapping (fuel : nat) (y : yaml) : bool :=
  match fuel with
  | O => false
  | S fu =>
      match y with
      | YMap kv => forallb (fun p : yaml * yaml =>
                              match fst p with YStr _ => true | _ => false end &&
                              (scalar_yaml (snd p) ||
                               match snd p with
                               | YSeq vs => forallb scalar_yaml vs || forallb (any_mapping fu) vs
                               | _ => false
                               end ||
                               any_mapping fu (snd p))) kv
      | _ => false
      end
  end.
Definition any_identifier (y : yaml) : bool :=
  match y with
  | YMap _ => any_mapping (S (yaml_depth y)) y
  | YSeq l => forallb (fun m => any_mapping (S (yaml_depth m)) m) l
  | _ => false
  end.

(* the exclusions that remain after the repairs D27 and D30: D32 and D28 *)
Definition excluded_entry3 (o : oracles) (k v : yaml) : bool :=
  d32_entry o k v || d28_entry o k v || d28_member_entry o k v.
Definition excl_free3 (o : oracles) (y : yaml) : Prop :=
  entry_exists (S (yaml_depth y)) (excluded_entry3 o) y = false.

(* what a YAML integer can be (serde_yaml holds i64 or u64), everywhere in the block *)
Fixpoint ints_ok (fuel : nat) (y : yaml) : bool :=
  match fuel with
  | O => true
  | S fu =>
      match y with
      | YInt z => (i64_min <=? z)%Z && (z <=? u64_max)%Z
      | YSeq l => forallb (ints_ok fu) l
      | YMap kv => forallb (fun p : yaml * yaml => ints_ok fu (fst p) && ints_ok fu (snd p)) kv
      | YTagged _ v => ints_ok fu v
      | _ => true
      end
  end.

Definition is_ystr' (v : yaml) : bool := match v with YStr _ => true | _ => false end.
Definition quant_strings (m : keymod) (vs : list yaml) : bool :=
  match m with KAll | KOf _ => (2 <=? length (filter is_ystr' vs))%nat | _ => false end.
(* D26 per document, followed through nested blocks and through the blocks of a list *)
Fixpoint arrays_ok (o : oracles) (fuel : nat) (y : yaml) (d : doc) : bool :=
  match fuel with
  | O => true
  | S fu =>
      match y with
      | YMap kv =>
          forallb (fun p : yaml * yaml =>
                     match fst p with
                     | YStr k =>
                         match read_key o k with
                         | Some (m, f) =>
                             let sub (v : yaml) : bool :=
                               match d f with
                               | Some (VObj kv') => arrays_ok o fu v (obj_find kv')
                               | Some (VArr l) => forallb (fun e => match e with VObj kv' => arrays_ok o fu v (obj_find kv') | _ => true end) l
                               | _ => true
                               end in
                             match snd p with
                             | YSeq vs =>
                                 negb (quant_strings m vs && match d f with Some (VArr _) => true | _ => false end) &&
                                 forallb (fun v => if is_ymap v then sub v else true) vs
                             | YMap _ => sub (snd p)
                             | _ => true
                             end
                         | None => true
                         end
                     | _ => true
                     end) kv
      | YSeq l => forallb (fun m => arrays_ok o fu m d) l
      | _ => true
      end
  end.

Theorem mapping_refines_final : forall o ic y e,
  any_mapping (S (yaml_depth y)) y = true -> excl_free3 o y -> ints_ok (S (yaml_depth y)) y = true ->
  parse_mapping o ic y = Ok e -> exists_sub d10_here false e = false ->
  forall d : doc, arrays_ok o (S (yaml_depth y)) y d = true ->
    solve_body o e (pure_doc d) = Ok (sem_mapping o ic (S (yaml_depth y)) y d).
Proof. exact C02_final.mapping_refines_final. Qed.
Check mapping_refines_final.
Print Assumptions mapping_refines_final.

Theorem identifier_refines_final : forall o ic y b,
  any_identifier y = true -> excl_free3 o y -> ints_ok (S (S (yaml_depth y))) y = true ->
  parse_identifier o ic y = Ok b -> exists_sub d10_here false b = false ->
  forall d : doc, arrays_ok o (S (S (yaml_depth y))) y d = true ->
    solve_body o b (pure_doc d) = Ok (sem_identifier o ic y d).
Proof. exact C02_final.identifier_refines_final. Qed.
Check identifier_refines_final.
Print Assumptions identifier_refines_final.

Fixpoint counted (i : str) (e : expr) : bool :=
  match e with
  | EMatch _ (EIdent j) => str_eqb i j
  | EMatch _ e' | ENegate e' | ENested _ e' => counted i e'
  | EBexp l _ r => counted i l || counted i r
  | EGroup _ l => existsb (counted i) l
  | _ => false
  end.

(* every loadable rule whose identifier blocks are of the shapes above *)
Theorem rule_refines_final : forall o ic kv dkv r (d : doc),
  ylookup key_detection kv = Some (YMap dkv) ->
  forallb (fun p : yaml * yaml => match fst p with YStr _ => true | _ => false end) dkv = true ->
  NoDup (map fst (raw_identifiers dkv)) ->
  (forall i y, In (i, y) (raw_identifiers dkv) ->
     any_identifier y = true /\ excl_free3 o y /\ ints_ok (S (S (yaml_depth y))) y = true /\
     arrays_ok o (S (S (yaml_depth y))) y d = true /\
     (counted i (d_expr (r_det r)) = true -> single_entry_list y = false)) ->
  load_rule o ic (YMap kv) = Ok r ->
  known_d10 (r_det r) = false ->
  exists r3, solve_rule3 o (r_det r) (pure_doc d) = Ok r3 /\
             sem_rule o ic (YMap kv) d = Some r3 /\
             (matches o r d = Ok true <-> r3 = T).
Proof. exact C02_final.rule_refines_final. Qed.
Check rule_refines_final.
Print Assumptions rule_refines_final.

(* the list-entry theorem (Properties/C02_lists.v) without the D27 / D30 exclusion *)
Definition sem_entry_list (o : oracles) (ic : bool) (m : keymod) (f : str) (vs : list yaml) (d : doc) : res3 :=
  let base :=
    match d f with
    | None => M
    | Some x =>
        match m with
        | KAll => first_non_true (map (fun v => sem_scalar o ic KPlain v x) vs)
        | KOf c => of3 c (map (fun v => sem_scalar o ic KPlain v x) vs)
        | KNot => max3 (map (fun v => sem_scalar o ic KPlain v x) vs)
        | _ => max3 (map (fun v => sem_scalar o ic m v x) vs)
        end
    end in
  match m with KNot => not3 base | _ => base end.
Definition array_ok (m : keymod) (vs : list yaml) (x : option value) : Prop :=
  match m with
  | KAll | KOf _ =>
      (2 <= length (filter is_ystr' vs))%nat -> match x with Some (VArr _) => False | _ => True end
  | _ => True
  end.

Theorem list_entry_refines_final : forall o ic k vs e,
  forallb scalar_yaml vs = true ->
  forallb (ints_ok 1) vs = true ->
  d32_entry o (YStr k) (YSeq vs) = false ->
  parse_entry o ic (YStr k) (YSeq vs) None (map (fun _ => None) vs) = Ok e ->
  exists_sub d10_here false e = false ->
  exists m f, read_key o k = Some (m, f) /\
    forall d : doc, array_ok m vs (d f) ->
      solve_body o e (pure_doc d) = Ok (sem_entry_list o ic m f vs d).
Proof. exact C02_final.list_entry_refines_final. Qed.
Check list_entry_refines_final.
Print Assumptions list_entry_refines_final.
