(* C09 (second statement file): the tie of the comparison semantics to the SOURCE by translation.
   tools/gen_tables.py regenerates Model/GeneratedCmp.v from the match `let res = match (x, *op, y)`
   of src/solver.rs on every run (arms in source order); Model/CmpTable.v reads the arms with
   Rust's first-match semantics.  The theorem says that table IS Solver.compare_values, the
   function every C09 theorem (cmp_int_complete, int_trichotomy, ge_le_unions, ...) is about:
   a changed, dropped, reordered or unguarded arm in the crate breaks this proof.
   Only statements here; proofs live in Proofs/C09_table.v. *)
From TauModel Require Import Base Num Syntax Value Solver CmpTable GeneratedCmp.
From TauProofs Require C09_table.

Definition is_cmp (op : boolsym) : bool :=
  match op with BAnd | BOr => false | _ => true end.

Theorem cmp_table_is_compare_values : forall x op y,
  is_cmp op = true -> eval_arms cmp_arms x op y = Some (compare_values x op y).
Proof. exact C09_table.cmp_table_is_compare_values. Qed.
Check cmp_table_is_compare_values.
Print Assumptions cmp_table_is_compare_values.

(* and / or never reach the table: its final `_ => unreachable!()` *)
Theorem cmp_table_unreachable_arm : forall x op y,
  is_cmp op = false -> eval_arms cmp_arms x op y = None.
Proof. exact C09_table.cmp_table_unreachable_arm. Qed.
Check cmp_table_unreachable_arm.
Print Assumptions cmp_table_unreachable_arm.
