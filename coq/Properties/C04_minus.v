(* C04 (second statement file): what the tokeniser does with `-`.  The number arm is entered on `-`
   (tokeniser.rs: `c == '-'`) but its characters are collected by `is_numeric() || '.'`, so the `-`
   is never consumed: a token that starts with `-` is a load error (never a panic, never a wrong
   tree), and no condition text yields a negative integer token -- `int(x) > -5` cannot be written
   (DESIGN II.4, observation (vi): a limitation, not a wrong verdict).  Only statements here; proofs
   live in Proofs/C04_minus.v. *)
From Coq Require Import List ZArith.
From TauModel Require Import Base Num Oracles Syntax Generated Token.
From TauProofs Require C04_minus.
Import ListNotations.

Theorem lex_step_minus : forall o s, lex_step o ch_minus (ch_minus :: s) = Err EInvalidNum.
Proof. exact C04_minus.lex_step_minus. Qed.
Check lex_step_minus.
Print Assumptions lex_step_minus.

Theorem leading_minus_rejected : forall o s, tokenise o (ch_minus :: s) = Err EInvalidNum.
Proof. exact C04_minus.leading_minus_rejected. Qed.
Check leading_minus_rejected.
Print Assumptions leading_minus_rejected.

Theorem integer_tokens_nonneg : forall o s ts z,
  tokenise o s = Ok ts -> In (TInt z) ts -> (0 <= z)%Z.
Proof. exact C04_minus.integer_tokens_nonneg. Qed.
Check integer_tokens_nonneg.
Print Assumptions integer_tokens_nonneg.

(* `x > -5` is a load error; `x > 5` lexes (non-vacuity) *)
Example x_gt_minus5 : forall o, tokenise o [120; 32; 62; 32; 45; 53]%N = Err EInvalidNum.
Proof. exact C04_minus.x_gt_minus5. Qed.
Check x_gt_minus5.
Example x_gt_5 : forall o,
  tokenise o [120; 32; 62; 32; 53]%N = Ok [TIdent [120%N]; TOp BGreaterThan; TInt 5].
Proof. exact C04_minus.x_gt_5. Qed.
Check x_gt_5.
