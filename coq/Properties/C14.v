(* C14  Rule serialisation round-trips.
   Only statements here; proofs live in Proofs/C14.v.  PARTIAL by nature: the YAML text
   layer is serde_yaml's; the theorems say that re-loading the VALUE a rule serialises to
   gives the same rule, whatever order the identifier map is written in and whatever the
   optimised flag says; that the text layer is the identity on these values is checked on
   the crate for every generated rule. *)
From Coq Require Import Permutation.
From TauModel Require Import Base Num Oracles Syntax Value Yaml ParseMap Solver Rule Serial.
From TauProofs Require C14.

Definition names_distinct (raw : list (str * yaml)) : Prop :=
  NoDup (map fst raw) /\ ~ In cond_key (map fst raw).

(* re-loading the serialised detection yields the same condition tree and the same
   identifier trees under the same names, for every write order of the identifiers *)
Theorem detection_roundtrip : forall o ic dkv cond raw raw' dt,
  raw_parts dkv = Some (Some cond, raw) ->
  names_distinct raw ->
  Permutation raw raw' ->
  load_detection o ic (YMap dkv) = Ok dt ->
  exists dt', load_detection o ic (ser_detection cond raw') = Ok dt' /\
              d_expr dt' = d_expr dt /\
              (forall i, lookup i (d_ids dt') = lookup i (d_ids dt)).
Proof. exact C14.detection_roundtrip. Qed.
Check detection_roundtrip.
Print Assumptions detection_roundtrip.

(* identifier tables that agree as maps give the same result on every document *)
Theorem ids_as_map : forall o ids ids' e d,
  (forall i, lookup i ids' = lookup i ids) ->
  solve_cond o ids' e d = solve_cond o ids e d.
Proof. exact C14.ids_as_map. Qed.
Check ids_as_map.
Print Assumptions ids_as_map.

(* whole rules: the serialised value loads to a rule with the same condition, identifiers
   and examples and the flag that was written -- hence the same verdict on every document;
   this covers rules serialised after optimisation (flag true; the reloaded rule is parsed
   again from the raw text and is not optimised a second time) *)
Theorem rule_roundtrip : forall o ic kv dkv cond raw raw' r opt (d : doc),
  ylookup key_detection kv = Some (YMap dkv) ->
  raw_parts dkv = Some (Some cond, raw) ->
  names_distinct raw -> Permutation raw raw' ->
  load_rule o ic (YMap kv) = Ok r ->
  exists r', load_rule o ic (ser_rule opt cond raw' (r_tp r) (r_tn r)) = Ok r' /\
             r_optimised r' = opt /\ r_tp r' = r_tp r /\ r_tn r' = r_tn r /\
             matches o r' d = matches o r d.
Proof. exact C14.rule_roundtrip. Qed.
Check rule_roundtrip.
Print Assumptions rule_roundtrip.

(* non-vacuity *)
Example roundtrip_example :
  let dkv := [(YStr [66%N], YMap [(YStr [103%N], YStr [121%N])]);
              (YStr cond_key, YStr [65; 32; 97; 110; 100; 32; 66]%N);
              (YStr [65%N], YMap [(YStr [102%N], YStr [120%N])])] in
  raw_parts dkv = Some (Some [65; 32; 97; 110; 100; 32; 66]%N,
                        [([66%N], YMap [(YStr [103%N], YStr [121%N])]); ([65%N], YMap [(YStr [102%N], YStr [120%N])])]).
Proof. exact C14.roundtrip_example. Qed.
Check roundtrip_example.
