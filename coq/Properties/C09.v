(* C09  Numeric comparisons and casts are order-correct and overflow-safe.
   Only statements here; proofs live in Proofs/C09.v. *)
From Coq Require Import Reals.
From Flocq Require Import IEEE754.Binary IEEE754.Bits.
From TauModel Require Import Base Num Oracles Syntax Value Solver.
From TauProofs Require C09.

(* the mathematical relation an operator denotes *)
Definition rel (op : boolsym) (a b : Z) : bool :=
  match op with
  | BEqual => (a =? b)%Z
  | BGreaterThan => (b <? a)%Z
  | BGreaterThanOrEqual => (b <=? a)%Z
  | BLessThan => (a <? b)%Z
  | BLessThanOrEqual => (a <=? b)%Z
  | BAnd | BOr => false
  end.

Definition is_cmp (op : boolsym) : bool :=
  match op with BAnd | BOr => false | _ => true end.

(* an integer value of the document: signed or unsigned 64-bit *)
Definition int_of (v : value) : option Z :=
  match v with
  | VInt z => if in_i64 z then Some z else None
  | VUInt z => if in_u64 z then Some z else None
  | _ => None
  end.

(* Over the whole i64 x u64 range the comparison table computes exactly the mathematical
   relation: no wrap-around, no lost ordering above i64::MAX (fix D6). *)
Theorem cmp_int_complete : forall x y op a b,
  is_cmp op = true -> int_of x = Some a -> int_of y = Some b ->
  compare_values x op y = rel op a b.
Proof. exact C09.cmp_int_complete. Qed.
Check cmp_int_complete.
Print Assumptions cmp_int_complete.

(* exactly one of <, =, > holds between two integers *)
Theorem int_trichotomy : forall x y a b,
  int_of x = Some a -> int_of y = Some b ->
  (compare_values x BLessThan y = true /\ compare_values x BEqual y = false /\ compare_values x BGreaterThan y = false) \/
  (compare_values x BLessThan y = false /\ compare_values x BEqual y = true /\ compare_values x BGreaterThan y = false) \/
  (compare_values x BLessThan y = false /\ compare_values x BEqual y = false /\ compare_values x BGreaterThan y = true).
Proof. exact C09.int_trichotomy. Qed.
Check int_trichotomy.
Print Assumptions int_trichotomy.

Definition is_numeric_value (v : value) : bool :=
  match v with VInt _ | VUInt _ | VFloat _ => true | _ => false end.

(* >= and <= are the unions of the strict relation and equality, for every pair of numeric
   values (floats included, NaN included) *)
Theorem ge_le_unions : forall x y,
  is_numeric_value x = true -> is_numeric_value y = true ->
  compare_values x BGreaterThanOrEqual y = (compare_values x BGreaterThan y || compare_values x BEqual y) /\
  compare_values x BLessThanOrEqual y = (compare_values x BLessThan y || compare_values x BEqual y).
Proof. exact C09.ge_le_unions. Qed.
Check ge_le_unions.
Print Assumptions ge_le_unions.

(* floats: a NaN is related to nothing; otherwise exactly one of <, =, > *)
Theorem float_trichotomy : forall a b,
  match fcmp a b with
  | None => f_lt a b = false /\ f_eq a b = false /\ f_gt a b = false /\ f_le a b = false /\ f_ge a b = false
  | Some Lt => f_lt a b = true /\ f_eq a b = false /\ f_gt a b = false
  | Some Eq => f_lt a b = false /\ f_eq a b = true /\ f_gt a b = false
  | Some Gt => f_lt a b = false /\ f_eq a b = false /\ f_gt a b = true
  end.
Proof. exact C09.float_trichotomy. Qed.
Check float_trichotomy.
Print Assumptions float_trichotomy.

Theorem float_nan_unrelated : forall a b,
  is_nan 53 1024 (b64_of_bits a) = true \/ is_nan 53 1024 (b64_of_bits b) = true ->
  fcmp a b = None.
Proof. exact C09.float_nan_unrelated. Qed.
Check float_nan_unrelated.
Print Assumptions float_nan_unrelated.

(* the float comparisons are the order of the real numbers the operands denote
   (Flocq's Bcompare_correct; brings the standard axioms of the Reals library) *)
Theorem float_order_is_real_order : forall a b,
  is_finite 53 1024 (b64_of_bits a) = true -> is_finite 53 1024 (b64_of_bits b) = true ->
  (f_lt a b = true <-> (B2R 53 1024 (b64_of_bits a) < B2R 53 1024 (b64_of_bits b))%R) /\
  (f_eq a b = true <-> (B2R 53 1024 (b64_of_bits a) = B2R 53 1024 (b64_of_bits b))%R) /\
  (f_gt a b = true <-> (B2R 53 1024 (b64_of_bits a) > B2R 53 1024 (b64_of_bits b))%R).
Proof. exact C09.float_order_is_real_order. Qed.
Check float_order_is_real_order.
Print Assumptions float_order_is_real_order.

(* casts: int() yields an in-range signed integer or is not convertible -- never a
   wrapped or saturated value (fix D7) *)
Definition value_wf (v : value) : Prop :=
  match v with
  | VInt z => in_i64 z = true
  | VUInt z => in_u64 z = true
  | _ => True
  end.

Theorem cast_int_in_range : forall v w,
  value_wf v -> cast_int v = OVal w -> exists z, w = VInt z /\ in_i64 z = true.
Proof. exact C09.cast_int_in_range. Qed.
Check cast_int_in_range.
Print Assumptions cast_int_in_range.

Theorem cast_int_spec :
  (forall b, cast_int (VBool b) = OVal (VInt (if b then 1 else 0))) /\
  (forall z, cast_int (VInt z) = OVal (VInt z)) /\
  (forall z, cast_int (VUInt z) = if (z <=? i64_max)%Z then OVal (VInt z) else OFalse) /\
  (forall s, cast_int (VStr s) = match parse_i64 s with Some z => OVal (VInt z) | None => OFalse end) /\
  (forall f, cast_int (VFloat f) = match f64_round_Z f with
                                      | Some z => if in_i64 z then OVal (VInt z) else OFalse
                                      | None => OFalse
                                      end) /\
  cast_int VNull = OFalse /\ (forall l, cast_int (VArr l) = OFalse) /\
  (forall kv, cast_int (VObj kv) = OFalse).
Proof. exact C09.cast_int_spec. Qed.
Check cast_int_spec.
Print Assumptions cast_int_spec.

(* the integer a float rounds to is the nearest one, ties away from zero *)
Theorem f64_round_Z_nearest : forall f z,
  f64_round_Z f = Some z ->
  is_finite 53 1024 (b64_of_bits f) = true /\
  (Rabs (B2R 53 1024 (b64_of_bits f) - IZR z) <= / 2)%R /\
  ((Rabs (B2R 53 1024 (b64_of_bits f) - IZR z) = / 2)%R ->
   (Rabs (IZR z) > Rabs (B2R 53 1024 (b64_of_bits f)))%R).
Proof. exact C09.f64_round_Z_nearest. Qed.
Check f64_round_Z_nearest.
Print Assumptions f64_round_Z_nearest.

(* numeric strings: the canonical decimal text of an i64 parses back to it *)
Theorem parse_i64_show : forall z, in_i64 z = true -> parse_i64 (show_Z z) = Some z.
Proof. exact C09.parse_i64_show. Qed.
Check parse_i64_show.
Print Assumptions parse_i64_show.

Theorem parse_i64_in_range : forall s z, parse_i64 s = Some z -> in_i64 z = true.
Proof. exact C09.parse_i64_in_range. Qed.
Check parse_i64_in_range.
Print Assumptions parse_i64_in_range.

(* str(): integers compare by their canonical decimal text, which is injective *)
Theorem show_Z_injective : forall a b, show_Z a = show_Z b -> a = b.
Proof. exact C09.show_Z_injective. Qed.
Check show_Z_injective.
Print Assumptions show_Z_injective.

(* a comparison never panics on a user document, and an unconvertible operand gives false *)
Theorem compare_never_panics : forall o d l op r,
  exists x, solve_compare o (pure_doc d) l op r = Ok x.
Proof. exact C09.compare_never_panics. Qed.
Check compare_never_panics.
Print Assumptions compare_never_panics.

Theorem cast_unconvertible_false : forall o d f m op c v,
  (m = MInt \/ m = MFlt) -> is_cmp op = true ->
  (c = EInt 0%Z \/ c = EFloat 0%Z) ->
  d f = Some v ->
  (match m with MInt => cast_int v | _ => cast_flt o v end) = OFalse ->
  solve_compare o (pure_doc d) (ECast f m) op c = Ok F.
Proof. exact C09.cast_unconvertible_false. Qed.
Check cast_unconvertible_false.
Print Assumptions cast_unconvertible_false.

(* non-vacuity: the boundary that fix D6 is about *)
Example cmp_boundary_example :
  compare_values (VUInt 18446744073709551615%Z) BGreaterThan (VInt 5%Z) = true /\
  compare_values (VInt (-1)%Z) BLessThan (VUInt 9223372036854775808%Z) = true /\
  compare_values (VUInt 9223372036854775807%Z) BEqual (VInt 9223372036854775807%Z) = true /\
  cast_int (VFloat 5055640609639927018%Z) = OFalse.
Proof. exact C09.cmp_boundary_example. Qed.
Check cmp_boundary_example.
