(* C07  String predicates are exact for all strings, single or batched.
   Only statements here; proofs live in Proofs/C07.v. *)
From TauModel Require Import Base Num Oracles Syntax Value Yaml Ident ParseMap Solver PatSpec.
From TauProofs Require C07.

(* the automaton searches mean what their match types say (all needles, all haystacks) *)
Theorem aho_search_spec : forall o ctx ci h,
  search o (SAho ctx ci) h = existsb (fun m => mtype_holds ci m h) ctx.
Proof. exact C07.aho_search_spec. Qed.
Check aho_search_spec.
Print Assumptions aho_search_spec.

Theorem slow_aho_spec : forall ctx ci h,
  slow_aho ctx ci h = Z.of_nat (length (filter (fun m => mtype_holds ci m h) ctx)).
Proof. exact C07.slow_aho_spec. Qed.
Check slow_aho_spec.
Print Assumptions slow_aho_spec.

(* a single pattern on a plain key: the predicate the loader builds is true on a document
   string exactly when the documented relation holds -- every pattern text, every string,
   both builds *)
Definition plain_key (f : str) : keyinfo := {| k_e := EField f; k_f := f; k_misc := None |}.

Theorem single_pattern_exact : forall o ic f s h,
  is_string_predicate o ic s = true ->
  exists sr, scalar_string_expr o ic (plain_key f) s = Ok (ESearch sr f false) /\
             search o sr h = documented o ic s h.
Proof. exact C07.single_pattern_exact. Qed.
Check single_pattern_exact.
Print Assumptions single_pattern_exact.

(* and texts that are not string predicates are not turned into one *)
Theorem non_string_pattern : forall o ic f s e,
  is_string_predicate o ic s = false ->
  scalar_string_expr o ic (plain_key f) s = Ok e ->
  match e with ESearch _ _ _ => False | _ => True end.
Proof. exact C07.non_string_pattern. Qed.
Check non_string_pattern.
Print Assumptions non_string_pattern.

(* a list of patterns on one field is true on a document string exactly when at least one
   member would be true on its own, however the members are batched *)
Theorem batched_list_exact : forall o ic f ss a e ids body d h,
  (forall s, In s ss -> is_string_predicate o ic s = true) ->
  seq_members o ic (plain_key f) (EField f) acc0 (map YStr ss) (map (fun _ => None) ss) = Ok a ->
  finish_seq (plain_key f) a = Ok e ->
  d f = Ok (Some (VStr h)) ->
  solve o ids body e d = Ok (if existsb (fun s => documented o ic s h) ss then T else F).
Proof. exact C07.batched_list_exact. Qed.
Check batched_list_exact.
Print Assumptions batched_list_exact.

(* on a field that is absent the list is missing, never true *)
Theorem batched_list_missing : forall o ic f ss a e ids body d,
  (forall s, In s ss -> is_string_predicate o ic s = true) ->
  seq_members o ic (plain_key f) (EField f) acc0 (map YStr ss) (map (fun _ => None) ss) = Ok a ->
  finish_seq (plain_key f) a = Ok e ->
  d f = Ok None ->
  solve o ids body e d = Ok M.
Proof. exact C07.batched_list_missing. Qed.
Check batched_list_missing.
Print Assumptions batched_list_missing.

(* case-insensitivity is ASCII case folding of both sides (fix D12): the `i` prefix gives
   the case-insensitive reading of the rest, and for the non-regex kinds that reading is
   unchanged by ASCII-lowering the pattern and the document string *)
Theorem i_prefix_is_case_insensitive : forall o t h,
  documented o false (ch_i :: t) h = documented o true t h.
Proof. exact C07.i_prefix_is_case_insensitive. Qed.
Check i_prefix_is_case_insensitive.
Print Assumptions i_prefix_is_case_insensitive.

Theorem ci_is_ascii_folding : forall o t h,
  match classify t with KRegex _ | KNumeric => False | _ => True end ->
  documented o true t h = documented o true (str_ascii_lower t) (str_ascii_lower h).
Proof. exact C07.ci_is_ascii_folding. Qed.
Check ci_is_ascii_folding.
Print Assumptions ci_is_ascii_folding.

(* non-vacuity *)
Example documented_example :
  forall o, documented o false [105; 42; 70; 111; 42]%N [120; 102; 79; 121]%N = true /\   (* i*Fo* on xfOy *)
            documented o false [39; 42; 39]%N [42]%N = true /\                            (* '*' quoted on * *)
            documented o false [42; 42]%N []%N = true /\                                  (* ** on empty *)
            documented o false [102; 111; 42]%N [102]%N = false.                          (* fo* on f *)
Proof. exact C07.documented_example. Qed.
Check documented_example.
