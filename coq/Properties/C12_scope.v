(* C12 (fourth statement file): inside the widest proved scope of the end-to-end C01 theorem
   (Model/Scope3.v c01_scope_wide) the map order the optimiser happens to iterate in is
   irrelevant: any two permutation orders give optimised rules with the same verdict on every
   document and the same validate() result.  Only statements here; proofs in Proofs/C01_wide.v. *)
From Coq Require Import Permutation.
From TauModel Require Import Base Num Oracles Syntax Value Yaml Pratt ParseMap Solver Rule Keys Optimiser Known.
From TauModel Require Scope3.
From TauProofs Require C01 C01_wide.

Theorem optimise_order_irrelevant_in_scope_wide : forall o ic ord1 ord2 sw y r (d : doc),
  (forall l, Permutation (ord1 l) l) -> (forall l, Permutation (ord2 l) l) ->
  C01.H_strip o ->
  load_rule o ic y = Ok r -> r_optimised r = false ->
  Scope3.c01_scope_wide o ord1 sw (r_det r) = true ->
  Scope3.c01_scope_wide o ord2 sw (r_det r) = true ->
  exists r1 r2, optimise o ord1 sw r = Ok r1 /\ optimise o ord2 sw r = Ok r2 /\
                matches o r1 d = matches o r2 d /\ validate o r1 = validate o r2.
Proof. exact C01_wide.optimise_order_irrelevant_in_scope_wide. Qed.
Check optimise_order_irrelevant_in_scope_wide.
Print Assumptions optimise_order_irrelevant_in_scope_wide.
