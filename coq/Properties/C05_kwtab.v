(* C05 (third statement file): a keyword is a keyword only before a blank.  The keyword table
   regenerated from src/tokeniser.rs holds "and ", "or ", "not " WITH the blank; a tab, line feed,
   vertical tab, form feed or carriage return after the word -- all white space for the tokeniser --
   leaves an identifier, for every oracle record and every following text.  `A and<TAB>B` therefore
   lexes to three identifiers and is a load error, never another tree (DESIGN II.4, observation
   (vi)).  Only statements here; proofs live in Proofs/C05_kwtab.v. *)
From Coq Require Import List ZArith.
From TauModel Require Import Base Num Oracles Syntax Generated Token Pratt.
From TauProofs Require C05_kwtab.
Import ListNotations.

Theorem keyword_needs_blank : forall o w c rest,
  (w = C05_kwtab.w_and \/ w = C05_kwtab.w_or \/ w = C05_kwtab.w_not) -> (9 <= c <= 13)%N ->
  tokenise o (w ++ c :: rest) = bind (tokenise o rest) (fun ts => Ok (TIdent w :: ts)).
Proof. exact C05_kwtab.keyword_needs_blank. Qed.
Check keyword_needs_blank.
Print Assumptions keyword_needs_blank.

Example the_words : C05_kwtab.w_and = [97; 110; 100]%N /\ C05_kwtab.w_or = [111; 114]%N /\ C05_kwtab.w_not = [110; 111; 116]%N.
Proof. repeat split. Qed.
Check the_words.

Example a_and_tab_b : forall o,
  tokenise o [65; 32; 97; 110; 100; 9; 66]%N = Ok [TIdent [65%N]; TIdent [97; 110; 100]%N; TIdent [66%N]].
Proof. exact C05_kwtab.a_and_tab_b. Qed.
Check a_and_tab_b.
Example a_and_tab_b_rejected :
  parse [TIdent [65%N]; TIdent [97; 110; 100]%N; TIdent [66%N]] = Err EInvalidExpr.
Proof. exact C05_kwtab.a_and_tab_b_rejected. Qed.
Check a_and_tab_b_rejected.
Example a_and_b : forall o,
  tokenise o [65; 32; 97; 110; 100; 32; 66]%N = Ok [TIdent [65%N]; TOp BAnd; TIdent [66%N]].
Proof. exact C05_kwtab.a_and_b. Qed.
Check a_and_b.
