(* C05  Condition grammar: fixed precedence, associativity and parentheses.
   Only statements here; proofs live in Proofs/C05.v.  The binding powers and the keyword
   table used by the parser and the tokeniser come from Model/Generated.v, which is
   regenerated from src/tokeniser.rs on every run. *)
From TauModel Require Import Base Num Oracles Syntax Generated Token Pratt Grammar.
From TauProofs Require C05.

(* The Pratt parser computes exactly the tree the grammar assigns: `not` reaches one
   operand, comparisons bind tighter than `or`, `or` tighter than `and`, equal operators
   associate to the left, parentheses override. *)
Theorem pratt_complete : forall ts e, g_and ts e -> parse ts = Ok e.
Proof. exact C05.pratt_complete. Qed.
Check pratt_complete.
Print Assumptions pratt_complete.

(* redundant parentheses around a whole (sub-)expression do not change its tree *)
Theorem parens_redundant : forall ts e,
  g_and ts e -> parse (LP :: ts ++ [RP]) = parse ts.
Proof. exact C05.parens_redundant. Qed.
Check parens_redundant.
Print Assumptions parens_redundant.

(* ... at any depth and any number of times, for an operand of any connective: a
   parenthesised derivation is an atom with the same tree (closure of the grammar), so by
   pratt_complete every such variant parses to the same tree *)
Theorem parens_operand : forall ts e, g_and ts e -> g_atom (LP :: ts ++ [RP]) e.
Proof. exact C05.parens_operand. Qed.
Check parens_operand.
Print Assumptions parens_operand.

(* precedence and associativity, spelled out on identifiers *)
Theorem precedence_examples : forall a b c,
  parse [TIdent a; TOp BAnd; TIdent b; TOp BOr; TIdent c]
    = Ok (EBexp (EIdent a) BAnd (EBexp (EIdent b) BOr (EIdent c))) /\
  parse [TIdent a; TOp BOr; TIdent b; TOp BAnd; TIdent c]
    = Ok (EBexp (EBexp (EIdent a) BOr (EIdent b)) BAnd (EIdent c)) /\
  parse [TIdent a; TOp BAnd; TIdent b; TOp BAnd; TIdent c]
    = Ok (EBexp (EBexp (EIdent a) BAnd (EIdent b)) BAnd (EIdent c)) /\
  parse [TIdent a; TOp BOr; TIdent b; TOp BOr; TIdent c]
    = Ok (EBexp (EBexp (EIdent a) BOr (EIdent b)) BOr (EIdent c)) /\
  parse [TMiscNot; TIdent a; TOp BAnd; TIdent b]
    = Ok (EBexp (ENegate (EIdent a)) BAnd (EIdent b)) /\
  parse [TMiscNot; TIdent a; TOp BOr; TIdent b]
    = Ok (EBexp (ENegate (EIdent a)) BOr (EIdent b)) /\
  parse [TIdent a; TOp BAnd; LP; TIdent b; TOp BAnd; TIdent c; RP]
    = Ok (EBexp (EIdent a) BAnd (EBexp (EIdent b) BAnd (EIdent c))).
Proof. exact C05.precedence_examples. Qed.
Check precedence_examples.
Print Assumptions precedence_examples.

(* the parser needs no more fuel than it is given: the out-of-fuel value is never produced *)
Theorem parse_never_out_of_fuel : forall ts site, parse ts <> Panic site.
Proof. exact C05.parse_never_out_of_fuel. Qed.
Check parse_never_out_of_fuel.
Print Assumptions parse_never_out_of_fuel.

(* extra spaces between tokens: doubling any space changes nothing *)
Theorem space_doubling : forall o s1 s2,
  tokenise o (s1 ++ [ch_space] ++ s2) = tokenise o (s1 ++ [ch_space; ch_space] ++ s2).
Proof. exact C05.space_doubling. Qed.
Check space_doubling.
Print Assumptions space_doubling.

Theorem leading_space : forall o s, tokenise o (ch_space :: s) = tokenise o s.
Proof. exact C05.leading_space. Qed.
Check leading_space.
Print Assumptions leading_space.

(* words that merely begin with keyword letters are ordinary identifiers: every keyword of
   the generated table carries a delimiter that no word contains *)
Theorem keyword_prefix_words : forall o w,
  is_word w = true -> tokenise o w = Ok [TIdent w].
Proof. exact C05.keyword_prefix_words. Qed.
Check keyword_prefix_words.
Print Assumptions keyword_prefix_words.

Theorem keyword_prefix_words_in_context : forall o w rest,
  is_word w = true -> w <> kw_and -> w <> kw_or -> w <> kw_not ->
  tokenise o (w ++ [ch_space] ++ rest) =
  bind (tokenise o rest) (fun ts => Ok (TIdent w :: ts)).
Proof. exact C05.keyword_prefix_words_in_context. Qed.
Check keyword_prefix_words_in_context.
Print Assumptions keyword_prefix_words_in_context.

(* non-vacuity: the derivation of  not A and (B or int(x) >= 3)  *)
Example grammar_example :
  let a := [65%N] in let b := [66%N] in let x := [120%N] in
  g_and [TMiscNot; TIdent a; TOp BAnd; LP; TIdent b; TOp BOr; TMod MInt; LP; TIdent x; RP;
         TOp BGreaterThanOrEqual; TInt 3; RP]
        (EBexp (ENegate (EIdent a)) BAnd
               (EBexp (EIdent b) BOr (EBexp (ECast x MInt) BGreaterThanOrEqual (EInt 3)))).
Proof. exact C05.grammar_example. Qed.
Check grammar_example.
