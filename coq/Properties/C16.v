(* C16  Matching reads only the fields the rule names.
   Only statements here; proofs live in Proofs/C16.v. *)
From TauModel Require Import Base Num Oracles Syntax Value Solver Rule Keys.
From TauProofs Require C16.

(* The result of solving an expression depends on the document only through the keys the
   expression names -- for every expression, optimised forms (matrix) included, every
   identifier table and every document, panicking documents included. *)
Theorem agree_on_keys : forall o ids body e (d d' : docq),
  (forall b x y, (forall k, In k (expr_keys b) -> x k = y k) -> body b x = body b y) ->
  (forall k, In k (expr_keys e) -> d k = d' k) ->
  (forall i b, lookup i ids = Some b -> forall k, In k (expr_keys b) -> d k = d' k) ->
  solve o ids body e d = solve o ids body e d'.
Proof. exact C16.agree_on_keys. Qed.
Check agree_on_keys.
Print Assumptions agree_on_keys.

(* whole rules: two documents that agree on the keys the rule names get the same
   three-valued result (so adding, removing or altering any other field changes nothing) *)
Theorem unaddressed_fields_irrelevant : forall o dt (d d' : doc),
  (forall k, In k (rule_keys dt) -> d k = d' k) ->
  solve_rule3 o dt (pure_doc d) = solve_rule3 o dt (pure_doc d').
Proof. exact C16.unaddressed_fields_irrelevant. Qed.
Check unaddressed_fields_irrelevant.
Print Assumptions unaddressed_fields_irrelevant.

(* the solver never presents any other key to the document: a document that panics on every
   key the rule does not name is indistinguishable from the plain one.  For a matrix the
   named keys are its real column names; the synthetic cell keys never reach the user's
   document. *)
Theorem reads_only_rule_keys : forall o dt (d : doc),
  solve_rule3 o dt (guard_doc (rule_keys dt) d) = solve_rule3 o dt (pure_doc d).
Proof. exact C16.reads_only_rule_keys. Qed.
Check reads_only_rule_keys.
Print Assumptions reads_only_rule_keys.

(* inside a nested block the inner keys are asked on the nested object, not on the document *)
Theorem nested_keys_are_local : forall f e, expr_keys (ENested f e) = [f].
Proof. exact C16.nested_keys_are_local. Qed.
Check nested_keys_are_local.
Print Assumptions nested_keys_are_local.

(* non-vacuity: a matrix whose cells use the synthetic keys 0 and 1 names only its columns *)
Example matrix_keys_example :
  expr_keys (EMatrix [[102%N]; [103%N]]
               [[Some (ESearch (SExact [120%N]) [0%N] false); Some (ESearch SAny [1%N] false)]])
  = [[102%N]; [103%N]].
Proof. exact C16.matrix_keys_example. Qed.
Check matrix_keys_example.
