(* C06 (third statement file): the quantifier loops over a group, regenerated from solve_expression
   (src/solver.rs) on every run like the and/or loops of Properties/C06_table.v: the all() loop and
   the of(.., 0) branch of the of() loop, as tables of what happens on a true / false / missing
   member.  They are the model's and_fold and of0_fold (started at missing) -- the folds all_spec
   and of_zero_spec are about.  (The of(.., n >= 1) branch carries a counter and is not a table of
   this shape: it stays tied by the exhaustive sweep of C06 and C08.)
   Only statements here; proofs live in Proofs/C06_table.v. *)
From TauModel Require Import Base Syntax Value Solver LoopTable GeneratedLoops.
From TauProofs Require C06_table.

Theorem all_loop_is_and_fold : forall acc rs, run_loop all_group_loop acc rs = and_fold rs.
Proof. exact C06_table.all_loop_is_and_fold. Qed.
Check all_loop_is_and_fold.
Print Assumptions all_loop_is_and_fold.

Theorem of0_loop_is_of0_fold : forall acc rs, run_loop of0_group_loop acc rs = of0_fold acc rs.
Proof. exact C06_table.of0_loop_is_of0_fold. Qed.
Check of0_loop_is_of0_fold.
Print Assumptions of0_loop_is_of0_fold.

Theorem of0_loop_starts_missing : l_init of0_group_loop = M.
Proof. exact C06_table.of0_loop_starts_missing. Qed.
Check of0_loop_starts_missing.
Print Assumptions of0_loop_starts_missing.
