(* C12 (second statement file): where the merging pass is exact (nested-free rules, outside
   D13/D14/D15; Model/Scope.v) the iteration order of the hash maps cannot change a verdict:
   two optimise calls with ANY two orders give rules with the same verdict on every document.
   Only statements here; proofs live in Proofs/C12_flat.v (corollaries of C01_shake1). *)
From Coq Require Import Permutation.
From TauModel Require Import Base Num Oracles Syntax Value Yaml Pratt ParseMap Solver Rule Keys Optimiser Known.
From TauModel Require Scope.
From TauProofs Require C01 C12_flat.

Theorem shake1_order_irrelevant_flat : forall o ord1 ord2 fuel e (d : doc),
  (forall l, Permutation (ord1 l) l) -> (forall l, Permutation (ord2 l) l) ->
  wf_body e = true -> C01.no_nested e = true -> C01.cmp_leaves e = true ->
  solve_body o (shake1 ord1 fuel e) (pure_doc d) = solve_body o (shake1 ord2 fuel e) (pure_doc d).
Proof. exact C12_flat.shake1_order_irrelevant_flat. Qed.
Check shake1_order_irrelevant_flat.
Print Assumptions shake1_order_irrelevant_flat.

Theorem optimise_order_irrelevant_in_scope : forall o ic ord1 ord2 sw y r (d : doc),
  (forall l, Permutation (ord1 l) l) -> (forall l, Permutation (ord2 l) l) ->
  C01.H_strip o ->
  load_rule o ic y = Ok r -> r_optimised r = false ->
  Scope.c01_scope sw (r_det r) = true ->
  exists r1 r2, optimise o ord1 sw r = Ok r1 /\ optimise o ord2 sw r = Ok r2 /\
                matches o r1 d = matches o r2 d.
Proof. exact C12_flat.optimise_order_irrelevant_in_scope. Qed.
Check optimise_order_irrelevant_in_scope.
Print Assumptions optimise_order_irrelevant_in_scope.
