(* C07 (second statement file): the tie of the pattern dispatch to the SOURCE by translation.
   tools/gen_tables.py regenerates Model/GeneratedIdent.v from `String::into_identifier` of
   src/identifier.rs on every run: the case prefix and the twelve arms of the
   `let pattern = if .. else if .. else ..` chain in source order (test, constructor, which slice
   of the text the needle is, whether it is lower-cased).  Model/IdentTable.v reads the chain as
   Rust's if / else-if.  The theorem says the regenerated chain IS Ident.into_identifier, the
   function the pattern theorems (single_pattern_exact, i_prefix_is_case_insensitive,
   ignore_case_eq_prefix, ...) are about: a reordered, dropped or altered arm breaks this proof.
   Only statements here; proofs live in Proofs/C07_table.v. *)
From TauModel Require Import Base Num Oracles Syntax Ident IdentTable GeneratedIdent.
From TauProofs Require C07_table.

Theorem ident_table_is_into_identifier : forall o ic s,
  into_identifier_gen o ic ident_ci_prefix ident_chain s = into_identifier o ic s.
Proof. exact C07_table.ident_table_is_into_identifier. Qed.
Check ident_table_is_into_identifier.
Print Assumptions ident_table_is_into_identifier.
