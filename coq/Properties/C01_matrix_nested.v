(* C01 (sixth statement file): the matrix pass on trees WITH nested blocks, and the whole-rule
   statement for all sixteen switch sets with nested blocks allowed.  Only statements here; proofs
   live in Proofs/C01_matrix_nested.v.

   A nested block can be a cell of the table (`ENested k inner`, read through the cache like any
   other cell) and matrix recurses into the bodies of nested blocks; nothing else about nested
   blocks is special to the matrix pass, except that its quantifier arm applies shake_1 to the
   operands of quantifiers (which merges nested blocks: the D16 shape, and the run must be safe in
   the sense of Scope2.shake1_safe). *)
From Coq Require Import Permutation.
From TauModel Require Import Base Num Oracles Syntax Value Yaml Pratt ParseMap Solver Rule Keys Optimiser Known.
From TauModel Require Scope Scope2.
From TauProofs Require C01 C01_matrix C01_matrix_nested C01_scope3.

(* the matrix pass alone: truth is preserved when multi-cell rows occur only in positive
   positions (D17), comparisons read their fields, and the tree holds no quantifier *)
Theorem matrix_truth_nested : forall o ord fuel e e' (d : doc),
  (forall l, Permutation (ord l) l) ->
  wf_body e = true -> C01.cmp_leaves e = true ->
  Scope.cmp_reads e = true -> Scope.no_match e = true ->
  exists_sub (d17_here ord) false e = false ->
  matrix ord fuel e = Ok e' ->
  (solve_body o e' (pure_doc d) = Ok T <-> solve_body o e (pure_doc d) = Ok T).
Proof. exact C01_matrix_nested.matrix_truth_nested. Qed.
Check matrix_truth_nested.
Print Assumptions matrix_truth_nested.

(* whole rules, all sixteen switch sets, nested blocks allowed *)
Definition matrix_input_ok2 (o : oracles) (ord : hord) (sw : switches) (dt : detection) : bool :=
  negb (known_d17 o ord sw dt) && negb (known_d21 o ord sw dt) && negb (known_d16 ord sw dt) &&
  forallb Scope.cmp_reads (all_trees (pre_matrix o ord sw dt)) &&
  forallb Scope.no_match (all_trees (pre_matrix o ord sw dt)).
Definition c01_scope_nested_all (o : oracles) (ord : hord) (sw : switches) (dt : detection) : bool :=
  Scope2.c01_scope_nested ord (Scope.sw_without_matrix sw) dt &&
  (negb (sw_matrix sw) || (Scope.no_quant_ident (d_expr dt) && matrix_input_ok2 o ord sw dt)).

Theorem scope_nested_all_sound : forall o ic ord sw y r (d : doc),
  (forall l, Permutation (ord l) l) ->
  C01.H_strip o ->
  load_rule o ic y = Ok r -> r_optimised r = false ->
  c01_scope_nested_all o ord sw (r_det r) = true ->
  exists r', optimise o ord sw r = Ok r' /\ matches o r' d = matches o r d.
Proof. exact C01_matrix_nested.scope_nested_all_sound. Qed.
Check scope_nested_all_sound.
Print Assumptions scope_nested_all_sound.

(* stronger where it applies: without multi-cell rows the matrix pass is three-valued exact, nested
   blocks allowed *)
Theorem matrix_exact_nested : forall o ord fuel e e' (d : doc),
  (forall l, Permutation (ord l) l) ->
  wf_body e = true -> C01.cmp_leaves e = true ->
  Scope.cmp_reads e = true -> Scope.no_match e = true ->
  C01_matrix.no_multi_cell ord e = true ->
  matrix ord fuel e = Ok e' ->
  solve_body o e' (pure_doc d) = solve_body o e (pure_doc d).
Proof. exact C01_matrix_nested.matrix_exact_nested. Qed.
Check matrix_exact_nested.
Print Assumptions matrix_exact_nested.

(* the scope as defined in Model/Scope2.v (what the runner evaluates), at the crate's own map order *)
From TauModel Require Order.
Theorem crate_order_scope_nested_all_sound : forall o ic sw y r (d : doc),
  C01.H_strip o ->
  load_rule o ic y = Ok r -> r_optimised r = false ->
  Scope2.c01_scope_nested_all o Order.rust_ord sw (r_det r) = true ->
  exists r', optimise o Order.rust_ord sw r = Ok r' /\ matches o r' d = matches o r d.
Proof. exact C01_scope3.crate_order_scope_nested_all_sound. Qed.
Check crate_order_scope_nested_all_sound.
Print Assumptions crate_order_scope_nested_all_sound.
