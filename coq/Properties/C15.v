(* C15  ignore_case build equals default build with every pattern i-prefixed.
   Only statements here; proofs live in Proofs/C15.v.  `ic` is the cargo feature. *)
From TauModel Require Import Base Num Oracles Syntax Value Yaml Ident ParseMap Solver Rule PatSpec CaseSpec.
From TauProofs Require C15.

(* pattern level: the ignore_case build reads a pattern text exactly as the default build
   reads it with an `i` in front -- for every string, ASCII or not (fix D12) *)
Theorem ignore_case_eq_prefix : forall o s,
  into_identifier o true s = into_identifier o false (ch_i :: s).
Proof. exact C15.ignore_case_eq_prefix. Qed.
Check ignore_case_eq_prefix.
Print Assumptions ignore_case_eq_prefix.

(* identifier blocks of every shape: same expression tree *)
Theorem parse_identifier_ignore_case : forall o y,
  parse_identifier o true y = parse_identifier o false (prefix_vals y).
Proof. exact C15.parse_identifier_ignore_case. Qed.
Check parse_identifier_ignore_case.
Print Assumptions parse_identifier_ignore_case.

(* whole rules (detection untagged mapping): the ignore_case build loads the rule the
   default build loads from the i-prefixed text -- same condition, same identifier trees,
   hence the same result on every document and with every optimisation *)
Theorem load_rule_ignore_case : forall o y kv dkv,
  y = YMap kv -> ylookup key_detection kv = Some (YMap dkv) ->
  match load_rule o true y, load_rule o false (prefix_rule y) with
  | Ok r, Ok r' => r_det r = r_det r' /\ r_optimised r = r_optimised r'
  | Err _, Err _ => True
  | _, _ => False
  end.
Proof. exact C15.load_rule_ignore_case. Qed.
Check load_rule_ignore_case.
Print Assumptions load_rule_ignore_case.

(* the documented meaning agrees: case-insensitive reading = reading with the prefix *)
Theorem documented_ignore_case : forall o s h,
  documented o true s h = documented o false (ch_i :: s) h.
Proof. exact C15.documented_ignore_case. Qed.
Check documented_ignore_case.
Print Assumptions documented_ignore_case.

(* non-vacuity: Foo* in the ignore_case build is iFoo* in the default build, needle folded *)
Example ignore_case_example :
  forall o, into_identifier o true [70; 111; 111; 42]%N
            = Ok {| id_ci := true; id_pat := PStartsWith [102; 111; 111]%N |} /\
            into_identifier o false [105; 70; 111; 111; 42]%N
            = Ok {| id_ci := true; id_pat := PStartsWith [102; 111; 111]%N |}.
Proof. exact C15.ignore_case_example. Qed.
Check ignore_case_example.
