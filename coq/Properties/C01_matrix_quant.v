(* C01 (seventh statement file): the matrix pass on trees with nested blocks AND quantifiers.
   matrix applies shake_1 to the operands of quantifiers (member-wise for a group operand); with
   the run-following predicate of Model/Scope2.v (shake1_safe) those runs preserve truth in positive
   and the three-valued result in negative positions, so the `no_match` restriction of
   Properties/C01_matrix_nested.v can be replaced by "every quantifier operand is shaken safely".
   Only statements here; proofs live in Proofs/C01_matrix_quant.v. *)
From Coq Require Import Permutation.
From TauModel Require Import Base Num Oracles Syntax Value Yaml Pratt ParseMap Solver Rule Keys Optimiser Known.
From TauModel Require Scope Scope2.
From TauModel Require Order.
From TauProofs Require C01 C01_matrix C01_matrix_quant C01_scope3.

(* follows the recursion of `matrix`: at every quantifier it meets, the shake_1 run on the operand
   (on each member of a group operand) is safe at the polarity of that position *)
Fixpoint match_safe (ord : hord) (neg : bool) (fuel : nat) (e : expr) : bool :=
  match e with
  | EGroup _ l => forallb (match_safe ord neg fuel) l
  | EBexp l _ r => match_safe ord neg fuel l && match_safe ord neg fuel r
  | EMatch k (EGroup _ l) => forallb (Scope2.shake1_safe ord (Scope2.neg_of neg k) fuel) l
  | EMatch k e' => Scope2.shake1_safe ord (Scope2.neg_of neg k) fuel e'
  | ENegate e' => match_safe ord true fuel e'
  | ENested _ e' => match_safe ord neg fuel e'
  | _ => true
  end.

Theorem matrix_truth_quant : forall o ord fuel e e' (d : doc),
  (forall l, Permutation (ord l) l) ->
  wf_body e = true -> C01.cmp_leaves e = true ->
  Scope.cmp_reads e = true -> match_safe ord false fuel e = true ->
  exists_sub (d17_here ord) false e = false ->
  matrix ord fuel e = Ok e' ->
  (solve_body o e' (pure_doc d) = Ok T <-> solve_body o e (pure_doc d) = Ok T).
Proof. exact C01_matrix_quant.matrix_truth_quant. Qed.
Check matrix_truth_quant.
Print Assumptions matrix_truth_quant.

(* whole rules, all sixteen switch sets, nested blocks and quantifiers in identifier bodies *)
Definition matrix_input_ok3 (o : oracles) (ord : hord) (sw : switches) (dt : detection) : bool :=
  let pm := pre_matrix o ord sw dt in
  negb (known_d17 o ord sw dt) && negb (known_d16 ord sw dt) &&
  forallb Scope.cmp_reads (all_trees pm) &&
  match_safe ord false (shake_fuel (fst pm)) (fst pm) &&
  forallb (fun b : str * expr =>
             forallb (fun m => match_safe ord (body_neg pm) (shake_fuel m) m) (Scope2.entry_trees (snd b)))
          (snd pm) &&
  (sw_coalesce sw || Scope.no_match (fst pm)).
Definition c01_scope_quant_all (o : oracles) (ord : hord) (sw : switches) (dt : detection) : bool :=
  Scope2.c01_scope_nested ord (Scope.sw_without_matrix sw) dt &&
  (negb (sw_matrix sw) || (Scope.no_quant_ident (d_expr dt) && matrix_input_ok3 o ord sw dt)).

Theorem scope_quant_all_sound : forall o ic ord sw y r (d : doc),
  (forall l, Permutation (ord l) l) ->
  C01.H_strip o ->
  load_rule o ic y = Ok r -> r_optimised r = false ->
  c01_scope_quant_all o ord sw (r_det r) = true ->
  exists r', optimise o ord sw r = Ok r' /\ matches o r' d = matches o r d.
Proof. exact C01_matrix_quant.scope_quant_all_sound. Qed.
Check scope_quant_all_sound.
Print Assumptions scope_quant_all_sound.

(* stronger where it applies: exactness without multi-cell rows, quantifier operands safe at
   negative polarity *)
Theorem matrix_exact_quant : forall o ord fuel e e' (d : doc),
  (forall l, Permutation (ord l) l) ->
  wf_body e = true -> C01.cmp_leaves e = true ->
  Scope.cmp_reads e = true -> match_safe ord true fuel e = true ->
  C01_matrix.no_multi_cell ord e = true ->
  matrix ord fuel e = Ok e' ->
  solve_body o e' (pure_doc d) = solve_body o e (pure_doc d).
Proof. exact C01_matrix_quant.matrix_exact_quant. Qed.
Check matrix_exact_quant.
Print Assumptions matrix_exact_quant.

(* the scope as defined in Model/Scope2.v (what the runner evaluates), at the crate's own map order *)
Theorem crate_order_scope_quant_all_sound : forall o ic sw y r (d : doc),
  C01.H_strip o ->
  load_rule o ic y = Ok r -> r_optimised r = false ->
  Scope2.c01_scope_quant_all o Order.rust_ord sw (r_det r) = true ->
  exists r', optimise o Order.rust_ord sw r = Ok r' /\ matches o r' d = matches o r d.
Proof. exact C01_scope3.crate_order_scope_quant_all_sound. Qed.
Check crate_order_scope_quant_all_sound.
Print Assumptions crate_order_scope_quant_all_sound.
