(* C01 (fourteenth statement file) -- the property itself outside the known findings.

   For EVERY rule the loader accepts, every switch set (all sixteen), every map order that is a
   permutation and every document: if the rule is in none of the three listed classes for that
   switch set -- D13 (a negation whose operand shakes to a negation), D16 (under a negation, an
   and-group of two or more members one of which shakes to a nested block), D17 (under a negation,
   an or-group the matrix pass fires on with a multi-cell row); executable classifiers
   Known.known_d13 / known_d16 / known_d17, the ones the check uses -- then optimise returns and
   the optimised rule gives exactly the verdict of the rule as loaded.  In the three classes the
   crate's verdict does change (refuted_D13, refuted_D16, refuted_D17: witnesses replayed on the
   crate on every run, KNOWN_FINDINGS.txt).

   scope_complete is the step that closes the gap between the executable scope of the soundness
   theorem (Properties/C01_final.v) and the classifiers: outside the three classes every loaded
   rule is inside the scope.  Only statements here; proofs live in Proofs/C01_outside.v. *)
From Coq Require Import Permutation.
From TauModel Require Import Base Num Oracles Syntax Value Yaml Pratt ParseMap Solver Rule Keys Optimiser Known.
From TauModel Require Scope Scope2 Scope4 Scope5 Scope6 Order.
From TauProofs Require C01 C01_outside.

Theorem scope_complete : forall o ic ord sw y r,
  (forall l, Permutation (ord l) l) ->
  C01.H_strip o ->
  load_rule o ic y = Ok r -> r_optimised r = false ->
  known_d13 sw (r_det r) = false ->
  known_d16 ord sw (r_det r) = false ->
  known_d17 o ord sw (r_det r) = false ->
  Scope6.c01_scope_quant_all_f o ord sw (r_det r) = true.
Proof. exact C01_outside.scope_complete. Qed.
Check scope_complete.
Print Assumptions scope_complete.

Theorem outside_listed_classes_sound : forall o ic ord sw y r (d : doc),
  (forall l, Permutation (ord l) l) ->
  C01.H_strip o ->
  load_rule o ic y = Ok r -> r_optimised r = false ->
  known_d13 sw (r_det r) = false ->
  known_d16 ord sw (r_det r) = false ->
  known_d17 o ord sw (r_det r) = false ->
  exists r', optimise o ord sw r = Ok r' /\ matches o r' d = matches o r d.
Proof. exact C01_outside.outside_listed_classes_sound. Qed.
Check outside_listed_classes_sound.
Print Assumptions outside_listed_classes_sound.

(* at the crate's own map order (Model/Order.v) *)
Theorem crate_order_outside_listed_classes_sound : forall o ic sw y r (d : doc),
  C01.H_strip o ->
  load_rule o ic y = Ok r -> r_optimised r = false ->
  known_d13 sw (r_det r) = false ->
  known_d16 Order.rust_ord sw (r_det r) = false ->
  known_d17 o Order.rust_ord sw (r_det r) = false ->
  exists r', optimise o Order.rust_ord sw r = Ok r' /\ matches o r' d = matches o r d.
Proof. exact C01_outside.crate_order_outside_listed_classes_sound. Qed.
Check crate_order_outside_listed_classes_sound.
Print Assumptions crate_order_outside_listed_classes_sound.
