(* C01 (eighth statement file): since the repair D15/D20 (an identifier that is not inlined is
   optimised entry by entry, the group that all(X) / of(X, n) count stays) the whole-rule theorem
   needs no exclusion for quantifiers over identifiers: the scope of Properties/C01_matrix_quant.v
   without its `sw_coalesce || no_quant_ident` conjuncts.  Only statements here; proofs live in
   Proofs/C01_d15.v. *)
From Coq Require Import Permutation.
From TauModel Require Import Base Num Oracles Syntax Value Yaml Pratt ParseMap Solver Rule Keys Optimiser Known.
From TauModel Require Scope Scope2 Order.
From TauProofs Require C01 C01_d15 C01_scope3.

Theorem scope_quant_all_sound_noq : forall o ic ord sw y r (d : doc),
  (forall l, Permutation (ord l) l) ->
  C01.H_strip o ->
  load_rule o ic y = Ok r -> r_optimised r = false ->
  Scope2.c01_scope_quant_all_noq o ord sw (r_det r) = true ->
  exists r', optimise o ord sw r = Ok r' /\ matches o r' d = matches o r d.
Proof. exact C01_d15.scope_quant_all_sound_noq. Qed.
Check scope_quant_all_sound_noq.
Print Assumptions scope_quant_all_sound_noq.

(* the old scope implies the new one *)
Theorem scope_quant_all_weaker : forall o ord sw dt,
  Scope2.c01_scope_quant_all o ord sw dt = true -> Scope2.c01_scope_quant_all_noq o ord sw dt = true.
Proof. exact C01_d15.scope_quant_all_weaker. Qed.
Check scope_quant_all_weaker.
Print Assumptions scope_quant_all_weaker.

(* at the crate's own map order: what the runner's `(th ..)` flag stands for *)
Theorem crate_order_scope_quant_all_noq_sound : forall o ic sw y r (d : doc),
  C01.H_strip o ->
  load_rule o ic y = Ok r -> r_optimised r = false ->
  Scope2.c01_scope_quant_all_noq o Order.rust_ord sw (r_det r) = true ->
  exists r', optimise o Order.rust_ord sw r = Ok r' /\ matches o r' d = matches o r d.
Proof. exact C01_scope3.crate_order_scope_quant_all_noq_sound. Qed.
Check crate_order_scope_quant_all_noq_sound.
Print Assumptions crate_order_scope_quant_all_noq_sound.
