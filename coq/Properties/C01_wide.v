(* C01 (ninth statement file): the end-to-end theorem for the union of the two widest executable
   scopes -- Model/Scope3.v c01_scope_wide, literally the predicate the runner evaluates for its
   `(th ..)` mark.  Only statements here; proofs live in Proofs/C01_wide.v. *)
From Coq Require Import Permutation.
From TauModel Require Import Base Num Oracles Syntax Value Yaml Pratt ParseMap Solver Rule Keys Optimiser Known.
From TauModel Require Scope2 Scope3 Order.
From TauProofs Require C01 C01_wide.

Theorem scope_wide_sound : forall o ic ord sw y r (d : doc),
  (forall l, Permutation (ord l) l) ->
  C01.H_strip o ->
  load_rule o ic y = Ok r -> r_optimised r = false ->
  Scope3.c01_scope_wide o ord sw (r_det r) = true ->
  exists r', optimise o ord sw r = Ok r' /\ matches o r' d = matches o r d.
Proof. exact C01_wide.in_scope_sound. Qed.
Check scope_wide_sound.
Print Assumptions scope_wide_sound.

(* at the crate's own map order *)
Theorem crate_order_scope_wide_sound : forall o ic sw y r (d : doc),
  C01.H_strip o ->
  load_rule o ic y = Ok r -> r_optimised r = false ->
  Scope3.c01_scope_wide o Order.rust_ord sw (r_det r) = true ->
  exists r', optimise o Order.rust_ord sw r = Ok r' /\ matches o r' d = matches o r d.
Proof. exact C01_wide.crate_order_in_scope_sound. Qed.
Check crate_order_scope_wide_sound.
Print Assumptions crate_order_scope_wide_sound.

(* the scope of Properties/C01_d15.v is inside the union *)
Theorem scope_noq_in_wide : forall o ord sw dt,
  Scope2.c01_scope_quant_all_noq o ord sw dt = true -> Scope3.c01_scope_wide o ord sw dt = true.
Proof. exact C01_wide.scope_noq_in_wide. Qed.
Check scope_noq_in_wide.
Print Assumptions scope_noq_in_wide.
