(* C03 (second statement file): optimising an accepted rule never panics and the optimised
   rule can still be evaluated.  Only statements here; proofs live in Proofs/C03_opt.v.
   The fuel the passes run on is part of the model (shake_fuel); that it suffices is part of
   the first theorem.  The matrix pass has two known panics (D19: a `str(a) == str(b)`
   conjunct, classifier 18; D21: 55297 columns), excluded by their executable classifiers. *)
From TauModel Require Import Base Num Oracles Syntax Value Yaml ParseMap Solver Rule Keys Optimiser Known.
From TauProofs Require C03_opt.

(* the eight switch sets without matrix *)
Theorem optimise_no_matrix_total : forall o ic ord sw y r,
  load_rule o ic y = Ok r -> sw_matrix sw = false ->
  exists r', optimise o ord sw r = Ok r'.
Proof. exact C03_opt.optimise_no_matrix_total. Qed.
Check optimise_no_matrix_total.
Print Assumptions optimise_no_matrix_total.

(* what they produce is still of evaluable shape, so matching and validating never panic *)
Theorem optimised_no_matrix_wf : forall o ic ord sw y r r',
  load_rule o ic y = Ok r -> sw_matrix sw = false ->
  optimise o ord sw r = Ok r' -> wf_det (r_det r') = true.
Proof. exact C03_opt.optimised_no_matrix_wf. Qed.
Check optimised_no_matrix_wf.
Print Assumptions optimised_no_matrix_wf.

Theorem optimised_no_matrix_evaluates : forall o ic ord sw y r r' (d : doc),
  load_rule o ic y = Ok r -> sw_matrix sw = false ->
  optimise o ord sw r = Ok r' ->
  (exists b, matches o r' d = Ok b) /\ (exists l, validate o r' = Ok l).
Proof. exact C03_opt.optimised_no_matrix_evaluates. Qed.
Check optimised_no_matrix_evaluates.
Print Assumptions optimised_no_matrix_evaluates.
