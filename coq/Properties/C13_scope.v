(* C13 (third statement file): "all of this holds equally for optimised rules", for the widest
   proved scope of the end-to-end C01 theorem (Model/Scope3.v c01_scope_wide: nested blocks,
   quantified lists, quantifiers over identifiers, all sixteen switch sets): validate() of the
   optimised rule returns exactly what validate() of the rule as loaded returns.  Only statements
   here; proofs live in Proofs/C01_wide.v. *)
From Coq Require Import Permutation.
From TauModel Require Import Base Num Oracles Syntax Value Yaml Pratt ParseMap Solver Rule Keys Optimiser Known.
From TauModel Require Scope3 Order.
From TauProofs Require C01 C01_wide.

Theorem validate_optimised_in_scope_wide : forall o ic ord sw y r,
  (forall l, Permutation (ord l) l) ->
  C01.H_strip o ->
  load_rule o ic y = Ok r -> r_optimised r = false ->
  Scope3.c01_scope_wide o ord sw (r_det r) = true ->
  exists r', optimise o ord sw r = Ok r' /\ validate o r' = validate o r.
Proof. exact C01_wide.validate_optimised_in_scope_wide. Qed.
Check validate_optimised_in_scope_wide.
Print Assumptions validate_optimised_in_scope_wide.

Theorem crate_order_validate_optimised : forall o ic sw y r,
  C01.H_strip o ->
  load_rule o ic y = Ok r -> r_optimised r = false ->
  Scope3.c01_scope_wide o Order.rust_ord sw (r_det r) = true ->
  exists r', optimise o Order.rust_ord sw r = Ok r' /\ validate o r' = validate o r.
Proof. exact C01_wide.crate_order_validate_optimised. Qed.
Check crate_order_validate_optimised.
Print Assumptions crate_order_validate_optimised.
