(* C02  Verdicts follow the documented rule language.
   Only statements here; proofs live in Proofs/C02.v (assembled from C02_entry, C02_lift,
   C02_cond).  The reference semantics is Model/Spec.v (from the YAML of the rule and the
   document value).  PARTIAL: the refinement is proved for rules whose identifier blocks
   are built from scalar entries, nested blocks and sequences of mappings, with every key
   modifier and every condition; entries whose value is a LIST are covered by the theorems
   of C07 (plain lists of string patterns) and C08 (quantified lists) and, for the remaining
   member kinds, by the correspondence check against this reference.  The known deviations
   of the crate (D10/D11, D24, D26, D27, D28, D30) are excluded by executable classifiers. *)
From TauModel Require Import Base Num Oracles Syntax Value Yaml Pratt ParseMap Solver Rule Keys Spec.
From TauProofs Require C02.

(* a scalar entry (string pattern, numeric pattern, number, boolean, null; plain key or
   not()/int()/flt()/str()) is true / false / missing exactly as documented *)
Theorem entry_refines : entry_refines_excl_stmt.
Proof. exact C02.entry_refines. Qed.
Check entry_refines.
Print Assumptions entry_refines.

(* a mapping is the conjunction of its entries taken in written order (first non-true),
   nested mappings included *)
Theorem mapping_refines_simple : forall o ic y e,
  simple_mapping (S (yaml_depth y)) y = true -> excl_free o y ->
  parse_mapping o ic y = Ok e ->
  forall d : doc, solve_body o e (pure_doc d) = Ok (sem_mapping o ic (S (yaml_depth y)) y d).
Proof. exact C02.mapping_refines_simple. Qed.
Check mapping_refines_simple.
Print Assumptions mapping_refines_simple.

(* an identifier (mapping, or sequence of mappings = disjunction) and what all()/of() count *)
Theorem identifier_refines_simple : forall o ic y b,
  simple_identifier y = true -> excl_free o y ->
  parse_identifier o ic y = Ok b -> ident_ok o ic y b.
Proof. exact C02.identifier_refines_simple. Qed.
Check identifier_refines_simple.
Print Assumptions identifier_refines_simple.

(* conditions: and / or / not / all() / of() / cast comparisons over identifiers, for every
   condition the parser can produce.  (Over arbitrary expression trees the statement is
   false: a negative count in all()/of() cannot be written but can be constructed; see
   cond_refines_unparsed_refuted.) *)
Theorem cond_refines : forall o ic ids raw ts e (d : doc),
  (forall i, match lookup i raw, lookup i ids with
             | Some y, Some b => ident_ok o ic y b
             | None, None => True
             | _, _ => False
             end) ->
  parse ts = Ok e -> is_solvable e = true -> wf_cond ids e = true ->
  solve_cond o ids e (pure_doc d) = Ok (sem_cond o ic raw e d).
Proof. exact C02.cond_refines_parsed. Qed.
Check cond_refines.
Print Assumptions cond_refines.

Theorem cond_refines_unparsed_refuted :
  ~ (forall o ic ids raw e (d : doc),
       (forall i, match lookup i raw, lookup i ids with
                  | Some y, Some b => ident_ok o ic y b
                  | None, None => True
                  | _, _ => False
                  end) ->
       cond_shape e = true -> wf_cond ids e = true ->
       solve_cond o ids e (pure_doc d) = Ok (sem_cond o ic raw e d)).
Proof. exact C02.cond_refines_refuted. Qed.
Check cond_refines_unparsed_refuted.
Print Assumptions cond_refines_unparsed_refuted.

(* what the loader accepts as a condition has that shape *)
Theorem loaded_condition_shape : forall ts e,
  parse ts = Ok e -> is_solvable e = true -> cond_shape e = true.
Proof. exact C02.loaded_condition_shape. Qed.
Check loaded_condition_shape.
Print Assumptions loaded_condition_shape.

(* whole rules: every loadable rule of the fragment gives, on every document, the result
   the rule language defines; a missing field is never true; only true is a match *)
Theorem rule_refines_simple : forall o ic kv dkv r (d : doc),
  ylookup key_detection kv = Some (YMap dkv) ->
  forallb (fun p : yaml * yaml => match fst p with YStr _ => true | _ => false end) dkv = true ->
  NoDup (map fst (raw_identifiers dkv)) ->
  (forall i y, In (i, y) (raw_identifiers dkv) -> simple_identifier y = true /\ excl_free o y) ->
  load_rule o ic (YMap kv) = Ok r ->
  exists r3, solve_rule3 o (r_det r) (pure_doc d) = Ok r3 /\
             sem_rule o ic (YMap kv) d = Some r3 /\
             (matches o r d = Ok true <-> r3 = T).
Proof. exact C02.rule_refines_simple. Qed.
Check rule_refines_simple.
Print Assumptions rule_refines_simple.

(* D27 as repaired (fix: commit 660fd50): `str(f): null` on a document without the field is
   missing, as the reference says; before the repair the engine said false *)
Example fixed_D27 :
  let o0 := {| re_valid := fun _ _ => true; re_match := fun _ _ _ => false; f64_parse := fun _ => None;
               f64_show := fun _ => []; uni_alnum := fun _ => false; uni_num := fun _ => false |} in
  let k := [115; 116; 114; 40; 102; 41]%N in     (* str(f) *)
  exists e, parse_entry o0 false (YStr k) YNull None [] = Ok e /\
            solve_body o0 e (pure_doc (fun _ => None)) = Ok M /\
            sem_entry_scalar o0 false KStr [102%N] YNull (fun _ => None) = M.
Proof. exact C02.fixed_D27. Qed.
Check fixed_D27.
Print Assumptions fixed_D27.

(* D30 as repaired (fix: commit 8cc439e): `str(f): 18446744073709551615`
   on the field 18446744073709551615 is true, as the reference says *)
Example entry_fixed_D30 :
  let o1 := {| re_valid := fun _ _ => true; re_match := fun _ _ _ => false; f64_parse := fun _ => None;
               f64_show := fun _ => [49;56;52;52;54;55;52;52;48;55;51;55;48;57;53;53;50;48;48;48]%N;
               uni_alnum := fun _ => false; uni_num := fun _ => false |} in
  let k := [115; 116; 114; 40; 102; 41]%N in
  let z := 18446744073709551615%Z in
  let d : doc := fun _ => Some (VUInt z) in
  let e := ESearch (SExact [49;56;52;52;54;55;52;52;48;55;51;55;48;57;53;53;49;54;49;53]%N) [102%N] true in
  scalar_yaml (YInt z) = true /\
  parse_entry o1 false (YStr k) (YInt z) None [] = Ok e /\
  read_key o1 k = Some (KStr, [102%N]) /\
  solve_body o1 e (pure_doc d) = Ok T /\
  sem_entry_scalar o1 false KStr [102%N] (YInt z) d = T.
Proof. exact C02.entry_fixed_D30. Qed.
Check entry_fixed_D30.
Print Assumptions entry_fixed_D30.
