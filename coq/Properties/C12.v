(* C12  Loading, optimising and matching are deterministic and pure.
   Only statements here; proofs live in Proofs/C12.v.  In the model loading and matching are
   functions (no state), so their determinism and purity are what a Coq function is; the
   only source of nondeterminism of the crate is the iteration order of its hash maps,
   which the model takes as the input `ord`.  PARTIAL: order independence is proved for the
   switch sets that do not iterate hash maps and for maps with at most one key; for shake_1
   and matrix it is tied by the correspondence check (which enumerates all orders), with the
   order-dependent known classes D16, D17 (verdict) and D22 (printed tree) refuted below.
   Thread interleavings and other processes cannot be exhibited by a Gallina model; they are
   exercised on the crate by the check. *)
From Coq Require Import Permutation.
From TauModel Require Import Base Num Oracles Syntax Value Solver Rule Optimiser Known.
From TauProofs Require C12.

(* switch sets without shake and matrix never consult a hash map *)
Theorem optimise_order_irrelevant : forall o ord ord' sw r,
  sw_shake sw = false -> sw_matrix sw = false ->
  optimise o ord sw r = optimise o ord' sw r.
Proof. exact C12.optimise_order_irrelevant. Qed.
Check optimise_order_irrelevant.
Print Assumptions optimise_order_irrelevant.

(* an optimised rule is never optimised again: repeating optimise is the identity *)
Theorem optimise_once : forall o ord ord' sw sw' r r',
  optimise o ord sw r = Ok r' -> optimise o ord' sw' r' = Ok r'.
Proof. exact C12.optimise_once. Qed.
Check optimise_once.
Print Assumptions optimise_once.

(* a hash map with at most one key has one iteration order *)
Theorem amap_iter_single : forall (V : Type) (ord : hord) (m : list (key * list V)),
  (forall l, Permutation (ord l) l) -> (length m <= 1)%nat -> amap_iter ord m = m.
Proof. exact C12.amap_iter_single. Qed.
Check amap_iter_single.
Print Assumptions amap_iter_single.

(* any order yields the same entries (as a multiset) when the keys are distinct *)
Theorem amap_iter_perm : forall (V : Type) (ord : hord) (m : list (key * list V)),
  (forall l, Permutation (ord l) l) -> NoDup (map fst m) -> Permutation (amap_iter ord m) m.
Proof. exact C12.amap_iter_perm. Qed.
Check amap_iter_perm.
Print Assumptions amap_iter_perm.

(* matching is a function of (rule, document) alone: matching other documents first
   cannot change a verdict, because matches returns no new rule *)
Theorem matches_pure : forall o r (ds : list doc) (d : doc),
  let _ := map (matches o r) ds in matches o r d = matches o r d.
Proof. exact C12.matches_pure. Qed.
Check matches_pure.
Print Assumptions matches_pure.

(* ---- the known order-dependent classes are real ---- *)
Definition o0 : oracles :=
  {| re_valid := fun _ _ => true; re_match := fun _ _ _ => false; f64_parse := fun _ => None;
     f64_show := fun _ => []; uni_alnum := fun _ => false; uni_num := fun _ => false |}.
Definition mk_rule (e : expr) (ids : list (str * expr)) : rule :=
  {| r_optimised := false; r_det := {| d_expr := e; d_ids := ids |}; r_tp := []; r_tn := [] |}.
Definition sw_shake_only : switches :=
  {| sw_coalesce := false; sw_shake := true; sw_rewrite := false; sw_matrix := false |}.
Definition sw_coalesce_matrix : switches :=
  {| sw_coalesce := true; sw_shake := false; sw_rewrite := false; sw_matrix := true |}.
Definition sw_coalesce_shake : switches :=
  {| sw_coalesce := true; sw_shake := true; sw_rewrite := false; sw_matrix := false |}.

(* D17: a two-column matrix under `not`: the verdict depends on the column order *)
Example refuted_D17 :
  let row a b := EGroup BAnd [ESearch (SExact a) [97%N] false; ESearch (SExact b) [98%N] false] in
  let r := mk_rule (ENegate (EIdent [88%N])) [([88%N], EGroup BOr [row [120%N] [121%N]; row [122%N] [119%N]])] in
  let d : doc := fun k => if str_eqb k [97%N] then Some (VStr [113%N]) else None in
  exists r1 r2,
    optimise o0 (fun k => k) sw_coalesce_matrix r = Ok r1 /\
    optimise o0 (@rev key) sw_coalesce_matrix r = Ok r2 /\
    matches o0 r1 d <> matches o0 r2 d.
Proof. exact C12.refuted_D17. Qed.
Check refuted_D17.

(* D22: two merged automata of equal size on different fields: the optimised tree (hence
   its Display) depends on the order, the verdict does not *)
(* (since fix D15/D20 the group of an identifier body stays when the identifier is not inlined:
   the witness inlines it, coalesce + shake, and compares the optimised conditions) *)
Definition ord_desc2 : hord :=
  fun l => match l with [a; b] => if str_ltb a b then [b; a] else [a; b] | _ => l end.

Example refuted_D22 :
  let s f x := ESearch (SStartsWith x) f false in
  let r := mk_rule (EIdent [88%N])
             [([88%N], EGroup BOr [s [102%N] [97%N]; s [102%N] [98%N]; s [103%N] [99%N]; s [103%N] [100%N]])] in
  exists r1 r2,
    optimise o0 (fun k => k) sw_coalesce_shake r = Ok r1 /\
    optimise o0 ord_desc2 sw_coalesce_shake r = Ok r2 /\
    expr_eqb (d_expr (r_det r1)) (d_expr (r_det r2)) = false.
Proof. exact C12.refuted_D22. Qed.
Check refuted_D22.
