(* C01 (second statement file): the shape hypotheses of Properties/C01.v are met by every
   rule the loader accepts, hence the end-to-end statements about LOADED rules.
   Only statements here; proofs live in Proofs/C01_loaded.v. *)
From TauModel Require Import Base Num Oracles Syntax Value Yaml Pratt ParseMap Solver Rule Keys Optimiser Known.
From TauProofs Require C01 C01_loaded.

(* what the Pratt parser builds: no nested block, comparison operands are leaves, quantifiers
   only over identifiers *)
Theorem loaded_condition_shapes : forall ts e,
  parse ts = Ok e -> C01.no_nested e = true /\ C01.cmp_leaves e = true.
Proof. exact C01_loaded.loaded_condition_shapes. Qed.
Check loaded_condition_shapes.
Print Assumptions loaded_condition_shapes.

(* what parse_identifier builds satisfies every shape hypothesis of shake0_exact_alt *)
Theorem loaded_body_shapes : forall o ic y b,
  parse_identifier o ic y = Ok b ->
  wf_body b = true /\ C01.sh0 b = true /\ C01.shx b = true /\ C01.no_dneg b = true /\ C01.cmp_leaves b = true.
Proof. exact C01_loaded.loaded_body_shapes. Qed.
Check loaded_body_shapes.
Print Assumptions loaded_body_shapes.

(* end to end, switch sets without shake and matrix: for EVERY rule the loader accepts,
   every document and every hash order, optimise does not panic and the optimised rule gives
   exactly the verdict of the unoptimised rule *)
Theorem loaded_rule_coalesce_rewrite : forall o ic ord y r sw (d : doc),
  C01.H_strip o ->
  load_rule o ic y = Ok r -> r_optimised r = false ->
  sw_shake sw = false -> sw_matrix sw = false ->
  exists r', optimise o ord sw r = Ok r' /\ matches o r' d = matches o r d.
Proof. exact C01_loaded.loaded_rule_coalesce_rewrite. Qed.
Check loaded_rule_coalesce_rewrite.
Print Assumptions loaded_rule_coalesce_rewrite.

(* the flattening pass on the identifier bodies of a loaded rule (what `shake` does first when
   coalesce is off): exact outside D14 -- D13 cannot occur in a loaded body *)
Theorem loaded_body_shake0 : forall o ic y b fuel b' (d : docq),
  parse_identifier o ic y = Ok b ->
  shake0 fuel b = Ok b' ->
  solve_body o b' d = solve_body o b d.
Proof. exact C01_loaded.loaded_body_shake0. Qed.
Check loaded_body_shake0.
Print Assumptions loaded_body_shake0.
