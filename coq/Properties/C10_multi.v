(* C10 (second statement file): a key segment with more than one index -- `name[a][b..]` -- is not a
   path: since the repair D37 the lookup fails at that step whatever the document holds, it is never
   answered from the shorter path `name[a]`.  Only statements here; proofs live in Proofs/C10_multi.v. *)
From Coq Require Import List ZArith.
From TauModel Require Import Base Num Syntax Value.
From TauProofs Require C10 C10_multi.

Theorem find_step_multi_index : forall root cur name a b,
  C10.no_chr ch_lb name -> C10.no_chr ch_lb a ->
  (match last_opt (name ++ ch_lb :: a ++ ch_lb :: b) with Some x => N.eqb x ch_rb | None => false end) = true ->
  find_step root cur (name ++ ch_lb :: a ++ ch_lb :: b) = None.
Proof. exact C10_multi.find_step_multi_index. Qed.
Check find_step_multi_index.
Print Assumptions find_step_multi_index.

(* `a[0][1]` on {a: [[x, y]]} *)
Example a_0_1 :
  obj_find [([97%N], VArr [VArr [VStr [120%N]; VStr [121%N]]])] [97; 91; 48; 93; 91; 49; 93]%N = None.
Proof. exact C10_multi.a_0_1. Qed.
Check a_0_1.
