(* C05 (second statement file): from TEXT to tree.  pratt_complete (Properties/C05.v) starts at
   token lists; here the tokeniser is shown to invert a canonical printer of token lists, so
   that every condition of the documented grammar, WRITTEN OUT AS TEXT, is loaded as exactly the
   tree the grammar assigns.  Only statements here; proofs live in Proofs/C05_lex.v.  The
   keyword table the tokeniser uses is the regenerated one (Model/Generated.v). *)
From TauModel Require Import Base Num Oracles Syntax Generated Token Pratt Grammar.
From TauProofs Require C05_lex.

(* the canonical spelling of a token *)
Definition render_tok (t : token) : str :=
  match t with
  | TIdent w => w
  | TInt z => show_Z z
  | TFloat _ => []                                   (* not printable without the f64 oracle *)
  | TOp BAnd => kw_and
  | TOp BOr => kw_or
  | TOp BEqual => [ch_eq; ch_eq]
  | TOp BGreaterThan => [ch_gt]
  | TOp BGreaterThanOrEqual => [ch_gt; ch_eq]
  | TOp BLessThan => [ch_lt]
  | TOp BLessThanOrEqual => [ch_lt; ch_eq]
  | TMiscNot => kw_not
  | TMod MFlt => [102; 108; 116]%N
  | TMod MInt => [105; 110; 116]%N
  | TMod MNot => kw_not
  | TMod MStr => [115; 116; 114]%N
  | TMatch MSAll => [97; 108; 108]%N
  | TMatch MSOf => [111; 102]%N
  | TDel DComma => [ch_comma]
  | TDel DLeftParen => [ch_lp]
  | TDel DRightParen => [ch_rp]
  end.

(* one space after every token, except that a modifier / quantifier keyword is glued to the
   parenthesis that follows it *)
Definition glue (t : token) : str :=
  match t with TMod _ | TMatch _ => [] | _ => [ch_space] end.
Definition render (ts : list token) : str := flat_map (fun t => render_tok t ++ glue t) ts.

(* printable tokens: identifiers are words other than the three word keywords, integers are
   non-negative i64 *)
Definition tok_ok (t : token) : bool :=
  match t with
  | TIdent w => is_word w && negb (str_eqb w kw_and) && negb (str_eqb w kw_or) && negb (str_eqb w kw_not)
  | TInt z => (0 <=? z)%Z && (z <=? 9223372036854775807)%Z
  | TFloat _ => false
  | _ => true
  end.
(* a modifier / quantifier keyword is followed by "(" *)
Fixpoint well_glued (ts : list token) : bool :=
  match ts with
  | [] => true
  | TMod _ :: ((TDel DLeftParen :: _) as rest) | TMatch _ :: ((TDel DLeftParen :: _) as rest) => well_glued rest
  | TMod _ :: _ | TMatch _ :: _ => false
  | _ :: rest => well_glued rest
  end.

(* the tokeniser inverts the printer, for every token list of any length *)
Theorem tokenise_render : forall o ts,
  forallb tok_ok ts = true -> well_glued ts = true ->
  tokenise o (render ts) = Ok ts.
Proof. exact C05_lex.tokenise_render. Qed.
Check tokenise_render.
Print Assumptions tokenise_render.

(* token lists of the grammar are well glued *)
Theorem grammar_well_glued : forall ts e, g_and ts e -> well_glued ts = true.
Proof. exact C05_lex.grammar_well_glued. Qed.
Check grammar_well_glued.
Print Assumptions grammar_well_glued.

(* text to tree: a condition of the grammar, printed, is loaded as the grammar's tree *)
Theorem text_to_tree : forall o ts e,
  g_and ts e -> forallb tok_ok ts = true ->
  bind (tokenise o (render ts)) parse = Ok e.
Proof. exact C05_lex.text_to_tree. Qed.
Check text_to_tree.
Print Assumptions text_to_tree.

(* layout does not matter: any number of extra spaces after any token *)
Definition render_sp (ts : list (token * nat)) : str :=
  flat_map (fun tn => render_tok (fst tn) ++ glue (fst tn) ++
                      match fst tn with TMod _ | TMatch _ => [] | _ => repeat ch_space (snd tn) end) ts.
Theorem tokenise_render_spaces : forall o (tns : list (token * nat)),
  forallb tok_ok (map fst tns) = true -> well_glued (map fst tns) = true ->
  tokenise o (render_sp tns) = Ok (map fst tns).
Proof. exact C05_lex.tokenise_render_spaces. Qed.
Check tokenise_render_spaces.
Print Assumptions tokenise_render_spaces.

(* non-vacuity:  not A and (B or int(x) >= 3)  *)
Example render_example :
  let a := [65%N] in let b := [66%N] in let x := [120%N] in
  let ts := [TMiscNot; TIdent a; TOp BAnd; TDel DLeftParen; TIdent b; TOp BOr; TMod MInt; TDel DLeftParen; TIdent x;
             TDel DRightParen; TOp BGreaterThanOrEqual; TInt 3; TDel DRightParen] in
  forallb tok_ok ts = true /\ well_glued ts = true /\
  render ts = [110; 111; 116; 32; 65; 32; 97; 110; 100; 32; 40; 32; 66; 32; 111; 114; 32; 105; 110; 116; 40; 32; 120; 32; 41; 32;
               62; 61; 32; 51; 32; 41; 32]%N.
Proof. exact C05_lex.render_example. Qed.
Check render_example.
