(* C02 (fourth statement file): the WHOLE identifier language -- values may also be non-empty
   LISTS OF MAPPINGS (`f: [{a: x}, {b: y}]`: some / every / n of the blocks holds on the object,
   or on some element of an array of objects), nested to any depth and mixed with everything of
   Properties/C02_full.v.  Only statements here; proofs live in Proofs/C02_all.v.  The exclusions are
   those of C02_full.v (D10/D11, D24, D26 per document, D28, D32; D27 and D30 are repaired). *)
From TauModel Require Import Base Num Oracles Syntax Value Yaml Pratt ParseMap Solver Rule Keys Known Spec.
From TauProofs Require C02_all.

Definition is_ymap (v : yaml) : bool := match v with YMap _ => true | _ => false end.

(* mappings whose values are scalars, non-empty lists of scalars, non-empty lists of such
   mappings, or such mappings *)
Fixpoint any_mapping (fuel : nat) (y : yaml) : bool :=
  match fuel with
  | O => false
  | S fu =>
      match y with
      | YMap kv => forallb (fun p : yaml * yaml =>
                              match fst p with YStr _ => true | _ => false end &&
                              (scalar_yaml (snd p) ||
                               match snd p with
                               | YSeq vs => forallb scalar_yaml vs || forallb (any_mapping fu) vs
                               | _ => false
                               end ||
                               any_mapping fu (snd p))) kv
      | _ => false
      end
  end.
Definition any_identifier (y : yaml) : bool :=
  match y with
  | YMap _ => any_mapping (S (yaml_depth y)) y
  | YSeq l => forallb (fun m => any_mapping (S (yaml_depth m)) m) l
  | _ => false
  end.

Definition excluded_entry2 (o : oracles) (k v : yaml) : bool :=
  excluded_entry o k v || d32_entry o k v || d28_entry o k v || d28_member_entry o k v.
Definition excl_free2 (o : oracles) (y : yaml) : Prop :=
  entry_exists (S (yaml_depth y)) (excluded_entry2 o) y = false.

Definition is_ystr' (v : yaml) : bool := match v with YStr _ => true | _ => false end.
Definition quant_strings (m : keymod) (vs : list yaml) : bool :=
  match m with KAll | KOf _ => (2 <=? length (filter is_ystr' vs))%nat | _ => false end.
(* D26 per document, followed through nested blocks and through the blocks of a list *)
Fixpoint arrays_ok (o : oracles) (fuel : nat) (y : yaml) (d : doc) : bool :=
  match fuel with
  | O => true
  | S fu =>
      match y with
      | YMap kv =>
          forallb (fun p : yaml * yaml =>
                     match fst p with
                     | YStr k =>
                         match read_key o k with
                         | Some (m, f) =>
                             let sub (v : yaml) : bool :=
                               match d f with
                               | Some (VObj kv') => arrays_ok o fu v (obj_find kv')
                               | Some (VArr l) => forallb (fun e => match e with VObj kv' => arrays_ok o fu v (obj_find kv') | _ => true end) l
                               | _ => true
                               end in
                             match snd p with
                             | YSeq vs =>
                                 negb (quant_strings m vs && match d f with Some (VArr _) => true | _ => false end) &&
                                 forallb (fun v => if is_ymap v then sub v else true) vs
                             | YMap _ => sub (snd p)
                             | _ => true
                             end
                         | None => true
                         end
                     | _ => true
                     end) kv
      | YSeq l => forallb (fun m => arrays_ok o fu m d) l
      | _ => true
      end
  end.

Theorem mapping_refines_all : forall o ic y e,
  any_mapping (S (yaml_depth y)) y = true -> excl_free2 o y ->
  parse_mapping o ic y = Ok e -> exists_sub d10_here false e = false ->
  forall d : doc, arrays_ok o (S (yaml_depth y)) y d = true ->
    solve_body o e (pure_doc d) = Ok (sem_mapping o ic (S (yaml_depth y)) y d).
Proof. exact C02_all.mapping_refines_all. Qed.
Check mapping_refines_all.
Print Assumptions mapping_refines_all.

Theorem identifier_refines_all : forall o ic y b,
  any_identifier y = true -> excl_free2 o y ->
  parse_identifier o ic y = Ok b -> exists_sub d10_here false b = false ->
  forall d : doc, arrays_ok o (S (S (yaml_depth y))) y d = true ->
    solve_body o b (pure_doc d) = Ok (sem_identifier o ic y d).
Proof. exact C02_all.identifier_refines_all. Qed.
Check identifier_refines_all.
Print Assumptions identifier_refines_all.

Fixpoint counted (i : str) (e : expr) : bool :=
  match e with
  | EMatch _ (EIdent j) => str_eqb i j
  | EMatch _ e' | ENegate e' | ENested _ e' => counted i e'
  | EBexp l _ r => counted i l || counted i r
  | EGroup _ l => existsb (counted i) l
  | _ => false
  end.

(* every loadable rule whose identifier blocks are of the shapes above *)
Theorem rule_refines_all : forall o ic kv dkv r (d : doc),
  ylookup key_detection kv = Some (YMap dkv) ->
  forallb (fun p : yaml * yaml => match fst p with YStr _ => true | _ => false end) dkv = true ->
  NoDup (map fst (raw_identifiers dkv)) ->
  (forall i y, In (i, y) (raw_identifiers dkv) ->
     any_identifier y = true /\ excl_free2 o y /\
     arrays_ok o (S (S (yaml_depth y))) y d = true /\
     (counted i (d_expr (r_det r)) = true -> single_entry_list y = false)) ->
  load_rule o ic (YMap kv) = Ok r ->
  known_d10 (r_det r) = false ->
  exists r3, solve_rule3 o (r_det r) (pure_doc d) = Ok r3 /\
             sem_rule o ic (YMap kv) d = Some r3 /\
             (matches o r d = Ok true <-> r3 = T).
Proof. exact C02_all.rule_refines_all. Qed.
Check rule_refines_all.
Print Assumptions rule_refines_all.

(* what is left outside: tagged values, non-string keys, and lists that mix mappings with scalars
   (the loader accepts a mapping member next to string members) *)
