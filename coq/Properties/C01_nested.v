(* C01 (fifth statement file): the merging pass shake_1 on trees WITH nested blocks, on the model
   with the D29 repair (a nested block whose body is an all() list is not merged).
   Only statements here; proofs live in Proofs/C01_nested.v.

   ADJUSTED statements (see the report): "truth is preserved outside D16" is false as first
   stated (shake1_truth_nested_refuted: a one-member group around an all()-over-or list as the
   body of a nested block is unwrapped).  The statements below add ONE executable hypothesis,
   shake1_safe: the run of shake_1 (same recursion, same fuel) never meets, in a negative
   position, an and-group of two or more members one of which shakes to a nested block that is
   merged (D16), and never rebuilds a nested block whose body becomes (or stops being) an
   all()-over-or list.  Then TRUTH is preserved for every document (objects, arrays of objects,
   scalars) and every permutation order; with negative start polarity the three-valued result is. *)
From Coq Require Import List ZArith Bool Permutation.
From TauModel Require Import Base Num Oracles Syntax Value Yaml Pratt ParseMap Solver Rule Keys Optimiser Known.
From TauModel Require Scope.
From TauModel Require Scope2 Order.
From TauProofs Require C01 C01_nested C01_scope2.
Import ListNotations.

(* ---- text proposed for Model/Scope.v (restated identically in Proofs/C01_nested.v) ---- *)
(* the regrouped member lists of the two group arms of shake_1, `sh` being the recursive call *)
Definition and_scratch (ord : hord) (sh : expr -> expr) (shaken : list expr) : list expr :=
  let nested :=
    fold_left (fun m x => match x with
                          | ENested f inner => if is_all_match inner then m else amap_push f [inner] m
                          | _ => m
                          end) shaken [] in
  let plain := filter (fun x => match x with ENested _ inner => is_all_match inner | _ => true end) shaken in
  let merged :=
    map (fun kv : key * list expr =>
           let '(f, es) := kv in
           ENested f (match es with
                      | [x] => sh x
                      | _ => sh (EMatch MAll (EGroup BOr es))
                      end)) (amap_iter ord nested) in
  plain ++ merged.
Definition or_scratch (ord : hord) (sh : expr -> expr) (shaken : list expr) : list expr :=
  let a := fold_left or_classify shaken oracc0 in
  let b := fold_left needle_bucket (amap_iter ord (oa_needles a)) buckets0 in
  let nested :=
    map (fun kv : key * list expr =>
           let '(f, es) := kv in
           ENested f (match es with
                      | [x] => sh x
                      | _ => sh (EGroup BOr es)
                      end)) (amap_iter ord (oa_nested a)) in
  let pats := map pattern_exprs (amap_iter ord (oa_patterns a)) in
  let regex := flat_map fst pats in
  let regex_set := flat_map snd pats in
  oa_any a ++ sort_by len_lt (b_exact b) ++ sort_by len_lt (b_starts b)
       ++ sort_by len_lt (b_ends b) ++ sort_by len_lt (b_contains b)
       ++ sort_by aho_lt (b_aho b) ++ sort_by regex_lt regex
       ++ sort_by regexset_lt regex_set ++ oa_rest a ++ nested.
(* the nested blocks of a shaken member list that the pass merges, per field (both arms collect
   them alike; since the D29 repair a block whose body is an all() list is left alone) *)
Definition merges (x : expr) : bool :=
  match x with ENested _ inner => negb (is_all_match inner) | _ => false end.
Definition nested_of (shaken : list expr) : list (key * list expr) :=
  fold_left (fun m x => match x with
                        | ENested f inner => if is_all_match inner then m else amap_push f [inner] m
                        | _ => m
                        end) shaken [].
(* the body a merged nested block is built from (q: and-arm) *)
Definition merge_body (q : bool) (es : list expr) : expr :=
  match es with
  | [x] => x
  | _ => if q then EMatch MAll (EGroup BOr es) else EGroup BOr es
  end.
Definition neg_of (neg : bool) (k : matchk) : bool :=
  match k with MOf c => neg || (c =? 0)%Z | MAll => neg end.

(* follows the run of shake_1: same recursion, same fuel; `neg` is the polarity as in
   Known.exists_sub.  At every group the run meets -- those of the tree, the re-runs on a
   regrouped list, and the new groups made of merged bodies -- it checks D16 (negative
   position, and-group of two or more members one of which shakes to a nested block that is
   merged / moved), and that the body of a rebuilt nested block does not become (or stop being)
   an all()-over-or list (a one-member group around one is unwrapped) *)
Fixpoint shake1_safe (ord : hord) (neg : bool) (fuel : nat) (e : expr) : bool :=
  match fuel with
  | O => true
  | S fu =>
      let sh := shake1 ord fu in
      let nest_ok := fun x => Bool.eqb (is_allor (sh x)) (is_allor x) && shake1_safe ord neg fu x in
      let entries_ok := fun q shaken =>
        forallb (fun kv : key * list expr => nest_ok (merge_body q (snd kv)))
                (amap_iter ord (nested_of shaken)) in
      match e with
      | EGroup BAnd l =>
          let shaken := map sh l in
          let scratch := and_scratch ord sh shaken in
          forallb (shake1_safe ord neg fu) l &&
          negb (neg && (1 <? length l)%nat && existsb merges shaken) &&
          entries_ok true shaken &&
          (if negb (length scratch =? length l)%nat then shake1_safe ord neg fu (EGroup BAnd scratch) else true)
      | EGroup BOr l =>
          let shaken := map sh l in
          let scratch := or_scratch ord sh shaken in
          forallb (shake1_safe ord neg fu) l &&
          entries_ok false shaken &&
          (if negb (length scratch =? length l)%nat then shake1_safe ord neg fu (EGroup BOr scratch) else true)
      | EGroup _ l => forallb (shake1_safe ord neg fu) l
      | EBexp l _ r => shake1_safe ord neg fu l && shake1_safe ord neg fu r
      | EMatch k (EGroup _ l) => forallb (shake1_safe ord (neg_of neg k) fu) l
      | EMatch k e' => shake1_safe ord (neg_of neg k) fu e'
      | ENegate e' => shake1_safe ord true fu e'
      | ENested _ e' => nest_ok e'
      | _ => true
      end
  end.


(* shake_1 alone: along a safe run with positive start polarity truth is preserved (any fuel) *)
Theorem shake1_truth_run : forall o ord fuel e (d : doc),
  (forall l, Permutation (ord l) l) ->
  wf_body e = true -> C01.cmp_leaves e = true ->
  shake1_safe ord false fuel e = true ->
  (solve_body o (shake1 ord fuel e) (pure_doc d) = Ok T <-> solve_body o e (pure_doc d) = Ok T).
Proof. exact C01_nested.shake1_truth_run. Qed.
Check shake1_truth_run.
Print Assumptions shake1_truth_run.

(* ... with negative start polarity the three-valued result is preserved *)
Theorem shake1_exact_run : forall o ord fuel e (d : doc),
  (forall l, Permutation (ord l) l) ->
  wf_body e = true -> C01.cmp_leaves e = true ->
  shake1_safe ord true fuel e = true ->
  solve_body o (shake1 ord fuel e) (pure_doc d) = solve_body o e (pure_doc d).
Proof. exact C01_nested.shake1_exact_run. Qed.
Check shake1_exact_run.
Print Assumptions shake1_exact_run.

(* the first statement with its D16 hypothesis kept and the safe-run hypothesis added *)
Theorem shake1_truth_nested_alt : forall o ord e (d : doc),
  (forall l, Permutation (ord l) l) ->
  wf_body e = true -> C01.cmp_leaves e = true ->
  exists_sub (d16_here ord) false e = false ->
  shake1_safe ord false (shake_fuel e) e = true ->
  (solve_body o (shake1 ord (shake_fuel e) e) (pure_doc d) = Ok T <-> solve_body o e (pure_doc d) = Ok T).
Proof. exact C01_nested.shake1_truth_nested_alt. Qed.
Check shake1_truth_nested_alt.
Print Assumptions shake1_truth_nested_alt.

(* without it the statement is false *)
Theorem shake1_truth_nested_false :
  ~ (forall o ord e (d : doc),
      (forall l, Permutation (ord l) l) ->
      wf_body e = true -> C01.cmp_leaves e = true ->
      exists_sub (d16_here ord) false e = false ->
      (solve_body o (shake1 ord (shake_fuel e) e) (pure_doc d) = Ok T <-> solve_body o e (pure_doc d) = Ok T)).
Proof. exact C01_nested.shake1_truth_nested_false. Qed.
Check shake1_truth_nested_false.
Print Assumptions shake1_truth_nested_false.

(* whole rules, the eight switch sets without matrix: like Scope.c01_scope but nested blocks are
   allowed outside D16, when the run of shake_1 on every tree handed to it is safe *)
Definition shake_input_ok2 (ord : hord) (sw : switches) (dt : detection) : bool :=
  forallb (fun t => Scope.sh0 t && Scope.no_dneg t && Scope.shx t) (all_trees (staged sw dt)) &&
  negb (known_d16 ord sw dt).
Definition c01_scope2 (ord : hord) (sw : switches) (dt : detection) : bool :=
  negb (sw_matrix sw) &&
  (sw_coalesce sw || Scope.no_quant_ident (d_expr dt)) &&
  (negb (sw_shake sw) || shake_input_ok2 ord sw dt).
(* text proposed for Model/Scope.v *)
Definition entry_trees (e : expr) : list expr := match e with EGroup _ l => l | _ => [e] end.
Definition run_safe (ord : hord) (sw : switches) (dt : detection) : bool :=
  let st := staged sw dt in
  shake1_safe ord false (shake_fuel (fst (shaken0 st))) (fst (shaken0 st)) &&
  forallb (fun b : str * expr =>
             forallb (fun x => let m := ok_or (shake0 (shake_fuel x) x) x in
                               shake1_safe ord (body_neg st) (shake_fuel m) m)
                     (entry_trees (snd b)))
          (snd st).

Theorem scope2_sound_alt : forall o ic ord sw y r (d : doc),
  (forall l, Permutation (ord l) l) ->
  C01.H_strip o ->
  load_rule o ic y = Ok r -> r_optimised r = false ->
  c01_scope2 ord sw (r_det r) = true ->
  negb (sw_shake sw) || run_safe ord sw (r_det r) = true ->
  exists r', optimise o ord sw r = Ok r' /\ matches o r' d = matches o r d.
Proof. exact C01_nested.scope2_sound_alt. Qed.
Check scope2_sound_alt.
Print Assumptions scope2_sound_alt.

(* non-vacuity: two identifiers nesting the same field, joined by `and`, are merged *)
Example nested_merge_example :
  let n := [110%N] in let f := [102%N] in let g := [103%N] in
  let e := EGroup BAnd [ENested n (ESearch (SExact [97%N]) f false); ENested n (ESearch (SExact [98%N]) g false);
                        ESearch (SExact [99%N]) f false] in
  wf_body e = true /\
  exists_sub (d16_here (fun k => k)) false e = false /\ exists_sub (d29_here (fun k => k)) false e = false /\
  shake1 (fun k => k) (shake_fuel e) e =
    EGroup BAnd [ESearch (SExact [99%N]) f false;
                 ENested n (EMatch MAll (EGroup BOr [ESearch (SExact [97%N]) f false; ESearch (SExact [98%N]) g false]))].
Proof. exact C01_nested.nested_merge_example. Qed.
Check nested_merge_example.

(* ... and the run on it is safe *)
Example nested_merge_example_safe :
  let n := [110%N] in let f := [102%N] in let g := [103%N] in
  let e := EGroup BAnd [ENested n (ESearch (SExact [97%N]) f false); ENested n (ESearch (SExact [98%N]) g false);
                        ESearch (SExact [99%N]) f false] in
  shake1_safe (fun k => k) false (shake_fuel e) e = true /\ shake1_safe (fun k => k) true (shake_fuel e) e = false.
Proof. exact C01_scope2.nested_merge_example_safe. Qed.
Check nested_merge_example_safe.

(* the same with the hypotheses as ONE executable predicate (Model/Scope2.v), which the runner
   evaluates on every generated rule next to Scope.c01_scope_all; at the crate's own map order *)
Theorem scope_nested_sound : forall o ic ord sw y r (d : doc),
  (forall l, Permutation (ord l) l) ->
  C01.H_strip o ->
  load_rule o ic y = Ok r -> r_optimised r = false ->
  Scope2.c01_scope_nested ord sw (r_det r) = true ->
  exists r', optimise o ord sw r = Ok r' /\ matches o r' d = matches o r d.
Proof. exact C01_scope2.scope_nested_sound. Qed.
Check scope_nested_sound.
Print Assumptions scope_nested_sound.

Theorem crate_order_scope_nested_sound : forall o ic sw y r (d : doc),
  C01.H_strip o ->
  load_rule o ic y = Ok r -> r_optimised r = false ->
  Scope2.c01_scope_nested Order.rust_ord sw (r_det r) = true ->
  exists r', optimise o Order.rust_ord sw r = Ok r' /\ matches o r' d = matches o r d.
Proof. exact C01_scope2.crate_order_scope_nested_sound. Qed.
Check crate_order_scope_nested_sound.
Print Assumptions crate_order_scope_nested_sound.
