(* C06  Three-valued connectives obey their truth tables (all list lengths).
   Only statements here; proofs live in Proofs/C06.v. *)
From TauModel Require Import Base Num Oracles Syntax Value Solver Rule.
From TauProofs Require C06.

(* operands that have already been evaluated *)
Definition lz (rs : list res3) : list lazy3 := map (fun r (_ : unit) => Ok r) rs.
Definition is_T (r : res3) : bool := match r with T => true | _ => false end.
Definition is_F (r : res3) : bool := match r with F => true | _ => false end.
Definition count_T (rs : list res3) : Z := Z.of_nat (length (filter is_T rs)).
Fixpoint first_non_true (rs : list res3) : res3 :=
  match rs with [] => T | T :: rest => first_non_true rest | x :: _ => x end.

(* or: true if any operand is true, else false if any is false, else missing *)
Theorem or_group_spec : forall rs,
  or_fold M (lz rs) = Ok (if existsb is_T rs then T else if existsb is_F rs then F else M).
Proof. exact C06.or_group_spec. Qed.
Check or_group_spec.
Print Assumptions or_group_spec.

(* and: the first operand result that is not true, else true *)
Theorem and_group_spec : forall rs, and_fold (lz rs) = Ok (first_non_true rs).
Proof. exact C06.and_group_spec. Qed.
Check and_group_spec.
Print Assumptions and_group_spec.

Theorem and_group_true_iff : forall rs, and_fold (lz rs) = Ok T <-> Forall (fun r => r = T) rs.
Proof. exact C06.and_group_true_iff. Qed.
Check and_group_true_iff.
Print Assumptions and_group_true_iff.

(* the two-operand forms are the group forms *)
Theorem binary_eq_group : forall a b,
  and2 (fun _ => Ok a) (fun _ => Ok b) = and_fold (lz [a; b]) /\
  or2 (fun _ => Ok a) (fun _ => Ok b) = or_fold M (lz [a; b]).
Proof. exact C06.binary_eq_group. Qed.
Check binary_eq_group.
Print Assumptions binary_eq_group.

(* not swaps true and false and turns missing into false *)
Theorem negate_spec : neg3 T = F /\ neg3 F = T /\ neg3 M = F.
Proof. exact C06.negate_spec. Qed.
Check negate_spec.
Print Assumptions negate_spec.

Theorem negate_solve : forall o ids body e d,
  solve o ids body (ENegate e) d = bind (solve o ids body e d) (fun r => Ok (neg3 r)).
Proof. exact C06.negate_solve. Qed.
Check negate_solve.
Print Assumptions negate_solve.

(* all(...) over a group requires every operand true: it is the and-table *)
Theorem all_spec : forall o ids body op g d,
  solve o ids body (EMatch MAll (EGroup op g)) d = solve o ids body (EGroup BAnd g) d.
Proof. exact C06.all_spec. Qed.
Check all_spec.
Print Assumptions all_spec.

(* of(.., n), n >= 1: true iff at least n operands are true; otherwise missing iff every
   operand is missing, else false *)
Theorem of_pos_spec : forall c rs, (1 <= c)%Z ->
  of_fold c (lz rs) =
  Ok (if (c <=? count_T rs)%Z then T
      else if forallb (fun r => res3_eqb r M) rs then M else F).
Proof. exact C06.of_pos_spec. Qed.
Check of_pos_spec.
Print Assumptions of_pos_spec.

(* of(.., 0): none may be true *)
Theorem of_zero_spec : forall rs,
  of_fold 0 (lz rs) = Ok (if existsb is_T rs then F else if existsb is_F rs then T else M).
Proof. exact C06.of_zero_spec. Qed.
Check of_zero_spec.
Print Assumptions of_zero_spec.

(* group semantics of the solver are these folds over the members' results *)
Theorem group_solve : forall o ids body g d,
  solve o ids body (EGroup BAnd g) d = and_fold (map (fun x (_ : unit) => solve o ids body x d) g) /\
  solve o ids body (EGroup BOr g) d = or_fold M (map (fun x (_ : unit) => solve o ids body x d) g) /\
  (forall c op, solve o ids body (EMatch (MOf c) (EGroup op g)) d =
                of_fold c (map (fun x (_ : unit) => solve o ids body x d) g)).
Proof. exact C06.group_solve. Qed.
Check group_solve.
Print Assumptions group_solve.

(* identifier-list form = group form: all()/of() over an identifier whose body is a group
   counts the body's members exactly as the group form does *)
Theorem forms_agree_identifier : forall o ids i op g k d,
  lookup i ids = Some (EGroup op g) ->
  solve_cond o ids (EMatch k (EIdent i)) d = solve_body o (EMatch k (EGroup op g)) d.
Proof. exact C06.forms_agree_identifier. Qed.
Check forms_agree_identifier.
Print Assumptions forms_agree_identifier.

(* batched form = group form on a string field: one automaton holding the needles of a
   key list gives, under all()/of(), the result of the group of its one-needle members *)
Definition singles (ctx : list mtype) (ci : bool) (f : str) (cast : bool) : list expr :=
  map (fun m => ESearch (SAho [m] ci) f cast) ctx.

Theorem forms_agree_batched_all : forall o ids body ctx ci f cast d h,
  d f = Ok (Some (VStr h)) ->
  solve o ids body (EMatch MAll (ESearch (SAho ctx ci) f cast)) d =
  solve o ids body (EMatch MAll (EGroup BOr (singles ctx ci f cast))) d.
Proof. exact C06.forms_agree_batched_all. Qed.
Check forms_agree_batched_all.
Print Assumptions forms_agree_batched_all.

Theorem forms_agree_batched_of : forall o ids body ctx ci f cast d h c,
  ctx <> [] -> (0 <= c)%Z ->
  d f = Ok (Some (VStr h)) ->
  solve o ids body (EMatch (MOf c) (ESearch (SAho ctx ci) f cast)) d =
  solve o ids body (EMatch (MOf c) (EGroup BOr (singles ctx ci f cast))) d.
Proof. exact C06.forms_agree_batched_of. Qed.
Check forms_agree_batched_of.
Print Assumptions forms_agree_batched_of.

Theorem forms_agree_batched_missing : forall o ids body ctx ci f cast d k,
  ctx <> [] ->
  d f = Ok None ->
  solve o ids body (EMatch k (ESearch (SAho ctx ci) f cast)) d = Ok M /\
  solve o ids body (EMatch k (EGroup BOr (singles ctx ci f cast))) d = Ok M.
Proof. exact C06.forms_agree_batched_missing. Qed.
Check forms_agree_batched_missing.
Print Assumptions forms_agree_batched_missing.

(* a rule matches only when the whole condition is true *)
Theorem matches_only_true : forall o r d,
  matches o r d = Ok true <-> solve_rule3 o (r_det r) (pure_doc d) = Ok T.
Proof. exact C06.matches_only_true. Qed.
Check matches_only_true.
Print Assumptions matches_only_true.

(* non-vacuity: a four-operand vector with all three values, threshold 2 *)
Example of_example :
  of_fold 2 (lz [T; M; F; T]) = Ok T /\ of_fold 3 (lz [T; M; F; T]) = Ok F /\
  of_fold 1 (lz [M; M]) = Ok M /\ of_fold 0 (lz [M; F]) = Ok T.
Proof. exact C06.of_example. Qed.
Check of_example.
