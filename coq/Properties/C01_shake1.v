(* C01 (third statement file): the merging pass shake_1 on rules WITHOUT nested blocks
   (every field addressed by a plain or dotted key; no YAML mapping/sequence below a key).
   Only statements here; proofs live in Proofs/C01_shake1.v.

   On such trees shake_1 only regroups the members of or-groups by (field, cast, case):
   same-field needles become one automaton, same-field regexes one regex set, the rest is
   sorted; and-groups keep their members.  The claim is three-valued exactness for every
   document and every hash order.  (With nested blocks the pass is not exact: D16, D29.)
   `ord` stands for the iteration order of a hash map: the statements assume it is a permutation
   of the keys (an `ord` that drops keys drops merged searches: shake1_exact_flat_refuted), the
   convention of C12.  The first version of three statements lacked that hypothesis (and
   cmp_leaves) and was refuted by the proof attempt; the counterexamples are kept below. *)
From Coq Require Import Permutation.
From TauModel Require Import Base Num Oracles Syntax Value Solver Rule Keys Optimiser Known.
From TauModel Require Import Yaml Pratt ParseMap.
From TauModel Require Scope.
From TauProofs Require C01 C01_shake1 C01_flat.

(* shake_1 alone, any fuel, any hash order *)
Theorem shake1_exact_flat : forall o ord fuel e (d : doc),
  (forall l, Permutation (ord l) l) ->
  wf_body e = true -> C01.no_nested e = true -> C01.cmp_leaves e = true ->
  solve_body o (shake1 ord fuel e) (pure_doc d) = solve_body o e (pure_doc d).
Proof. exact C01_shake1.shake1_exact_flat_alt. Qed.
Check shake1_exact_flat.
Print Assumptions shake1_exact_flat.

(* it keeps the shape *)
Theorem shake1_keeps_flat : forall ord fuel e,
  wf_body e = true -> C01.no_nested e = true ->
  wf_body (shake1 ord fuel e) = true /\ C01.no_nested (shake1 ord fuel e) = true.
Proof. exact C01_shake1.shake1_keeps_flat. Qed.
Check shake1_keeps_flat.
Print Assumptions shake1_keeps_flat.

(* the whole shake pass (shake_0 then shake_1) outside D13 / D14 *)
Theorem shake_exact_flat : forall o ord e e' (d : doc),
  (forall l, Permutation (ord l) l) ->
  wf_body e = true -> C01.no_nested e = true ->
  C01.sh0 e = true -> C01.no_dneg e = true -> C01.shx e = true ->
  shake ord e = Ok e' ->
  solve_body o e' (pure_doc d) = solve_body o e (pure_doc d).
Proof. exact C01_shake1.shake_exact_flat_alt. Qed.
Check shake_exact_flat.
Print Assumptions shake_exact_flat.

(* whole rules, the EIGHT switch sets without matrix: the trees handed to shake (the
   condition with identifiers inlined when coalesce is on; the condition and every
   identifier body otherwise) are nested-free and outside D13 / D14; when coalesce is off the
   condition does not count the members of an identifier (all(X) / of(X, n): class D15). *)
Fixpoint no_quant_ident (e : expr) : bool :=
  match e with
  | EGroup _ l => forallb no_quant_ident l
  | EBexp l _ r => no_quant_ident l && no_quant_ident r
  | EMatch _ (EIdent _) => false
  | EMatch _ e' | ENegate e' | ENested _ e' => no_quant_ident e'
  | _ => true
  end.
Definition shake_input_ok (o : oracles) (sw : switches) (dt : detection) : bool :=
  forallb (fun t => C01.no_nested t && C01.sh0 t && C01.no_dneg t && C01.shx t)
          (all_trees (staged sw dt)).

Theorem optimise_no_matrix_exact_flat : forall o ord sw r (d : doc),
  (forall l, Permutation (ord l) l) ->
  C01.H_strip o ->
  sw_matrix sw = false ->
  wf_det (r_det r) = true -> r_optimised r = false ->
  C01.no_nested (d_expr (r_det r)) = true -> C01.cmp_leaves (d_expr (r_det r)) = true ->
  (sw_coalesce sw = true \/ no_quant_ident (d_expr (r_det r)) = true) ->
  (sw_shake sw = true -> shake_input_ok o sw (r_det r) = true) ->
  exists r', optimise o ord sw r = Ok r' /\
             solve_rule3 o (r_det r') (pure_doc d) = solve_rule3 o (r_det r) (pure_doc d) /\
             matches o r' d = matches o r d.
Proof. exact C01_shake1.optimise_no_matrix_exact_flat_alt. Qed.
Check optimise_no_matrix_exact_flat.
Print Assumptions optimise_no_matrix_exact_flat.

(* hence, for EVERY rule the loader accepts (no shape hypothesis on the condition: the Pratt
   parser's output has the shapes, C01_loaded): with matrix off, every hash order, every
   document, optimise returns and the verdict is unchanged -- provided the trees handed to shake
   are nested-free and outside D13/D14 (executable: shake_input_ok) and, without coalesce, the
   condition does not count the members of an identifier (D15) *)
Theorem loaded_rule_no_matrix_flat : forall o ic ord sw y r (d : doc),
  (forall l, Permutation (ord l) l) ->
  C01.H_strip o ->
  load_rule o ic y = Ok r -> r_optimised r = false ->
  sw_matrix sw = false ->
  (sw_coalesce sw = true \/ no_quant_ident (d_expr (r_det r)) = true) ->
  (sw_shake sw = true -> shake_input_ok o sw (r_det r) = true) ->
  exists r', optimise o ord sw r = Ok r' /\ matches o r' d = matches o r d.
Proof. exact C01_flat.loaded_rule_no_matrix_flat. Qed.
Check loaded_rule_no_matrix_flat.
Print Assumptions loaded_rule_no_matrix_flat.

(* the same with the hypotheses as ONE executable predicate (Model/Scope.v), which the runner
   evaluates on every generated rule: inside the scope the check accepts no verdict change at all *)
Theorem scope_sound : forall o ic ord sw y r (d : doc),
  (forall l, Permutation (ord l) l) ->
  C01.H_strip o ->
  load_rule o ic y = Ok r -> r_optimised r = false ->
  Scope.c01_scope sw (r_det r) = true ->
  exists r', optimise o ord sw r = Ok r' /\ matches o r' d = matches o r d.
Proof. exact C01_flat.scope_sound. Qed.
Check scope_sound.
Print Assumptions scope_sound.

(* non-vacuity: a two-field or-group of five searches is regrouped into two automata and the
   hypotheses hold *)
Example shake1_flat_example :
  let f := [102%N] in let g := [103%N] in
  let e := EGroup BOr [ESearch (SContains [97%N]) f false; ESearch (SExact [98%N]) g false;
                       ESearch (SStartsWith [99%N]) f false; ESearch (SEndsWith [100%N]) g false;
                       ESearch (SRegex [101%N] false) f false] in
  wf_body e = true /\ C01.no_nested e = true /\
  shake1 (fun k => k) 10 e =
    EGroup BOr [ESearch (SAho [MTContains [97%N]; MTStartsWith [99%N]] false) f false;
                ESearch (SAho [MTExact [98%N]; MTEndsWith [100%N]] false) g false;
                ESearch (SRegex [101%N] false) f false].
Proof. exact C01_shake1.shake1_flat_example. Qed.
Check shake1_flat_example.

(* the counterexamples to the first versions of the statements *)
Example shake1_exact_flat_refuted_ord :
  let f := [102%N] in let g := [103%N] in
  let e := EGroup BOr [ESearch (SContains [97%N]) f false; ESearch (SContains [98%N]) g false] in
  let d : doc := fun k => if str_eqb k f then Some (VStr [97%N]) else None in
  wf_body e = true /\ C01.no_nested e = true /\ C01.cmp_leaves e = true /\
  shake1 (fun _ => []) 5 e = EGroup BOr [] /\
  solve_body C01.o0 e (pure_doc d) = Ok T /\
  solve_body C01.o0 (shake1 (fun _ => []) 5 e) (pure_doc d) = Ok M.
Proof. exact C01_shake1.shake1_exact_flat_refuted. Qed.
Check shake1_exact_flat_refuted_ord.
Example shake1_exact_flat_refuted_cmp :
  let f := [102%N] in
  let e := EBexp (EGroup BOr [EField f]) BEqual (EInt 1) in
  let d : doc := fun k => if str_eqb k f then Some (VInt 1) else None in
  wf_body e = true /\ C01.no_nested e = true /\
  shake1 (fun k => k) 5 e = EBexp (EField f) BEqual (EInt 1) /\
  solve_body C01.o0 e (pure_doc d) = Ok F /\
  solve_body C01.o0 (shake1 (fun k => k) 5 e) (pure_doc d) = Ok T.
Proof. exact C01_shake1.shake1_exact_flat_refuted_cmp. Qed.
Check shake1_exact_flat_refuted_cmp.
