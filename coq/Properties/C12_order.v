(* C12 (third statement file): since fix D22 the optimiser iterates its maps in key order.
   Model/Order.v defines that order (rust_ord); it is what the runner uses, and the optimised
   TREES of model and crate are compared structurally on every generated rule and switch set.
   Only statements here; proofs live in Proofs/C12_order.v. *)
From Coq Require Import Permutation.
From TauModel Require Import Base Num Oracles Syntax Value Yaml Pratt ParseMap Solver Rule Keys Optimiser Known Order.
From TauModel Require Scope.
From TauProofs Require C01 C12_order.

(* it is a permutation of the keys, so every theorem stated for permutation orders applies *)
Theorem rust_ord_perm : forall l, Permutation (rust_ord l) l.
Proof. exact C12_order.rust_ord_perm. Qed.
Check rust_ord_perm.
Print Assumptions rust_ord_perm.

(* the end-to-end theorem of C01 instantiated with the order the crate uses *)
Theorem crate_order_scope_sound : forall o ic sw y r (d : doc),
  C01.H_strip o ->
  load_rule o ic y = Ok r -> r_optimised r = false ->
  Scope.c01_scope sw (r_det r) = true ->
  exists r', optimise o rust_ord sw r = Ok r' /\ matches o r' d = matches o r d.
Proof. exact C12_order.crate_order_scope_sound. Qed.
Check crate_order_scope_sound.
Print Assumptions crate_order_scope_sound.

(* all sixteen switch sets (Properties/C01_matrix.v scope_all_sound at the crate's order): this is
   the statement the runner's `(th ..)` flag stands for -- for a rule and switch set it marks, the
   optimised rule returns and gives the unoptimised verdict on every document *)
Theorem crate_order_scope_all_sound : forall o ic sw y r (d : doc),
  C01.H_strip o ->
  load_rule o ic y = Ok r -> r_optimised r = false ->
  Scope.c01_scope_all o rust_ord sw (r_det r) = true ->
  exists r', optimise o rust_ord sw r = Ok r' /\ matches o r' d = matches o r d.
Proof. exact C12_order.crate_order_scope_all_sound. Qed.
Check crate_order_scope_all_sound.
Print Assumptions crate_order_scope_all_sound.
