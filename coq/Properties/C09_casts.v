(* C09 (fourth statement file): int() and flt() of a comparison operand are written twice in
   src/solver.rs (left operand, right operand).  tools/gen_tables.py checks on every run that the
   two copies of each are identical and of the recognised shape (booleans to 0 / 1, floats rounded
   and range-guarded, strings parsed, unsigned guarded, everything else false -- the arms
   Solver.cast_int / cast_flt model) and regenerates the bounds of the range guard of int() on a
   float (Model/GeneratedCasts.v).  The theorem: that guard is the model's in_i64, i.e.
   f64_to_i64 converts exactly the rounded values in [-2^63, 2^63) -- what cast_int_in_range,
   cast_int_spec and f64_round_Z_nearest are stated over.
   Only statements here; proofs live in Proofs/C09_casts.v. *)
From Coq Require Import ZArith.
From TauModel Require Import Base Num GeneratedCasts.
From TauProofs Require C09_casts.

Theorem f64_to_i64_guard : forall a,
  f64_to_i64 a = match f64_round_Z a with
                 | Some z => if ((int_cast_lo <=? z)%Z && (z <? int_cast_hi)%Z) then Some z else None
                 | None => None
                 end.
Proof. exact C09_casts.f64_to_i64_guard. Qed.
Check f64_to_i64_guard.
Print Assumptions f64_to_i64_guard.
