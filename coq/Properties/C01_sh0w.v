(* C01 (tenth statement file): since the repair D14 (shake_0 keeps the group a quantifier holds)
   the whole-rule theorem needs the weaker hypothesis sh0w only (no quantifier operand is an
   and/or chain -- a tree the loader never builds) instead of sh0 (a quantifier never holds a
   one-member group).  Model/Scope4.v c01_scope_quant_all_w is Scope2.c01_scope_quant_all_noq
   with sh0w for sh0.  Only statements here; proofs live in Proofs/C01_sh0w.v. *)
From Coq Require Import Permutation.
From TauModel Require Import Base Num Oracles Syntax Value Yaml Pratt ParseMap Solver Rule Keys Optimiser Known.
From TauModel Require Scope Scope2 Scope4 Order.
From TauProofs Require C01 C01_sh0w.

Theorem scope_quant_all_sound_w : forall o ic ord sw y r (d : doc),
  (forall l, Permutation (ord l) l) ->
  C01.H_strip o ->
  load_rule o ic y = Ok r -> r_optimised r = false ->
  Scope4.c01_scope_quant_all_w o ord sw (r_det r) = true ->
  exists r', optimise o ord sw r = Ok r' /\ matches o r' d = matches o r d.
Proof. exact C01_sh0w.scope_quant_all_sound_w. Qed.
Check scope_quant_all_sound_w.
Print Assumptions scope_quant_all_sound_w.

(* the old scope implies the new one *)
Theorem scope_quant_all_noq_weaker : forall o ord sw dt,
  Scope2.c01_scope_quant_all_noq o ord sw dt = true -> Scope4.c01_scope_quant_all_w o ord sw dt = true.
Proof. exact C01_sh0w.scope_quant_all_noq_weaker. Qed.
Check scope_quant_all_noq_weaker.
Print Assumptions scope_quant_all_noq_weaker.

(* at the crate's own map order *)
Theorem crate_order_scope_quant_all_w_sound : forall o ic sw y r (d : doc),
  C01.H_strip o ->
  load_rule o ic y = Ok r -> r_optimised r = false ->
  Scope4.c01_scope_quant_all_w o Order.rust_ord sw (r_det r) = true ->
  exists r', optimise o Order.rust_ord sw r = Ok r' /\ matches o r' d = matches o r d.
Proof. exact C01_sh0w.crate_order_scope_quant_all_w_sound. Qed.
Check crate_order_scope_quant_all_w_sound.
Print Assumptions crate_order_scope_quant_all_w_sound.
