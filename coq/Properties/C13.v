(* C13  validate() agrees with matches() on the rule's own examples.
   Only statements here; proofs live in Proofs/C13.v.  `validate` returns the indices of the
   failing examples (true positives from 0, true negatives from 1000); Ok [] is the crate's
   Ok(true), a non-empty list its validation error naming those examples. *)
From TauModel Require Import Base Num Oracles Syntax Value Yaml Solver Rule.
From TauProofs Require C13.

(* an example fails when it is not a mapping, or when matches() gives the wrong verdict *)
Definition example_fails (o : oracles) (r : rule) (want : bool) (y : yaml) : Prop :=
  match example_doc y with
  | None => True
  | Some d => matches o r d = Ok (negb want)
  end.

Definition examples_evaluate (o : oracles) (r : rule) : Prop :=
  forall y d, In y (r_tp r ++ r_tn r) -> example_doc y = Some d -> exists b, matches o r d = Ok b.

(* validate succeeds exactly when every true positive matches and no true negative does,
   with the verdicts matches() gives -- for any rule, optimised or not *)
Theorem validate_ok_iff : forall o r,
  examples_evaluate o r ->
  (validate o r = Ok [] <->
     (forall y, In y (r_tp r) -> exists d, example_doc y = Some d /\ matches o r d = Ok true) /\
     (forall y, In y (r_tn r) -> exists d, example_doc y = Some d /\ matches o r d = Ok false)).
Proof. exact C13.validate_ok_iff. Qed.
Check validate_ok_iff.
Print Assumptions validate_ok_iff.

(* otherwise it names exactly the failing examples *)
Theorem validate_names_failing : forall o r l,
  examples_evaluate o r ->
  validate o r = Ok l ->
  forall i, In i l <->
    (exists n y, i = Z.of_nat n /\ nth_error (r_tp r) n = Some y /\ example_fails o r true y) \/
    (exists n y, i = (1000 + Z.of_nat n)%Z /\ nth_error (r_tn r) n = Some y /\ example_fails o r false y).
Proof. exact C13.validate_names_failing. Qed.
Check validate_names_failing.
Print Assumptions validate_names_failing.

(* validate always returns a list when matching the examples does not panic; a malformed
   example is an error entry, not a panic (fix D2) *)
Theorem validate_no_panic : forall o r,
  examples_evaluate o r -> exists l, validate o r = Ok l.
Proof. exact C13.validate_no_panic. Qed.
Check validate_no_panic.
Print Assumptions validate_no_panic.

Theorem validate_malformed_example : forall o r y l,
  In y (r_tp r ++ r_tn r) -> example_doc y = None -> validate o r = Ok l -> l <> [].
Proof. exact C13.validate_malformed_example. Qed.
Check validate_malformed_example.
Print Assumptions validate_malformed_example.

(* non-vacuity: a rule with one good and one non-mapping example *)
Example validate_example :
  forall o,
  let r := {| r_optimised := false;
              r_det := {| d_expr := EIdent [65%N];
                          d_ids := [([65%N], ESearch (SExact [120%N]) [102%N] false)] |};
              r_tp := [YMap [(YStr [102%N], YStr [120%N])]; YInt 1];
              r_tn := [YMap [(YStr [102%N], YStr [121%N])]] |} in
  validate o r = Ok [1%Z].
Proof. exact C13.validate_example. Qed.
Check validate_example.
