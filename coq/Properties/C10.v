(* C10  Field paths resolve to exactly the addressed value.
   Only statements here; proofs live in Proofs/C10.v. *)
From TauModel Require Import Base Num Oracles Syntax Value PathSpec Solver.
From TauProofs Require C10.

(* A well-formed path resolves to exactly the value the reference descent reaches: never a
   value from another key, a shorter path or a different index, and None as soon as one
   step is absent or has the wrong shape (fix D1). *)
Theorem find_exact :
  forall (root : list (str * value)) (p : list seg),
    p <> [] -> Forall seg_ok p ->
    obj_find root (render_path p) = resolve root p.
Proof. exact C10.find_exact. Qed.
Check find_exact.
Print Assumptions find_exact.

(* a failed intermediate step makes the whole lookup fail, whatever follows *)
Theorem find_failed_step :
  forall root (p q : list seg),
    p <> [] -> Forall seg_ok p -> Forall seg_ok q ->
    resolve root p = None ->
    obj_find root (render_path (p ++ q)) = None.
Proof. exact C10.find_failed_step. Qed.
Check find_failed_step.
Print Assumptions find_failed_step.

(* dotted key = descent into the nested object: the lookups of a nested block on the inner
   object are the lookups of the dotted keys on the outer one *)
Theorem find_descend :
  forall root a kv k,
    name_ok a = true -> lookup a root = Some (VObj kv) ->
    obj_find root (a ++ [ch_dot] ++ k) = obj_find kv k.
Proof. exact C10.find_descend. Qed.
Check find_descend.
Print Assumptions find_descend.

(* a nested mapping on an object field is the body evaluated on that object ... *)
Theorem nested_on_object :
  forall o ids body f e root kv,
    obj_find root f = Some (VObj kv) ->
    solve o ids body (ENested f e) (obj_doc root) = solve o ids body e (obj_doc kv).
Proof. exact C10.nested_on_object. Qed.
Check nested_on_object.
Print Assumptions nested_on_object.

(* ... missing when the field is absent, false when it is neither object nor array *)
Theorem nested_on_missing :
  forall o ids body f e root,
    obj_find root f = None ->
    solve o ids body (ENested f e) (obj_doc root) = Ok M.
Proof. exact C10.nested_on_missing. Qed.
Check nested_on_missing.
Print Assumptions nested_on_missing.

(* ... and over an array of objects it means "some element satisfies it" (for bodies that
   are not the all()-of-group / all()-of-matrix forms, which are per-member) *)
Definition plain_nested_body (e : expr) : bool :=
  match e with
  | EMatch MAll (EGroup BOr _) | EMatch MAll (EMatrix _ _) => false
  | _ => true
  end.

Theorem nested_array_exists :
  forall o ids body f e root a,
    plain_nested_body e = true ->
    obj_find root f = Some (VArr a) ->
    (forall kv, In (VObj kv) a -> exists r, solve o ids body e (obj_doc kv) = Ok r) ->
    (solve o ids body (ENested f e) (obj_doc root) = Ok T <->
       exists kv, In (VObj kv) a /\ solve o ids body e (obj_doc kv) = Ok T) /\
    (solve o ids body (ENested f e) (obj_doc root) = Ok T \/
     solve o ids body (ENested f e) (obj_doc root) = Ok F).
Proof. exact C10.nested_array_exists. Qed.
Check nested_array_exists.
Print Assumptions nested_array_exists.

(* non-vacuity: a concrete path with an index through two objects *)
Example find_exact_example :
  let root := [([97%N], VObj [([98%N], VArr [VInt 1; VObj [([99%N], VStr [120%N])]])])] in
  let p := [([97%N], None); ([98%N], Some 1%N); ([99%N], None)] in
  p <> [] /\ Forall seg_ok p /\ obj_find root (render_path p) = Some (VStr [120%N]).
Proof. exact C10.find_exact_example. Qed.
Check find_exact_example.
