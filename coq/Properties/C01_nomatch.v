(* C01 (eleventh statement file): since the repair D15/D20 the matrix pass without coalesce needs
   no exclusion for conditions that hold quantifiers (all(A) / of(A, n) over identifiers that are
   not inlined): Model/Scope5.v c01_scope_quant_all_nm is Scope2.c01_scope_quant_all_noq without
   the conjunct `sw_coalesce sw || no_match (fst pm)`.  Only statements here; proofs live in
   Proofs/C01_nomatch.v. *)
From Coq Require Import Permutation.
From TauModel Require Import Base Num Oracles Syntax Value Yaml Pratt ParseMap Solver Rule Keys Optimiser Known.
From TauModel Require Scope Scope2 Scope5 Order.
From TauProofs Require C01 C01_nomatch.

Theorem scope_quant_all_sound_nm : forall o ic ord sw y r (d : doc),
  (forall l, Permutation (ord l) l) ->
  C01.H_strip o ->
  load_rule o ic y = Ok r -> r_optimised r = false ->
  Scope5.c01_scope_quant_all_nm o ord sw (r_det r) = true ->
  exists r', optimise o ord sw r = Ok r' /\ matches o r' d = matches o r d.
Proof. exact C01_nomatch.scope_quant_all_sound_nm. Qed.
Check scope_quant_all_sound_nm.
Print Assumptions scope_quant_all_sound_nm.

(* the old scope implies the new one *)
Theorem scope_quant_all_noq_weaker_nm : forall o ord sw dt,
  Scope2.c01_scope_quant_all_noq o ord sw dt = true -> Scope5.c01_scope_quant_all_nm o ord sw dt = true.
Proof. exact C01_nomatch.scope_quant_all_noq_weaker_nm. Qed.
Check scope_quant_all_noq_weaker_nm.
Print Assumptions scope_quant_all_noq_weaker_nm.

(* at the crate's own map order *)
Theorem crate_order_scope_quant_all_nm_sound : forall o ic sw y r (d : doc),
  C01.H_strip o ->
  load_rule o ic y = Ok r -> r_optimised r = false ->
  Scope5.c01_scope_quant_all_nm o Order.rust_ord sw (r_det r) = true ->
  exists r', optimise o Order.rust_ord sw r = Ok r' /\ matches o r' d = matches o r d.
Proof. exact C01_nomatch.crate_order_scope_quant_all_nm_sound. Qed.
Check crate_order_scope_quant_all_nm_sound.
Print Assumptions crate_order_scope_quant_all_nm_sound.
