(* C13 (second statement file): "all of this holds equally for optimised rules".  Inside the
   executable scope of the end-to-end C01 theorem (Model/Scope.v, all sixteen switch sets), for
   every loadable rule, validate() of the optimised rule returns exactly what validate() of the
   rule as loaded returns -- the same success, the same named examples.  Only statements here;
   proofs live in Proofs/C13_opt.v. *)
From Coq Require Import Permutation.
From TauModel Require Import Base Num Oracles Syntax Value Yaml Pratt ParseMap Solver Rule Keys Optimiser Known.
From TauModel Require Scope.
From TauProofs Require C01 C13_opt.

(* validate depends on the rule only through matches() and the example lists *)
Theorem validate_ext : forall o r1 r2,
  (forall d, matches o r1 d = matches o r2 d) ->
  r_tp r1 = r_tp r2 -> r_tn r1 = r_tn r2 ->
  validate o r1 = validate o r2.
Proof. exact C13_opt.validate_ext. Qed.
Check validate_ext.
Print Assumptions validate_ext.

Theorem validate_optimised_in_scope : forall o ic ord sw y r,
  (forall l, Permutation (ord l) l) ->
  C01.H_strip o ->
  load_rule o ic y = Ok r -> r_optimised r = false ->
  Scope.c01_scope_all o ord sw (r_det r) = true ->
  exists r', optimise o ord sw r = Ok r' /\ validate o r' = validate o r.
Proof. exact C13_opt.validate_optimised_in_scope. Qed.
Check validate_optimised_in_scope.
Print Assumptions validate_optimised_in_scope.
