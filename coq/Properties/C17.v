(* C17  Order of operands never decides whether and/or is true.
   Only statements here; proofs live in Proofs/C17.v. *)
From Coq Require Import Permutation.
From TauModel Require Import Base Num Oracles Syntax Value Yaml Solver ParseMap Rule.
From TauProofs Require C17.

Definition lz (rs : list res3) : list lazy3 := map (fun r (_ : unit) => Ok r) rs.

(* or is fully commutative, three-valued *)
Theorem or_perm : forall rs rs', Permutation rs rs' -> or_fold M (lz rs) = or_fold M (lz rs').
Proof. exact C17.or_perm. Qed.
Check or_perm.
Print Assumptions or_perm.

(* and: reordering never changes whether the conjunction is true *)
Theorem and_perm_truth : forall rs rs', Permutation rs rs' ->
  (and_fold (lz rs) = Ok T <-> and_fold (lz rs') = Ok T).
Proof. exact C17.and_perm_truth. Qed.
Check and_perm_truth.
Print Assumptions and_perm_truth.

(* the counting quantifiers only count: permutation-invariant, three-valued *)
Theorem of_perm : forall c rs rs', Permutation rs rs' -> of_fold c (lz rs) = of_fold c (lz rs').
Proof. exact C17.of_perm. Qed.
Check of_perm.
Print Assumptions of_perm.

(* two-operand forms *)
Theorem binary_comm : forall a b,
  or2 (fun _ => Ok a) (fun _ => Ok b) = or2 (fun _ => Ok b) (fun _ => Ok a) /\
  (and2 (fun _ => Ok a) (fun _ => Ok b) = Ok T <-> and2 (fun _ => Ok b) (fun _ => Ok a) = Ok T).
Proof. exact C17.binary_comm. Qed.
Check binary_comm.
Print Assumptions binary_comm.

(* groups of expressions: members of a list, entries of a sequence of mappings (or-groups),
   entries of a mapping (and-groups), provided the members evaluate (no panic) *)
Definition evaluates (o : oracles) ids body (g : list expr) (d : docq) : Prop :=
  forall x, In x g -> exists r, solve o ids body x d = Ok r.

Theorem group_or_perm : forall o ids body g g' d,
  Permutation g g' -> evaluates o ids body g d ->
  solve o ids body (EGroup BOr g) d = solve o ids body (EGroup BOr g') d.
Proof. exact C17.group_or_perm. Qed.
Check group_or_perm.
Print Assumptions group_or_perm.

Theorem group_and_perm_truth : forall o ids body g g' d,
  Permutation g g' -> evaluates o ids body g d ->
  (solve o ids body (EGroup BAnd g) d = Ok T <-> solve o ids body (EGroup BAnd g') d = Ok T).
Proof. exact C17.group_and_perm_truth. Qed.
Check group_and_perm_truth.
Print Assumptions group_and_perm_truth.

(* positions that are not under a negation or a none-of quantifier are monotone: replacing
   an operand by one that is true whenever the original is keeps a true result true.
   Together with the lemmas above: reordering inside such a position never changes the
   verdict of the whole rule. *)
Inductive pos_ctx : Type :=
| PHole
| PGroup (s : boolsym) (before : list expr) (c : pos_ctx) (after : list expr)
| PBexpL (c : pos_ctx) (s : boolsym) (r : expr)
| PBexpR (l : expr) (s : boolsym) (c : pos_ctx).

Fixpoint plug (c : pos_ctx) (x : expr) : expr :=
  match c with
  | PHole => x
  | PGroup s before c' after => EGroup s (before ++ plug c' x :: after)
  | PBexpL c' s r => EBexp (plug c' x) s r
  | PBexpR l s c' => EBexp l s (plug c' x)
  end.

Definition and_or (s : boolsym) : bool := match s with BAnd | BOr => true | _ => false end.

Fixpoint ctx_ok (c : pos_ctx) : bool :=
  match c with
  | PHole => true
  | PGroup s _ c' _ => and_or s && ctx_ok c'
  | PBexpL c' s _ | PBexpR _ s c' => and_or s && ctx_ok c'
  end.

(* the other operands met on the way down *)
Fixpoint ctx_siblings (c : pos_ctx) : list expr :=
  match c with
  | PHole => []
  | PGroup _ before c' after => before ++ after ++ ctx_siblings c'
  | PBexpL c' _ r => r :: ctx_siblings c'
  | PBexpR l _ c' => l :: ctx_siblings c'
  end.

Theorem positive_context_truth : forall o ids body c x x' d,
  ctx_ok c = true ->
  (solve o ids body x d = Ok T <-> solve o ids body x' d = Ok T) ->
  (exists r, solve o ids body x d = Ok r) -> (exists r, solve o ids body x' d = Ok r) ->
  (forall y, In y (ctx_siblings c) -> exists r, solve o ids body y d = Ok r) ->
  (solve o ids body (plug c x) d = Ok T <-> solve o ids body (plug c x') d = Ok T).
Proof.
  exact (C17.positive_context_truth_gen pos_ctx PHole PGroup PBexpL PBexpR pos_ctx_ind
           plug ctx_ok ctx_siblings
           (fun _ => eq_refl) (fun _ _ _ _ _ => eq_refl) (fun _ _ _ _ => eq_refl)
           (fun _ _ _ _ => eq_refl)
           eq_refl (fun _ _ _ _ => eq_refl) (fun _ _ _ => eq_refl) (fun _ _ _ => eq_refl)
           eq_refl (fun _ _ _ _ => eq_refl) (fun _ _ _ => eq_refl) (fun _ _ _ => eq_refl)).
Qed.
Check positive_context_truth.
Print Assumptions positive_context_truth.

(* non-vacuity *)
Example perm_example :
  or_fold M (lz [M; F; T]) = or_fold M (lz [T; M; F]) /\
  and_fold (lz [T; M]) = Ok M /\ and_fold (lz [M; T]) = Ok M /\
  and_fold (lz [F; M]) = Ok F /\ and_fold (lz [M; F]) = Ok M.
Proof. exact C17.perm_example. Qed.
Check perm_example.
