(* C01 (thirteenth statement file): how far the executable scope of the end-to-end theorem is
   COMPLETE for loadable rules outside the three listed classes D13 (a negation whose operand
   shakes to a negation), D16 (and-group with a nested block under a negation) and D17 (multi-cell
   matrix row under a negation).

   - The static conjuncts of the scope hold for EVERY rule the loader accepts (loaded_sh0w,
     loaded_shx, loaded_cmp_reads), no_dneg outside D13 (no_dneg_of_not_d13).
   - For rules whose staged trees hold no nested block the scope is complete
     (scope_complete_flat); with the soundness theorem (Properties/C01_final.v) this is the
     property itself outside the known findings: outside_classes_flat_sound.
   - With nested blocks the scope is complete up to its two conjuncts that follow the run of
     shake_1 (dyn_run, dyn_match: executable; scope_complete_dyn, converse scope_dyn), hence
     outside_classes_sound.  The statement without them is proved in Properties/C01_outside.v
     (scope_complete, outside_listed_classes_sound).
   Only statements here; proofs live in Proofs/C01_complete.v. *)
From Coq Require Import Permutation.
From TauModel Require Import Base Num Oracles Syntax Value Yaml Pratt ParseMap Solver Rule Keys Optimiser Known.
From TauModel Require Scope Scope2 Scope4 Scope5 Scope6 Order.
From TauProofs Require C01 C01_complete.

Theorem loaded_sh0w : forall o ic y r sw, load_rule o ic y = Ok r ->
  forallb Scope4.sh0w (all_trees (staged sw (r_det r))) = true.
Proof. exact C01_complete.loaded_sh0w. Qed.
Check loaded_sh0w.
Print Assumptions loaded_sh0w.

Theorem loaded_shx : forall o ic y r sw, load_rule o ic y = Ok r ->
  forallb Scope.shx (all_trees (staged sw (r_det r))) = true.
Proof. exact C01_complete.loaded_shx. Qed.
Check loaded_shx.
Print Assumptions loaded_shx.

Theorem loaded_cmp_reads : forall o ic ord sw y r, load_rule o ic y = Ok r ->
  forallb Scope.cmp_reads (all_trees (pre_matrix o ord sw (r_det r))) = true.
Proof. exact C01_complete.loaded_cmp_reads. Qed.
Check loaded_cmp_reads.
Print Assumptions loaded_cmp_reads.

Theorem no_dneg_of_not_d13 : forall o ic y r sw, load_rule o ic y = Ok r ->
  sw_shake sw = true -> known_d13 sw (r_det r) = false ->
  forallb Scope.no_dneg (all_trees (staged sw (r_det r))) = true.
Proof. exact C01_complete.no_dneg_of_not_d13. Qed.
Check no_dneg_of_not_d13.
Print Assumptions no_dneg_of_not_d13.

(* the two conjuncts of the scope that follow the run of shake_1 *)
Definition dyn_run (ord : hord) (sw : switches) (dt : detection) : bool :=
  negb (sw_shake sw) || Scope2.run_safe ord (Scope.sw_without_matrix sw) dt.
Definition dyn_match (o : oracles) (ord : hord) (sw : switches) (dt : detection) : bool :=
  let pm := pre_matrix o ord sw dt in
  negb (sw_matrix sw) ||
  (Scope2.match_safe ord false (shake_fuel (fst pm)) (fst pm) &&
   forallb (fun b : str * expr =>
              forallb (fun m => Scope2.match_safe ord (body_neg pm) (shake_fuel m) m) (Scope2.entry_trees (snd b)))
           (snd pm)).

Theorem scope_complete_dyn : forall o ic ord sw y r,
  load_rule o ic y = Ok r ->
  known_d13 sw (r_det r) = false ->
  known_d16 ord sw (r_det r) = false ->
  known_d17 o ord sw (r_det r) = false ->
  dyn_run ord sw (r_det r) = true ->
  dyn_match o ord sw (r_det r) = true ->
  Scope6.c01_scope_quant_all_f o ord sw (r_det r) = true.
Proof. exact C01_complete.scope_complete_alt2. Qed.
Check scope_complete_dyn.
Print Assumptions scope_complete_dyn.

Theorem scope_dyn : forall o ord sw dt,
  Scope6.c01_scope_quant_all_f o ord sw dt = true ->
  dyn_run ord sw dt = true /\ dyn_match o ord sw dt = true.
Proof. exact C01_complete.scope_dyn_two. Qed.
Check scope_dyn.
Print Assumptions scope_dyn.

(* rules without nested blocks: complete as asked *)
Theorem scope_complete_flat : forall o ic ord sw y r,
  load_rule o ic y = Ok r ->
  forallb Scope.no_nested (all_trees (staged sw (r_det r))) = true ->
  known_d13 sw (r_det r) = false ->
  known_d16 ord sw (r_det r) = false ->
  known_d17 o ord sw (r_det r) = false ->
  Scope6.c01_scope_quant_all_f o ord sw (r_det r) = true.
Proof. exact C01_complete.scope_complete_flat. Qed.
Check scope_complete_flat.
Print Assumptions scope_complete_flat.

(* ... and with the soundness theorem: C01 itself outside the listed classes *)
Theorem outside_classes_flat_sound : forall o ic ord sw y r (d : doc),
  (forall l, Permutation (ord l) l) ->
  C01.H_strip o ->
  load_rule o ic y = Ok r -> r_optimised r = false ->
  forallb Scope.no_nested (all_trees (staged sw (r_det r))) = true ->
  known_d13 sw (r_det r) = false ->
  known_d16 ord sw (r_det r) = false ->
  known_d17 o ord sw (r_det r) = false ->
  exists r', optimise o ord sw r = Ok r' /\ matches o r' d = matches o r d.
Proof. exact C01_complete.outside_classes_flat_sound. Qed.
Check outside_classes_flat_sound.
Print Assumptions outside_classes_flat_sound.

Theorem outside_classes_sound : forall o ic ord sw y r (d : doc),
  (forall l, Permutation (ord l) l) ->
  C01.H_strip o ->
  load_rule o ic y = Ok r -> r_optimised r = false ->
  known_d13 sw (r_det r) = false ->
  known_d16 ord sw (r_det r) = false ->
  known_d17 o ord sw (r_det r) = false ->
  dyn_run ord sw (r_det r) = true ->
  dyn_match o ord sw (r_det r) = true ->
  exists r', optimise o ord sw r = Ok r' /\ matches o r' d = matches o r d.
Proof. exact C01_complete.outside_classes_sound. Qed.
Check outside_classes_sound.
Print Assumptions outside_classes_sound.
