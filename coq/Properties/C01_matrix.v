(* C01 (fourth statement file): the matrix pass on nested-free trees.  Only statements here;
   proofs live in Proofs/C01_matrix.v.

   `matrix` re-encodes an or-group whose members share fields as a table (columns = fields,
   one row per member; and-group members become multi-cell rows) that the solver evaluates
   against a per-evaluation cache.  Claims, for every document and every hash order that is a
   permutation:
     - outside D18/D19 and when no row has two or more cells (the D17 shape), the result is
       EXACT (three-valued);
     - outside D18/D19 and when multi-cell rows occur only in positive positions, TRUTH is
       preserved (true iff true) -- false and missing may be exchanged, which nothing above
       a positive position can observe;
     - whole rules: with the executable scope Scope.c01_scope_all the verdict of the optimised
       rule equals the verdict of the unoptimised rule for ALL SIXTEEN switch sets.
   The first two claims carry the executable hypothesis Scope.cmp_reads: every comparison with a
   constant on the right reads its left field (no str() / not() cast on the left, `str(f) == null`
   excepted since fix D27).  Their first versions lacked it and were refuted by the proof
   attempt: such a comparison is false without reading the field, but missing as a matrix cell
   when the field is absent; the counterexamples are kept below (matrix_exact_flat_refuted,
   matrix_truth_flat_refuted).  Before fix D27 the loader's `str(f): [null, null]` under `not`
   refuted the third claim as well; Scope.matrix_input_ok now asks cmp_reads of the trees handed
   to matrix (and, when identifiers are not inlined, that the condition holds no quantifier). *)
From Coq Require Import Permutation.
From TauModel Require Import Base Num Oracles Syntax Value Yaml Pratt ParseMap Solver Rule Keys Optimiser Known.
From TauModel Require Scope.
From TauProofs Require C01 C01_matrix.

(* no or-group anywhere whose matrix would have a multi-cell row *)
Definition no_multi_cell (ord : hord) (e : expr) : bool :=
  negb (exists_sub (fun _ x => d17_here ord true x) false e).

Theorem matrix_exact_flat : forall o ord fuel e e' (d : doc),
  (forall l, Permutation (ord l) l) ->
  wf_body e = true -> C01.no_nested e = true -> C01.cmp_leaves e = true ->
  Scope.cmp_reads e = true ->
  no_multi_cell ord e = true ->
  exists_sub (d18_here ord) false e = false ->
  matrix ord fuel e = Ok e' ->
  solve_body o e' (pure_doc d) = solve_body o e (pure_doc d).
Proof. exact C01_matrix.matrix_exact_flat_alt. Qed.
Check matrix_exact_flat.
Print Assumptions matrix_exact_flat.

Theorem matrix_truth_flat : forall o ord fuel e e' (d : doc),
  (forall l, Permutation (ord l) l) ->
  wf_body e = true -> C01.no_nested e = true -> C01.cmp_leaves e = true ->
  Scope.cmp_reads e = true ->
  exists_sub (d17_here ord) false e = false ->
  exists_sub (d18_here ord) false e = false ->
  matrix ord fuel e = Ok e' ->
  (solve_body o e' (pure_doc d) = Ok T <-> solve_body o e (pure_doc d) = Ok T).
Proof. exact C01_matrix.matrix_truth_flat_alt. Qed.
Check matrix_truth_flat.
Print Assumptions matrix_truth_flat.

(* whole rules, all sixteen switch sets *)
Theorem scope_all_sound : forall o ic ord sw y r (d : doc),
  (forall l, Permutation (ord l) l) ->
  C01.H_strip o ->
  load_rule o ic y = Ok r -> r_optimised r = false ->
  Scope.c01_scope_all o ord sw (r_det r) = true ->
  exists r', optimise o ord sw r = Ok r' /\ matches o r' d = matches o r d.
Proof. exact C01_matrix.scope_all_sound. Qed.
Check scope_all_sound.
Print Assumptions scope_all_sound.

(* the two conjuncts of Scope.matrix_input_ok that were added for this theorem (cmp_reads of the
   trees handed to matrix; no quantifier in the condition when identifiers are not inlined) hold
   of every loaded rule inside the rest of the scope: they never put a rule out of the scope *)
Theorem matrix_input_extra_loaded : forall o ic ord sw y r,
  load_rule o ic y = Ok r ->
  Scope.c01_scope (Scope.sw_without_matrix sw) (r_det r) = true ->
  Scope.no_quant_ident (d_expr (r_det r)) = true ->
  forallb Scope.cmp_reads (all_trees (pre_matrix o ord sw (r_det r))) = true /\
  sw_coalesce sw || Scope.no_match (fst (pre_matrix o ord sw (r_det r))) = true.
Proof. exact C01_matrix.matrix_input_extra_loaded. Qed.
Check matrix_input_extra_loaded.
Print Assumptions matrix_input_extra_loaded.

(* non-vacuity: an or-group of two and-groups over the fields f and g becomes a 2 x 2 table *)
Example matrix_flat_example :
  let f := [102%N] in let g := [103%N] in
  let row a b := EGroup BAnd [ESearch (SExact [a]) f false; ESearch (SExact [b]) g false] in
  let e := EGroup BOr [row 97%N 98%N; row 99%N 100%N] in
  wf_body e = true /\ C01.no_nested e = true /\
  exists_sub (d17_here (fun k => k)) false e = false /\
  exists_sub (d18_here (fun k => k)) false e = false /\
  exists cols rows, matrix (fun k => k) 10 e = Ok (EMatrix cols rows) /\ length cols = 2%nat /\ length rows = 2%nat.
Proof. exact C01_matrix.matrix_flat_example. Qed.
Check matrix_flat_example.

(* the counterexamples to the first versions of the first two statements (without cmp_reads):
   a str() cast compared with a constant, on a document without the field; the hash order is the
   identity *)
Example matrix_exact_flat_refuted :
  let f := [102%N] in
  let e := EGroup BOr [EBexp (ECast f MStr) BEqual (EInt 1); EBexp (ECast f MStr) BEqual (EInt 2)] in
  let d : doc := fun _ => None in
  wf_body e = true /\ C01.no_nested e = true /\ C01.cmp_leaves e = true /\
  no_multi_cell (fun k => k) e = true /\ exists_sub (d18_here (fun k => k)) false e = false /\
  exists e', matrix (fun k => k) 10 e = Ok e' /\
             solve_body C01.o0 e' (pure_doc d) = Ok M /\ solve_body C01.o0 e (pure_doc d) = Ok F.
Proof. exact C01_matrix.matrix_exact_flat_refuted. Qed.
Check matrix_exact_flat_refuted.
Example matrix_truth_flat_refuted :
  let f := [102%N] in
  let e := ENegate (EGroup BOr [EBexp (ECast f MStr) BEqual (EInt 1); EBexp (ECast f MStr) BEqual (EInt 2)]) in
  let d : doc := fun _ => None in
  wf_body e = true /\ C01.no_nested e = true /\ C01.cmp_leaves e = true /\
  exists_sub (d17_here (fun k => k)) false e = false /\ exists_sub (d18_here (fun k => k)) false e = false /\
  exists e', matrix (fun k => k) 10 e = Ok e' /\
             solve_body C01.o0 e' (pure_doc d) = Ok F /\ solve_body C01.o0 e (pure_doc d) = Ok T.
Proof. exact C01_matrix.matrix_truth_flat_refuted. Qed.
Check matrix_truth_flat_refuted.
