(* C02 (statement file): which values a string predicate looks at.  src/solver.rs dispatches on
   (value kind, str() cast) in five places -- the Search arm of solve_expression and the four copies
   in match_all / match_of.  tools/gen_tables.py regenerates all five on every run
   (Model/GeneratedCast.v: arms in source order, and the element kinds of an array that are turned
   into text under the cast) and the theorem says that EVERY copy is the dispatch of the model:
   strings and arrays always, booleans and numbers only under the cast, everything else (null,
   objects) never -- the predicate is then missing (Solver.search_value, value_to_string).
   Only statements here; proofs live in Proofs/C02_cast.v. *)
From Coq Require Import List.
From TauModel Require Import Base Num Oracles Syntax Value Solver CastTable GeneratedCast.
From TauProofs Require C02_cast.

Theorem every_copy_is_search_value : forall d, In d str_dispatches ->
  (forall o p cast v, reaches_arm d v cast = match search_value o p cast v with Some _ => true | None => false end) /\
  (forall o v, match v with VStr _ => true | _ => element_stringified d v end =
               match value_to_string o v with Some _ => true | None => false end).
Proof. exact C02_cast.every_copy_is_search_value. Qed.
Check every_copy_is_search_value.
Print Assumptions every_copy_is_search_value.

Theorem five_copies : length str_dispatches = 5.
Proof. exact C02_cast.five_copies. Qed.
Check five_copies.
Print Assumptions five_copies.
