(* C08  List quantifiers count the members the author wrote.
   Only statements here; proofs live in Proofs/C08.v. *)
From TauModel Require Import Base Num Oracles Syntax Value Yaml Ident ParseMap Solver Rule PatSpec Optimiser Known.
From TauProofs Require C08.

Definition lz (rs : list res3) : list lazy3 := map (fun r (_ : unit) => Ok r) rs.

(* the table a quantifier denotes over the results of the members as written *)
Definition quant_table (m : matchk) (rs : list res3) : out res3 :=
  match m with
  | MAll => and_fold (lz rs)
  | MOf c => of_fold c (lz rs)
  end.

Definition quant_key (m : matchk) (f : str) : keyinfo :=
  {| k_e := EMatch m (EField f); k_f := f; k_misc := None |}.

(* each member on its own, on a document string *)
Definition member_results (o : oracles) (ic : bool) (ss : list str) (h : str) : list res3 :=
  map (fun s => if documented o ic s h then T else F) ss.

Definition threshold_ok (m : matchk) : Prop :=
  match m with MAll => True | MOf c => (0 <= c)%Z end.

(* all(k) / of(k, n) over a list of string patterns, on a string field: the result is the
   quantifier's table over the members AS WRITTEN -- whatever the list length (one
   included), the pattern kinds and the way the parser batches them -- outside the known
   class D10/D11 (two or more batches one of which holds several members) *)
Theorem quantified_list_exact : forall o ic m f ss a e ids body d h,
  threshold_ok m ->
  (forall s, In s ss -> is_string_predicate o ic s = true) ->
  seq_members o ic (quant_key m f) (EField f) acc0 (map YStr ss) (map (fun _ => None) ss) = Ok a ->
  finish_seq (quant_key m f) a = Ok e ->
  exists_sub d10_here false e = false ->
  d f = Ok (Some (VStr h)) ->
  solve o ids body e d = quant_table m (member_results o ic ss h).
Proof. exact C08.quantified_list_exact. Qed.
Check quantified_list_exact.
Print Assumptions quantified_list_exact.

(* on an absent field every member is missing and so is the quantified list *)
Theorem quantified_list_missing : forall o ic m f ss a e ids body d,
  (forall s, In s ss -> is_string_predicate o ic s = true) ->
  seq_members o ic (quant_key m f) (EField f) acc0 (map YStr ss) (map (fun _ => None) ss) = Ok a ->
  finish_seq (quant_key m f) a = Ok e ->
  d f = Ok None ->
  solve o ids body e d = Ok M.
Proof. exact C08.quantified_list_missing. Qed.
Check quantified_list_missing.
Print Assumptions quantified_list_missing.

(* a plain list means "some member matches": the of(.., 1) table, three-valued on a string *)
Theorem plain_list_is_of_one : forall o ic f ss a e ids body d h,
  (forall s, In s ss -> is_string_predicate o ic s = true) ->
  seq_members o ic {| k_e := EField f; k_f := f; k_misc := None |} (EField f) acc0
              (map YStr ss) (map (fun _ => None) ss) = Ok a ->
  finish_seq {| k_e := EField f; k_f := f; k_misc := None |} a = Ok e ->
  d f = Ok (Some (VStr h)) ->
  solve o ids body e d = quant_table (MOf 1) (member_results o ic ss h).
Proof. exact C08.plain_list_is_of_one. Qed.
Check plain_list_is_of_one.
Print Assumptions plain_list_is_of_one.

(* all(X) / of(X, n) in the condition count the entries of identifier X (the members of its
   body) with the same tables *)
Theorem quantified_identifier_exact : forall o ids i op g m d,
  lookup i ids = Some (EGroup op g) ->
  solve_cond o ids (EMatch m (EIdent i)) d =
  match m with
  | MAll => and_fold (map (fun x (_ : unit) => solve_body o x d) g)
  | MOf c => of_fold c (map (fun x (_ : unit) => solve_body o x d) g)
  end.
Proof. exact C08.quantified_identifier_exact. Qed.
Check quantified_identifier_exact.
Print Assumptions quantified_identifier_exact.

(* the known class is real: all(foo): ['a*', '*b', '?c'] on foo: axxc (D10) and
   of(foo, 2): ['a*', '*b', '?zz'] on foo: ab (D11), with a literal-substring regex oracle *)
Definition o_sub : oracles :=
  {| re_valid := fun _ _ => true; re_match := fun p _ h => is_infix p h; f64_parse := fun _ => None;
     f64_show := fun _ => []; uni_alnum := fun _ => false; uni_num := fun _ => false |}.

Example refuted_D10 :
  let ss := [[97; 42]; [42; 98]; [63; 99]]%N in
  let h := [97; 120; 120; 99]%N in
  exists a e,
    seq_members o_sub false (quant_key MAll [102%N]) (EField [102%N]) acc0 (map YStr ss) (map (fun _ => None) ss) = Ok a /\
    finish_seq (quant_key MAll [102%N]) a = Ok e /\
    exists_sub d10_here false e = true /\
    solve_body o_sub e (pure_doc (fun _ => Some (VStr h))) = Ok T /\
    quant_table MAll (member_results o_sub false ss h) = Ok F.
Proof. exact C08.refuted_D10. Qed.
Check refuted_D10.

Example refuted_D11 :
  let ss := [[97; 42]; [42; 98]; [63; 122; 122]]%N in
  let h := [97; 98]%N in
  exists a e,
    seq_members o_sub false (quant_key (MOf 2) [102%N]) (EField [102%N]) acc0 (map YStr ss) (map (fun _ => None) ss) = Ok a /\
    finish_seq (quant_key (MOf 2) [102%N]) a = Ok e /\
    exists_sub d10_here false e = true /\
    solve_body o_sub e (pure_doc (fun _ => Some (VStr h))) = Ok F /\
    quant_table (MOf 2) (member_results o_sub false ss h) = Ok T.
Proof. exact C08.refuted_D11. Qed.
Check refuted_D11.

(* non-vacuity of the positive theorem: a three-member list that forms one batch *)
Example one_batch_example :
  let ss := [[42; 97; 42]; [42; 98; 42]; [99; 42]]%N in
  exists a e,
    seq_members o_sub false (quant_key (MOf 2) [102%N]) (EField [102%N]) acc0 (map YStr ss) (map (fun _ => None) ss) = Ok a /\
    finish_seq (quant_key (MOf 2) [102%N]) a = Ok e /\ exists_sub d10_here false e = false.
Proof. exact C08.one_batch_example. Qed.
Check one_batch_example.
