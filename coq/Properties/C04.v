(* C04  Loading arbitrary text returns a rule or an error, never a panic.
   Only statements here; proofs live in Proofs/C04.v (and Proofs/C05.v for the parser).
   In the model every slice, index, expect() and unreachable!() of the modelled code is a
   `Panic site` value and both recursive layers run on fuel whose exhaustion is `Panic 0`,
   so "never panics, never loops" is a statement, not a convention. *)
From TauModel Require Import Base Num Oracles Syntax Generated Token Pratt Ident Yaml ParseMap Rule.
From TauProofs Require C04.

(* the tokeniser: total on every string, with every oracle, and its fuel always suffices *)
Theorem tokenise_total : forall o s site, tokenise o s <> Panic site.
Proof. exact C04.tokenise_total. Qed.
Check tokenise_total.
Print Assumptions tokenise_total.

Theorem lex_fuel_irrelevant : forall o s n, (length s < n)%nat -> lex o n s = tokenise o s.
Proof. exact C04.lex_fuel_irrelevant. Qed.
Check lex_fuel_irrelevant.
Print Assumptions lex_fuel_irrelevant.

(* every step of the tokeniser consumes input: the loop cannot spin *)
Theorem lex_step_progress : forall o x s t rest,
  lex_step o x (x :: s) = Ok (t, rest) -> (length rest < length (x :: s))%nat.
Proof. exact C04.lex_step_progress. Qed.
Check lex_step_progress.
Print Assumptions lex_step_progress.

(* the Pratt parser: total on every token list *)
Theorem parse_total : forall ts site, parse ts <> Panic site.
Proof. exact C04.parse_total. Qed.
Check parse_total.
Print Assumptions parse_total.

(* identifier patterns: total on every string, in both builds (fix D5: the quoted form is
   only sliced when it has two characters) *)
Theorem into_identifier_total : forall o ic s site, into_identifier o ic s <> Panic site.
Proof. exact C04.into_identifier_total. Qed.
Check into_identifier_total.
Print Assumptions into_identifier_total.

(* mapping keys *)
Theorem parse_key_total : forall o k v site, parse_key o k v <> Panic site.
Proof. exact C04.parse_key_total. Qed.
Check parse_key_total.
Print Assumptions parse_key_total.

(* identifier blocks of every YAML shape and depth *)
Theorem parse_identifier_total : forall o ic y site, parse_identifier o ic y <> Panic site.
Proof. exact C04.parse_identifier_total. Qed.
Check parse_identifier_total.
Print Assumptions parse_identifier_total.

(* whole rules *)
Theorem load_rule_total : forall o ic y site, load_rule o ic y <> Panic site.
Proof. exact C04.load_rule_total. Qed.
Check load_rule_total.
Print Assumptions load_rule_total.

(* non-vacuity: the inputs that used to panic are now an ordinary pattern *)
Example lone_quote_example :
  forall o, into_identifier o false [34%N] = Ok {| id_ci := false; id_pat := PExact [34%N] |} /\
            into_identifier o false [105%N; 39%N] = Ok {| id_ci := true; id_pat := PExact [39%N] |}.
Proof. exact C04.lone_quote_example. Qed.
Check lone_quote_example.
