(* C03 (third statement file): the matrix pass.  Only statements here; proofs live in
   Proofs/C03_matrix.v.  `ord` stands for the hash map's iteration order; the statements need
   only that it does not invent entries (a permutation satisfies this). *)
From TauModel Require Import Base Num Oracles Syntax Value Yaml ParseMap Solver Rule Keys Optimiser Known.
From TauProofs Require C03_matrix.

(* all sixteen switch sets: optimise returns, outside D21 *)
Theorem optimise_total : forall o ic ord sw y r,
  (forall ks, (length (ord ks) <= length ks)%nat) ->
  load_rule o ic y = Ok r -> known_d21 o ord sw (r_det r) = false ->
  exists r', optimise o ord sw r = Ok r'.
Proof. exact C03_matrix.optimise_total. Qed.
Check optimise_total.
Print Assumptions optimise_total.

(* and the optimised rule evaluates, outside D18/D19 *)
Theorem optimised_evaluates : forall o ic ord sw y r r' (d : doc),
  (forall ks, (length (ord ks) <= length ks)%nat) ->
  load_rule o ic y = Ok r ->
  known_d18 o ord sw (r_det r) = false -> known_d21 o ord sw (r_det r) = false ->
  optimise o ord sw r = Ok r' ->
  exists b, matches o r' d = Ok b.
Proof. exact C03_matrix.optimised_evaluates. Qed.
Check optimised_evaluates.
Print Assumptions optimised_evaluates.
